//! Parser families (need `alloc`): tzfooter / tzif / tzifgen / tzifbad / resolve, and the TZif writer.

use crate::common::*;
use crate::zones::{mk_raw_rule, mk_zone, Built, ZoneOpts};
use std::io::Write;
use tz::timezone::{LocalTimeType, RuleDay, TimeZoneSettings, TransitionRule};
use tz::TimeZone;

pub fn zone_text(z: &TimeZone) -> String {
    let r = z.as_ref();
    let raw = RawZone {
        transitions: r.transitions().iter().map(|t| (t.unix_leap_time(), t.local_time_type_index())).collect(),
        types: r.local_time_types().to_vec(),
        leaps: r.leap_seconds().iter().map(|l| (l.unix_leap_time(), l.correction())).collect(),
        rule: *r.extra_rule(),
    };
    raw.text()
}

pub fn minimal_block(v: u8) -> Vec<u8> {
    let mut b = b"TZif".to_vec();
    b.push(v);
    b.extend_from_slice(&[0u8; 15]);
    for c in [0u32, 0, 0, 0, 1, 4] {
        b.extend_from_slice(&c.to_be_bytes());
    }
    b.extend_from_slice(&[0, 0, 0, 0, 0, 0]);
    b.extend_from_slice(b"UTC\0");
    b
}

pub fn minimal_file(v: u8, tz: &[u8]) -> Vec<u8> {
    let mut b = minimal_block(v);
    b.extend(minimal_block(v));
    b.push(b'\n');
    b.extend_from_slice(tz);
    b.push(b'\n');
    b
}

pub fn parse_answer(bytes: &[u8]) -> String {
    let bytes = bytes.to_vec();
    guarded(move || match TimeZone::from_tz_data(&bytes) {
        Ok(z) => zone_text(&z),
        Err(e) => err_text(&e),
    })
}

pub fn tzfooter_line(out: &mut impl Write, v: u8, tz: &[u8]) {
    let ans = parse_answer(&minimal_file(v, tz));
    writeln!(out, "tzfooter {} x{} => {}", v, hex(tz), ans).unwrap();
}

// ---------------------------------------------------------------- TZ string generator

fn spell_num(rng: &mut Rng, v: i64) -> String {
    match rng.below(4) {
        0 => format!("{:02}", v),
        1 => format!("{:03}", v),
        _ => format!("{}", v),
    }
}

fn gen_name(rng: &mut Rng) -> String {
    match rng.below(12) {
        0 => "AB".into(),
        1 => "ABCDEFGH".into(),
        2 => "<+01>".into(),
        3 => "<-0330>".into(),
        4 => "<A1>".into(),
        5 => "<ABCDEFGH>".into(),
        6 => "<a_b>".into(),
        7 | 8 => String::from_utf8(mk_name(rng).into_iter().filter(|c| c.is_ascii_alphabetic()).chain(*b"Abc").take(rng.range(3, 7) as usize).collect()).unwrap(),
        9 => format!("<{}>", String::from_utf8(mk_name(rng)).unwrap()),
        _ => (*rng.pick(&["UTC", "EST", "CEST", "WGST", "LHDT", "aaa", "ZZZzzzz"])).to_string(),
    }
}

fn gen_hms(rng: &mut Rng, hmax: i64, allow_sign: bool) -> String {
    let mut s = String::new();
    if allow_sign {
        match rng.below(4) {
            0 => s.push('+'),
            1 => s.push('-'),
            _ => {}
        }
    }
    let h = match rng.below(6) {
        0 => hmax,
        1 => hmax + 1,
        2 => 0,
        _ => rng.range(0, hmax.min(30)),
    };
    s.push_str(&spell_num(rng, h));
    if rng.chance(1, 2) {
        let m = if rng.chance(1, 8) { 60 } else { rng.range(0, 59) };
        s.push(':');
        s.push_str(&spell_num(rng, m));
        if rng.chance(1, 2) {
            let sec = if rng.chance(1, 8) { 60 } else { rng.range(0, 59) };
            s.push(':');
            s.push_str(&spell_num(rng, sec));
        }
    }
    s
}

fn gen_day(rng: &mut Rng) -> String {
    match rng.below(8) {
        0 => format!("J{}", *rng.pick(&[0, 1, 59, 60, 365, 366])),
        1 => format!("{}", *rng.pick(&[0, 59, 60, 365, 366, 65536])),
        2 => format!("M{}.{}.{}", *rng.pick(&[0, 1, 12, 13]), *rng.pick(&[0, 1, 5, 6]), *rng.pick(&[0, 6, 7])),
        3 => { let v = rng.range(1, 365); format!("J{}", spell_num(rng, v)) }
        4 => { let v = rng.range(0, 365); spell_num(rng, v) }
        _ => format!("M{}.{}.{}", rng.range(1, 12), rng.range(1, 5), rng.range(0, 6)),
    }
}

/// a mostly valid TZ description with every optional part toggled at random
pub fn gen_tz(rng: &mut Rng, ext: bool) -> String {
    let mut s = gen_name(rng);
    s.push_str(&gen_hms(rng, 24, true));
    if rng.chance(1, 5) {
        return s;
    }
    s.push_str(&gen_name(rng));
    if rng.chance(1, 2) {
        s.push_str(&gen_hms(rng, 24, true));
    }
    if rng.chance(1, 12) {
        return s;
    }
    for _ in 0..2 {
        s.push(',');
        s.push_str(&gen_day(rng));
        if rng.chance(2, 3) {
            s.push('/');
            if ext || rng.chance(1, 6) {
                s.push_str(&gen_hms(rng, 167, true));
            } else {
                s.push_str(&gen_hms(rng, 24, false));
            }
        }
    }
    if rng.chance(1, 20) {
        s.push_str(*rng.pick(&[",", " ", "/2", "x", ",M1.1.1"]));
    }
    s
}

const ALPHABET: &[u8] = b"Ab<>+-0129:,/.JM";

fn mutate(rng: &mut Rng, s: &[u8]) -> Vec<u8> {
    let mut v = s.to_vec();
    match rng.below(4) {
        0 if !v.is_empty() => {
            let i = rng.below(v.len() as u64) as usize;
            v.remove(i);
        }
        1 => {
            let i = rng.below(v.len() as u64 + 1) as usize;
            v.insert(i, *rng.pick(ALPHABET));
        }
        2 if !v.is_empty() => {
            let i = rng.below(v.len() as u64) as usize;
            v[i] = *rng.pick(ALPHABET);
        }
        _ => {
            let i = rng.below(v.len() as u64 + 1) as usize;
            v.insert(i, *rng.pick(&[b' ', b'\n', b'\t', 0u8, 0xC3, 0xFF, b':', b'9', 0x0B, 0x0C, b'\r']));
        }
    }
    v
}

const TOKENS: &[&str] = &["AAA", "ab", "ABCDEFGH", "<+01>", "<a>", "<", ">", "0", "1", "02", "24", "25", "59", "60", "167", "168", "365", "366", "4294967296", "+", "-", ":", ",", "/", ".", "J", "M", "M3.2.0", "M11.1.0", "J60", "J365"];

pub fn tzstr(out: &mut impl Write, rng: &mut Rng, thorough: bool) {
    // (1) bounded-exhaustive over the grammar alphabet
    let maxlen = if thorough { 5 } else { 4 };
    let mut k = 0usize;
    for len in 0..=maxlen {
        let total = (ALPHABET.len() as u64).pow(len as u32);
        for idx in 0..total {
            let mut x = idx;
            let mut s = Vec::with_capacity(len);
            for _ in 0..len {
                s.push(ALPHABET[(x % ALPHABET.len() as u64) as usize]);
                x /= ALPHABET.len() as u64;
            }
            tzfooter_line(out, if k % 2 == 0 { 50 } else { 51 }, &s);
            k += 1;
        }
    }
    // (2) token sequences: exhaustive up to 3 tokens, random up to 14
    let tl = TOKENS.len();
    for a in 0..tl {
        tzfooter_line(out, 51, TOKENS[a].as_bytes());
        for b in 0..tl {
            let s2 = format!("{}{}", TOKENS[a], TOKENS[b]);
            tzfooter_line(out, 50, s2.as_bytes());
            if thorough || (a + b) % 4 == 0 {
                for c in 0..tl {
                    let s3 = format!("{}{}", s2, TOKENS[c]);
                    tzfooter_line(out, if c % 2 == 0 { 50 } else { 51 }, s3.as_bytes());
                }
            }
        }
    }
    let n = if thorough { 400_000 } else { 40_000 };
    for i in 0..n {
        let cnt = rng.range(1, 14);
        let mut s = String::new();
        for _ in 0..cnt {
            s.push_str(*rng.pick(TOKENS));
        }
        tzfooter_line(out, if i % 2 == 0 { 50 } else { 51 }, s.as_bytes());
    }
    // (3) grammar-directed sentences, their mutations, both modes
    for i in 0..n {
        let ext = i % 2 == 1;
        let s = gen_tz(rng, ext);
        let v = if ext { 51 } else { 50 };
        tzfooter_line(out, v, s.as_bytes());
        if i % 2 == 0 {
            tzfooter_line(out, 101 - v, s.as_bytes()); // the same sentence in the other mode
        }
        let m = mutate(rng, s.as_bytes());
        tzfooter_line(out, v, &m);
        if i % 10 == 0 {
            let m2 = mutate(rng, &m);
            tzfooter_line(out, v, &m2);
        }
    }
    // (4) rules built from valid rule values (so that most reach AlternateTime::new and many are accepted)
    for i in 0..n / 2 {
        let r = mk_raw_rule(rng);
        let ext = i % 2 == 0;
        let s = rule_to_tz(rng, &TransitionRule::Alternate(match r.build() {
            Ok(a) => a,
            Err(_) => continue,
        }), ext);
        if let Some(s) = s {
            tzfooter_line(out, if ext { 51 } else { 50 }, s.as_bytes());
            tzfooter_line(out, if ext { 50 } else { 51 }, s.as_bytes());
        }
    }
    // (5) version bytes other than '2' / '3' in the second header and odd first headers
    for v in [0u8, 1, 49, 52, 255] {
        tzfooter_line(out, v, b"EST5EDT,M3.2.0,M11.1.0");
    }
}

fn name_tz(l: &LocalTimeType) -> String {
    let n = l.time_zone_designation();
    if n.bytes().all(|c| c.is_ascii_alphabetic()) {
        n.to_string()
    } else {
        format!("<{}>", n)
    }
}

fn hms_tz(rng: &mut Rng, v: i64) -> String {
    let a = v.abs();
    let (h, m, s) = (a / 3600, (a / 60) % 60, a % 60);
    let sign = if v < 0 {
        "-"
    } else if rng.chance(1, 4) {
        "+"
    } else {
        ""
    };
    if s != 0 || rng.chance(1, 6) {
        format!("{}{}:{:02}:{:02}", sign, h, m, s)
    } else if m != 0 || rng.chance(1, 6) {
        format!("{}{}:{:02}", sign, h, m)
    } else {
        format!("{}{}", sign, h)
    }
}

fn day_tz(d: &RuleDay) -> String {
    match d {
        RuleDay::Julian1WithoutLeap(j) => format!("J{}", j.get()),
        RuleDay::Julian0WithLeap(j) => format!("{}", j.get()),
        RuleDay::MonthWeekDay(m) => format!("M{}.{}.{}", m.month(), m.week(), m.week_day()),
    }
}

/// a TZ spelling of a rule; None when it is not expressible (nameless types, offsets or times outside
/// what the chosen mode can spell)
pub fn rule_to_tz(rng: &mut Rng, r: &TransitionRule, ext: bool) -> Option<String> {
    match r {
        TransitionRule::Fixed(l) => {
            if l.time_zone_designation().is_empty() || l.is_dst() || l.ut_offset().abs() > 24 * 3600 + 3599 {
                return None;
            }
            Some(format!("{}{}", name_tz(l), hms_tz(rng, -(l.ut_offset() as i64))))
        }
        TransitionRule::Alternate(a) => {
            let (s, d) = (a.std(), a.dst());
            if s.time_zone_designation().is_empty() || d.time_zone_designation().is_empty() || s.is_dst() || !d.is_dst() {
                return None;
            }
            if s.ut_offset().abs() > 24 * 3600 + 3599 || d.ut_offset().abs() > 24 * 3600 + 3599 {
                return None;
            }
            let mut out = format!("{}{}{}", name_tz(s), hms_tz(rng, -(s.ut_offset() as i64)), name_tz(d));
            if d.ut_offset() != s.ut_offset() + 3600 || rng.chance(1, 3) {
                out.push_str(&hms_tz(rng, -(d.ut_offset() as i64)));
            }
            for (day, t) in [(a.dst_start(), a.dst_start_time()), (a.dst_end(), a.dst_end_time())] {
                out.push(',');
                out.push_str(&day_tz(day));
                let t = t as i64;
                if !ext && !(0..=24 * 3600 + 3599).contains(&t) {
                    return None;
                }
                if t != 7200 || rng.chance(1, 3) {
                    out.push('/');
                    let spelled = hms_tz(rng, t);
                    if !ext && spelled.starts_with('+') {
                        out.push_str(&spelled[1..]);
                    } else {
                        out.push_str(&spelled);
                    }
                }
            }
            Some(out)
        }
    }
}

// ---------------------------------------------------------------- TZif writer (harness side)

pub struct Layout {
    #[allow(dead_code)]
    pub version: u8, // 0, b'2', b'3'
    pub isstd: Vec<u8>,
    pub isut: Vec<u8>,
    pub reserved: [u8; 15],
    pub v1_garbage: bool,
}

/// designation table with shared tails: returns (table bytes, index per type)
fn build_designations(rng: &mut Rng, types: &[LocalTimeType]) -> Option<(Vec<u8>, Vec<u8>)> {
    let mut table: Vec<u8> = Vec::new();
    let mut idx = Vec::new();
    if rng.chance(1, 3) {
        table.extend_from_slice(b"pad\0");
    }
    for t in types {
        let name = t.time_zone_designation().as_bytes();
        // reuse an existing NUL-terminated occurrence (also a tail of a longer name) when possible
        let mut found = None;
        if rng.chance(3, 4) {
            let mut needle = name.to_vec();
            needle.push(0);
            if needle.len() <= table.len() {
                for i in 0..=table.len() - needle.len() {
                    if table[i..i + needle.len()] == needle[..] {
                        found = Some(i);
                        break;
                    }
                }
            }
        }
        let i = match found {
            Some(i) => i,
            None => {
                let i = table.len();
                table.extend_from_slice(name);
                table.push(0);
                i
            }
        };
        if i > 255 {
            return None;
        }
        idx.push(i as u8);
    }
    if rng.chance(1, 4) {
        table.extend_from_slice(b"zz\0");
    }
    Some((table, idx))
}

fn block(time_size: usize, version: u8, raw: &RawZone, table: &[u8], idx: &[u8], lay: &Layout) -> Vec<u8> {
    let mut b = b"TZif".to_vec();
    b.push(version);
    b.extend_from_slice(&lay.reserved);
    for c in [lay.isut.len(), lay.isstd.len(), raw.leaps.len(), raw.transitions.len(), raw.types.len(), table.len()] {
        b.extend_from_slice(&(c as u32).to_be_bytes());
    }
    for (t, _) in &raw.transitions {
        if time_size == 4 {
            b.extend_from_slice(&(*t as i32).to_be_bytes());
        } else {
            b.extend_from_slice(&t.to_be_bytes());
        }
    }
    for (_, i) in &raw.transitions {
        b.push(*i as u8);
    }
    for (k, t) in raw.types.iter().enumerate() {
        b.extend_from_slice(&t.ut_offset().to_be_bytes());
        b.push(t.is_dst() as u8);
        b.push(idx[k]);
    }
    b.extend_from_slice(table);
    for (t, c) in &raw.leaps {
        if time_size == 4 {
            b.extend_from_slice(&(*t as i32).to_be_bytes());
        } else {
            b.extend_from_slice(&t.to_be_bytes());
        }
        b.extend_from_slice(&c.to_be_bytes());
    }
    b.extend_from_slice(&lay.isstd);
    b.extend_from_slice(&lay.isut);
    b
}

/// encode a zone; None if it cannot be represented in that version
pub fn write_tzif(rng: &mut Rng, raw: &RawZone, version: u8) -> Option<(Vec<u8>, String)> {
    if raw.transitions.iter().any(|x| x.1 > 255) || raw.types.len() > 255 {
        return None;
    }
    let fits32 = raw.transitions.iter().all(|x| i32::try_from(x.0).is_ok()) && raw.leaps.iter().all(|x| i32::try_from(x.0).is_ok());
    let (table, idx) = build_designations(rng, &raw.types)?;
    let n = raw.types.len();
    let pairs: Vec<(u8, u8)> = (0..n).map(|_| *rng.pick(&[(0u8, 0u8), (1, 0), (1, 1)])).collect();
    let isstd: Vec<u8> = if rng.chance(1, 4) && pairs.iter().all(|p| p.1 == 0) { vec![] } else { pairs.iter().map(|p| p.0).collect() };
    let isut: Vec<u8> = if rng.chance(1, 2) && pairs.iter().all(|p| p.1 == 0) { vec![] } else { pairs.iter().map(|p| p.1).collect() };
    let isstd = if isstd.is_empty() && isut.iter().any(|&u| u == 1) { pairs.iter().map(|p| p.0).collect() } else { isstd };
    let mut reserved = [0u8; 15];
    if rng.chance(1, 4) {
        for r in reserved.iter_mut() {
            *r = rng.below(256) as u8;
        }
    }
    let lay = Layout { version, isstd, isut, reserved, v1_garbage: rng.chance(1, 2) };
    if version == 0 {
        if !fits32 || raw.rule.is_some() {
            return None;
        }
        return Some((block(4, 0, raw, &table, &idx, &lay), String::new()));
    }
    let ext = version == b'3';
    let footer_tz = match &raw.rule {
        None => String::new(),
        Some(r) => rule_to_tz(rng, r, ext)?,
    };
    // v1 block: either a faithful 32-bit copy (when representable) or an unrelated minimal block
    let mut out = if fits32 && !lay.v1_garbage {
        block(4, version, raw, &table, &idx, &lay)
    } else {
        // arbitrary but well-sized v1 data: one type, and different counts than the 64-bit block
        let dummy = RawZone { transitions: vec![(rng.range(-1000, 1000), 0)], types: vec![LocalTimeType::new(rng.range(-9, 9) as i32, false, Some(b"XXX")).unwrap()], leaps: vec![], rule: None };
        let lay1 = Layout { version, isstd: vec![], isut: vec![], reserved: [0; 15], v1_garbage: true };
        block(4, version, &dummy, b"XXX\0", &[0], &lay1)
    };
    out.extend(block(8, version, raw, &table, &idx, &lay));
    out.push(b'\n');
    let pad_l = if rng.chance(1, 6) { " " } else { "" };
    let pad_r = if rng.chance(1, 6) { " \t" } else { "" };
    let footer = format!("{}{}{}", pad_l, footer_tz, pad_r);
    out.extend_from_slice(footer.as_bytes());
    out.push(b'\n');
    Some((out, footer_tz))
}

pub fn tzif_line(out: &mut impl Write, fam: &str, extra: &str, bytes: &[u8]) -> String {
    let ans = parse_answer(bytes);
    if extra.is_empty() {
        writeln!(out, "{} x{} => {}", fam, hex(bytes), ans).unwrap();
    } else {
        writeln!(out, "{} {} x{} => {}", fam, extra, hex(bytes), ans).unwrap();
    }
    ans
}

/// corruptions that are violations of the format by construction (`tzifbad <class>`)
pub fn sure_corruptions(rng: &mut Rng, good: &[u8], version: u8) -> Vec<(&'static str, Vec<u8>)> {
    let mut v: Vec<(&'static str, Vec<u8>)> = Vec::new();
    let mut b = good.to_vec();
    b[rng.below(4) as usize] ^= 0x20;
    v.push(("magic", b));
    let mut b = good.to_vec();
    b[4] = *rng.pick(&[1u8, b'1', b'4', 0xFF, b'5']);
    v.push(("version", b));
    // truncation strictly inside the data (never exactly at a valid shorter file)
    if good.len() > 45 {
        let cut = rng.range(1, 43) as usize;
        v.push(("truncated-header", good[..cut].to_vec()));
    }
    if version == 0 {
        let mut b = good.to_vec();
        b.push(rng.below(256) as u8);
        v.push(("v1-trailing", b));
        if good.len() > 44 {
            let cut = rng.range(44, good.len() as i64 - 1) as usize;
            v.push(("truncated-v1", good[..cut].to_vec()));
        }
    } else {
        // footer must be NL .. NL: drop the final newline, or cut anywhere inside the 64-bit block
        // (`...\n\n` minus one byte is `...\n`: a lone newline footer, also malformed)
        let mut b = good.to_vec();
        b.pop();
        v.push(("footer-unterminated", b));
    }
    // typecnt = 0 / charcnt = 0 in the governing header
    let hdr = if version == 0 { 0 } else { second_header_offset(good) };
    if let Some(h) = hdr_opt(hdr, good) {
        let mut b = good.to_vec();
        b[h + 36..h + 40].copy_from_slice(&0u32.to_be_bytes());
        v.push(("typecnt-zero", b));
        let mut b = good.to_vec();
        b[h + 40..h + 44].copy_from_slice(&0u32.to_be_bytes());
        v.push(("charcnt-zero", b));
        // isut / isstd count neither 0 nor typecnt
        let typecnt = u32::from_be_bytes(good[h + 36..h + 40].try_into().unwrap());
        let mut b = good.to_vec();
        b[h + 20..h + 24].copy_from_slice(&(typecnt + 1).to_be_bytes());
        v.push(("isutcnt-bad", b));
        let mut b = good.to_vec();
        b[h + 24..h + 28].copy_from_slice(&(typecnt + 1).to_be_bytes());
        v.push(("isstdcnt-bad", b));
    }
    v
}

fn hdr_opt(h: usize, good: &[u8]) -> Option<usize> {
    if h + 44 <= good.len() {
        Some(h)
    } else {
        None
    }
}

/// offset of the second header of a well-formed v2+ file
pub fn second_header_offset(b: &[u8]) -> usize {
    let c = |i: usize| u32::from_be_bytes(b[20 + 4 * i..24 + 4 * i].try_into().unwrap()) as usize;
    let (isut, isstd, leap, time, typ, chr) = (c(0), c(1), c(2), c(3), c(4), c(5));
    44 + time * 4 + time + typ * 6 + chr + leap * 8 + isstd + isut
}

/// field-level corruptions inside the governing data block (DST flag, designation index, indicators)
pub fn block_corruptions(rng: &mut Rng, good: &[u8], version: u8) -> Vec<(&'static str, Vec<u8>)> {
    let mut v: Vec<(&'static str, Vec<u8>)> = Vec::new();
    let h = if version == 0 { 0 } else { second_header_offset(good) };
    if h + 44 > good.len() {
        return v;
    }
    let ts = if version == 0 { 4 } else { 8 };
    let c = |i: usize| u32::from_be_bytes(good[h + 20 + 4 * i..h + 24 + 4 * i].try_into().unwrap()) as usize;
    let (isut, isstd, leap, time, typ, chr) = (c(0), c(1), c(2), c(3), c(4), c(5));
    let types_at = h + 44 + time * ts + time;
    let chars_at = types_at + typ * 6;
    let k = rng.below(typ as u64) as usize;
    let mut b = good.to_vec();
    b[types_at + 6 * k + 4] = *rng.pick(&[2u8, 3, 0x80, 0xFF]);
    v.push(("dstflag", b));
    let mut b = good.to_vec();
    b[types_at + 6 * k + 5] = (chr.min(255)) as u8;
    if chr <= 255 {
        v.push(("desigidx-out-of-range", b));
    }
    // no NUL after the index: overwrite every NUL from the index on
    let mut b = good.to_vec();
    let start = b[types_at + 6 * k + 5] as usize;
    for i in chars_at + start..chars_at + chr {
        if b[i] == 0 {
            b[i] = b'Q';
        }
    }
    v.push(("desig-no-nul", b));
    let ind_at = chars_at + chr + leap * (ts + 4);
    if isstd > 0 && isut > 0 {
        // (isstd, isut) = (0, 1) is the one forbidden pair
        let mut b = good.to_vec();
        b[ind_at + k] = 0;
        b[ind_at + isstd + k] = 1;
        v.push(("indicator-pair", b));
    }
    if isstd > 0 {
        let mut b = good.to_vec();
        b[ind_at + k] = *rng.pick(&[2u8, 0xFF]);
        v.push(("indicator-value", b));
    }
    v
}

/// version-2 files whose footer needs the version-3 extensions (signed or > 24 h rule times): malformed by
/// construction, whatever else the file contains (the same footers in a version-3 file are the C09 family)
pub fn v2_extended_footers(out: &mut impl Write) {
    for tz in [
        &b"AAA3BBB,M3.2.0/-1,M11.1.0/2"[..], b"AAA3BBB,M3.2.0/2,M11.1.0/25", b"AAA3BBB,M3.2.0/+2,M11.1.0/2", b"AAA-1BBB,J60/167,J300/-167",
        b"<+01>-1<+02>,0/0,J365/25", b"AAA3BBB,M3.2.0/-0,M11.1.0",
    ] {
        tzif_line(out, "tzifbad", "v2-extended-footer", &minimal_file(b'2', tz));
    }
}

pub fn tzif_generated(out: &mut impl Write, rng: &mut Rng, thorough: bool) {
    v2_extended_footers(out);
    let n = if thorough { 12_000 } else { 1_500 };
    for i in 0..n {
        let opts = ZoneOpts { wild_offsets: true, leaps: true, deletions: true, max_transitions: if i % 4 == 0 { 50 } else { 10 }, extreme_times: i % 3 == 0 };
        let b: Built = match mk_zone(rng, &opts) {
            Some(b) => b,
            None => continue,
        };
        for version in [0u8, b'2', b'3'] {
            let (bytes, _) = match write_tzif(rng, &b.raw, version) {
                Some(x) => x,
                None => continue,
            };
            tzif_line(out, "tzifgen", &format!("{} Z {} B", version, b.raw.text()), &bytes);
            for (class, bad) in sure_corruptions(rng, &bytes, version) {
                tzif_line(out, "tzifbad", class, &bad);
            }
            for (class, bad) in block_corruptions(rng, &bytes, version) {
                tzif_line(out, "tzifbad", class, &bad);
            }
            // arbitrary single-byte / single-field corruption: only model agreement is required
            for _ in 0..3 {
                let mut m = bytes.clone();
                let k = rng.below(m.len() as u64) as usize;
                m[k] = match rng.below(3) {
                    0 => m[k] ^ (1 << rng.below(8)),
                    1 => rng.below(256) as u8,
                    _ => *rng.pick(&[0u8, 1, 0xFF, 0x7F, 0x80]),
                };
                tzif_line(out, "tzif", "", &m);
            }
        }
    }
}

pub fn list_files(root: &str) -> Vec<String> {
    let mut v = Vec::new();
    let mut stack = vec![std::path::PathBuf::from(root)];
    while let Some(d) = stack.pop() {
        let rd = match std::fs::read_dir(&d) {
            Ok(r) => r,
            Err(_) => continue,
        };
        for e in rd.flatten() {
            let p = e.path();
            let md = match std::fs::symlink_metadata(&p) {
                Ok(m) => m,
                Err(_) => continue,
            };
            if md.is_dir() {
                stack.push(p);
            } else if md.is_file() {
                v.push(p.to_string_lossy().to_string());
            }
        }
    }
    v.sort();
    v
}

pub fn tzif_iana(out: &mut impl Write, rng: &mut Rng, root: &str, thorough: bool, with_lookups: bool) {
    for (k, path) in list_files(root).iter().enumerate() {
        let bytes = match std::fs::read(path) {
            Ok(b) => b,
            Err(_) => continue,
        };
        if !bytes.starts_with(b"TZif") {
            continue;
        }
        writeln!(out, "# file {}", path).unwrap();
        tzif_line(out, "tzif", "", &bytes);
        let version = bytes[4];
        if thorough || k % 8 == 0 {
            for (class, bad) in sure_corruptions(rng, &bytes, version) {
                tzif_line(out, "tzifbad", class, &bad);
            }
            for (class, bad) in block_corruptions(rng, &bytes, version) {
                tzif_line(out, "tzifbad", class, &bad);
            }
        }
        if with_lookups {
            if let Ok(z) = TimeZone::from_tz_data(&bytes) {
                let r = z.as_ref();
                let raw = RawZone {
                    transitions: r.transitions().iter().map(|t| (t.unix_leap_time(), t.local_time_type_index())).collect(),
                    types: r.local_time_types().to_vec(),
                    leaps: r.leap_seconds().iter().map(|l| (l.unix_leap_time(), l.correction())).collect(),
                    rule: *r.extra_rule(),
                };
                let b = Built::from_raw(raw);
                if crate::zones::zone_line(out, &b) {
                    let zr = b.zref().unwrap();
                    for u in crate::zones::zone_instants(rng, &b, 6) {
                        crate::zones::lookup_line(out, &zr, u);
                    }
                    if thorough || k % 4 == 0 {
                        for f in crate::zones::zone_local_times(rng, &b, false).into_iter().take(if thorough { 2000 } else { 120 }) {
                            crate::zones::find_line(out, &zr, f);
                        }
                    }
                }
            }
        }
    }
}

// ---------------------------------------------------------------- resolve (C20)

thread_local! {
    static VFS: std::cell::RefCell<(Vec<(String, Vec<u8>)>, Vec<String>)> = std::cell::RefCell::new((Vec::new(), Vec::new()));
}

fn vfs_read(path: &str) -> Result<Vec<u8>, Box<dyn std::error::Error + Send + Sync + 'static>> {
    VFS.with(|v| {
        let mut v = v.borrow_mut();
        v.1.push(path.to_string());
        match v.0.iter().find(|(p, _)| p == path) {
            Some((_, c)) => Ok(c.clone()),
            None => Err("no such file".into()),
        }
    })
}

pub fn resolve_line(out: &mut impl Write, dirs: &[&str], files: &[(String, Vec<u8>)], tz: &str) {
    resolve_line_after(out, dirs, files, None, tz)
}

/// the same with an earlier lookup (`warm`) made through the SAME settings value: the answer and the paths opened
/// for `tz` must not depend on it
pub fn resolve_line_after(out: &mut impl Write, dirs: &[&str], files: &[(String, Vec<u8>)], warm: Option<&str>, tz: &str) {
    VFS.with(|v| {
        let mut v = v.borrow_mut();
        v.0 = files.to_vec();
        v.1.clear();
    });
    let settings = TimeZoneSettings::new(dirs, vfs_read);
    if let Some(w) = warm {
        let w2 = w.to_string();
        let _ = std::panic::catch_unwind(std::panic::AssertUnwindSafe(|| settings.parse_posix_tz(&w2).is_ok()));
        VFS.with(|v| v.borrow_mut().1.clear());
    }
    let tz2 = tz.to_string();
    let res = std::panic::catch_unwind(std::panic::AssertUnwindSafe(|| match settings.parse_posix_tz(&tz2) {
        Ok(z) => zone_text(&z),
        Err(e) => error_text(&e),
    }));
    let ans = res.unwrap_or_else(|_| "PANIC".into());
    let paths = VFS.with(|v| v.borrow().1.clone());
    let mut line = format!("resolve D {}", dirs.len());
    for d in dirs {
        line.push_str(&format!(" x{}", hex(d.as_bytes())));
    }
    line.push_str(&format!(" F {}", files.len()));
    for (p, c) in files {
        line.push_str(&format!(" x{} x{}", hex(p.as_bytes()), hex(c)));
    }
    if let Some(w) = warm {
        line.push_str(&format!(" W x{}", hex(w.as_bytes())));
    }
    line.push_str(&format!(" S x{} => P {}", hex(tz.as_bytes()), paths.len()));
    for p in &paths {
        line.push_str(&format!(" x{}", hex(p.as_bytes())));
    }
    line.push_str(&format!(" R {}", ans));
    writeln!(out, "{}", line).unwrap();
}

pub fn resolve(out: &mut impl Write, rng: &mut Rng, thorough: bool) {
    let valid_a = minimal_file(b'2', b"AAA-1");
    let valid_b = minimal_file(b'3', b"BBB-2CCC,M3.2.0/-1,M11.1.0/25");
    let invalid = b"TZif-not-really".to_vec();
    let truncated = valid_a[..valid_a.len() - 1].to_vec();
    // a readable but EMPTY file is a file: it wins the directory search and is refused as a TZif file
    let empty: Vec<u8> = Vec::new();
    let contents: [Option<&Vec<u8>>; 6] = [None, Some(&valid_a), Some(&valid_b), Some(&invalid), Some(&truncated), Some(&empty)];
    let dir_lists: Vec<Vec<&str>> = vec![vec![], vec!["/d1"], vec!["/d1", "/d2"], vec!["/d1", "/d2", "/d3"], vec!["/usr/share/zoneinfo", "/share/zoneinfo", "/etc/zoneinfo"], vec!["rel", "/d2"], vec!["/d1/", "/d1"]];
    let tzs: Vec<&str> = vec![
        "", "localtime", " localtime", "localtime ", ":localtime", ":", "::", ":/abs/file", "/abs/file", ":Zone/Name", "Zone/Name", " Zone/Name", "EST5EDT", ":EST5EDT", "EST5", " EST5 ", "\tEST5EDT,M3.2.0,M11.1.0\n", "EST5EDT,M3.2.0/-1,M11.1.0", "UTC0", "<+03>-3", "nonsense", "AAA", ":AAA3", "/", "é", "EST5\u{a0}", "\u{b}EST5", "EST5\u{c}",
    ];
    let mut count = 0usize;
    for dirs in &dir_lists {
        for tz in &tzs {
            // candidate paths this value may touch
            let name = tz.strip_prefix(':').unwrap_or(tz);
            let mut cands: Vec<String> = Vec::new();
            if *tz == "localtime" {
                cands.push("/etc/localtime".into());
            }
            if name.starts_with('/') {
                cands.push(name.to_string());
            } else {
                for d in dirs {
                    cands.push(format!("{}/{}", d, name));
                }
            }
            cands.push("/etc/localtime".into());
            cands.push(name.to_string()); // the bare relative name must never be opened
            cands.dedup();
            let states = contents.len().pow(cands.len().min(4) as u32);
            let limit = if thorough { states } else { states.min(40) };
            for si in 0..limit {
                let s = if limit == states { si } else { rng.below(states as u64) as usize };
                let mut x = s;
                let mut files: Vec<(String, Vec<u8>)> = Vec::new();
                for c in cands.iter().take(4) {
                    if let Some(content) = contents[x % contents.len()] {
                        if !files.iter().any(|(p, _)| p == c) {
                            files.push((c.clone(), content.clone()));
                        }
                    }
                    x /= contents.len();
                }
                resolve_line(out, dirs, &files, tz);
                if dirs.len() >= 2 && si % 3 == 0 {
                    // an earlier lookup through the same settings that succeeds in a later directory (or fails)
                    let k = 1 + rng.below(dirs.len() as u64 - 1) as usize;
                    let mut files2 = files.clone();
                    if rng.chance(3, 4) {
                        files2.push((format!("{}/Warm/Zone", dirs[k]), valid_a.clone()));
                    }
                    resolve_line_after(out, dirs, &files2, Some(*rng.pick(&["Warm/Zone", ":Warm/Zone"])), tz);
                }
                count += 1;
            }
        }
    }
    // TZ descriptions through the settings path with a reader that finds nothing (C09, extensions off)
    let n = if thorough { 60_000 } else { 8_000 };
    for i in 0..n {
        let s = gen_tz(rng, i % 4 == 0);
        let s = match i % 5 {
            0 => format!(" {}\n", s),
            1 => String::from_utf8_lossy(&mutate(rng, s.as_bytes())).to_string(),
            _ => s,
        };
        resolve_line(out, &["/nowhere"], &[], &s);
    }
    let _ = count;
}
