//! PRNG, canonical printers and raw zone descriptions shared by every family.

use std::fmt::Write as _;

use tz::datetime::{DateTime, FoundDateTimeKind, UtcDateTime};
use tz::error::datetime::DateTimeError;
use tz::error::timezone::{LocalTimeTypeError, TimeZoneError, TransitionRuleError};
use tz::error::TzError;
use tz::timezone::{AlternateTime, Julian0WithLeap, Julian1WithoutLeap, LocalTimeType, MonthWeekDay, RuleDay, TransitionRule};

/// splitmix64: every random choice of a run derives from one state (`VERIF_SEED`)
#[derive(Clone)]
pub struct Rng(pub u64);

impl Rng {
    pub fn new(seed: u64) -> Self {
        Rng(seed ^ 0x9E37_79B9_7F4A_7C15)
    }
    pub fn next(&mut self) -> u64 {
        self.0 = self.0.wrapping_add(0x9E37_79B9_7F4A_7C15);
        let mut z = self.0;
        z = (z ^ (z >> 30)).wrapping_mul(0xBF58_476D_1CE4_E5B9);
        z = (z ^ (z >> 27)).wrapping_mul(0x94D0_49BB_1331_11EB);
        z ^ (z >> 31)
    }
    /// uniform in [0, n)
    pub fn below(&mut self, n: u64) -> u64 {
        if n == 0 {
            0
        } else {
            self.next() % n
        }
    }
    /// uniform in [lo, hi]
    pub fn range(&mut self, lo: i64, hi: i64) -> i64 {
        let span = (hi as i128 - lo as i128 + 1) as u128;
        let r = ((self.next() as u128) << 64 | self.next() as u128) % span;
        (lo as i128 + r as i128) as i64
    }
    pub fn chance(&mut self, num: u64, den: u64) -> bool {
        self.below(den) < num
    }
    pub fn pick<'a, T>(&mut self, xs: &'a [T]) -> &'a T {
        &xs[self.below(xs.len() as u64) as usize]
    }
    /// log-uniform magnitude with random sign, within i64
    pub fn log_i64(&mut self) -> i64 {
        let bits = self.below(64);
        let mag = if bits == 0 { 0 } else { self.next() >> (64 - bits) };
        let v = (mag >> 1) as i64;
        if self.chance(1, 2) {
            v
        } else {
            -v
        }
    }
}

pub fn hex(b: &[u8]) -> String {
    let mut s = String::with_capacity(b.len() * 2);
    for x in b {
        let _ = write!(s, "{:02x}", x);
    }
    s
}

#[cfg(feature = "alloc")]
pub fn parse_data_text(e: &tz::error::parse::ParseDataError) -> &'static str {
    use tz::error::parse::ParseDataError::*;
    match e {
        UnexpectedEof => "UnexpectedEof",
        InvalidData => "InvalidData",
        _ => "Unknown",
    }
}

/// canonical `Err:<Enum>.<Variant>` text (same table as `TzError.text` in the Lean model)
pub fn err_text(e: &TzError) -> String {
    match e {
        #[cfg(feature = "alloc")]
        TzError::TzFile(e) => {
            use tz::error::parse::TzFileError::*;
            match e {
                Utf8(_) => "Err:TzFile.Utf8".into(),
                ParseData(d) => format!("Err:TzFile.ParseData.{}", parse_data_text(d)),
                InvalidMagicNumber => "Err:TzFile.InvalidMagicNumber".into(),
                UnsupportedTzFileVersion => "Err:TzFile.UnsupportedTzFileVersion".into(),
                InvalidHeader => "Err:TzFile.InvalidHeader".into(),
                InvalidFooter => "Err:TzFile.InvalidFooter".into(),
                InvalidDstIndicator => "Err:TzFile.InvalidDstIndicator".into(),
                InvalidTimeZoneDesignationCharIndex => "Err:TzFile.InvalidTimeZoneDesignationCharIndex".into(),
                InvalidStdWallUtLocal => "Err:TzFile.InvalidStdWallUtLocal".into(),
                RemainingDataV1 => "Err:TzFile.RemainingDataV1".into(),
                _ => format!("Err:TzFile.Unknown({:?})", e),
            }
        }
        #[cfg(feature = "alloc")]
        TzError::TzString(e) => {
            use tz::error::parse::TzStringError::*;
            match e {
                Utf8(_) => "Err:TzString.Utf8".into(),
                ParseInt(_) => "Err:TzString.ParseInt".into(),
                ParseData(d) => format!("Err:TzString.ParseData.{}", parse_data_text(d)),
                InvalidOffsetHour => "Err:TzString.InvalidOffsetHour".into(),
                InvalidOffsetMinute => "Err:TzString.InvalidOffsetMinute".into(),
                InvalidOffsetSecond => "Err:TzString.InvalidOffsetSecond".into(),
                InvalidDayTimeHour => "Err:TzString.InvalidDayTimeHour".into(),
                InvalidDayTimeMinute => "Err:TzString.InvalidDayTimeMinute".into(),
                InvalidDayTimeSecond => "Err:TzString.InvalidDayTimeSecond".into(),
                MissingDstStartEndRules => "Err:TzString.MissingDstStartEndRules".into(),
                RemainingData => "Err:TzString.RemainingData".into(),
                Empty => "Err:TzString.Empty".into(),
                _ => format!("Err:TzString.Unknown({:?})", e),
            }
        }
        TzError::LocalTimeType(e) => ltt_err_text(e),
        TzError::TransitionRule(e) => rule_err_text(e),
        TzError::TimeZone(e) => match e {
            TimeZoneError::NoLocalTimeType => "Err:TimeZone.NoLocalTimeType".into(),
            TimeZoneError::InvalidLocalTimeTypeIndex => "Err:TimeZone.InvalidLocalTimeTypeIndex".into(),
            TimeZoneError::InvalidTransition => "Err:TimeZone.InvalidTransition".into(),
            TimeZoneError::InvalidLeapSecond => "Err:TimeZone.InvalidLeapSecond".into(),
            TimeZoneError::InconsistentExtraRule => "Err:TimeZone.InconsistentExtraRule".into(),
            _ => format!("Err:TimeZone.Unknown({:?})", e),
        },
        TzError::DateTime(e) => match e {
            DateTimeError::InvalidMonth => "Err:DateTime.InvalidMonth".into(),
            DateTimeError::InvalidMonthDay => "Err:DateTime.InvalidMonthDay".into(),
            DateTimeError::InvalidHour => "Err:DateTime.InvalidHour".into(),
            DateTimeError::InvalidMinute => "Err:DateTime.InvalidMinute".into(),
            DateTimeError::InvalidSecond => "Err:DateTime.InvalidSecond".into(),
            DateTimeError::InvalidNanoseconds => "Err:DateTime.InvalidNanoseconds".into(),
            _ => format!("Err:DateTime.Unknown({:?})", e),
        },
        TzError::OutOfRange => "Err:OutOfRange".into(),
        TzError::NoAvailableLocalTimeType => "Err:NoAvailableLocalTimeType".into(),
        _ => format!("Err:Unknown({:?})", e),
    }
}

pub fn ltt_err_text(e: &LocalTimeTypeError) -> String {
    match e {
        LocalTimeTypeError::InvalidTimeZoneDesignationLength => "Err:LocalTimeType.InvalidTimeZoneDesignationLength".into(),
        LocalTimeTypeError::InvalidTimeZoneDesignationChar => "Err:LocalTimeType.InvalidTimeZoneDesignationChar".into(),
        LocalTimeTypeError::InvalidUtcOffset => "Err:LocalTimeType.InvalidUtcOffset".into(),
        _ => format!("Err:LocalTimeType.Unknown({:?})", e),
    }
}

pub fn rule_err_text(e: &TransitionRuleError) -> String {
    match e {
        TransitionRuleError::InvalidRuleDayJulianDay => "Err:TransitionRule.InvalidRuleDayJulianDay".into(),
        TransitionRuleError::InvalidRuleDayMonth => "Err:TransitionRule.InvalidRuleDayMonth".into(),
        TransitionRuleError::InvalidRuleDayWeek => "Err:TransitionRule.InvalidRuleDayWeek".into(),
        TransitionRuleError::InvalidRuleDayWeekDay => "Err:TransitionRule.InvalidRuleDayWeekDay".into(),
        TransitionRuleError::InvalidStdUtcOffset => "Err:TransitionRule.InvalidStdUtcOffset".into(),
        TransitionRuleError::InvalidDstUtcOffset => "Err:TransitionRule.InvalidDstUtcOffset".into(),
        TransitionRuleError::InvalidDstStartEndTime => "Err:TransitionRule.InvalidDstStartEndTime".into(),
        TransitionRuleError::InconsistentRule => "Err:TransitionRule.InconsistentRule".into(),
        _ => format!("Err:TransitionRule.Unknown({:?})", e),
    }
}

#[cfg(feature = "alloc")]
pub fn error_text(e: &tz::Error) -> String {
    match e {
        tz::Error::Io(_) => "Err:Io".into(),
        tz::Error::Tz(e) => err_text(e),
        _ => format!("Err:Unknown({:?})", e),
    }
}

pub fn name_tok(l: &LocalTimeType) -> String {
    let s = l.time_zone_designation();
    if s.is_empty() {
        "_".into()
    } else {
        format!("x{}", hex(s.as_bytes()))
    }
}

pub fn ltt_text(l: &LocalTimeType) -> String {
    format!("{} {} {}", l.ut_offset(), l.is_dst() as u8, name_tok(l))
}

pub fn day_text(d: &RuleDay) -> String {
    match d {
        RuleDay::Julian1WithoutLeap(j) => format!("J{}", j.get()),
        RuleDay::Julian0WithLeap(j) => format!("Z{}", j.get()),
        RuleDay::MonthWeekDay(m) => format!("M{}.{}.{}", m.month(), m.week(), m.week_day()),
    }
}

pub fn alt_text(a: &AlternateTime) -> String {
    format!(
        "{} {} {} {} {} {}",
        ltt_text(a.std()),
        ltt_text(a.dst()),
        day_text(a.dst_start()),
        a.dst_start_time(),
        day_text(a.dst_end()),
        a.dst_end_time()
    )
}

pub fn rule_text(r: &Option<TransitionRule>) -> String {
    match r {
        None => "N".into(),
        Some(TransitionRule::Fixed(l)) => format!("F {}", ltt_text(l)),
        Some(TransitionRule::Alternate(a)) => format!("A {}", alt_text(a)),
    }
}

/// a zone description that may or may not be accepted by the constructors
#[derive(Clone, Debug)]
pub struct RawZone {
    pub transitions: Vec<(i64, usize)>,
    pub types: Vec<LocalTimeType>,
    pub leaps: Vec<(i64, i32)>,
    pub rule: Option<TransitionRule>,
}

impl RawZone {
    pub fn text(&self) -> String {
        let mut s = format!("T {}", self.transitions.len());
        for (t, i) in &self.transitions {
            let _ = write!(s, " {} {}", t, i);
        }
        let _ = write!(s, " Y {}", self.types.len());
        for l in &self.types {
            let _ = write!(s, " {}", ltt_text(l));
        }
        let _ = write!(s, " L {}", self.leaps.len());
        for (t, c) in &self.leaps {
            let _ = write!(s, " {} {}", t, c);
        }
        let _ = write!(s, " R {}", rule_text(&self.rule));
        s
    }
}

pub fn dt_text(d: &DateTime) -> String {
    format!(
        "D {} {} {} {} {} {} {} {} {}",
        d.year(),
        d.month(),
        d.month_day(),
        d.hour(),
        d.minute(),
        d.second(),
        d.nanoseconds(),
        ltt_text(d.local_time_type()),
        d.unix_time()
    )
}

pub fn opt_dt_text(d: &Option<DateTime>) -> String {
    match d {
        None => "-".into(),
        Some(d) => dt_text(d),
    }
}

pub fn found_text(f: &FoundDateTimeKind) -> String {
    match f {
        FoundDateTimeKind::Normal(d) => format!("N {}", dt_text(d)),
        FoundDateTimeKind::Skipped { before_transition, after_transition } => {
            format!("S {} {}", dt_text(before_transition), dt_text(after_transition))
        }
    }
}

pub fn utc_text(c: &UtcDateTime) -> String {
    format!(
        "{} {} {} {} {} {} {} {} {}",
        c.year(),
        c.month(),
        c.month_day(),
        c.hour(),
        c.minute(),
        c.second(),
        c.nanoseconds(),
        c.week_day(),
        c.year_day()
    )
}

/// run `f` under `catch_unwind`; a panic becomes the answer `PANIC`
pub fn guarded<F: FnOnce() -> String + std::panic::UnwindSafe>(f: F) -> String {
    match std::panic::catch_unwind(f) {
        Ok(s) => s,
        Err(_) => "PANIC".into(),
    }
}

pub fn mk_day(rng: &mut Rng) -> RuleDay {
    match rng.below(10) {
        0..=2 => {
            let n = *rng.pick(&[1u16, 2, 31, 32, 58, 59, 60, 61, 90, 151, 243, 304, 334, 335, 364, 365]);
            let n = if rng.chance(1, 2) { n } else { rng.range(1, 365) as u16 };
            RuleDay::Julian1WithoutLeap(Julian1WithoutLeap::new(n).unwrap())
        }
        3..=5 => {
            let n = *rng.pick(&[0u16, 1, 30, 31, 58, 59, 60, 61, 89, 90, 150, 242, 303, 333, 334, 335, 363, 364, 365]);
            let n = if rng.chance(1, 2) { n } else { rng.range(0, 365) as u16 };
            RuleDay::Julian0WithLeap(Julian0WithLeap::new(n).unwrap())
        }
        _ => {
            let m = rng.range(1, 12) as u8;
            let w = rng.range(1, 5) as u8;
            let d = rng.range(0, 6) as u8;
            RuleDay::MonthWeekDay(MonthWeekDay::new(m, w, d).unwrap())
        }
    }
}

const NAME_CHARS: &[u8] = b"ABCXYZabcxyz0189+-";

pub fn mk_name(rng: &mut Rng) -> Vec<u8> {
    let len = rng.range(3, 7) as usize;
    (0..len).map(|_| *rng.pick(NAME_CHARS)).collect()
}

pub fn mk_ltt(rng: &mut Rng, off: i32) -> LocalTimeType {
    let name = mk_name(rng);
    let named = rng.chance(4, 5);
    LocalTimeType::new(off, rng.chance(1, 2), if named { Some(&name) } else { None }).unwrap()
}

pub fn mk_rule_offset(rng: &mut Rng) -> i32 {
    match rng.below(8) {
        0 => *rng.pick(&[-89999, 93599, -89998, 93598, 0]),
        1 | 2 => (rng.range(-24, 25) * 3600) as i32,
        3 => (rng.range(-96, 100) * 900) as i32,
        _ => rng.range(-89999, 93599) as i32,
    }
}

pub fn mk_rule_time(rng: &mut Rng) -> i32 {
    match rng.below(8) {
        0 => *rng.pick(&[-604799, 604799, 0, 7200, 86400, -86400, 601200, -601200]),
        1..=3 => (rng.range(0, 24) * 3600) as i32,
        4 => (rng.range(-167, 167) * 3600) as i32,
        _ => rng.range(-604799, 604799) as i32,
    }
}
