//! Correspondence harness: calls the real tz-rs API (path dependency on /repo) and prints one
//! protocol line per operation: `<family> <args…> => <answer>`.
//!
//! usage: harness <group> <quick|thorough> <seed> [data-root]

mod cal;
mod common;
mod exec;
#[cfg(feature = "alloc")]
mod hostile;
#[cfg(feature = "alloc")]
mod parse;
mod zones;

use common::Rng;
use std::io::{BufWriter, Write};

fn main() {
    let args: Vec<String> = std::env::args().collect();
    if args.len() >= 2 && args[1] == "exec" {
        std::panic::set_hook(Box::new(|_| {}));
        let stdout = std::io::stdout();
        let mut out = BufWriter::with_capacity(1 << 20, stdout.lock());
        exec::exec(&mut out);
        out.flush().unwrap();
        return;
    }
    if args.len() < 4 {
        eprintln!("usage: harness <group> <quick|thorough> <seed> [data-root]");
        std::process::exit(2);
    }
    let group = args[1].as_str();
    let thorough = args[2] == "thorough";
    let seed: u64 = args[3].parse().unwrap_or(0);
    #[allow(unused_variables)]
    let root = args.get(4).cloned().unwrap_or_else(|| "/verif/data/zoneinfo".to_string());
    // panics are answers (`PANIC`), not noise on stderr
    std::panic::set_hook(Box::new(|_| {}));
    let stdout = std::io::stdout();
    let mut out = BufWriter::with_capacity(1 << 20, stdout.lock());
    let mut rng = Rng::new(seed.wrapping_mul(0x1000193).wrapping_add(group.len() as u64));
    writeln!(out, "# harness group={} tier={} seed={} features={}", group, args[2], seed, features()).unwrap();
    match group {
        "gmtime" => cal::gmtime(&mut out, &mut rng, thorough),
        "utcnew" => {
            cal::utcnew(&mut out, &mut rng, thorough);
            cal::utccmp(&mut out, &mut rng, thorough);
        }
        "tn" => cal::utctn(&mut out, &mut rng, thorough),
        "fmt" => cal::fmt(&mut out, &mut rng, thorough),
        "dt" => cal::dt_families(&mut out, &mut rng, thorough),
        "lttnew" => zones::lttnew(&mut out, &mut rng, thorough),
        "rulenew" => zones::rulenew(&mut out, &mut rng, thorough),
        "rulepairs" => zones::rulenew_pairs(&mut out, &mut rng, thorough),
        "rulelookup" => zones::rule_lookups(&mut out, &mut rng, thorough),
        "zonelookup" => zones::zone_lookups(&mut out, &mut rng, thorough, false),
        "leap" => {
            zones::leap_probes(&mut out, &mut rng, thorough);
            zones::zone_lookups(&mut out, &mut rng, thorough, true);
        }
        "zonenew" => zones::zonenew(&mut out, &mut rng, thorough),
        "find" => zones::find_family(&mut out, &mut rng, thorough, false),
        "findn" => zones::find_family(&mut out, &mut rng, thorough, true),
        // the deterministic corpus shared by the three feature configurations (C19) and the thread runner (C15)
        "core" => {
            cal::utcnew(&mut out, &mut rng, false);
            cal::utctn(&mut out, &mut rng, false);
            cal::fmt(&mut out, &mut rng, false);
            cal::dt_families(&mut out, &mut rng, false);
            zones::lttnew(&mut out, &mut rng, false);
            zones::rulenew(&mut out, &mut rng, false);
            zones::rule_lookups(&mut out, &mut rng, false);
            zones::zone_lookups(&mut out, &mut rng, false, false);
            zones::zonenew(&mut out, &mut rng, false);
            zones::find_family(&mut out, &mut rng, false, true);
        }
        #[cfg(feature = "alloc")]
        "tzstr" => parse::tzstr(&mut out, &mut rng, thorough),
        #[cfg(feature = "alloc")]
        "tzifgen" => parse::tzif_generated(&mut out, &mut rng, thorough),
        #[cfg(feature = "alloc")]
        "tzifiana" => parse::tzif_iana(&mut out, &mut rng, &root, thorough, false),
        #[cfg(feature = "alloc")]
        "iana" => parse::tzif_iana(&mut out, &mut rng, &root, thorough, true),
        #[cfg(feature = "alloc")]
        "resolve" => parse::resolve(&mut out, &mut rng, thorough),
        #[cfg(feature = "alloc")]
        "hostile" => hostile::hostile(&mut out, &mut rng, &root, thorough),
        #[cfg(feature = "alloc")]
        "threads" => hostile::threads(&mut out, seed, thorough),
        // run under strace by tools/special_c15.py: every file-system path touched between the markers is attributed
        // to the call named by the marker
        #[cfg(feature = "std")]
        "ambient" => hostile::ambient(&mut out),
        _ => {
            eprintln!("unknown group {}", group);
            std::process::exit(2);
        }
    }
    out.flush().unwrap();
}

/// rustc is the authority for Send + Sync: a public type that loses either fails this build (C15)
#[allow(dead_code)]
fn assert_send_sync<T: Send + Sync>() {}

#[allow(dead_code)]
fn static_asserts() {
    use tz::datetime::*;
    use tz::error::datetime::*;
    use tz::error::timezone::*;
    use tz::timezone::*;
    assert_send_sync::<UtcDateTime>();
    assert_send_sync::<DateTime>();
    assert_send_sync::<FoundDateTimeKind>();
    assert_send_sync::<FoundDateTimeListRefMut<'static>>();
    assert_send_sync::<Transition>();
    assert_send_sync::<LeapSecond>();
    assert_send_sync::<LocalTimeType>();
    assert_send_sync::<TimeZoneRef<'static>>();
    assert_send_sync::<TransitionRule>();
    assert_send_sync::<AlternateTime>();
    assert_send_sync::<RuleDay>();
    assert_send_sync::<Julian1WithoutLeap>();
    assert_send_sync::<Julian0WithLeap>();
    assert_send_sync::<MonthWeekDay>();
    assert_send_sync::<tz::TzError>();
    assert_send_sync::<tz::Error>();
    assert_send_sync::<DateTimeError>();
    assert_send_sync::<LocalTimeTypeError>();
    assert_send_sync::<TransitionRuleError>();
    assert_send_sync::<TimeZoneError>();
    #[cfg(feature = "alloc")]
    {
        assert_send_sync::<FoundDateTimeList>();
        assert_send_sync::<tz::TimeZone>();
        assert_send_sync::<tz::TimeZoneSettings<'static>>();
        assert_send_sync::<tz::error::parse::TzFileError>();
        assert_send_sync::<tz::error::parse::TzStringError>();
        assert_send_sync::<tz::error::parse::ParseDataError>();
    }
}

fn features() -> &'static str {
    if cfg!(feature = "std") {
        "std"
    } else if cfg!(feature = "alloc") {
        "alloc"
    } else {
        "core"
    }
}
