//! `harness exec`: re-execute protocol lines (read from stdin; anything after ` => ` is ignored)
//! against the real implementation. Used for replays, the committed corpus and known-finding witnesses.

use crate::common::*;
use crate::zones::{self, Built, RawRule};
use std::io::{BufRead, Write};
use tz::timezone::{Julian0WithLeap, Julian1WithoutLeap, LocalTimeType, MonthWeekDay, RuleDay, TransitionRule};

struct Toks<'a> {
    t: Vec<&'a str>,
    i: usize,
}

impl<'a> Toks<'a> {
    fn next(&mut self) -> Result<&'a str, String> {
        let r = self.t.get(self.i).copied().ok_or_else(|| "unexpected end of line".to_string())?;
        self.i += 1;
        Ok(r)
    }
    fn peek(&self) -> Option<&'a str> {
        self.t.get(self.i).copied()
    }
    fn int<T: std::str::FromStr>(&mut self) -> Result<T, String> {
        let s = self.next()?;
        s.parse::<T>().map_err(|_| format!("bad number {}", s))
    }
    fn expect(&mut self, s: &str) -> Result<(), String> {
        let t = self.next()?;
        if t == s {
            Ok(())
        } else {
            Err(format!("expected {}, got {}", s, t))
        }
    }
    fn bytes(&mut self) -> Result<Vec<u8>, String> {
        let s = self.next()?;
        let h = s.strip_prefix('x').ok_or_else(|| format!("expected x<hex>, got {}", s))?;
        unhex(h)
    }
    fn opt_name(&mut self) -> Result<Option<Vec<u8>>, String> {
        if self.peek() == Some("_") {
            self.i += 1;
            Ok(None)
        } else {
            Ok(Some(self.bytes()?))
        }
    }
    fn ltt(&mut self) -> Result<LocalTimeType, String> {
        let off: i32 = self.int()?;
        let dst: u8 = self.int()?;
        let name = self.opt_name()?;
        LocalTimeType::new(off, dst != 0, name.as_deref()).map_err(|e| format!("invalid local time type in line: {:?}", e))
    }
    fn day(&mut self) -> Result<RuleDay, String> {
        let s = self.next()?;
        let bad = || format!("bad day {}", s);
        if let Some(n) = s.strip_prefix('J') {
            Ok(RuleDay::Julian1WithoutLeap(Julian1WithoutLeap::new(n.parse().map_err(|_| bad())?).map_err(|_| bad())?))
        } else if let Some(n) = s.strip_prefix('Z') {
            Ok(RuleDay::Julian0WithLeap(Julian0WithLeap::new(n.parse().map_err(|_| bad())?).map_err(|_| bad())?))
        } else if let Some(n) = s.strip_prefix('M') {
            let p: Vec<&str> = n.split('.').collect();
            if p.len() != 3 {
                return Err(bad());
            }
            Ok(RuleDay::MonthWeekDay(
                MonthWeekDay::new(p[0].parse().map_err(|_| bad())?, p[1].parse().map_err(|_| bad())?, p[2].parse().map_err(|_| bad())?).map_err(|_| bad())?,
            ))
        } else {
            Err(bad())
        }
    }
    fn raw_rule(&mut self) -> Result<RawRule, String> {
        let std = self.ltt()?;
        let dst = self.ltt()?;
        let start = self.day()?;
        let start_time = self.int()?;
        let end = self.day()?;
        let end_time = self.int()?;
        Ok(RawRule { std, dst, start, start_time, end, end_time })
    }
    fn rule(&mut self) -> Result<Option<TransitionRule>, String> {
        match self.next()? {
            "N" => Ok(None),
            "F" => Ok(Some(TransitionRule::Fixed(self.ltt()?))),
            "A" => {
                let r = self.raw_rule()?;
                let a = r.build().map_err(|e| format!("rule in line is not accepted: {:?}", e))?;
                Ok(Some(TransitionRule::Alternate(a)))
            }
            t => Err(format!("bad rule tag {}", t)),
        }
    }
    fn zone(&mut self) -> Result<RawZone, String> {
        self.expect("T")?;
        let n: usize = self.int()?;
        let mut transitions = Vec::new();
        for _ in 0..n {
            let t: i64 = self.int()?;
            let i: usize = self.int()?;
            transitions.push((t, i));
        }
        self.expect("Y")?;
        let n: usize = self.int()?;
        let mut types = Vec::new();
        for _ in 0..n {
            types.push(self.ltt()?);
        }
        self.expect("L")?;
        let n: usize = self.int()?;
        let mut leaps = Vec::new();
        for _ in 0..n {
            let t: i64 = self.int()?;
            let c: i32 = self.int()?;
            leaps.push((t, c));
        }
        self.expect("R")?;
        let rule = self.rule()?;
        Ok(RawZone { transitions, types, leaps, rule })
    }
    fn fields(&mut self) -> Result<zones::Fields, String> {
        Ok((self.int()?, self.int()?, self.int()?, self.int()?, self.int()?, self.int()?, self.int()?))
    }
}

fn unhex(h: &str) -> Result<Vec<u8>, String> {
    if h.len() % 2 != 0 {
        return Err("odd hex".into());
    }
    (0..h.len() / 2).map(|i| u8::from_str_radix(&h[2 * i..2 * i + 2], 16).map_err(|_| "bad hex".to_string())).collect()
}

fn exec_line(out: &mut impl Write, line: &str, cur: &mut Option<Built>) -> Result<(), String> {
    let lhs = line.split(" => ").next().unwrap_or("");
    let mut t = Toks { t: lhs.split(' ').filter(|s| !s.is_empty()).collect(), i: 0 };
    let fam = t.next()?;
    match fam {
        "gmtime" => crate::cal::gmtime_line(out, t.int()?, t.int()?),
        "utcnew" => crate::cal::utcnew_line(out, t.fields()?),
        "utctn" => crate::cal::utctn_line(out, t.int()?),
        "fmt" => {
            let f = t.fields()?;
            crate::cal::fmt_line(out, f, t.int()?)
        }
        "dtnew" => {
            let f = t.fields()?;
            crate::cal::dtnew_line(out, f, t.ltt()?)
        }
        "dtfromlocal" => {
            let u = t.int()?;
            let ns = t.int()?;
            crate::cal::dtfromlocal_line(out, u, ns, t.ltt()?)
        }
        "rulenew" => {
            let r = t.raw_rule()?;
            zones::rulenew_line(out, &r);
        }
        "zonenew" => {
            let z = t.zone()?;
            zones::zonenew_line(out, &z);
        }
        "zone" => {
            let z = t.zone()?;
            let b = Built::from_raw(z);
            zones::zone_line(out, &b);
            *cur = Some(b);
        }
        "lookup" | "dtfrom" | "dtfromtn" | "find" | "findn" | "project" | "utcproject" => {
            let b = cur.as_ref().ok_or("no current zone")?;
            let z = b.zref().map_err(|e| format!("current zone is not accepted: {:?}", e))?;
            match fam {
                "lookup" => zones::lookup_line(out, &z, t.int()?),
                "dtfrom" => zones::dtfrom_line(out, &z, t.int()?, t.int()?),
                "dtfromtn" => zones::dtfromtn_line(out, &z, t.int()?),
                "project" => {
                    let f = t.fields()?;
                    zones::project_line(out, &z, f, t.ltt()?);
                }
                "utcproject" => zones::utcproject_line(out, &z, t.fields()?),
                "find" => {
                    zones::find_line(out, &z, t.fields()?);
                }
                _ => {
                    let n: usize = t.int()?;
                    let f = t.fields()?;
                    t.expect("stale")?;
                    let s = t.fields()?;
                    zones::findn_line(out, &z, n, f, s);
                }
            }
        }
        #[cfg(feature = "alloc")]
        "tzif" => {
            let b = t.bytes()?;
            crate::parse::tzif_line(out, "tzif", "", &b);
        }
        #[cfg(feature = "alloc")]
        "tzifbad" => {
            let cls = t.next()?.to_string();
            let b = t.bytes()?;
            crate::parse::tzif_line(out, "tzifbad", &cls, &b);
        }
        #[cfg(feature = "alloc")]
        "tzifgen" => {
            // `tzifgen <ver> Z <zone> B x<hex>`: keep the prefix, re-run the decoder
            let pos = lhs.rfind(" x").ok_or("no bytes")?;
            let b = unhex(&lhs[pos + 2..])?;
            crate::parse::tzif_line(out, "tzifgen", lhs["tzifgen ".len()..pos].trim(), &b);
        }
        #[cfg(feature = "alloc")]
        "tzfooter" => {
            let v: u8 = t.int()?;
            let b = t.bytes()?;
            crate::parse::tzfooter_line(out, v, &b);
        }
        #[cfg(feature = "alloc")]
        "resolve" => {
            t.expect("D")?;
            let n: usize = t.int()?;
            let mut dirs = Vec::new();
            for _ in 0..n {
                dirs.push(String::from_utf8(t.bytes()?).map_err(|_| "dir not utf-8")?);
            }
            t.expect("F")?;
            let n: usize = t.int()?;
            let mut files = Vec::new();
            for _ in 0..n {
                let p = String::from_utf8(t.bytes()?).map_err(|_| "path not utf-8")?;
                files.push((p, t.bytes()?));
            }
            let warm = if t.peek() == Some("W") {
                t.expect("W")?;
                Some(String::from_utf8(t.bytes()?).map_err(|_| "warm-up tz not utf-8")?)
            } else {
                None
            };
            t.expect("S")?;
            let tz = String::from_utf8(t.bytes()?).map_err(|_| "tz not utf-8")?;
            let d: Vec<&str> = dirs.iter().map(|s| s.as_str()).collect();
            crate::parse::resolve_line_after(out, &d, &files, warm.as_deref(), &tz);
        }
        _ => return Err(format!("family {} cannot be re-executed", fam)),
    }
    Ok(())
}

pub fn exec(out: &mut impl Write) {
    let stdin = std::io::stdin();
    let mut cur: Option<Built> = None;
    for line in stdin.lock().lines() {
        let line = match line {
            Ok(l) => l,
            Err(_) => break,
        };
        let line = line.trim();
        if line.is_empty() || line.starts_with('#') {
            continue;
        }
        if let Err(e) = exec_line(out, line, &mut cur) {
            writeln!(out, "# EXEC-ERROR {} :: {}", e, line).unwrap();
        }
    }
}
