//! C07 hostile streams (with the counting allocator) and the C15 thread runner.

use crate::common::*;
use crate::parse::*;
use crate::zones::{self, mk_zone, ZoneOpts};
use std::alloc::{GlobalAlloc, Layout, System};
use std::io::Write;
use std::sync::atomic::{AtomicUsize, Ordering};
use tz::TimeZone;

pub struct Counting;

static CURRENT: AtomicUsize = AtomicUsize::new(0);
static PEAK: AtomicUsize = AtomicUsize::new(0);
static LARGEST: AtomicUsize = AtomicUsize::new(0);

unsafe impl GlobalAlloc for Counting {
    unsafe fn alloc(&self, l: Layout) -> *mut u8 {
        let p = System.alloc(l);
        if !p.is_null() {
            let c = CURRENT.fetch_add(l.size(), Ordering::Relaxed) + l.size();
            PEAK.fetch_max(c, Ordering::Relaxed);
            LARGEST.fetch_max(l.size(), Ordering::Relaxed);
        }
        p
    }
    unsafe fn dealloc(&self, p: *mut u8, l: Layout) {
        CURRENT.fetch_sub(l.size(), Ordering::Relaxed);
        System.dealloc(p, l)
    }
    unsafe fn realloc(&self, p: *mut u8, l: Layout, new_size: usize) -> *mut u8 {
        let q = System.realloc(p, l, new_size);
        if !q.is_null() {
            if new_size >= l.size() {
                let c = CURRENT.fetch_add(new_size - l.size(), Ordering::Relaxed) + (new_size - l.size());
                PEAK.fetch_max(c, Ordering::Relaxed);
                LARGEST.fetch_max(new_size, Ordering::Relaxed);
            } else {
                CURRENT.fetch_sub(l.size() - new_size, Ordering::Relaxed);
            }
        }
        q
    }
}

#[global_allocator]
static GLOBAL: Counting = Counting;

/// parse under the counting allocator; returns (answer, bytes allocated above the baseline at peak)
pub fn measured_parse(bytes: &[u8]) -> (String, usize) {
    let base = CURRENT.load(Ordering::Relaxed);
    PEAK.store(base, Ordering::Relaxed);
    LARGEST.store(0, Ordering::Relaxed);
    let b2 = bytes.to_vec();
    let base2 = CURRENT.load(Ordering::Relaxed);
    PEAK.store(base2, Ordering::Relaxed);
    let res = std::panic::catch_unwind(move || TimeZone::from_tz_data(&b2).map(|z| zone_text(&z)));
    let peak = PEAK.load(Ordering::Relaxed).saturating_sub(base2);
    let ans = match res {
        Err(_) => "PANIC".to_string(),
        Ok(Ok(s)) => s,
        Ok(Err(e)) => err_text(&e),
    };
    (ans, peak)
}

/// the allocation bound claimed by C07: a small multiple of the input plus a constant.
/// (Transition = 16 bytes for 5 or 9 input bytes, LocalTimeType = 16 for 6, LeapSecond = 16 for 8 or 12;
/// the answer text built by the harness is included in the measurement, hence the generous factor.)
pub fn alloc_bound(len: usize) -> usize {
    1024 + 16 * len
}

fn hostile_file(out: &mut impl Write, bytes: &[u8], stats: &mut (usize, usize, usize)) {
    let (ans, peak) = measured_parse(bytes);
    stats.0 += 1;
    if peak > stats.1 {
        stats.1 = peak;
    }
    if peak > alloc_bound(bytes.len()) {
        stats.2 += 1;
        writeln!(out, "# ALLOC-VIOLATION len={} peak={} bytes=x{}", bytes.len(), peak, hex(&bytes[..bytes.len().min(200)])).unwrap();
    }
    writeln!(out, "tzif x{} => {}", hex(bytes), ans).unwrap();
}

pub fn hostile(out: &mut impl Write, rng: &mut Rng, root: &str, thorough: bool) {
    let files = list_files(root);
    let mut stats = (0usize, 0usize, 0usize);
    let step = if thorough { 1 } else { 12 };
    let counts: [u32; 9] = [0, 1, 2, 0x7FFF_FFFF, 0xFFFF_FFFF, 65536, 255, 256, 0x0100_0000];
    for (k, path) in files.iter().enumerate() {
        if k % step != 0 {
            continue;
        }
        let good = match std::fs::read(path) {
            Ok(b) if b.starts_with(b"TZif") => b,
            _ => continue,
        };
        let h2 = if good[4] == 0 { 0 } else { second_header_offset(&good) };
        // every header count of both headers <- hostile values, file length, another count
        for h in [0usize, h2] {
            if h + 44 > good.len() {
                continue;
            }
            for field in 0..6 {
                let mut vals: Vec<u32> = counts.to_vec();
                vals.push(good.len() as u32);
                vals.push(u32::from_be_bytes(good[h + 20 + 4 * ((field + 1) % 6)..h + 24 + 4 * ((field + 1) % 6)].try_into().unwrap()));
                for v in vals {
                    let mut b = good.clone();
                    b[h + 20 + 4 * field..h + 24 + 4 * field].copy_from_slice(&v.to_be_bytes());
                    hostile_file(out, &b, &mut stats);
                }
            }
        }
        // transition times <- i64 extremes (first and last of the 64-bit block)
        if good[4] != 0 && h2 + 44 <= good.len() {
            let time = u32::from_be_bytes(good[h2 + 32..h2 + 36].try_into().unwrap()) as usize;
            if time > 0 {
                for (pos, val) in [(0usize, i64::MIN), (time - 1, i64::MAX), (time - 1, i64::MIN), (0, i64::MAX)] {
                    let mut b = good.clone();
                    b[h2 + 44 + 8 * pos..h2 + 52 + 8 * pos].copy_from_slice(&val.to_be_bytes());
                    hostile_file(out, &b, &mut stats);
                }
            }
        }
        // random byte flips
        for _ in 0..(if thorough { 20 } else { 6 }) {
            let mut b = good.clone();
            for _ in 0..rng.range(1, 4) {
                let i = rng.below(b.len() as u64) as usize;
                b[i] = rng.below(256) as u8;
            }
            hostile_file(out, &b, &mut stats);
        }
    }
    // every truncation point of small files
    let small: Vec<&String> = files.iter().filter(|p| std::fs::metadata(p).map(|m| m.len() < 700).unwrap_or(false)).collect();
    let n_small = if thorough { 40 } else { 4 };
    for path in small.iter().take(n_small) {
        let good = std::fs::read(path).unwrap();
        for cut in 0..good.len() {
            hostile_file(out, &good[..cut], &mut stats);
        }
    }
    // generated files, every truncation point of a few, and hostile counts
    for i in 0..(if thorough { 400 } else { 40 }) {
        let opts = ZoneOpts { wild_offsets: true, leaps: true, deletions: true, max_transitions: 6, extreme_times: true };
        if let Some(b) = mk_zone(rng, &opts) {
            let ver = *rng.pick(&[0u8, b'2', b'3']);
            if let Some((bytes, _)) = write_tzif(rng, &b.raw, ver) {
                if i % 4 == 0 {
                    for cut in 0..bytes.len() {
                        hostile_file(out, &bytes[..cut], &mut stats);
                    }
                } else {
                    for _ in 0..8 {
                        let mut m = bytes.clone();
                        let k = rng.below(m.len() as u64) as usize;
                        m[k] = rng.below(256) as u8;
                        hostile_file(out, &m, &mut stats);
                    }
                }
            }
        }
    }
    // pure noise and near-headers
    for _ in 0..(if thorough { 20_000 } else { 2_000 }) {
        let len = rng.range(0, 120) as usize;
        let mut b: Vec<u8> = (0..len).map(|_| rng.below(256) as u8).collect();
        if rng.chance(2, 3) && b.len() >= 5 {
            b[..4].copy_from_slice(b"TZif");
            b[4] = *rng.pick(&[0u8, b'2', b'3', b'4']);
        }
        hostile_file(out, &b, &mut stats);
    }
    writeln!(out, "# ALLOC-STATS files={} max_peak={} violations={}", stats.0, stats.1, stats.2).unwrap();

    // TZ strings: raw bytes (non-UTF-8 included), long digit runs, deep nesting of optional parts
    let n = if thorough { 200_000 } else { 20_000 };
    for i in 0..n {
        let len = rng.range(0, 40) as usize;
        let s: Vec<u8> = match i % 5 {
            0 => (0..len).map(|_| rng.below(256) as u8).collect(),
            1 => {
                let mut s = b"AAA".to_vec();
                s.extend(std::iter::repeat(b'9').take(rng.range(1, 400) as usize));
                s
            }
            2 => {
                let mut s = gen_tz(rng, true).into_bytes();
                let k = rng.below(s.len() as u64 + 1) as usize;
                s.splice(k..k, std::iter::repeat(*rng.pick(b"09:<>+-,/.JM")).take(rng.range(1, 60) as usize));
                s
            }
            3 => {
                let mut s = gen_tz(rng, true).into_bytes();
                let k = rng.below(s.len() as u64 + 1) as usize;
                s.insert(k, *rng.pick(&[0xC0u8, 0xFF, 0x80, 0xE2, 0xF4, 0xED]));
                s
            }
            _ => format!("{}{}", gen_tz(rng, false), "18446744073709551616").into_bytes(),
        };
        tzfooter_line(out, if i % 2 == 0 { 50 } else { 51 }, &s);
    }
}

/// C15: the `core` corpus generated concurrently by N threads must equal the sequential run, and
/// concurrent queries on shared zones must equal the sequential answers.
/// C15 ambient probe: public entry points that use the DEFAULT settings (real file system), each preceded by a marker
/// the tracer can see (an `open` of a path that does not exist)
#[cfg(feature = "std")]
pub fn ambient(out: &mut impl Write) {
    let mark = |name: &str| {
        let _ = std::fs::metadata(format!("/VERIF-MARK/{}", name));
    };
    let names = ["UTC", "Europe/Paris", "Demo/Zone", "HST10", "EST5EDT,M3.2.0,M11.1.0", ":Nope/Zone", ":UTC", "localtime", "<+03>-3", " UTC0 ", "right/UTC", "x"];
    for n in names {
        mark(&format!("from_posix_tz {}", n.replace(' ', "_")));
        let r = match tz::TimeZone::from_posix_tz(n) {
            Ok(_) => "ok".to_string(),
            Err(_) => "err".to_string(),
        };
        writeln!(out, "# ambient from_posix_tz {:?} {}", n, r).unwrap();
    }
    mark("local");
    let _ = tz::TimeZone::local();
    mark("now");
    let _ = tz::UtcDateTime::now();
    if let Ok(z) = tz::TimeZone::from_posix_tz("EST5EDT,M3.2.0,M11.1.0") {
        let _ = tz::DateTime::now(z.as_ref());
    }
    mark("settings");
    for d in tz::TimeZoneSettings::DEFAULT_DIRECTORIES {
        writeln!(out, "# ambient default-directory {}", d).unwrap();
    }
    mark("end");
}

pub fn threads(out: &mut impl Write, seed: u64, thorough: bool) {
    let n_threads = 16;
    // the thorough tier repeats the private part with other seeds, one round after the other (each thread keeps its
    // whole stream in memory for the comparison, so a round stays at the quick size)
    let rounds: u64 = if thorough { 4 } else { 1 };
    for round in 0..rounds {
    let gen = move || -> Vec<u8> {
        let mut buf: Vec<u8> = Vec::new();
        let mut rng = Rng::new(seed ^ 0xC15 ^ (round << 32));
        crate::cal::utctn(&mut buf, &mut rng, false);
        crate::cal::fmt(&mut buf, &mut rng, false);
        zones::lttnew(&mut buf, &mut rng, false);
        zones::rule_lookups(&mut buf, &mut rng, false);
        zones::zone_lookups(&mut buf, &mut rng, false, false);
        // every thread keeps its whole stream in memory for the comparison: the per-thread corpus stays at the
        // quick size in both tiers (the thorough tier widens the shared-zone part below)
        zones::find_family(&mut buf, &mut rng, false, true);
        crate::parse::tzif_generated(&mut buf, &mut rng, false);
        // name resolution through private settings values and a thread-private virtual file system: the same name
        // present in several directories with different contents
        crate::parse::resolve(&mut buf, &mut rng, false);
        buf
    };
    let alone = gen();
    let handles: Vec<_> = (0..n_threads).map(|_| std::thread::spawn(gen)).collect();
    let mut diff: Option<(usize, usize)> = None;
    for (i, h) in handles.into_iter().enumerate() {
        match h.join() {
            Ok(b) => {
                if b != alone {
                    let line = alone.iter().zip(b.iter()).take_while(|(x, y)| x == y).filter(|(x, _)| **x == b'\n').count();
                    diff.get_or_insert((i, line));
                }
            }
            Err(_) => {
                diff.get_or_insert((i, usize::MAX));
            }
        }
    }
    out.write_all(&alone).unwrap();
    let n_lines = alone.iter().filter(|&&c| c == b'\n').count();
    let ans = match diff {
        None => "identical".to_string(),
        Some((t, l)) => format!("DIFF thread={} line={}", t, l),
    };
    writeln!(out, "threads {} {} private => {}", n_threads, n_lines, ans).unwrap();
    }

    // shared zones
    let mut rng = Rng::new(seed ^ 0x5EED);
    let mut zonesv: Vec<(TimeZone, Vec<i64>, Vec<zones::Fields>)> = Vec::new();
    let opts = ZoneOpts { wild_offsets: false, leaps: true, deletions: true, max_transitions: 30, extreme_times: false };
    while zonesv.len() < (if thorough { 200 } else { 40 }) {
        if let Some(b) = mk_zone(&mut rng, &opts) {
            let instants = zones::zone_instants(&mut rng, &b, 20);
            let locals = zones::zone_local_times(&mut rng, &b, false);
            let z = TimeZone::new(b.transitions.clone(), b.raw.types.clone(), b.leaps.clone(), b.raw.rule).unwrap();
            zonesv.push((z, instants, locals));
        }
    }
    let shared: &'static Vec<(TimeZone, Vec<i64>, Vec<zones::Fields>)> = Box::leak(Box::new(zonesv));
    let work = move |rot: usize| -> Vec<u8> {
        let mut buf: Vec<u8> = Vec::new();
        let n = shared.len();
        let mut parts: Vec<Vec<u8>> = vec![Vec::new(); n];
        // each thread walks the shared zones in a different order
        for k in 0..n {
            let i = (k + rot) % n;
            let (z, instants, locals) = &shared[i];
            let zr = z.as_ref();
            let mut p: Vec<u8> = Vec::new();
            for &u in instants {
                zones::lookup_line(&mut p, &zr, u);
                zones::dtfrom_line(&mut p, &zr, u, 7);
            }
            for f in locals {
                zones::find_line(&mut p, &zr, *f);
            }
            parts[i] = p;
        }
        for p in parts {
            buf.extend(p);
        }
        buf
    };
    let alone = work(0);
    let handles: Vec<_> = (0..n_threads).map(|t| std::thread::spawn(move || work(t * 3 + 1))).collect();
    let mut ok = true;
    for h in handles {
        match h.join() {
            Ok(b) => ok &= b == alone,
            Err(_) => ok = false,
        }
    }
    // the sequential answers go to the model as well
    for (i, (z, _, _)) in shared.iter().enumerate() {
        let _ = (i, z);
    }
    let n_lines = alone.iter().filter(|&&c| c == b'\n').count();
    writeln!(out, "threads {} {} shared => {}", n_threads, n_lines, if ok { "identical" } else { "DIFF" }).unwrap();
}
