//! Zone-based families: lttnew, rulenew, zonenew, zone + lookup / dtfrom / find / findn.
//! All go through `TimeZoneRef` (available without `alloc`); with `alloc` the owned constructor and
//! the allocating search are exercised as well.

use crate::cal::{MAX_UNIX_TIME, MIN_UNIX_TIME};
use crate::common::*;
use std::io::Write;
use tz::datetime::{DateTime, FoundDateTimeKind, UtcDateTime};
use tz::timezone::{AlternateTime, LeapSecond, LocalTimeType, RuleDay, TimeZoneRef, Transition, TransitionRule};

pub struct Built {
    pub raw: RawZone,
    pub transitions: Vec<Transition>,
    pub leaps: Vec<LeapSecond>,
}

impl Built {
    pub fn from_raw(raw: RawZone) -> Self {
        let transitions = raw.transitions.iter().map(|&(t, i)| Transition::new(t, i)).collect();
        let leaps = raw.leaps.iter().map(|&(t, c)| LeapSecond::new(t, c)).collect();
        Built { raw, transitions, leaps }
    }
    pub fn zref(&self) -> Result<TimeZoneRef<'_>, tz::TzError> {
        TimeZoneRef::new(&self.transitions, &self.raw.types, &self.leaps, &self.raw.rule)
    }
}

// ---------------------------------------------------------------- lttnew

pub fn lttnew(out: &mut impl Write, rng: &mut Rng, thorough: bool) {
    let mut names: Vec<Option<Vec<u8>>> = vec![None, Some(vec![]), Some(b"A".to_vec()), Some(b"AB".to_vec()), Some(b"ABC".to_vec()), Some(b"ABCDEFG".to_vec()), Some(b"ABCDEFGH".to_vec()), Some(b"+-0".to_vec()), Some(b"a_c".to_vec()), Some(b"ab c".to_vec()), Some(vec![0xC3, 0xA9, b'a', b'b']), Some(vec![b'A', 0, b'C']), Some(b"<AB>".to_vec()), Some(b"UTC+1".to_vec()), Some(b"-03".to_vec()), Some(b"+1030".to_vec())];
    // every single byte at each position of a 3-byte name (exhaustive for the character class)
    for b in 0..=255u8 {
        names.push(Some(vec![b, b'B', b'C']));
        names.push(Some(vec![b'A', b'B', b]));
        if thorough {
            names.push(Some(vec![b'A', b, b'C', b'D', b'E', b'F', b'G']));
        }
    }
    for len in 0..=10usize {
        names.push(Some(vec![b'x'; len]));
    }
    let offs = [0i32, 1, -1, i32::MAX, i32::MIN, i32::MIN + 1];
    for (k, name) in names.iter().enumerate() {
        for off in [offs[k % offs.len()], offs[(k + 1) % offs.len()], i32::MIN] {
            let dst = k % 2 == 0;
            let n2 = name.clone();
            let ans = guarded(move || match LocalTimeType::new(off, dst, n2.as_deref()) {
                Ok(l) => {
                    // accepted values must read back what was given
                    let back = l.time_zone_designation().as_bytes().to_vec();
                    let want = n2.clone().unwrap_or_default();
                    if l.ut_offset() != off || l.is_dst() != dst || back != want {
                        "READBACK-MISMATCH".into()
                    } else {
                        "ok".into()
                    }
                }
                Err(e) => ltt_err_text(&e),
            });
            let nt = match name {
                None => "_".to_string(),
                Some(b) => format!("x{}", hex(b)),
            };
            writeln!(out, "lttnew {} {} {} => {}", off, dst as u8, nt, ans).unwrap();
        }
    }
    let _ = rng;
}

// ---------------------------------------------------------------- rules

pub struct RawRule {
    pub std: LocalTimeType,
    pub dst: LocalTimeType,
    pub start: RuleDay,
    pub start_time: i32,
    pub end: RuleDay,
    pub end_time: i32,
}

impl RawRule {
    pub fn text(&self) -> String {
        format!("{} {} {} {} {} {}", ltt_text(&self.std), ltt_text(&self.dst), day_text(&self.start), self.start_time, day_text(&self.end), self.end_time)
    }
    pub fn build(&self) -> Result<AlternateTime, tz::error::timezone::TransitionRuleError> {
        AlternateTime::new(self.std, self.dst, self.start, self.start_time, self.end, self.end_time)
    }
}

pub fn rulenew_line(out: &mut impl Write, r: &RawRule) -> bool {
    let res = r.build();
    let ok = res.is_ok();
    let ans = match res {
        Ok(a) => {
            if a.std() != &r.std || a.dst() != &r.dst || a.dst_start() != &r.start || a.dst_end() != &r.end || a.dst_start_time() != r.start_time || a.dst_end_time() != r.end_time {
                "READBACK-MISMATCH".to_string()
            } else {
                "ok".to_string()
            }
        }
        Err(e) => rule_err_text(&e),
    };
    writeln!(out, "rulenew {} => {}", r.text(), ans).unwrap();
    ok
}

/// a random rule, biased towards the interesting region (near-ties, adjacent months, week 5, February)
pub fn mk_raw_rule(rng: &mut Rng) -> RawRule {
    if rng.chance(1, 5) {
        return mk_special_rule(rng);
    }
    let std_off = mk_rule_offset(rng);
    let dst_off = if rng.chance(2, 3) { (std_off as i64 + *rng.pick(&[3600i64, 1800, 7200, -3600, 0])).clamp(-89999, 93599) as i32 } else { mk_rule_offset(rng) };
    let std = mk_ltt_flag(rng, std_off, false);
    let dst = mk_ltt_flag(rng, dst_off, true);
    let start = mk_day(rng);
    let end = if rng.chance(1, 3) { near_day(rng, &start) } else { mk_day(rng) };
    RawRule { std, dst, start, start_time: mk_rule_time(rng), end, end_time: mk_rule_time(rng) }
}

/// legal but unusual rule shapes: transitions pushed across New Year by extreme day times and offsets beyond
/// 24 h, all-year DST written as `0/0,J365/(24h + x)`, zero-length and one-second DST periods
pub fn mk_special_rule(rng: &mut Rng) -> RawRule {
    use tz::timezone::{Julian0WithLeap, Julian1WithoutLeap, MonthWeekDay};
    let j1 = |n: u16| RuleDay::Julian1WithoutLeap(Julian1WithoutLeap::new(n).unwrap());
    let j0 = |n: u16| RuleDay::Julian0WithLeap(Julian0WithLeap::new(n).unwrap());
    match rng.below(4) {
        3 => {
            // both transitions pushed into the neighbouring calendar year: early-January days with negative day
            // times (the whole DST period lies in late December of the year before), or late-December days with
            // day times beyond 24 h
            let std_off = (rng.range(-12, 12) * 3600) as i32;
            let saving = *rng.pick(&[3600i32, 1800, 7200]);
            let early = rng.chance(1, 2);
            let day = |rng: &mut Rng| {
                if early {
                    match rng.below(3) {
                        0 => j1(rng.range(1, 3) as u16),
                        1 => j0(rng.range(0, 2) as u16),
                        _ => RuleDay::MonthWeekDay(MonthWeekDay::new(1, 1, rng.range(0, 6) as u8).unwrap()),
                    }
                } else {
                    match rng.below(3) {
                        0 => j1(rng.range(363, 365) as u16),
                        1 => j0(rng.range(363, 365) as u16),
                        _ => RuleDay::MonthWeekDay(MonthWeekDay::new(12, 5, rng.range(0, 6) as u8).unwrap()),
                    }
                }
            };
            let (a, b) = (rng.range(30, 166), rng.range(30, 166));
            let (lo, hi) = (a.min(b), a.max(b) + 1);
            let (st, et) = if early { (-hi * 3600, -lo * 3600) } else { (lo * 3600, hi * 3600) };
            let (st, et) = if rng.chance(1, 5) { (et, st) } else { (st, et) };
            RawRule { std: mk_ltt_flag(rng, std_off, false), dst: mk_ltt_flag(rng, std_off + saving, true), start: day(rng), start_time: st as i32, end: day(rng), end_time: et as i32 }
        }
        0 => {
            // year-end straddle
            let big = *rng.pick(&[-89999i32, -89100, -88200, -86401, 86401, 90000, 91800, 93599]);
            let std_off = if rng.chance(2, 3) { big } else { mk_rule_offset(rng) };
            let dst_off = (std_off as i64 + *rng.pick(&[1800i64, 3600, 900, -3600])).clamp(-89999, 93599) as i32;
            let edge_day = |rng: &mut Rng| match rng.below(8) {
                0 => j1(1),
                1 => j0(0),
                2 => j1(365),
                3 => j0(365),
                4 => j0(364),
                5 => RuleDay::MonthWeekDay(MonthWeekDay::new(1, 1, rng.range(0, 6) as u8).unwrap()),
                6 => RuleDay::MonthWeekDay(MonthWeekDay::new(12, 5, rng.range(0, 6) as u8).unwrap()),
                _ => j1(*rng.pick(&[2u16, 3, 363, 364])),
            };
            let edge_time = |rng: &mut Rng| {
                let sign = if rng.chance(1, 2) { 1 } else { -1 };
                sign * match rng.below(4) {
                    0 => 604799,
                    1 => 604800 - rng.range(1, 7200) as i32,
                    2 => 167 * 3600 + 1800,
                    _ => 604800 - rng.range(1, 90_000) as i32,
                }
            };
            let (start, end) = if rng.chance(1, 2) { (edge_day(rng), mk_day(rng)) } else { (mk_day(rng), edge_day(rng)) };
            let (st, et) = match rng.below(3) {
                0 => (edge_time(rng), mk_rule_time(rng)),
                1 => (mk_rule_time(rng), edge_time(rng)),
                _ => (edge_time(rng), edge_time(rng)),
            };
            RawRule { std: mk_ltt_flag(rng, std_off, false), dst: mk_ltt_flag(rng, dst_off, true), start, start_time: st, end, end_time: et }
        }
        1 => {
            // all-year DST idiom and its neighbours
            let std_off = (rng.range(-12, 12) * 3600) as i32;
            let saving = *rng.pick(&[1800i32, 3600, 7200, 10800, 900]);
            let start = if rng.chance(1, 2) { j0(0) } else { j1(1) };
            let et = 86400 + *rng.pick(&[3600, saving, 0, 7200, saving - 1, saving + 1]);
            RawRule { std: mk_ltt_flag(rng, std_off, false), dst: mk_ltt_flag(rng, std_off + saving, true), start, start_time: *rng.pick(&[0, 0, 0, 1, 3600]), end: j1(365), end_time: et }
        }
        _ => {
            // DST of length 0 or 1 s: the same day, times differing by the saving
            let std_off = mk_rule_offset(rng).clamp(-80000, 80000);
            let saving = *rng.pick(&[3600i32, 1800, 7200, -3600]);
            let day = mk_day(rng);
            let st = (rng.range(-160, 160) * 3600) as i32;
            let et = st + saving + *rng.pick(&[0, 0, 1, -1]);
            RawRule { std: mk_ltt_flag(rng, std_off, false), dst: mk_ltt_flag(rng, std_off + saving, true), start: day, start_time: st, end: day, end_time: et }
        }
    }
}

fn mk_ltt_flag(rng: &mut Rng, off: i32, dst: bool) -> LocalTimeType {
    let name = mk_name(rng);
    LocalTimeType::new(off, dst, Some(&name)).unwrap()
}

/// a day notation close to `d` in the calendar (same or adjacent month / day-of-year)
fn near_day(rng: &mut Rng, d: &RuleDay) -> RuleDay {
    use tz::timezone::{Julian0WithLeap, Julian1WithoutLeap, MonthWeekDay};
    let doy: i64 = match d {
        RuleDay::Julian1WithoutLeap(j) => j.get() as i64 - 1,
        RuleDay::Julian0WithLeap(j) => j.get() as i64,
        RuleDay::MonthWeekDay(m) => [0, 31, 59, 90, 120, 151, 181, 212, 243, 273, 304, 334][m.month() as usize - 1] + (m.week() as i64 - 1) * 7 + 3,
    };
    let target = (doy + rng.range(-16, 16)).rem_euclid(365);
    match rng.below(3) {
        0 => RuleDay::Julian1WithoutLeap(Julian1WithoutLeap::new((target + 1).clamp(1, 365) as u16).unwrap()),
        1 => RuleDay::Julian0WithLeap(Julian0WithLeap::new(target.clamp(0, 365) as u16).unwrap()),
        _ => {
            let cum = [0i64, 31, 59, 90, 120, 151, 181, 212, 243, 273, 304, 334];
            let m = (0..12).rev().find(|&i| cum[i] <= target).unwrap();
            let w = (((target - cum[m]) / 7) + 1).clamp(1, 5) as u8;
            RuleDay::MonthWeekDay(MonthWeekDay::new(m as u8 + 1, w, rng.range(0, 6) as u8).unwrap())
        }
    }
}

pub fn rulenew(out: &mut impl Write, rng: &mut Rng, thorough: bool) {
    let n = if thorough { 600_000 } else { 60_000 };
    for i in 0..n {
        let mut r = mk_raw_rule(rng);
        // limits of the three range tests
        match i % 40 {
            0 => { let o = *rng.pick(&[-90000, -90001, 93600, 93601, i32::MAX, i32::MIN + 1]); r.std = mk_ltt_flag(rng, o, false) }
            1 => { let o = *rng.pick(&[-90000, -90001, 93600, 93601, i32::MAX, i32::MIN + 1]); r.dst = mk_ltt_flag(rng, o, true) }
            2 => r.start_time = *rng.pick(&[604800, -604800, 604801, i32::MAX, i32::MIN, -604799, 604799]),
            3 => r.end_time = *rng.pick(&[604800, -604800, 604801, i32::MAX, i32::MIN, -604799, 604799]),
            _ => {}
        }
        rulenew_line(out, &r);
    }
}

/// C11 exhaustive family: all 1151 x 1151 day pairs, times chosen so that
/// d = (start_time - std) - (end_time - dst) hits the given values.
pub fn all_days() -> Vec<RuleDay> {
    use tz::timezone::{Julian0WithLeap, Julian1WithoutLeap, MonthWeekDay};
    let mut v = Vec::new();
    for n in 1..=365u16 {
        v.push(RuleDay::Julian1WithoutLeap(Julian1WithoutLeap::new(n).unwrap()));
    }
    for n in 0..=365u16 {
        v.push(RuleDay::Julian0WithLeap(Julian0WithLeap::new(n).unwrap()));
    }
    for m in 1..=12u8 {
        for w in 1..=5u8 {
            for d in 0..=6u8 {
                v.push(RuleDay::MonthWeekDay(MonthWeekDay::new(m, w, d).unwrap()));
            }
        }
    }
    v
}

/// realise a wanted difference `d = (start_time - std) - (end_time - dst)` as (start_time, end_time, std, dst):
/// with offsets 0 / 0 while both times stay strictly inside one week, else with the times at their limits and
/// the rest carried by the offsets (legal range -24:59:59 ..= 25:59:59)
pub fn realise_d(d: i64) -> Option<(i32, i32, i32, i32)> {
    let half = d / 2;
    let st = half;
    let et = half - d;
    if st.abs() < 604800 && et.abs() < 604800 {
        return Some((st as i32, et as i32, 0, 0));
    }
    let sign = if d > 0 { 1 } else { -1 };
    let rest = d - sign * 2 * 604799;
    // rest = dst - std
    let (std, dst) = if sign > 0 { (-(rest / 2), rest - rest / 2) } else { (-(rest - rest / 2), rest / 2) };
    let ok = |o: i64| o > -90000 && o < 93600;
    if ok(std) && ok(dst) {
        Some(((sign * 604799) as i32, (-sign * 604799) as i32, std as i32, dst as i32))
    } else {
        None
    }
}

pub fn rulenew_pairs(out: &mut impl Write, rng: &mut Rng, thorough: bool) {
    let days = all_days();
    let mk = |std: i32, dst: i32| (LocalTimeType::new(std, false, Some(b"STD")).unwrap(), LocalTimeType::new(dst, true, Some(b"DST")).unwrap());
    let line = |out: &mut dyn Write, a: &RuleDay, b: &RuleDay, r: (i32, i32, i32, i32)| {
        let (s, d) = mk(r.2, r.3);
        let mut sink: Vec<u8> = Vec::new();
        rulenew_line(&mut sink, &RawRule { std: s, dst: d, start: *a, start_time: r.0, end: *b, end_time: r.1 });
        out.write_all(&sink).unwrap();
    };
    // the largest |d| the argument ranges allow
    const D_MAX: i64 = 2 * 604799 + 89999 + 93599;
    let mut ds: Vec<i64> = Vec::new();
    if thorough {
        for k in -16..=16i64 {
            for e in [-1i64, 0, 1] {
                ds.push(k * 86400 + e);
            }
        }
        ds.extend_from_slice(&[D_MAX, -D_MAX, D_MAX - 1, -D_MAX + 1]);
    }
    for (i, a) in days.iter().enumerate() {
        for (j, b) in days.iter().enumerate() {
            if thorough {
                // every breakpoint of d for a rotating third of the pairs; three random ones for all
                if (i + j) % 3 == 0 {
                    for &d in &ds {
                        if let Some(r) = realise_d(d) {
                            line(out, a, b, r);
                        }
                    }
                }
            }
            let picks = if thorough { 3 } else { 1 };
            for _ in 0..picks {
                let d = match rng.below(8) {
                    0 => *rng.pick(&[D_MAX, -D_MAX, 14 * 86400, -14 * 86400, 14 * 86400 + 1, -14 * 86400 - 1, 15 * 86400, -15 * 86400]),
                    1 => rng.range(-D_MAX, D_MAX),
                    _ => rng.range(-16, 16) * 86400 + rng.range(-1, 1),
                };
                if let Some(r) = realise_d(d) {
                    line(out, a, b, r);
                }
            }
        }
    }
}

// ---------------------------------------------------------------- rule lookups (C04)

fn is_leap(y: i64) -> bool {
    y % 400 == 0 || (y % 4 == 0 && y % 100 != 0)
}

/// days from 1970-01-01 to January 1 of year y (harness-side, only used to *aim* the samples)
fn jan1(y: i64) -> i64 {
    let p = y - 1;
    365 * (y - 1970) + (p.div_euclid(4) - p.div_euclid(100) + p.div_euclid(400)) - 477
}

fn rule_day_number(d: &RuleDay, y: i64) -> i64 {
    match d {
        RuleDay::Julian1WithoutLeap(j) => {
            let n = j.get() as i64;
            jan1(y) + n - 1 + if is_leap(y) && n >= 60 { 1 } else { 0 }
        }
        RuleDay::Julian0WithLeap(j) => jan1(y) + j.get() as i64,
        RuleDay::MonthWeekDay(m) => {
            let cum = [0i64, 31, 59, 90, 120, 151, 181, 212, 243, 273, 304, 334];
            let dim = [31i64, 28, 31, 30, 31, 30, 31, 31, 30, 31, 30, 31];
            let mi = m.month() as usize - 1;
            let leap_add = if is_leap(y) && mi >= 2 { 1 } else { 0 };
            let first = jan1(y) + cum[mi] + leap_add;
            let len = dim[mi] + if is_leap(y) && mi == 1 { 1 } else { 0 };
            let wd_first = (4 + first).rem_euclid(7);
            let mut dom = 1 + (m.week_day() as i64 - wd_first).rem_euclid(7) + (m.week() as i64 - 1) * 7;
            if dom > len {
                dom -= 7;
            }
            first + dom - 1
        }
    }
}

pub fn rule_instants(a: &AlternateTime, y: i64) -> (i64, i64) {
    let s = rule_day_number(a.dst_start(), y) * 86400 + a.dst_start_time() as i64 - a.std().ut_offset() as i64;
    let e = rule_day_number(a.dst_end(), y) * 86400 + a.dst_end_time() as i64 - a.dst().ut_offset() as i64;
    (s, e)
}

pub fn lookup_line(out: &mut impl Write, z: &TimeZoneRef<'_>, u: i64) {
    let z = *z;
    let ans = guarded(move || match z.find_local_time_type(u) {
        Ok(l) => ltt_text(l),
        Err(e) => err_text(&e),
    });
    writeln!(out, "lookup {} => {}", u, ans).unwrap();
}

pub fn zone_line(out: &mut impl Write, b: &Built) -> bool {
    let ok = b.zref().is_ok();
    let ans = match b.zref() {
        Ok(_) => "ok".to_string(),
        Err(e) => err_text(&e),
    };
    writeln!(out, "zone {} => {}", b.raw.text(), ans).unwrap();
    ok
}

/// rule-only zone for an accepted rule
pub fn rule_zone(a: AlternateTime) -> Built {
    Built::from_raw(RawZone { transitions: vec![], types: vec![*a.std(), *a.dst()], leaps: vec![], rule: Some(TransitionRule::Alternate(a)) })
}

pub fn rule_year_set(rng: &mut Rng, thorough: bool) -> Vec<i64> {
    let mut ys: Vec<i64> = vec![1969, 1970, 1971, 1972, 1999, 2000, 2001, 2023, 2024, 2025, 2026, 2027, 2028, 2037, 2038, 2099, 2100, 2101, 2399, 2400, 2401, -1, 0, 1, i32::MIN as i64 + 2, i32::MIN as i64 + 3, i32::MAX as i64 - 3, i32::MAX as i64 - 2];
    let extra = if thorough { 40 } else { 6 };
    for _ in 0..extra {
        ys.push(rng.range(1600, 2800));
    }
    if thorough {
        ys.extend(2000..2400);
    }
    ys
}

pub fn rule_lookups(out: &mut impl Write, rng: &mut Rng, thorough: bool) {
    let n_rules = if thorough { 3000 } else { 400 };
    let mut made = 0;
    let mut tries = 0;
    while made < n_rules && tries < n_rules * 50 {
        tries += 1;
        let r = mk_raw_rule(rng);
        let a = match r.build() {
            Ok(a) => a,
            Err(_) => continue,
        };
        made += 1;
        let b = rule_zone(a);
        if !zone_line(out, &b) {
            continue;
        }
        let z = b.zref().unwrap();
        let years = if thorough && made % 10 == 0 { rule_year_set(rng, true) } else { rule_year_set(rng, false) };
        for y in years {
            let (s, e) = rule_instants(&a, y);
            for t in [s, e, jan1(y) * 86400] {
                for d in [-1i64, 0, 1] {
                    lookup_line(out, &z, t.saturating_add(d));
                }
            }
            lookup_line(out, &z, jan1(y) * 86400 + rng.range(0, 366 * 86400));
        }
        // year-guard edges
        for t in [MIN_UNIX_TIME, MIN_UNIX_TIME + 2 * 366 * 86400, MAX_UNIX_TIME, MAX_UNIX_TIME - 2 * 366 * 86400, i64::MIN, i64::MAX] {
            lookup_line(out, &z, t);
        }
    }
}

// ---------------------------------------------------------------- zone generator

fn mk_offset(rng: &mut Rng, wild: bool) -> i32 {
    match rng.below(10) {
        0 if wild => *rng.pick(&[i32::MAX, i32::MIN + 1, 1_000_000_000, -1_000_000_000]),
        1 if wild => rng.range(i32::MIN as i64 + 1, i32::MAX as i64) as i32,
        2 => rng.range(-100_000, 100_000) as i32,
        3 => *rng.pick(&[0, 1, -1, 59, -59]),
        _ => (rng.range(-56, 56) * 900) as i32,
    }
}

pub fn mk_leaps(rng: &mut Rng, deletions: bool) -> Vec<(i64, i32)> {
    let n = rng.below(7) as usize;
    let mut v = Vec::new();
    let min_gap = 28 * 86400 - 1;
    let mut t: i64 = match rng.below(4) {
        0 => 0,
        1 => rng.range(0, 1000),
        _ => rng.range(0, 2_000_000_000),
    };
    let mut c: i32 = if deletions && rng.chance(1, 3) { -1 } else { 1 };
    for _ in 0..n {
        v.push((t, c));
        t = t.saturating_add(match rng.below(3) {
            0 => min_gap,
            1 => min_gap + rng.range(0, 3),
            _ => rng.range(min_gap, 100_000_000),
        });
        c += if deletions && rng.chance(1, 3) { -1 } else { 1 };
    }
    v
}

pub struct ZoneOpts {
    pub wild_offsets: bool,
    pub leaps: bool,
    pub deletions: bool,
    pub max_transitions: u64,
    pub extreme_times: bool,
}

/// a valid zone (retries until the constructor accepts); None after too many tries
pub fn mk_zone(rng: &mut Rng, o: &ZoneOpts) -> Option<Built> {
    for _ in 0..50 {
        let n_types = rng.range(1, 6) as usize;
        let mut types: Vec<LocalTimeType> = (0..n_types).map(|_| { let off = mk_offset(rng, o.wild_offsets); mk_ltt(rng, off) }).collect();
        let rule_kind = rng.below(4); // 0 none, 1 fixed, 2/3 alternate
        let mut rule: Option<TransitionRule> = None;
        let mut alt: Option<AlternateTime> = None;
        if rule_kind >= 2 {
            let mut tries = 0;
            while alt.is_none() && tries < 30 {
                tries += 1;
                if let Ok(a) = mk_raw_rule(rng).build() {
                    alt = Some(a);
                }
            }
            if let Some(a) = alt {
                // the rule's two types are part of the zone
                types[0] = *a.std();
                if types.len() < 2 {
                    types.push(*a.dst());
                } else {
                    types[1] = *a.dst();
                }
                rule = Some(TransitionRule::Alternate(a));
            }
        }
        let n_tr = rng.below(o.max_transitions + 1) as usize;
        let mut transitions: Vec<(i64, usize)> = Vec::new();
        let mut t: i64 = match rng.below(8) {
            0 if o.extreme_times => i64::MIN,
            1 if o.extreme_times => i64::MIN + 1,
            2 if o.extreme_times => MIN_UNIX_TIME - 10,
            3 => rng.range(-3_000_000_000, 0),
            _ => rng.range(-1_000_000_000, 2_000_000_000),
        };
        for _ in 0..n_tr {
            transitions.push((t, rng.below(types.len() as u64) as usize));
            let gap = match rng.below(8) {
                0 => 1,
                1 => 2,
                2 => rng.range(1, 120),
                3 => rng.range(1, 7200),
                4 => rng.range(3600, 200_000),
                5 => rng.range(1, 1_000_000_000),
                _ => rng.range(10_000_000, 40_000_000),
            };
            t = match t.checked_add(gap) {
                Some(v) => v,
                None => break,
            };
        }
        if o.extreme_times && n_tr > 0 && rng.chance(1, 10) {
            // a last transition at the far end
            let last_t = *rng.pick(&[i64::MAX, i64::MAX - 1, MAX_UNIX_TIME + 10]);
            if transitions.last().map(|x| x.0 < last_t).unwrap_or(true) {
                transitions.push((last_t, rng.below(types.len() as u64) as usize));
            }
        }
        let leaps = if o.leaps && rng.chance(1, 2) { mk_leaps(rng, o.deletions) } else { vec![] };
        if rule_kind == 1 {
            // fixed rule equal to the last transition's type (or any type when there is none)
            let ti = transitions.last().map(|x| x.1).unwrap_or(0);
            rule = Some(TransitionRule::Fixed(types[ti]));
        }
        let mut transitions = transitions;
        if let Some(a) = &alt {
            // like slim TZif files: the last table transition is one of the rule's own instants
            if leaps.is_empty() && rng.chance(1, 2) {
                let y = match transitions.last() {
                    Some(x) => (1970 + x.0.div_euclid(31_556_952)).clamp(1800, 2400) + rng.range(1, 3),
                    None => rng.range(1950, 2050),
                };
                let (s_i, e_i) = rule_instants(a, y);
                let (t_j, idx) = if rng.chance(1, 2) { (s_i, 1usize) } else { (e_i, 0usize) };
                transitions.retain(|x| x.0 < t_j);
                transitions.push((t_j, idx));
            }
        }
        let mut raw = RawZone { transitions, types, leaps, rule };
        // with an alternate rule the last transition must carry the rule's type at that instant: try both
        if alt.is_some() && !raw.transitions.is_empty() {
            let last = raw.transitions.len() - 1;
            let mut ok = false;
            for idx in [0usize, 1] {
                raw.transitions[last].1 = idx;
                let b = Built::from_raw(raw.clone());
                if b.zref().is_ok() {
                    ok = true;
                    break;
                }
            }
            if !ok {
                continue;
            }
        }
        let b = Built::from_raw(raw);
        if b.zref().is_ok() {
            return Some(b);
        }
    }
    None
}

/// instants worth looking up in a zone: every transition and leap record -1/0/+1 on both scales, ends, random
pub fn zone_instants(rng: &mut Rng, b: &Built, per_zone_random: usize) -> Vec<i64> {
    let mut v: Vec<i64> = Vec::new();
    let max_corr: i64 = b.raw.leaps.iter().map(|x| x.1.abs() as i64).max().unwrap_or(0) + 1;
    for (t, _) in &b.raw.transitions {
        for d in -max_corr - 1..=max_corr + 1 {
            v.push(t.saturating_add(d));
        }
    }
    for (t, c) in &b.raw.leaps {
        for d in -3..=3i64 {
            v.push(t.saturating_add(d));
            v.push(t.saturating_sub(*c as i64).saturating_add(d));
        }
    }
    v.extend_from_slice(&[i64::MIN, i64::MIN + 1, i64::MAX, i64::MAX - 1, 0, MIN_UNIX_TIME, MAX_UNIX_TIME, MIN_UNIX_TIME - 1, MAX_UNIX_TIME + 1]);
    let (lo, hi) = match (b.raw.transitions.first(), b.raw.transitions.last()) {
        (Some(a), Some(z)) => (a.0.saturating_sub(100_000), z.0.saturating_add(100_000_000)),
        _ => (-2_000_000_000, 4_000_000_000),
    };
    for _ in 0..per_zone_random {
        v.push(rng.range(lo, hi));
    }
    if let Some(TransitionRule::Alternate(a)) = &b.raw.rule {
        let base_year = b.raw.transitions.last().map(|x| (1970 + x.0 / 31_556_952).clamp(-2_000_000_000, 2_000_000_000)).unwrap_or(2000);
        for y in [base_year - 1, base_year, base_year + 1, base_year + 2, 2024, 2400] {
            let (s, e) = rule_instants(a, y);
            for t in [s, e] {
                for d in [-1i64, 0, 1] {
                    v.push(t.saturating_add(d));
                }
            }
        }
    }
    v
}

pub fn dtfrom_line(out: &mut impl Write, z: &TimeZoneRef<'_>, u: i64, ns: u32) {
    let z = *z;
    let ans = guarded(move || match DateTime::from_timespec(u, ns, z) {
        Ok(d) => {
            // projection of the result into the same zone must reproduce it; UTC projection agrees too
            match d.project(z) {
                Ok(p) if dt_text(&p) == dt_text(&d) => {}
                _ => return "PROJECT-MISMATCH".into(),
            }
            dt_text(&d)
        }
        Err(e) => err_text(&e),
    });
    writeln!(out, "dtfrom {} {} => {}", u, ns, ans).unwrap();
}

/// `project`: a date-time built from fields (second 60 allowed) under some local time type, projected into the zone
pub fn project_line(out: &mut impl Write, z: &TimeZoneRef<'_>, f: Fields, l: LocalTimeType) {
    let z = *z;
    let ans = guarded(move || match DateTime::new(f.0, f.1, f.2, f.3, f.4, f.5, f.6, l).and_then(|d| d.project(z)) {
        Ok(p) => dt_text(&p),
        Err(e) => err_text(&e),
    });
    writeln!(out, "project {} {} => {}", ftext(&f), ltt_text(&l), ans).unwrap();
}

/// `utcproject`: the same from a UTC date-time
pub fn utcproject_line(out: &mut impl Write, z: &TimeZoneRef<'_>, f: Fields) {
    let z = *z;
    let ans = guarded(move || match UtcDateTime::new(f.0, f.1, f.2, f.3, f.4, f.5, f.6).and_then(|d| d.project(z)) {
        Ok(p) => dt_text(&p),
        Err(e) => err_text(&e),
    });
    writeln!(out, "utcproject {} => {}", ftext(&f), ans).unwrap();
}

/// projections worth making at instant `u`: from UTC, from each of the zone's own types (the same offset as the
/// target is the interesting case) and from a foreign offset; ordinary seconds and second 60
pub fn project_lines(out: &mut impl Write, rng: &mut Rng, b: &Built, z: &TimeZoneRef<'_>, u: i64) {
    let mut srcs: Vec<LocalTimeType> = vec![LocalTimeType::utc()];
    srcs.extend(b.raw.types.iter().take(3).copied());
    srcs.push(LocalTimeType::with_ut_offset(*rng.pick(&[1, -1, 3600, -34200, 50400])).unwrap());
    for l in srcs {
        let off = l.ut_offset() as i64;
        for leap60 in [false, true] {
            let mut local = match u.checked_add(off) {
                Some(x) => x,
                None => continue,
            };
            if leap60 {
                // the last second of the minute before `u`, written as second 60: it denotes `u` itself when
                // `u` starts a minute, else the start of the next minute
                local = match local.checked_sub(local.rem_euclid(60) + 1) {
                    Some(x) => x,
                    None => continue,
                };
            }
            if let Some(mut f) = fields_of(local, leap60) {
                f.6 = (u as u32) % 1_000_000_000;
                project_line(out, z, f, l);
                if off == 0 {
                    utcproject_line(out, z, f);
                }
            }
        }
    }
}

pub fn dtfromtn_line(out: &mut impl Write, z: &TimeZoneRef<'_>, total: i128) {
    let z = *z;
    let ans = guarded(move || match DateTime::from_total_nanoseconds(total, z) {
        Ok(d) => format!("{} TN {}", dt_text(&d), d.total_nanoseconds()),
        Err(e) => err_text(&e),
    });
    writeln!(out, "dtfromtn {} => {}", total, ans).unwrap();
}

pub fn zone_lookups(out: &mut impl Write, rng: &mut Rng, thorough: bool, leaps_only: bool) {
    let n = if thorough { 6000 } else { 700 };
    let opts = ZoneOpts { wild_offsets: true, leaps: true, deletions: true, max_transitions: 40, extreme_times: true };
    for i in 0..n {
        let b = match mk_zone(rng, &opts) {
            Some(b) => b,
            None => continue,
        };
        if leaps_only && b.raw.leaps.is_empty() {
            continue;
        }
        if !zone_line(out, &b) {
            continue;
        }
        let z = b.zref().unwrap();
        for u in zone_instants(rng, &b, 12) {
            lookup_line(out, &z, u);
            if i % 3 == 0 {
                dtfrom_line(out, &z, u, (u as u32) % 1_000_000_007 % 1_000_000_001);
            }
            if i % 3 == 2 && u % 4 == 0 {
                project_lines(out, rng, &b, &z, u);
            }
            if i % 3 == 1 {
                // total nanoseconds around the instant: the last nanosecond of the previous second,
                // the exact second, one nanosecond later (negative totals exercise the floor)
                let base = u as i128 * 1_000_000_000;
                for d in [-1i128, 0, 1, 999_999_999] {
                    dtfromtn_line(out, &z, base + d);
                }
            }
        }
    }
}

/// C12 probe zones: `[(T -> 1), (i64::MAX -> 0)]` with a leap table; lookups reveal `toCount u >= T`,
/// the search reveals `toUtc T`.
pub fn leap_probes(out: &mut impl Write, rng: &mut Rng, thorough: bool) {
    let n = if thorough { 4000 } else { 500 };
    let t0 = LocalTimeType::new(0, false, Some(b"AAA")).unwrap();
    let t1 = LocalTimeType::new(3600, true, Some(b"BBB")).unwrap();
    for _ in 0..n {
        let leaps = mk_leaps(rng, true);
        if leaps.is_empty() {
            continue;
        }
        let mut cands: Vec<i64> = Vec::new();
        for (t, c) in &leaps {
            for d in -2..=2i64 {
                cands.push(t + d);
                cands.push(t - *c as i64 + d);
            }
        }
        for &tt in &cands {
            let raw = RawZone { transitions: vec![(tt, 1), (i64::MAX, 0)], types: vec![t0, t1], leaps: leaps.clone(), rule: None };
            let b = Built::from_raw(raw);
            if !zone_line(out, &b) {
                continue;
            }
            let z = b.zref().unwrap();
            for d in -4..=4i64 {
                lookup_line(out, &z, tt + d);
            }
            // the search reports the transition instant: local times inside the one-hour gap
            if let Ok(c) = UtcDateTime::from_timespec(tt + 1800, 0) {
                find_line(out, &z, (c.year(), c.month(), c.month_day(), c.hour(), c.minute(), c.second(), 0));
            }
        }
    }
}

// ---------------------------------------------------------------- zonenew (C13)

pub fn zonenew_line(out: &mut impl Write, raw: &RawZone) {
    let b = Built::from_raw(raw.clone());
    let r1 = match b.zref() {
        Ok(_) => "ok".to_string(),
        Err(e) => err_text(&e),
    };
    #[cfg(feature = "alloc")]
    let r2 = {
        let raw2 = raw.clone();
        guarded(move || match tz::TimeZone::new(
            raw2.transitions.iter().map(|&(t, i)| Transition::new(t, i)).collect(),
            raw2.types.clone(),
            raw2.leaps.iter().map(|&(t, c)| LeapSecond::new(t, c)).collect(),
            raw2.rule,
        ) {
            Ok(z) => {
                // the owned zone hands back exactly the parts
                let r = z.as_ref();
                if r.transitions().len() != raw2.transitions.len() || r.local_time_types() != &raw2.types[..] || r.leap_seconds().len() != raw2.leaps.len() || r.extra_rule() != &raw2.rule {
                    "READBACK-MISMATCH".into()
                } else {
                    "ok".into()
                }
            }
            Err(e) => err_text(&e),
        })
    };
    #[cfg(not(feature = "alloc"))]
    let r2 = r1.clone();
    writeln!(out, "zonenew {} => {} {}", raw.text(), r1, r2).unwrap();
}

pub fn zonenew(out: &mut impl Write, rng: &mut Rng, thorough: bool) {
    let n = if thorough { 20_000 } else { 2_500 };
    let opts = ZoneOpts { wild_offsets: true, leaps: true, deletions: true, max_transitions: 12, extreme_times: true };
    for _ in 0..n {
        let b = match mk_zone(rng, &opts) {
            Some(b) => b,
            None => continue,
        };
        let raw = b.raw.clone();
        zonenew_line(out, &raw);
        // every kind of single defect named by the property
        // (1) no types
        let mut r = raw.clone();
        r.types.clear();
        zonenew_line(out, &r);
        // (2) one index out of range
        if !raw.transitions.is_empty() {
            let mut r = raw.clone();
            let k = rng.below(r.transitions.len() as u64) as usize;
            r.transitions[k].1 = r.types.len() + rng.below(3) as usize;
            zonenew_line(out, &r);
            // (3) equal / inverted times
            if raw.transitions.len() >= 2 {
                let mut r = raw.clone();
                let k = rng.below((r.transitions.len() - 1) as u64) as usize;
                r.transitions[k + 1].0 = if rng.chance(1, 2) { r.transitions[k].0 } else { r.transitions[k].0.saturating_sub(rng.range(1, 100)) };
                zonenew_line(out, &r);
            }
        }
        // (3b) a pair whose difference does not fit i64 (inverted), and the nearest pairs whose difference does
        if rng.chance(1, 4) {
            for (a, b2) in [(i64::MAX, i64::MIN), (i64::MAX, -2), (i64::MAX, -1), (1, i64::MIN), (0, i64::MIN), (i64::MIN, i64::MAX), (-2, i64::MAX)] {
                let r = RawZone { transitions: vec![(a, 0), (b2, 0)], rule: None, ..raw.clone() };
                zonenew_line(out, &r);
            }
            for l2 in [(i64::MIN, 2), (i64::MIN + 1, 2), (-i64::MAX, 0), (i64::MIN, 0)] {
                let r = RawZone { leaps: vec![(1, 1), l2], ..raw.clone() };
                zonenew_line(out, &r);
                let r = RawZone { leaps: vec![(i64::MAX, 1), l2], ..raw.clone() };
                zonenew_line(out, &r);
            }
        }
        // (4) leap table defects
        let mut r = raw.clone();
        if r.leaps.is_empty() {
            r.leaps = vec![(rng.range(0, 1000), 1)];
        }
        {
            let mut r1 = r.clone();
            r1.leaps[0].1 = *rng.pick(&[0, 2, -2, i32::MIN, i32::MAX]);
            zonenew_line(out, &r1);
            let mut r2 = r.clone();
            r2.leaps[0].0 = *rng.pick(&[-1, i64::MIN, -1000]);
            zonenew_line(out, &r2);
            let mut r3 = r.clone();
            let (t, c) = *r3.leaps.last().unwrap();
            let gap = 28 * 86400 - 1;
            match rng.below(5) {
                0 => r3.leaps.push((t.saturating_add(gap - 1), c + 1)), // one second short
                1 => r3.leaps.push((t.saturating_add(gap), c)),         // step 0
                2 => r3.leaps.push((t.saturating_add(gap), c.saturating_add(2))), // step 2
                3 => r3.leaps.push((t.saturating_add(gap), c - 1)),     // valid: exactly the minimum, step -1
                _ => r3.leaps.push((i64::MAX, c + 1)),                  // valid or saturating difference
            }
            zonenew_line(out, &r3);
            // saturating corner: far apart records with extreme corrections
            let r4 = RawZone { leaps: vec![(0, 1), (i64::MAX, 2)], ..raw.clone() };
            zonenew_line(out, &r4);
            let r5 = RawZone { leaps: vec![(0, -1), (i64::MAX, i32::MAX)], ..raw.clone() };
            zonenew_line(out, &r5);
        }
        // (5) rule differing from the last type in exactly one of offset / flag / designation
        if let Some((_, ti)) = raw.transitions.last() {
            let last = raw.types[*ti];
            // designation differing in exactly one position (first, middle, last) or by one character in length
            if let Some(n) = name_of(&last) {
                let mut alts: Vec<Vec<u8>> = Vec::new();
                for pos in [0usize, n.len() / 2, n.len() - 1] {
                    let mut m = n.clone();
                    m[pos] = if m[pos] == b'Q' { b'R' } else { b'Q' };
                    alts.push(m);
                }
                if n.len() < 7 {
                    let mut m = n.clone();
                    m.push(b'X');
                    alts.push(m);
                }
                if n.len() > 3 {
                    let mut m = n.clone();
                    m.pop();
                    alts.push(m);
                }
                for m in alts {
                    let mut r = raw.clone();
                    r.rule = Some(TransitionRule::Fixed(LocalTimeType::new(last.ut_offset(), last.is_dst(), Some(&m)).unwrap()));
                    zonenew_line(out, &r);
                }
            }
            let variants = [
                LocalTimeType::new(last.ut_offset().wrapping_add(1).max(i32::MIN + 1), last.is_dst(), name_of(&last).as_deref()).unwrap(),
                LocalTimeType::new(last.ut_offset(), !last.is_dst(), name_of(&last).as_deref()).unwrap(),
                LocalTimeType::new(last.ut_offset(), last.is_dst(), Some(b"QQQ")).unwrap(),
                LocalTimeType::new(last.ut_offset(), last.is_dst(), None).unwrap(),
                last,
            ];
            for v in variants {
                let mut r = raw.clone();
                r.rule = Some(TransitionRule::Fixed(v));
                zonenew_line(out, &r);
            }
        }
        // (6) alternate rule on a zone whose last transition cannot be evaluated
        if let Some(TransitionRule::Alternate(_)) = raw.rule {
            let mut r = raw.clone();
            if let Some(l) = r.transitions.last_mut() {
                l.0 = *rng.pick(&[i64::MAX, MAX_UNIX_TIME + 1, MAX_UNIX_TIME]);
            }
            zonenew_line(out, &r);
            let mut r = raw.clone();
            r.transitions = vec![(*rng.pick(&[i64::MIN, MIN_UNIX_TIME - 1, MIN_UNIX_TIME]), 0)];
            zonenew_line(out, &r);
        }
    }
}

fn name_of(l: &LocalTimeType) -> Option<Vec<u8>> {
    let s = l.time_zone_designation();
    if s.is_empty() {
        None
    } else {
        Some(s.as_bytes().to_vec())
    }
}

// ---------------------------------------------------------------- find / findn (C05, C06, C14, C17)

pub type Fields = (i32, u8, u8, u8, u8, u8, u32);

fn ftext(f: &Fields) -> String {
    format!("{} {} {} {} {} {} {}", f.0, f.1, f.2, f.3, f.4, f.5, f.6)
}

#[allow(dead_code)]
const BIG: usize = 64;

/// result list of the search, through the allocating entry point when available
fn search(z: &TimeZoneRef<'_>, f: Fields) -> Result<(Vec<FoundDateTimeKind>, Option<DateTime>, Option<DateTime>, Option<DateTime>), tz::TzError> {
    #[cfg(feature = "alloc")]
    {
        let l = DateTime::find(f.0, f.1, f.2, f.3, f.4, f.5, f.6, *z)?;
        let (u, e, x) = (l.unique(), l.earliest(), l.latest());
        Ok((l.into_inner(), u, e, x))
    }
    #[cfg(not(feature = "alloc"))]
    {
        let mut buf = [None; BIG];
        let l = DateTime::find_n(&mut buf, f.0, f.1, f.2, f.3, f.4, f.5, f.6, *z)?;
        assert!(l.is_exhaustive());
        let (u, e, x) = (l.unique(), l.earliest(), l.latest());
        Ok((l.data().iter().flatten().copied().collect(), u, e, x))
    }
}

pub fn find_line(out: &mut impl Write, z: &TimeZoneRef<'_>, f: Fields) -> usize {
    let z2 = *z;
    let mut k = 0usize;
    let ans = match std::panic::catch_unwind(move || search(&z2, f)) {
        Err(_) => "PANIC".to_string(),
        Ok(Err(e)) => err_text(&e),
        Ok(Ok((l, u, e, x))) => {
            k = l.len();
            let mut s = format!("[ {}", l.len());
            for it in &l {
                s.push(' ');
                s.push_str(&found_text(it));
            }
            s.push_str(" ]");
            // companion for the implementation-vs-implementation oracle (C05): the forward lookup's own answer at
            // every valid result
            let mut own = String::new();
            let mut first = true;
            for it in &l {
                if let FoundDateTimeKind::Normal(d) = it {
                    let zz = *z;
                    let ut = d.unix_time();
                    let a = guarded(move || match zz.find_local_time_type(ut) {
                        Ok(t) => ltt_text(t),
                        Err(e) => err_text(&e),
                    });
                    own.push_str(if first { " " } else { " | " });
                    own.push_str(&a);
                    first = false;
                }
            }
            format!("{} U {} E {} X {} ## L{}", s, opt_dt_text(&u), opt_dt_text(&e), opt_dt_text(&x), own)
        }
    };
    writeln!(out, "find {} => {}", ftext(&f), ans).unwrap();
    k
}

pub fn findn_line(out: &mut impl Write, z: &TimeZoneRef<'_>, n: usize, f: Fields, stale: Fields) {
    let z = *z;
    let ans = guarded(move || {
        let mut buf: Vec<Option<FoundDateTimeKind>> = vec![None; n];
        // fill with stale entries from a previous, different search
        if DateTime::find_n(&mut buf, stale.0, stale.1, stale.2, stale.3, stale.4, stale.5, stale.6, z).is_err() {
            for x in buf.iter_mut() {
                *x = None;
            }
        }
        let entries = |buf: &[Option<FoundDateTimeKind>]| {
            let mut s = String::new();
            for it in buf {
                s.push(' ');
                match it {
                    None => s.push('-'),
                    Some(k) => s.push_str(&found_text(k)),
                }
            }
            s
        };
        let stale_text = entries(&buf);
        let res = match DateTime::find_n(&mut buf, f.0, f.1, f.2, f.3, f.4, f.5, f.6, z) {
            Ok(l) => Ok((l.count(), l.is_exhaustive(), l.data().len(), l.unique(), l.earliest(), l.latest())),
            Err(e) => Err(e),
        };
        let main = match res {
            Err(e) => err_text(&e),
            Ok((count, ex, dl, u, e, x)) => {
                format!("{} {} {} B{} U {} E {} X {}", count, ex as u8, dl, entries(&buf), opt_dt_text(&u), opt_dt_text(&e), opt_dt_text(&x))
            }
        };
        // companion answers for the implementation-vs-implementation oracle (C17):
        // the allocating search on the same input, and the buffer as the stale search left it
        let mut sink: Vec<u8> = Vec::new();
        find_line(&mut sink, &z, f);
        let fl = String::from_utf8_lossy(&sink);
        let fans = fl.trim_end().splitn(2, " => ").nth(1).unwrap_or("").split(" ## L").next().unwrap_or("").to_string();
        format!("{} ## F {} ## S{}", main, fans, stale_text)
    });
    writeln!(out, "findn {} {} stale {} => {}", n, ftext(&f), ftext(&stale), ans).unwrap();
}

pub fn fields_of(t: i64, second60: bool) -> Option<Fields> {
    let c = UtcDateTime::from_timespec(t, 0).ok()?;
    let mut f = (c.year(), c.month(), c.month_day(), c.hour(), c.minute(), c.second(), 0u32);
    if second60 && f.5 == 59 {
        f.5 = 60;
    }
    Some(f)
}

/// UTC instant denoted by a count-scale time (the last leap record at or before it applies)
pub fn count_to_utc(leaps: &[(i64, i32)], t: i64) -> i64 {
    let mut c = 0i64;
    for (l, k) in leaps {
        if *l <= t {
            c = *k as i64;
        }
    }
    t.saturating_sub(c)
}

/// local times worth searching in a zone: around every transition (table and rule) +- each offset
pub fn zone_local_times(rng: &mut Rng, b: &Built, dense: bool) -> Vec<Fields> {
    let mut v = Vec::new();
    let offs: Vec<i64> = b.raw.types.iter().map(|t| t.ut_offset() as i64).collect();
    let mut instants: Vec<i64> = b.raw.transitions.iter().map(|x| x.0).collect();
    if !b.raw.leaps.is_empty() {
        // table times are on the count scale: the UTC instants they denote, and the leap records themselves
        let extra: Vec<i64> = instants.iter().map(|&t| count_to_utc(&b.raw.leaps, t)).collect();
        instants.extend(extra);
        if b.raw.transitions.len() <= 4 {
            for (l, c) in &b.raw.leaps {
                instants.push(l.saturating_sub(*c as i64));
            }
        }
        instants.sort();
        instants.dedup();
    }
    if let Some(TransitionRule::Alternate(a)) = &b.raw.rule {
        let base_year = b.raw.transitions.last().map(|x| (1970 + x.0 / 31_556_952).clamp(-2_000_000_000, 2_000_000_000)).unwrap_or(2000);
        for y in [base_year - 1, base_year, base_year + 1, base_year + 2] {
            let (s, e) = rule_instants(a, y);
            instants.push(s);
            instants.push(e);
            instants.push(jan1(y) * 86400);
        }
    }
    for &t in &instants {
        for &o in &offs {
            let ds: &[i64] = if dense { &[-2, -1, 0, 1, 2] } else { &[-1, 0, 1] };
            for &d in ds {
                if let Some(local) = t.checked_add(o).and_then(|x| x.checked_add(d)) {
                    if let Some(f) = fields_of(local, false) {
                        v.push(f);
                    }
                }
            }
        }
        if let Some(f) = fields_of(t.saturating_add(rng.range(-100_000, 100_000)), rng.chance(1, 4)) {
            v.push(f);
        }
    }
    for _ in 0..4 {
        if let Some(f) = fields_of(rng.range(-3_000_000_000, 5_000_000_000), rng.chance(1, 4)) {
            v.push((f.0, f.1, f.2, f.3, f.4, f.5, rng.below(1_000_000_000) as u32));
        }
    }
    // invalid fields and range ends
    v.push((2000, 2, 30, 0, 0, 0, 0));
    v.push((2000, 1, 1, 0, 0, 0, 1_000_000_000));
    v.push((i32::MAX, 12, 31, 23, 59, 60, 0));
    v.push((i32::MIN, 1, 1, 0, 0, 0, 0));
    v.push((i32::MAX - 1, 6, 1, 0, 0, 0, 0));
    v.push((i32::MIN + 1, 6, 1, 0, 0, 0, 0));
    v
}

/// a table transition (gap or overlap) within its own width of a leap record, so that a leap second lies between
/// the candidate instants of a search near the transition
pub fn leapgap_zone(rng: &mut Rng) -> Option<Built> {
    for _ in 0..20 {
        let leaps = mk_leaps(rng, true);
        if leaps.is_empty() {
            continue;
        }
        let (l, _) = *rng.pick(&leaps);
        let w = *rng.pick(&[1i64, 2, 5, 60, 1800, 3600, 7200]);
        let a = (rng.range(-48, 48) * 900) as i32;
        let (o1, o2) = match rng.below(8) {
            // offsets at the ends of i32: the candidate instants lie 68 years from the searched fields
            0 => (0, -i32::MAX),
            1 => (i32::MAX, 0),
            2 => (-i32::MAX, -i32::MAX + w as i32),
            3 | 4 => (a + w as i32, a),
            _ => (a, a + w as i32),
        };
        let k = match rng.below(6) {
            0 => 0,
            1 => 1,
            2 => w - 1,
            3 => w,
            4 => -1,
            _ => rng.range(0, w + 1),
        };
        let t = l - k;
        let t1 = LocalTimeType::new(o1, false, Some(b"AAA")).ok()?;
        let t2 = LocalTimeType::new(o2, true, Some(b"BBB")).ok()?;
        let rule = match rng.below(3) {
            0 => None,
            _ => Some(TransitionRule::Fixed(t2)),
        };
        let rule = if rng.chance(1, 2) { rule } else { Some(TransitionRule::Fixed(t1)).filter(|_| rule.is_some()) };
        let third = if rule == Some(TransitionRule::Fixed(t2)) { None } else { Some((t + rng.range(1, 40_000_000), 0usize)) };
        let mut transitions = vec![(t - 20_000_000, 0), (t, 1)];
        transitions.extend(third);
        let raw = RawZone { transitions, types: vec![t1, t2], leaps, rule };
        let b = Built::from_raw(raw);
        if b.zref().is_ok() {
            return Some(b);
        }
    }
    None
}

pub fn find_family(out: &mut impl Write, rng: &mut Rng, thorough: bool, with_findn: bool) {
    let n = if thorough { 5000 } else { 600 };
    for i in 0..n {
        // small gaps and large offsets so that several candidates overlap
        let opts = ZoneOpts { wild_offsets: i % 7 == 0, leaps: i % 3 == 0, deletions: i % 6 == 0, max_transitions: if i % 5 == 0 { 30 } else { 8 }, extreme_times: i % 11 == 0 };
        let b = if i % 8 == 3 { leapgap_zone(rng) } else { mk_zone(rng, &opts) };
        let b = match b {
            Some(b) => b,
            None => continue,
        };
        if !zone_line(out, &b) {
            continue;
        }
        let z = b.zref().unwrap();
        let locals = zone_local_times(rng, &b, thorough || i % 8 == 3);
        // sibling zone: the same rule days and times with both offsets shifted, searched right afterwards at the
        // same local times (a result that depended on the previous search would show here)
        let sibling: Option<Built> = match (&b.raw.rule, b.raw.transitions.is_empty()) {
            (Some(TransitionRule::Alternate(a)), true) if i % 2 == 0 => {
                let sh = *rng.pick(&[3600i32, -3600, 1800]);
                let shift = |l: &LocalTimeType| LocalTimeType::new(l.ut_offset() + sh, l.is_dst(), Some(l.time_zone_designation().as_bytes()).filter(|n| !n.is_empty())).ok();
                match (shift(a.std()), shift(a.dst())) {
                    (Some(s2), Some(d2)) => AlternateTime::new(s2, d2, *a.dst_start(), a.dst_start_time(), *a.dst_end(), a.dst_end_time()).ok().map(rule_zone),
                    _ => None,
                }
            }
            _ => None,
        };
        let mut prev: Option<Fields> = None;
        for f in locals.clone() {
            let k = find_line(out, &z, f);
            if with_findn && (thorough || k != 1 || rng.chance(1, 4)) {
                let stale = prev.unwrap_or((1999, 12, 31, 23, 59, 59, 5));
                for nbuf in 0..=k + 2 {
                    findn_line(out, &z, nbuf, f, stale);
                }
            }
            prev = Some(f);
        }
        if let Some(sb) = sibling {
            if zone_line(out, &sb) {
                let zs = sb.zref().unwrap();
                // alternate between the two zones so that each search follows one in the other zone
                for f in locals.iter().take(40) {
                    find_line(out, &zs, *f);
                }
                zone_line(out, &b);
                for f in locals.iter().take(12) {
                    find_line(out, &z, *f);
                    // the harness keeps both zones alive: same thread, consecutive searches
                    let _ = DateTime::find_n(&mut [None; 4], f.0, f.1, f.2, f.3, f.4, f.5, f.6, zs);
                }
            }
        }
    }
}
