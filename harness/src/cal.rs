//! Calendar families: gmtime, utcnew, utccmp, utctn, fmt, dtnew, dtfromlocal, dttn, dtcmp.
//! Everything here is available without `alloc`.

use crate::common::*;
use std::io::Write;
use tz::datetime::{DateTime, UtcDateTime};
use tz::timezone::LocalTimeType;

pub const MIN_UNIX_TIME: i64 = -67768100567971200;
pub const MAX_UNIX_TIME: i64 = 67767976233532799;
const UNIX_OFFSET_SECS: i64 = 951868800;
const NS_SET: [u32; 5] = [0, 1, 999_999_999, 1_000_000_000, u32::MAX];

pub fn gmtime_line(out: &mut impl Write, t: i64, ns: u32) {
    let ans = guarded(move || match UtcDateTime::from_timespec(t, ns) {
        Ok(c) => utc_text(&c),
        Err(e) => err_text(&e),
    });
    writeln!(out, "gmtime {} {} => {}", t, ns, ans).unwrap();
}

pub fn gmtime(out: &mut impl Write, rng: &mut Rng, thorough: bool) {
    let mut k = 0usize;
    // the whole 400-year cycle, anchored at 2000-03-01
    for d in 0..146097i64 {
        let base = UNIX_OFFSET_SECS + d * 86400;
        gmtime_line(out, base, NS_SET[k % 5]);
        k += 1;
        gmtime_line(out, base + 86399, NS_SET[k % 5]);
        k += 1;
        if thorough {
            gmtime_line(out, base - 1, 0);
            gmtime_line(out, base + rng.range(1, 86398), 7);
            // the same day in another cycle
            let cyc = rng.range(-5000, 5000);
            gmtime_line(out, base + cyc * 146097 * 86400, 0);
        }
    }
    // both ends of the supported range
    let n_edge = if thorough { 3000 } else { 800 };
    for d in 0..n_edge {
        for s in [0i64, 1, 86399, 86400] {
            gmtime_line(out, MIN_UNIX_TIME + d * 86400 + s, 0);
            gmtime_line(out, MAX_UNIX_TIME - d * 86400 - s, 0);
        }
    }
    for delta in -3..=3i64 {
        gmtime_line(out, MIN_UNIX_TIME + delta, 0);
        gmtime_line(out, MAX_UNIX_TIME + delta, 0);
        gmtime_line(out, delta, 0);
        gmtime_line(out, UNIX_OFFSET_SECS + delta, 0);
        gmtime_line(out, (i64::MIN + 3).saturating_add(delta), 0);
        gmtime_line(out, (i64::MAX - 3).saturating_add(delta), 0);
        gmtime_line(out, (i64::MIN + UNIX_OFFSET_SECS).saturating_add(delta), 0);
        gmtime_line(out, (i64::MIN + UNIX_OFFSET_SECS + 86400).saturating_add(delta), 0);
    }
    let n_rand = if thorough { 400_000 } else { 40_000 };
    for i in 0..n_rand {
        let t = match i % 4 {
            0 => rng.log_i64(),
            1 => rng.range(MIN_UNIX_TIME, MAX_UNIX_TIME),
            2 => rng.range(-4_000_000_000, 8_000_000_000),
            _ => rng.range(i64::MIN, i64::MAX),
        };
        gmtime_line(out, t, NS_SET[i % 5]);
    }
}

type Fields = (i32, u8, u8, u8, u8, u8, u32);

fn fields_text(f: &Fields) -> String {
    format!("{} {} {} {} {} {} {}", f.0, f.1, f.2, f.3, f.4, f.5, f.6)
}

pub fn utcnew_line(out: &mut impl Write, f: Fields) {
    let ans = guarded(move || match UtcDateTime::new(f.0, f.1, f.2, f.3, f.4, f.5, f.6) {
        Ok(c) => format!("{} {} {} {}", c.unix_time(), c.week_day(), c.year_day(), c.total_nanoseconds()),
        Err(e) => err_text(&e),
    });
    writeln!(out, "utcnew {} => {}", fields_text(&f), ans).unwrap();
}

fn year_set(thorough: bool) -> Vec<i32> {
    let mut ys: Vec<i32> = vec![
        i32::MIN,
        i32::MIN + 1,
        i32::MIN + 2,
        i32::MIN + 3,
        i32::MAX - 3,
        i32::MAX - 2,
        i32::MAX - 1,
        i32::MAX,
        -400001,
        -401,
        -400,
        -399,
        -101,
        -100,
        -99,
        -5,
        -4,
        -3,
        -1,
        0,
        1,
        4,
        100,
        400,
        1599,
        1600,
        1601,
        1699,
        1700,
        1899,
        1900,
        1901,
        1967,
        1968,
        1969,
        1970,
        1971,
        1972,
        1973,
        1999,
        2000,
        2001,
        2004,
        2023,
        2024,
        2025,
        2026,
        2099,
        2100,
        2101,
        2399,
        2400,
        2401,
        9999,
        10000,
        400000,
    ];
    if thorough {
        ys.extend(1500..=2500);
    }
    ys.sort();
    ys.dedup();
    ys
}

pub fn utcnew(out: &mut impl Write, rng: &mut Rng, thorough: bool) {
    let times: [(u8, u8, u8); 8] = [(0, 0, 0), (23, 59, 59), (23, 59, 60), (24, 0, 0), (23, 60, 0), (23, 59, 61), (12, 30, 30), (0, 0, 60)];
    let nss: [u32; 3] = [0, 999_999_999, 1_000_000_000];
    let mut k = 0usize;
    for y in year_set(thorough) {
        for m in 0..=13u8 {
            for d in [0u8, 1, 2, 27, 28, 29, 30, 31, 32] {
                for (i, t) in times.iter().enumerate() {
                    // rotate the nanosecond choice instead of a full product
                    let ns = nss[(k + i) % 3];
                    utcnew_line(out, (y, m, d, t.0, t.1, t.2, ns));
                }
                k += 1;
            }
        }
    }
    let n = if thorough { 300_000 } else { 30_000 };
    for i in 0..n {
        let y = match i % 3 {
            0 => rng.range(-3000, 4000) as i32,
            1 => rng.range(i32::MIN as i64, i32::MAX as i64) as i32,
            _ => *rng.pick(&[i32::MAX, i32::MIN, 2024, 1900, 2000]),
        };
        let f = (
            y,
            rng.range(0, 13) as u8,
            rng.range(0, 33) as u8,
            rng.range(0, 25) as u8,
            rng.range(0, 61) as u8,
            rng.range(0, 62) as u8,
            if rng.chance(1, 10) { rng.range(999_999_990, 1_000_000_010) as u32 } else { rng.below(1_000_000_000) as u32 },
        );
        utcnew_line(out, f);
    }
    // u8 / u32 extremes
    utcnew_line(out, (2000, 255, 255, 255, 255, 255, u32::MAX));
    utcnew_line(out, (i32::MAX, 12, 31, 23, 59, 60, 0));
    utcnew_line(out, (i32::MAX, 12, 31, 23, 59, 59, 999_999_999));
    utcnew_line(out, (i32::MIN, 1, 1, 0, 0, 0, 0));
}

fn rand_valid_fields(rng: &mut Rng, leap_second: bool) -> Fields {
    loop {
        let y = match rng.below(4) {
            0 => rng.range(i32::MIN as i64, i32::MAX as i64) as i32,
            1 => *rng.pick(&[1969, 1970, 1972, 2000, 2024, 2100, -1, 0, i32::MAX, i32::MIN]),
            _ => rng.range(1800, 2200) as i32,
        };
        let f = (
            y,
            rng.range(1, 12) as u8,
            rng.range(1, 31) as u8,
            rng.range(0, 23) as u8,
            rng.range(0, 59) as u8,
            if leap_second { rng.range(0, 60) as u8 } else { rng.range(0, 59) as u8 },
            rng.below(1_000_000_000) as u32,
        );
        if UtcDateTime::new(f.0, f.1, f.2, f.3, f.4, f.5, f.6).is_ok() {
            return f;
        }
    }
}

/// neighbouring calendar value: bump one field by one (may be invalid -> retried by caller)
fn neighbour(rng: &mut Rng, f: Fields) -> Fields {
    let mut g = f;
    match rng.below(7) {
        0 => g.0 = g.0.wrapping_add(1),
        1 => g.1 = g.1.wrapping_add(1),
        2 => g.2 = g.2.wrapping_add(1),
        3 => g.3 = g.3.wrapping_add(1),
        4 => g.4 = g.4.wrapping_add(1),
        5 => g.5 = g.5.wrapping_add(1),
        _ => g.6 = g.6.wrapping_add(1),
    }
    g
}

pub fn utccmp(out: &mut impl Write, rng: &mut Rng, thorough: bool) {
    let n = if thorough { 200_000 } else { 20_000 };
    for i in 0..n {
        let a = rand_valid_fields(rng, true);
        let b = if i % 2 == 0 { rand_valid_fields(rng, true) } else { neighbour(rng, a) };
        let (ca, cb) = match (UtcDateTime::new(a.0, a.1, a.2, a.3, a.4, a.5, a.6), UtcDateTime::new(b.0, b.1, b.2, b.3, b.4, b.5, b.6)) {
            (Ok(x), Ok(y)) => (x, y),
            _ => continue,
        };
        let c = match ca.cmp(&cb) {
            std::cmp::Ordering::Less => -1,
            std::cmp::Ordering::Equal => 0,
            std::cmp::Ordering::Greater => 1,
        };
        // the line also carries both Unix times so the oracle can check monotonicity without the model
        writeln!(out, "utccmp {} {} => {} {} {}", fields_text(&a), fields_text(&b), c, ca.unix_time(), cb.unix_time()).unwrap();
    }
}

pub fn utctn_line(out: &mut impl Write, n: i128) {
    let ans = guarded(move || match UtcDateTime::from_total_nanoseconds(n) {
        Ok(c) => format!("{} {}", utc_text(&c), c.unix_time()),
        Err(e) => err_text(&e),
    });
    writeln!(out, "utctn {} => {}", n, ans).unwrap();
}

pub fn utctn(out: &mut impl Write, rng: &mut Rng, thorough: bool) {
    let e9: i128 = 1_000_000_000;
    let anchors: Vec<i128> = vec![
        0,
        e9,
        -e9,
        MIN_UNIX_TIME as i128 * e9,
        MAX_UNIX_TIME as i128 * e9,
        (MAX_UNIX_TIME as i128 + 1) * e9,
        i64::MIN as i128 * e9,
        i64::MAX as i128 * e9,
        (i64::MAX as i128 + 1) * e9,
        (i64::MIN as i128 - 1) * e9,
        i128::MIN,
        i128::MAX,
        i128::MIN + e9,
        i128::MAX - e9,
        86400 * e9,
        -86400 * e9,
    ];
    for a in &anchors {
        for d in [-e9 - 1, -e9, -2, -1, 0, 1, 2, e9 - 1, e9, e9 + 1] {
            if let Some(v) = a.checked_add(d) {
                utctn_line(out, v);
            }
        }
    }
    let n = if thorough { 200_000 } else { 20_000 };
    for i in 0..n {
        let v: i128 = match i % 4 {
            0 => rng.range(MIN_UNIX_TIME, MAX_UNIX_TIME) as i128 * e9 + rng.range(0, 999_999_999) as i128,
            1 => rng.log_i64() as i128 * e9 + rng.range(-2, 2) as i128,
            2 => ((rng.next() as u128) << 64 | rng.next() as u128) as i128,
            _ => rng.range(-10_000_000_000, 10_000_000_000) as i128,
        };
        utctn_line(out, v);
    }
}

pub fn fmt_line(out: &mut impl Write, f: Fields, off: i32) {
    let ans = guarded(move || {
        let l = match LocalTimeType::with_ut_offset(off) {
            Ok(l) => l,
            Err(e) => return ltt_err_text(&e),
        };
        match DateTime::new(f.0, f.1, f.2, f.3, f.4, f.5, f.6, l) {
            Ok(d) => {
                let s = format!("{}", d);
                if off == 0 {
                    // the UTC type renders through the same function with offset 0
                    if let Ok(c) = UtcDateTime::new(f.0, f.1, f.2, f.3, f.4, f.5, f.6) {
                        let s2 = format!("{}", c);
                        if s2 != s {
                            return format!("MISMATCH-UTC {} {}", s, s2);
                        }
                    }
                }
                s
            }
            Err(e) => err_text(&e),
        }
    });
    writeln!(out, "fmt {} {} => {}", fields_text(&f), off, ans).unwrap();
}

pub fn fmt(out: &mut impl Write, rng: &mut Rng, thorough: bool) {
    let mut offs: Vec<i32> = vec![0, 1, -1, 59, -59, 60, -60, 61, -61, 3599, -3599, 3600, -3600, 3601, -3661, 35999, 36000, -36000, 86399, 359999, 360000, -360000, i32::MAX, i32::MIN + 1, i32::MIN];
    for h in [0i64, 1, 9, 10, 23, 24, 99, 100, 101, 999, 1000, 596522, 596523] {
        for m in [0i64, 1, 9, 10, 59] {
            for s in [0i64, 1, 9, 10, 59] {
                let v = h * 3600 + m * 60 + s;
                if v <= i32::MAX as i64 {
                    offs.push(v as i32);
                    offs.push(-(v as i32));
                }
            }
        }
    }
    let years = [i32::MIN, i32::MIN + 1, -10000, -9999, -1000, -999, -100, -10, -1, 0, 1, 9, 10, 99, 100, 999, 1000, 2024, 9999, 10000, 99999, i32::MAX - 1, i32::MAX];
    let mut k = 0usize;
    for off in &offs {
        let y = years[k % years.len()];
        k += 1;
        let f: Fields = (y, (1 + k % 12) as u8, (1 + k % 28) as u8, (k % 24) as u8, (k % 60) as u8, (k % 61) as u8, [0u32, 1, 999_999_999, 123_456_789, 100_000_000][k % 5]);
        fmt_line(out, f, *off);
    }
    for y in years {
        for off in [0, 3600, -1, i32::MAX, i32::MIN + 1] {
            fmt_line(out, (y, 1, 1, 0, 0, 0, 0), off);
            fmt_line(out, (y, 12, 31, 23, 59, 60, 999_999_999), off);
            fmt_line(out, (y, 6, 15, 9, 8, 7, 6), off);
        }
    }
    let n = if thorough { 100_000 } else { 10_000 };
    for i in 0..n {
        let f = rand_valid_fields(rng, true);
        let off = match i % 3 {
            0 => rng.range(i32::MIN as i64 + 1, i32::MAX as i64) as i32,
            1 => rng.range(-100000, 100000) as i32,
            _ => *rng.pick(&offs),
        };
        fmt_line(out, f, off);
    }
}

pub fn rand_ltt(rng: &mut Rng) -> LocalTimeType {
    let off = match rng.below(6) {
        0 => *rng.pick(&[0, 1, -1, i32::MAX, i32::MIN + 1, 86400, -86400]),
        1 => rng.range(i32::MIN as i64 + 1, i32::MAX as i64) as i32,
        _ => (rng.range(-56, 56) * 900) as i32,
    };
    mk_ltt(rng, off)
}

pub fn dtnew_line(out: &mut impl Write, f: Fields, l: LocalTimeType) {
    let ans = guarded(move || match DateTime::new(f.0, f.1, f.2, f.3, f.4, f.5, f.6, l) {
        Ok(d) => dt_text(&d),
        Err(e) => err_text(&e),
    });
    writeln!(out, "dtnew {} {} => {}", fields_text(&f), ltt_text(&l), ans).unwrap();
}

pub fn dtfromlocal_line(out: &mut impl Write, u: i64, ns: u32, l: LocalTimeType) {
    let ans = guarded(move || match DateTime::from_timespec_and_local(u, ns, l) {
        Ok(d) => dt_text(&d),
        Err(e) => err_text(&e),
    });
    writeln!(out, "dtfromlocal {} {} {} => {}", u, ns, ltt_text(&l), ans).unwrap();
}

pub fn dt_families(out: &mut impl Write, rng: &mut Rng, thorough: bool) {
    let n = if thorough { 100_000 } else { 12_000 };
    // dtnew: valid and invalid fields, offsets over the full i32 range, range ends
    for i in 0..n {
        let l = rand_ltt(rng);
        let f = if i % 5 == 0 {
            (
                rng.range(i32::MIN as i64, i32::MAX as i64) as i32,
                rng.range(0, 13) as u8,
                rng.range(0, 32) as u8,
                rng.range(0, 24) as u8,
                rng.range(0, 60) as u8,
                rng.range(0, 61) as u8,
                rng.range(999_999_998, 1_000_000_001) as u32,
            )
        } else {
            rand_valid_fields(rng, true)
        };
        dtnew_line(out, f, l);
    }
    for off in [0, 1, -1, 3600, -3600, i32::MAX, i32::MIN + 1] {
        let l = LocalTimeType::with_ut_offset(off).unwrap();
        for f in [
            (i32::MAX, 12, 31, 23, 59, 60, 0),
            (i32::MAX, 12, 31, 23, 59, 59, 0),
            (i32::MIN, 1, 1, 0, 0, 0, 0),
            (i32::MIN, 1, 1, 0, 0, 1, 0),
            (i32::MAX, 12, 31, 0, 0, 0, 0),
            (i32::MAX - 68, 1, 1, 0, 0, 0, 0),
            (i32::MIN + 68, 12, 31, 23, 59, 59, 0),
            (i32::MAX - 69, 1, 1, 0, 0, 0, 0),
        ] {
            dtnew_line(out, f, l);
        }
    }
    // exact range ends for every kind of offset: the local fields of (range end + offset ± 1 s), so that
    // unix = fields - offset is MAX + δ resp. MIN + δ
    let mut edge_offs: Vec<i32> = vec![1, -1, 3600, -3600, 86400, -86400, 100_000_000, -100_000_000, 2_000_000_000, -2_000_000_000, i32::MAX, i32::MIN + 1];
    for _ in 0..40 {
        edge_offs.push(rng.range(i32::MIN as i64 + 1, i32::MAX as i64) as i32);
    }
    for off in edge_offs {
        let l = LocalTimeType::with_ut_offset(off).unwrap();
        for delta in -2..=2i64 {
            for end in [MAX_UNIX_TIME, MIN_UNIX_TIME] {
                let local = end + off as i64 + delta;
                if let Ok(c) = UtcDateTime::from_timespec(local, 0) {
                    dtnew_line(out, (c.year(), c.month(), c.month_day(), c.hour(), c.minute(), c.second(), 0), l);
                }
            }
        }
        // years well inside the last / first century of the range with a huge outward offset
        for y in [i32::MAX - 5, i32::MAX - 40, i32::MAX - 67, i32::MIN + 5, i32::MIN + 40, i32::MIN + 67] {
            dtnew_line(out, (y, 6, 15, 12, 0, 0, 0), l);
        }
    }
    // dtfromlocal
    for i in 0..n {
        let l = rand_ltt(rng);
        let u = match i % 5 {
            0 => rng.log_i64(),
            1 => rng.range(MIN_UNIX_TIME, MAX_UNIX_TIME),
            2 => *rng.pick(&[MIN_UNIX_TIME, MAX_UNIX_TIME, i64::MIN, i64::MAX, 0]),
            3 => (MIN_UNIX_TIME - l.ut_offset() as i64).saturating_add(rng.range(-2, 2)),
            _ => (MAX_UNIX_TIME - l.ut_offset() as i64).saturating_add(rng.range(-2, 2)),
        };
        dtfromlocal_line(out, u, NS_SET[i % 5], l);
    }
    // dttn: from_total_nanoseconds_and_local
    let e9: i128 = 1_000_000_000;
    for i in 0..n / 2 {
        let l = rand_ltt(rng);
        let v: i128 = match i % 4 {
            0 => rng.range(MIN_UNIX_TIME, MAX_UNIX_TIME) as i128 * e9 + rng.range(0, 999_999_999) as i128,
            1 => rng.log_i64() as i128 * e9 + rng.range(-2, 2) as i128,
            2 => ((rng.next() as u128) << 64 | rng.next() as u128) as i128,
            _ => rng.range(-10_000_000_000, 10_000_000_000) as i128,
        };
        let ans = guarded(move || match DateTime::from_total_nanoseconds_and_local(v, l) {
            Ok(d) => format!("{} TN {}", dt_text(&d), d.total_nanoseconds()),
            Err(e) => err_text(&e),
        });
        writeln!(out, "dttn {} {} => {}", v, ltt_text(&l), ans).unwrap();
    }
    // dtcmp: equality and ordering depend on (unix, ns) only
    for i in 0..n / 2 {
        let l1 = rand_ltt(rng);
        let l2 = rand_ltt(rng);
        // instants near the epoch, anywhere in the supported range (a flattened i64 nanosecond count saturates
        // beyond ±292 years), and at the range ends
        let u1 = match (i / 4) % 4 {
            0 => rng.range(-4_000_000_000, 8_000_000_000),
            1 => rng.range(MIN_UNIX_TIME, MAX_UNIX_TIME),
            2 => rng.log_i64().clamp(MIN_UNIX_TIME, MAX_UNIX_TIME),
            _ => if rng.below(2) == 0 { MIN_UNIX_TIME + rng.range(0, 3) } else { MAX_UNIX_TIME - rng.range(0, 3) },
        };
        let ns1 = rng.below(1_000_000_000) as u32;
        let (u2, ns2) = match i % 4 {
            0 => (u1, ns1),
            1 => (u1, ns1.wrapping_add(1) % 1_000_000_000),
            2 => (u1.saturating_add(rng.range(-1, 1)), ns1),
            _ => if rng.below(2) == 0 {
                (rng.range(-4_000_000_000, 8_000_000_000), rng.below(1_000_000_000) as u32)
            } else {
                (u1.saturating_add(rng.log_i64() / 4), rng.below(1_000_000_000) as u32)
            },
        };
        let ans = guarded(move || {
            let a = DateTime::from_timespec_and_local(u1, ns1, l1);
            let b = DateTime::from_timespec_and_local(u2, ns2, l2);
            match (a, b) {
                (Ok(a), Ok(b)) => {
                    let c = match a.partial_cmp(&b) {
                        Some(std::cmp::Ordering::Less) => -1,
                        Some(std::cmp::Ordering::Equal) => 0,
                        Some(std::cmp::Ordering::Greater) => 1,
                        None => 9,
                    };
                    format!("{} {}", (a == b) as u8, c)
                }
                _ => "Err:Construct".into(),
            }
        });
        writeln!(out, "dtcmp {} {} {} {} {} {} => {}", u1, ns1, l1.ut_offset(), u2, ns2, l2.ut_offset(), ans).unwrap();
    }
}
