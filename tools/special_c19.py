"""C19: the three feature configurations are three programs validated against one model.
Builds the harness (a client of the public API) against /repo with no features, `alloc`, and `std`,
runs the deterministic `core` corpus in each and requires identical streams."""
import hashlib
import os
import subprocess


def run(pid, cfg, tier, seed, tally, ck):
    viol = []
    streams = {}
    compared = 0
    bins = {}
    for flavour in ("core", "alloc", "release"):
        ok, out, hbin = ck.build_harness(flavour)
        if not ok:
            rp = ck.write_replay(pid, "build", {"flavour": flavour, "error": out[-3000:], "note": "crate (or its API client) does not build in this feature configuration"})
            viol.append(("build:" + flavour, rp, False))
            continue
        bins[flavour] = hbin
    # the thorough tier repeats the comparison with further seeds (the stream of the first seed is also the one the
    # Lean model is compared with)
    seeds = [seed] if tier == "quick" else [seed + i for i in range(4)]
    for sd in seeds:
        lines = {}
        for flavour, hbin in bins.items():
            p = subprocess.run([hbin, "core", "quick", str(sd)], stdout=subprocess.PIPE, stderr=subprocess.PIPE)
            if p.returncode != 0:
                rp = ck.write_replay(pid, "abort", {"flavour": flavour, "seed": sd, "harness_rc": p.returncode, "stderr": p.stderr.decode("utf-8", "replace")[-2000:]})
                viol.append(("abort:" + flavour, rp, False))
                continue
            body = [l for l in p.stdout.decode("utf-8", "replace").splitlines() if not l.startswith("#")]
            streams["%s@%d" % (flavour, sd)] = hashlib.sha256("\n".join(body).encode()).hexdigest()
            lines[flavour] = body
        ref = lines.get("release")
        if ref is None:
            continue
        for flavour in ("core", "alloc"):
            other = lines.get(flavour)
            if other is None:
                continue
            compared += min(len(ref), len(other))
            if other != ref and len(viol) < 5:
                k = next((i for i, (a, b) in enumerate(zip(ref, other)) if a != b), min(len(ref), len(other)))
                rp = ck.write_replay(pid, "config-divergence", {
                    "flavour": flavour, "line_index": k,
                    "std_line": ref[k] if k < len(ref) else "<missing>", "line": other[k] if k < len(other) else "<missing>",
                    "seed": sd})
                viol.append(("divergence:" + flavour, rp, False))
    cov = {"programs": len(bins), "seeds": seeds, "disagreements_checked": compared, "stream_sha256": streams,
           "explanation": "three builds of the harness against /repo (no features / alloc / std) ran the same deterministic corpus; "
                          "streams compared line by line and the std stream against the Lean model"}
    return viol, cov
