"""Round-4 seeds (ten fresh sub-agents, two changes each): write
seeded/<id>/meta.json from the confirmation and check logs, and print the DESIGN table rows."""
import json
import os
import re
import sys

ROOT = os.path.dirname(os.path.dirname(os.path.abspath(__file__)))
S = {
 "C01-r4a": ("month table loop of `UtcDateTime::from_timespec` replaced by a closed form `(5*d + 3)/153` (rounding constant off by one); table constant removed",
             "any instant on March 31, August 31 or January 31 UTC: day 0 of the next month"),
 "C01-r4b": ("`week_day` rewritten with Sakamoto's method on truncating divisions",
             "dates with year ≤ 0 (before 0000-03-01): wrong weekday, still in 0..=6"),
 "C02-r4a": ("`is_leap_year` on unsigned remainders (`year as u32`)",
             "negative years divisible by 100 but not 400 (and −196, −296, −396 … in each cycle): Feb 29 wrongly accepted / refused, Unix times off by a day"),
 "C02-r4b": ("early `1 <= month_day <= 31` test removed as redundant with the days-in-month test",
             "`month_day == 0` accepted; its Unix time is the last day of the previous month"),
 "C03-r4a": ("transition table searched with the raw `unix_time` instead of `unix_leap_time`",
             "zone with table and leap seconds, instant within the accumulated correction before a non-last transition"),
 "C03-r4b": ("binary search compares through `diff = v - x; diff < 0`",
             "probed transition and instant more than 2^63 s apart (transitions at i64::MIN+1 / i64::MAX−1): overflow panic (dev) / wrong type (release)"),
 "C04-r4a": ("look-ahead to next year's DST start (start ≤ end branch) replaced by `false`",
             "next year's DST start, in UTC, falls before the UTC New Year (`AAA-12BBB,J1/0,J100/3`, 2021-12-31T12Z … 2022-01-01T00Z)"),
 "C04-r4b": ("February length for the last-week clamp of `MonthWeekDay::transition_date` from `year % 4 == 0`",
             "`M2.5.d` in a year divisible by 100 but not 400 whose Feb 1st is weekday d (M2.5.1 in 2100, M2.5.4 in 1900)"),
 "C09-r4a": ("`parse_rule_time_extended` folds the sign into the hour only",
             "negative transition time with non-zero minutes/seconds in a version-3 footer (`/-1:30` → −1800)"),
 "C09-r4b": ("`parse_offset` range-checks `minute` twice, never `second`",
             "`EST5:00:60`, `EST5EDT4:00:75,…` accepted in both modes"),
 "C10-r4a": ("`parse_rule_time` destructures `parse_hhmmss` as `(hour, second, minute)`",
             "a footer / TZ string whose rule time has non-zero minutes (Pacific/Chatham, NZ-CHAT `/2:45`): footer-governed transitions 44 min 15 s early"),
 "C10-r4b": ("transition table searched with `unix_time` instead of `unix_leap_time`",
             "`right/` zones, up to 27 s after a recorded transition (right/America/New_York at 1583650800..826: EST for EDT)"),
 "C11-r4a": ("Julian-before-MWD same-year leap comparison reads `start_normal_year_offset`",
             "`Jn` (n ≥ 60) against `M2.w.d` (w = 3, 4) with times bringing them within a day: `J60/-144` vs `M2.4.0/24` accepted, flips in 2004"),
 "C11-r4b": ("month sort of `check_two_month_week_days` without `rem_euclid` (tests `rem == -1`)",
             "December/January pair: `M12.5.2/0:00:01` with `M1.1.3/-24` accepted, flips when Dec 31 is a Tuesday"),
 "C12-r4a": ("fast path `unix_time + last.correction` past the last leap record in `unix_time_to_unix_leap_time`",
             "final cumulative correction negative, UTC instant within that many seconds after the last record"),
 "C12-r4b": ("gap transition instant computed with the searched reading's leap correction",
             "leap record between the transition and a skipped reading: before/after one second off"),
 "C14-r4a": ("`PartialOrd for DateTime` compares one saturating i64 nanosecond count",
             "two different instants both after ≈ 2262 (or both before ≈ 1677): `partial_cmp` = Equal while `==` is false"),
 "C14-r4b": ("`Normal` entry of the transition walk built with `unix_leap_time_before`",
             "zone with leap table and explicit transitions, date after the first leap second and before the last transition"),
 "C16-r4a": ("i64 fast path in `total_nanoseconds_to_timespec`: truncating division corrected under `total < 0`",
             "negative exact multiples of 1e9 that fit i64: `-1e9` → `(-2, 1_000_000_000)`"),
 "C16-r4b": ("`DateTime::from_total_nanoseconds` looks the type up at `total / 1e9` (truncation)",
             "negative non-whole-second total in the last second before a pre-1970 transition: wrong type, offset and fields"),
 "C05-r4a": ("Fixed-rule branch of the search compares the candidate with the last transition's raw leap-count time",
             "table + Fixed rule + leap seconds with non-zero correction at the last transition: instants in the c seconds after it are lost"),
 "C05-r4b": ("`sorted` test of the yearly rule instants made strict",
             "DST end coinciding with a DST start (`EST5EDT,0/0,J365/25`): results duplicated"),
 "C06-r4a": ("first rule transition after the table chosen with `<=`",
             "forward last table transition coinciding with a rule transition: the gap reported twice"),
 "C06-r4b": ("last-transition guard narrowed to `Some(TransitionRule::Alternate(_))`",
             "forward last table transition into a Fixed trailing rule (America/Caracas 2016): its gap is lost"),
 "C07-r4a": ("`-167..=167` hour check of `parse_rule_time_extended` removed (\"the rule constructor checks the range\")",
             "v3 footer with a rule-time hour ≥ 596524: i32 multiply overflow (panic in dev, wrapped and accepted in release)"),
 "C07-r4b": ("`i + 1 < len` guard of `check_inputs` moved into the loop condition",
             "last (or only) transition with an out-of-range type index and a trailing rule: index out of bounds"),
 "C08-r4a": ("`isutcnt` / `isstdcnt` header reads swapped",
             "files whose two counts differ (isstd-only vector with a 1 rejected; isut-only with a 1 accepted)"),
 "C08-r4b": ("designation lookup `split(NUL).next()` (never `None`)",
             "last designation without its NUL terminator (`HST\\0HDTX`, index 4) accepted"),
 "C13-r4a": ("designation character test written as the range `b'+'..=b'-'`",
             "a comma in a 3–7 byte designation"),
 "C13-r4b": ("leap-table spacing through `abs_diff`",
             "a table stepping back in time by ≥ 2419199 s (`[(2419199, 1), (0, 2)]`) accepted"),
 "C17-r4a": ("`latest()` of the buffer list scans the whole caller buffer",
             "buffer reused after a search with more results (2 results, then 1, into 2 slots): stale entry returned"),
 "C17-r4b": ("new `DateTimeList::is_full()` + `break` in the Alternate loop of the search",
             "Alternate rule, results from the rule part, buffer shorter than k: count under-reported, exhaustive claimed"),
 "C20-r4a": ("POSIX fallback trimmed with `str::trim()`",
             "value padded with U+000B / NBSP that names no file: accepted"),
 "C20-r4b": ("directory search skips readable but empty files (`.filter(|b| !b.is_empty())`)",
             "an empty file under an earlier directory: later directories opened / POSIX fallback instead of Err(TzFile)"),
 "C18-r4a": ("sign of the rendered offset taken from `ut_offset / 60`",
             "offsets −1 … −59 s: `+00:00:30` for −30"),
 "C18-r4b": ("year written `{year:04}`",
             "years −999 … 999: `0476-…`, `-001-…`"),
}


def main():
    rows = []
    for sid in sorted(S):
        change, needs = S[sid]
        d = os.path.join(ROOT, "seeded", sid)
        log = [l.rstrip() for l in open(os.path.join(d, "confirm.log"), errors="replace") if l.strip()][:12]
        checks = [l.rstrip()[:200] for l in open(os.path.join(d, "checks.log"), errors="replace") if l.startswith(("VIOLATION", "OK", "INFRA"))][:10]
        first = [l.rstrip() for l in open(os.path.join(d, "checks_first.log"), errors="replace") if l.startswith(("VIOLATION", "OK", "INFRA"))] if os.path.exists(os.path.join(d, "checks_first.log")) else None
        oracles = []
        for l in checks:
            m = re.search(r"replay=(\S+)", l)
            if m and os.path.exists(m.group(1)):
                r = json.load(open(m.group(1)))
                o = "%s %s" % (r.get("kind", "?"), r.get("oracle") or r.get("theorem") or "")
                if o not in oracles:
                    oracles.append(o.strip())
        nf = any("no-failing-input-found" in l for l in checks[:1])
        missed = bool(first) and not any(l.startswith("VIOLATION") for l in first)
        props = sorted({m.group(1) for l in checks for m in [re.search(r"VIOLATION property=(C\d\d)", l)] if m})
        caught = "%s: %s%s (%s)" % (", ".join(props) or sid.split("-")[0], "; ".join(oracles) or "reported", " — no-failing-input-found" if nf else "",
                                    "MISSED at first; reported after the strengthening described below" if missed else "first run, concrete input")
        meta = {"breaks_property": sid.split("-")[0], "round": 4, "change": change, "needs_to_manifest": needs,
                "origin": "written by an independent sub-agent that was given only the property text and its own scratch clone of /repo (fourth round: two changes per property, different mechanisms, each needing something specific to manifest)",
                "confirmed": {"how": "tools/seed_confirm.sh in the scratch clone: demo passes on the pristine tree; with the patch the crate's 42 unit tests + 3 doc tests pass and the demo fails", "log": log},
                "checks_run": "tools/seed_run.sh patch.diff <check> (git -C /repo apply; python3 tools/check.py <id>; git -C /repo checkout -- .)",
                "last_check_output": checks, "missed_at_first": bool(first) and not any(l.startswith("VIOLATION") for l in first), "first_check_output": first, "caught_by": [caught]}
        json.dump(meta, open(os.path.join(d, "meta.json"), "w"), indent=1, ensure_ascii=False)
        rows.append("| %s | %s | %s | %s |" % (sid, change, needs, caught))
    print("\n".join(rows))


if __name__ == "__main__":
    main()
