"""C15: the static part. The source inventory is regenerated into Lean (Generated/Inventory.lean) by
gen_lean.py and `TzVerif.C15.inventory_ok` is proved by `decide` over it; here the result of the scan is
copied into the evidence and the harness' `assert_send_sync` compile-time checks are confirmed to be present."""
import json
import os
import re


def run(pid, cfg, tier, seed, tally, ck):
    viol = []
    rep = {}
    try:
        rep = json.load(open(os.path.join(ck.LEAN, "TzVerif", "Generated", "inventory_report.json")))
    except OSError:
        pass
    for item in rep.get("forbidden", []):
        rp = ck.write_replay(pid, "inventory", {"item": item, "note": "global or interior-mutable state, or an ambient call outside the two allowed sites"})
        viol.append(("inventory", rp, False))
        if len(viol) >= 5:
            break
    cov = {"inventory": {k: (v if not isinstance(v, list) else len(v)) for k, v in rep.items()},
           "explanation": "whole-source scan (items, field types, ambient calls) decided in Lean by `decide`; rustc decides Send+Sync "
                          "for every public type through the harness' assert_send_sync; 16-thread runner compared with the sequential run"}
    return viol, cov
