"""C15: the static part. The source inventory is regenerated into Lean (Generated/Inventory.lean) by
gen_lean.py and `TzVerif.C15.inventory_ok` is proved by `decide` over it; here the result of the scan is
copied into the evidence and the harness' `assert_send_sync` compile-time checks are confirmed to be present."""
import json
import os
import re


PATH_ARG = re.compile(r'^\d+\s+(\w+)\((?:AT_FDCWD, )?"((?:[^"\\\\]|\\\\.)*)"')


def ambient_probe(pid, ck, viol):
    """run the public entry points that use the DEFAULT settings under strace: every path handed to a file-system
    system call while the library works must be absolute (a relative one reads the process' current directory)"""
    import shutil
    import subprocess
    import tempfile
    if not shutil.which("strace"):
        return {"ran": False, "why": "strace not found"}
    ok, out, hbin = ck.build_harness("release")
    if not ok:
        return {"ran": False, "why": "harness does not build"}
    d = tempfile.mkdtemp(prefix="c15probe")
    trace = os.path.join(d, "trace.txt")
    try:
        p = subprocess.run(["strace", "-f", "-qq", "-e", "trace=%file", "-o", trace, hbin, "ambient", "quick", "0"], cwd=d,
                           stdout=subprocess.PIPE, stderr=subprocess.PIPE, timeout=120)
        if p.returncode != 0 or not os.path.exists(trace):
            return {"ran": False, "why": "strace failed: " + p.stderr.decode("utf-8", "replace")[-300:]}
        cur = None
        calls = 0
        paths = 0
        relative = []
        for line in open(trace, errors="replace"):
            m = PATH_ARG.match(line)
            if not m:
                continue
            path = m.group(2)
            if path.startswith("/VERIF-MARK/"):
                cur = path[len("/VERIF-MARK/"):]
                calls += 1
                continue
            if cur is None or cur == "end":
                continue
            paths += 1
            if not path.startswith("/"):
                relative.append({"call": cur, "syscall": m.group(1), "path": path})
        for r in relative[:5]:
            rp = ck.write_replay(pid, "ambient-path", dict(r, note="a path relative to the process' current directory was opened by the library: "
                                                                   "the answer depends on process-global mutable state; re-run `harness ambient` under strace"))
            viol.append(("ambient-path", rp, False))
        return {"ran": True, "entry_points_traced": calls, "paths_seen": paths, "relative_paths": len(relative)}
    finally:
        shutil.rmtree(d, ignore_errors=True)


def run(pid, cfg, tier, seed, tally, ck):
    viol = []
    rep = {}
    try:
        rep = json.load(open(os.path.join(ck.LEAN, "TzVerif", "Generated", "inventory_report.json")))
    except OSError:
        pass
    for item in rep.get("forbidden", []):
        rp = ck.write_replay(pid, "inventory", {"item": item, "note": "global or interior-mutable state, or an ambient call outside the two allowed sites"})
        viol.append(("inventory", rp, False))
        if len(viol) >= 5:
            break
    # the thread runner's own verdict: a thread's answers differ from the same calls made alone (this is an
    # observation about the implementation, not only a disagreement with the model)
    for tag, text in tally.disagree:
        line, model, zone = ck.split_ctx(text)
        if ck.family_of(line) == "threads" and len(viol) < 5:
            rp = ck.write_replay(pid, "threads-differ", {"line": line, "seed": seed, "tier": tier,
                                                       "note": "`harness threads <tier> <seed>`: the first differing protocol line of the named thread is given in the answer"})
            viol.append(("threads-differ", rp, False))
    probe = ambient_probe(pid, ck, viol)
    cov_probe = probe
    cov = {"ambient_probe": cov_probe, "inventory": {k: (v if not isinstance(v, list) else len(v)) for k, v in rep.items()},
           "explanation": "whole-source scan (items, field types, ambient calls) decided in Lean by `decide`; rustc decides Send+Sync "
                          "for every public type through the harness' assert_send_sync; 16-thread runner compared with the sequential run"}
    return viol, cov
