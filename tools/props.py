"""Per-property configuration of tools/check.py.

groups      harness generator groups piped to the model driver
families    protocol families whose model/implementation agreement (K) this property rests on
theorems    fully qualified Lean theorem names that are this property's proof obligations (P)
level       evidence level written (kept equal to MANIFEST.level_claimed.category)
errkind_matters  whether a different error *kind* for a rejected input breaks the property (DESIGN §4.3)
"""

PROPS = {
    "C01": dict(groups=["gmtime"], families=["gmtime"], level="proof", errkind_matters=True, theorems=["TzVerif.C01." + t for t in ['fields_correct', 'accepted_iff', 'refused', 'range_ends', 'fields_unique', 'week_day', 'year_day']], exhaustive=True),
    "C02": dict(groups=["utcnew"], families=["utcnew", "utccmp"], level="proof", errkind_matters=True, theorems=["TzVerif.C02." + t for t in ['days_correct', 'new_correct', 'new_accepts_iff', 'unix_time_correct', 'leap_second', 'roundtrip_fields', 'roundtrip_time', 'monotone']]),
    "C03": dict(groups=["zonelookup"], families=["zone", "lookup", "dtfrom"], level="proof", errkind_matters=True, theorems=["TzVerif.C03." + t for t in ['binary_search_correct', 'table_lookup', 'no_transitions', 'conversion_error', 'local_date_time']]),
    "C04": dict(groups=["rulelookup"], families=["zone", "lookup"], level="proof", errkind_matters=False, theorems=["TzVerif.C04." + t for t in ["day_notations","accepted_shape","evaluated_correctly_partial","changes_only_at_instants","year_guard","refusal_is_out_of_range","counterexample"]]),
    "C05": dict(groups=["find", "leap"], families=["zone", "find"], level="proof", errkind_matters=False, theorems=["TzVerif.C05." + t for t in ['results_show_the_local_time_partial', 'no_instant_missing_partial', 'no_duplicates_partial', 'counterexample_F2']]),
    "C06": dict(groups=["find"], families=["zone", "find"], level="proof", errkind_matters=False, theorems=["TzVerif.C06." + t for t in ['reported_gaps_are_real_partial', 'every_gap_reported_partial', 'gaps_reported_once_partial', 'ascending_partial', 'unique_iff', 'earliest_is_first', 'latest_is_last']]),
    "C07": dict(groups=["hostile"], families=["tzif", "tzfooter"], level="proof", errkind_matters=False, theorems=["TzVerif.C07." + t for t in ['site_inventory_unchanged', 'days_since_unix_epoch_fits', 'unix_time_fits', 'overflow_is_not_possible_comments', 'rule_day_unix_time_fits', 'from_timespec_casts_lossless', 'from_timespec_year_fits', 'unreachable_week_arm', 'unreachable_designation_length', 'lookup_indexes_in_bounds', 'allocation_bounded_by_input', 'header_products_fit_usize', 'tz_offset_arithmetic_fits', 'tz_rule_time_arithmetic_fits']], special="c07", flavour="dev"),
    "C08": dict(groups=["tzifgen", "tzifiana"], families=["tzif", "tzifgen", "tzifbad"], level="proof", errkind_matters=False, theorems=["TzVerif.C08." + t for t in ['big_endian_roundtrip', 'decode_encode_v1', 'decode_encode_v2_v3', 'bad_magic', 'bad_version', 'inconsistent_counts', 'truncated_block', 'truncated_v1', 'trailing_bytes_v1', 'type_record', 'indicator_pairs', 'accepted_files_are_well_formed', 'legacy_counterexample']]),
    "C09": dict(groups=["tzstr"], families=["tzfooter"], level="proof", errkind_matters=False, theorems=["TzVerif.C09." + t for t in ['reader_is_grammar', 'parser_is_reference', 'parse_complete', 'parse_sound', 'ascii_only', 'footer']]),
    "C10": dict(groups=["iana"], families=["tzif", "zone", "lookup", "find"], level="other", errkind_matters=False, theorems=[], special="c10"),
    "C11": dict(groups=["rulenew", "rulepairs"], families=["rulenew"], level="proof", errkind_matters=True, theorems=["TzVerif.C11." + t for t in ["new_accepts_iff","new_errors","all_years_decided_on_a_cycle","no_order_flip"]], exhaustive=True),
    "C12": dict(groups=["leap"], families=["zone", "lookup", "find", "dtfrom"], level="proof", errkind_matters=False, theorems=["TzVerif.C12." + t for t in ['to_utc_correct', 'takes_effect_exactly', 'to_utc_monotone', 'to_count_monotone', 'roundtrip', 'to_count_total', 'inserted_shares', 'deleted_skips', 'legacy_counterexample']]),
    "C13": dict(groups=["zonenew", "lttnew"], families=["zonenew", "lttnew", "zone"], level="proof", errkind_matters=True, theorems=["TzVerif.C13." + t for t in ['accepts_iff', 'new_iff', 'errors_specific', 'saturating_spacing', 'saturating_step', 'rule_clause_compares_all', 'local_time_type_iff', 'local_time_type_errors', 'designation_alphabet']]),
    "C14": dict(groups=["dt", "zonelookup", "find"], families=["dtnew", "dtfromlocal", "dttn", "dtcmp", "dtfrom", "dtfromtn", "find"], level="proof", errkind_matters=False, theorems=["TzVerif.C14." + t for t in ['new_correct', 'new_invariant', 'from_timespec_and_local', 'from_timespec_and_local_accepts', 'from_timespec_zone', 'from_total_nanoseconds', 'from_total_nanoseconds_and_local', 'projection', 'search_entries', 'equality', 'ordering']]),
    "C15": dict(groups=["threads"], families=["threads", "lookup", "find", "findn", "dtfrom", "tzifgen"], level="other", errkind_matters=False, theorems=["TzVerif.C15." + t for t in ["no_forbidden_construct","ambient_calls_are_the_two_documented_ones","all_files_scanned"]], special="c15"),
    "C16": dict(groups=["tn", "dt", "zonelookup"], families=["utctn", "dttn", "utcnew", "dtfromtn"], level="proof", errkind_matters=False,
                theorems=["TzVerif.C16." + t for t in ["split_correct", "split_range", "recombine", "roundtrip", "roundtrip'", "recombine_fits_i128",
                                                       "utc_from_total", "dt_from_total_local", "dt_from_total_zone", "nanoseconds_refused"]]),
    "C17": dict(groups=["findn"], families=["findn", "find", "zone"], level="proof", errkind_matters=False, theorems=["TzVerif.C17." + t for t in ['push_all', 'tail_untouched', 'accessors_agree', 'same_search']]),
    "C18": dict(groups=["fmt"], families=["fmt"], level="proof", errkind_matters=False, theorems=["TzVerif.C18." + t for t in ["read_back","z_iff_zero_offset","fixed_width"]]),
    "C19": dict(groups=["core"], families=["utcnew", "utccmp", "utctn", "fmt", "dtnew", "dtfromlocal", "dttn", "dtcmp", "lttnew", "rulenew", "zone", "lookup", "dtfrom", "zonenew", "find", "findn"],
                level="translation_validation", errkind_matters=True, theorems=[], special="c19", build_is_check=True),
    "C20": dict(groups=["resolve"], families=["resolve"], level="proof", errkind_matters=True, theorems=["TzVerif.C20." + t for t in ["relative_lookup","absolute_lookup","empty_refused","localtime_value","colon_value","plain_value","only_candidates","go_spec"]]),
}
