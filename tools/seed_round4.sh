#!/bin/sh
# usage: seed_round4.sh confirm <Pid>   — confirm both round-4 seeds of <Pid> in its scratch worktree /tmp/wt4/<Pid>,
#                                          copy them to /verif/seeded/<Pid>-r4a, -r4b
#        seed_round4.sh run <Pid> <a|b> <check ids...> — apply to /repo, run the quick checks, undo
MODE=$1; P=$2
WT=/tmp/wt4/$P
if [ "$MODE" = confirm ]; then
  for s in a b; do
    U=$(echo $s | tr ab AB)
    D=/verif/seeded/$P-r4$s
    mkdir -p $D
    sh /verif/tools/seed_confirm.sh $WT $WT/out/seed$U.diff $WT/out/demo_${P}_$s.rs > $D/confirm.log 2>&1
    cp $WT/out/seed$U.diff $D/patch.diff
    cp $WT/out/demo_${P}_$s.rs $D/demo.rs
    cp $WT/out/notes.txt $D/notes.txt
    echo "== $P-r4$s"; cat $D/confirm.log
  done
else
  s=$3; shift; shift; shift
  D=/verif/seeded/$P-r4$s
  sh /verif/tools/seed_run.sh $D/patch.diff "$@" 2>&1 | tee $D/checks.log
fi
