#!/usr/bin/env python3
"""Writes /verif/MANIFEST.json from tools/props.py and tools/claims.py (kept in one place so the manifest stays valid)."""
import json
import os
import sys

ROOT = os.path.dirname(os.path.dirname(os.path.abspath(__file__)))
sys.path.insert(0, os.path.join(ROOT, "tools"))
from props import PROPS
from claims import CLAIMS, NOT_APPLICABLE, NOTES

checks = []
for pid in sorted(PROPS):
    if pid in NOT_APPLICABLE:
        continue
    c = CLAIMS[pid]
    checks.append({
        "property_id": pid,
        "quick_cmd": "python3 tools/check.py %s --tier quick" % pid,
        "thorough_cmd": "python3 tools/check.py %s --tier thorough" % pid,
        "evidence_file": "/verif/evidence/%s.json" % pid,
        "replay_cmd_template": "python3 tools/check.py %s --replay {path}" % pid,
        "engine": "lean4-model+rust-harness",
        "level_claimed": {"category": PROPS[pid]["level"], "text": c["text"], "design_ref": c.get("design_ref", "DESIGN.md §6 " + pid)},
        "level_note": c["note"],
        "technique": c["technique"],
    })
m = {
    "version": 1,
    "setup_cmd": "sh tools/setup.sh",
    "hooks": {
        "guard": "tz_rs_verif",
        "enable": "no source hook is needed: every observation goes through the public API (the cfg name is reserved and unused)",
        "baseline_off_cmd": "cd /repo && cargo test --workspace --no-fail-fast --offline",
        "source_commits": [],
        "add_only": True,
    },
    "engines": [
        {"name": "lean4-model+rust-harness", "path": "/verif/lean , /verif/harness , /verif/tools/check.py",
         "serves_properties": sorted(p for p in PROPS if p not in NOT_APPLICABLE),
         "kind_free_text": "Lean 4 model (one def per Rust fn) + spec + theorems; constants, inventories and a Lean translation of 131 source functions (tools/rs2lean.py; proved per run equal to a committed baseline translation, which is proved equal to the model) regenerated from /repo/src each run; native model driver compared line by line with a Rust harness calling the real crate (path dependency on /repo)"},
    ],
    "checks": checks,
    "notes": NOTES,
    "not_applicable": [{"property_id": k, "reason": v} for k, v in sorted(NOT_APPLICABLE.items())],
}
json.dump(m, open(os.path.join(ROOT, "MANIFEST.json"), "w"), indent=1)
print("MANIFEST.json written: %d checks" % len(checks))
