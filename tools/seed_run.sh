#!/bin/sh
# usage: seed_run.sh <seed.diff> <Cxx> [Cyy ...]   — apply to /repo, run the quick checks, undo.
# Evidence files and generated Lean files are restored afterwards (they must describe the unchanged tree).
DIFF=$1; shift
SAVE=$(mktemp -d /tmp/seedrun.XXXXXX)
cp /verif/evidence/*.json $SAVE/ 2>/dev/null
git -C /repo apply "$DIFF" || { echo "PATCH DOES NOT APPLY"; rm -rf $SAVE; exit 3; }
for p in "$@"; do
  VERIF_NO_ESCALATE=${VERIF_NO_ESCALATE:-} python3 /verif/tools/check.py $p 2>&1 | grep -E "^(VIOLATION|OK|KNOWN|INFRA)" | head -4
done
git -C /repo checkout -- .
git -C /repo status --short | head -3
cp $SAVE/*.json /verif/evidence/ 2>/dev/null
rm -rf $SAVE
python3 /verif/tools/gen_lean.py > /dev/null
python3 /verif/tools/rs2lean.py > /dev/null
