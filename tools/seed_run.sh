#!/bin/sh
# usage: seed_run.sh <seed.diff> <Cxx> [Cyy ...]   — apply to /repo, run the quick checks, undo
DIFF=$1; shift
git -C /repo apply "$DIFF" || { echo "PATCH DOES NOT APPLY"; exit 3; }
for p in "$@"; do
  VERIF_NO_ESCALATE=${VERIF_NO_ESCALATE:-} python3 /verif/tools/check.py $p 2>&1 | grep -E "^(VIOLATION|OK|KNOWN|INFRA)" | head -4
done
git -C /repo checkout -- .
git -C /repo status --short | head -3
