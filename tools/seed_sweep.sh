#!/bin/sh
# usage: seed_sweep.sh  — every seeded change against the check of the property it targets; one line per seed
cd /verif
: > seeded/sweep.log
for d in seeded/C*-seed* seeded/C*-r4*; do
  id=$(basename $d)
  P=${id%%-*}
  out=$(sh tools/seed_run.sh /verif/$d/patch.diff $P 2>&1 | grep -E "^(VIOLATION|OK|INFRA|PATCH)" | head -1 | cut -c1-140)
  echo "$id :: $out" >> seeded/sweep.log
done
echo SWEEP-DONE >> seeded/sweep.log
