#!/usr/bin/env python3
"""Entry point registered in MANIFEST.json:  tools/check.py <Cxx> [--tier quick|thorough] [--replay FILE]

Per run (see DESIGN.md §0):
  1. regenerate lean/TzVerif/Generated/*.lean from /repo/src            (translator)
  2. lake build TzVerif.Properties.<Cxx> + the native driver            (P: proof obligations)
  3. audit `#print axioms` of every theorem listed for <Cxx>            (P)
  4. rebuild the Rust harness against /repo's working tree
  5. corpus + generated operations:  harness | tzmodel                  (K: correspondence, O: oracles)
  6. verdict, evidence/<Cxx>.json, replay file on violation
Exit 0 = property held on everything explored; exit 1 + `VIOLATION property=<id> replay=<path>`;
exit 2 = infrastructure failure (tool could not run; never a VIOLATION line).
"""
import argparse
import hashlib
import json
import os
import re
import subprocess
import sys
import time
from concurrent.futures import ThreadPoolExecutor

ROOT = os.path.dirname(os.path.dirname(os.path.abspath(__file__)))
LEAN = os.path.join(ROOT, "lean")
HARNESS = os.path.join(ROOT, "harness")
REPO = os.environ.get("VERIF_REPO", "/repo")
EVID = os.path.join(ROOT, "evidence")
REPLAYS = os.path.join(EVID, "replays")
WORK = os.path.join(ROOT, "work")
ALLOWED_AXIOMS = {"propext", "Classical.choice", "Quot.sound"}

sys.path.insert(0, os.path.dirname(os.path.abspath(__file__)))
from props import PROPS  # noqa: E402

ENV = dict(os.environ, CARGO_NET_OFFLINE="true")


def sh(cmd, cwd=None, timeout=None, env=None):
    p = subprocess.run(cmd, cwd=cwd, stdout=subprocess.PIPE, stderr=subprocess.STDOUT, timeout=timeout, env=env or ENV)
    return p.returncode, p.stdout.decode("utf-8", "replace")


def infra(msg):
    sys.stderr.write("INFRASTRUCTURE: %s\n" % msg)
    sys.exit(2)


# ----------------------------------------------------------------------------- builds

def regenerate():
    rc, out = sh([sys.executable, os.path.join(ROOT, "tools", "gen_lean.py")])
    if rc == 3:
        return {"ok": False, "error": out.strip()}
    if rc != 0:
        infra("gen_lean.py failed: " + out)
    try:
        rep = json.loads(out.strip().splitlines()[-1])
    except Exception:
        rep = {}
    rep["ok"] = True
    # Rust -> Lean translation of the listed functions (Generated/Src.lean); a failure leaves an empty module, so
    # that the equality theorems (Proofs/SrcEq*.lean) of the properties that use them no longer build
    rc2, out2 = sh([sys.executable, os.path.join(ROOT, "tools", "rs2lean.py")])
    try:
        rep["translator"] = json.load(open(os.path.join(LEAN, "TzVerif", "Generated", "src_report.json")))
    except (OSError, ValueError):
        rep["translator"] = {"ok": rc2 == 0}
    if rc2 not in (0, 3):
        infra("rs2lean.py failed: " + out2[-2000:])
    return rep


def build_driver():
    rc, out = sh(["lake", "build", "tzmodel"], cwd=LEAN, timeout=1800)
    if rc != 0:
        infra("cannot build the model driver:\n" + out[-4000:])


def build_property(pid):
    """returns (ok, error_text)"""
    mod = "TzVerif.Properties." + pid
    if not os.path.exists(os.path.join(LEAN, "TzVerif", "Properties", pid + ".lean")):
        return True, ""
    rc, out = sh(["lake", "build", mod], cwd=LEAN, timeout=3600)
    if rc != 0:
        errs = [l for l in out.splitlines() if "error" in l.lower()]
        return False, "\n".join(errs[:20]) or out[-2000:]
    return True, ""


def audit_axioms(pid, theorems):
    """#print axioms on each theorem; returns dict name -> (ok, axioms or error)"""
    if not theorems:
        return {}
    os.makedirs(WORK, exist_ok=True)
    path = os.path.join(WORK, "audit_%s.lean" % pid)
    with open(path, "w") as f:
        f.write("import TzVerif.Properties.%s\n" % pid)
        for t in theorems:
            f.write("#print axioms %s\n" % t)
    rc, out = sh(["lake", "env", "lean", path], cwd=LEAN, timeout=1800)
    res = {}
    # outputs: "'name' depends on axioms: [a, b]" or "'name' does not depend on any axioms" or errors
    flat = re.sub(r"\s+", " ", out)
    for t in theorems:
        m = re.search(r"'%s' depends on axioms: \[([^\]]*)\]" % re.escape(t), flat)
        if m:
            axs = [a.strip() for a in m.group(1).split(",") if a.strip()]
            bad = [a for a in axs if a not in ALLOWED_AXIOMS]
            res[t] = (not bad, axs)
        elif re.search(r"'%s' does not depend on any axioms" % re.escape(t), flat):
            res[t] = (True, [])
        else:
            res[t] = (False, ["<not found or not checked: %s>" % flat[:300]])
    return res


def import_closure(pid):
    """files under lean/TzVerif that Properties/<pid>.lean transitively imports"""
    seen = []
    todo = ["TzVerif.Properties." + pid]
    while todo:
        mod = todo.pop()
        path = os.path.join(LEAN, *mod.split(".")) + ".lean"
        if path in seen or not os.path.exists(path):
            continue
        seen.append(path)
        for m in re.finditer(r"^import\s+(TzVerif[A-Za-z0-9_.]*)", open(path).read(), flags=re.M):
            todo.append(m.group(1))
    return seen


def leanchecker(pid):
    """thorough tier: independent re-check of the compiled modules this property rests on"""
    mods = []
    for path in import_closure(pid):
        rel = os.path.relpath(path, LEAN)[:-len(".lean")]
        mods.append(rel.replace(os.sep, "."))
    if not mods:
        return {"ran": False}
    t0 = time.time()
    # one process per group of modules (every module replays its own declarations only, but loads its imports)
    n = min(16, len(mods))
    groups = [mods[i::n] for i in range(n)]
    procs = [subprocess.Popen(["lake", "env", "leanchecker"] + g, cwd=LEAN, stdout=subprocess.PIPE, stderr=subprocess.STDOUT, text=True) for g in groups]
    rc, out = 0, ""
    for pr in procs:
        try:
            o, _ = pr.communicate(timeout=7200)
        except subprocess.TimeoutExpired:
            pr.kill()
            o = "leanchecker timed out"
            rc = rc or 124
        if pr.returncode:
            rc = rc or pr.returncode
        out += o or ""
    return {"ran": True, "modules": len(mods), "processes": n, "rc": rc, "wall_s": round(time.time() - t0, 1), "output": out.strip()[-500:]}


def source_scan(pid):
    """no sorry / admit / axiom / native_decide / … in the Lean sources this property rests on (comments excluded)"""
    bad = []
    pat = re.compile(r"\b(sorry|admit|native_decide|bv_decide|implemented_by|unsafe)\b|^\s*axiom\s|maxHeartbeats\s+0\b")
    for p in import_closure(pid):
        src = open(p).read()
        src = re.sub(r"/-.*?-/", "", src, flags=re.S)
        for i, line in enumerate(src.splitlines()):
            line = re.sub(r"--.*", "", line)
            if pat.search(line):
                bad.append("%s:%d: %s" % (os.path.relpath(p, ROOT), i + 1, line.strip()[:120]))
    return bad


HARNESS_FLAVOURS = {
    # name: (cargo args, target dir)
    "release": (["--release"], "target"),
    "dev": ([], "target"),
    "alloc": (["--release", "--no-default-features", "--features", "alloc"], "target-alloc"),
    "core": (["--release", "--no-default-features"], "target-core"),
}


def build_harness(flavour="release"):
    args, tdir = HARNESS_FLAVOURS[flavour]
    env = dict(ENV, CARGO_TARGET_DIR=os.path.join(HARNESS, tdir))
    # the lock file follows the repository's
    try:
        lock = open(os.path.join(REPO, "Cargo.lock")).read()
        if open(os.path.join(HARNESS, "Cargo.lock")).read() != lock and "harness" not in lock:
            pass
    except OSError:
        pass
    rc, out = sh(["cargo", "build", "--offline"] + args, cwd=HARNESS, timeout=1800, env=env)
    prof = "release" if "--release" in args else "debug"
    binp = os.path.join(HARNESS, tdir, prof, "harness")
    return rc == 0, out, binp


# ----------------------------------------------------------------------------- running

ZONE_DEPENDENT = (b"lookup ", b"dtfrom ", b"dtfromtn ", b"find ", b"findn ", b"project ", b"utcproject ")
SHARD_MIN_BYTES = 24 << 20


def shard_stream(hpath, want=16):
    """split a harness stream into up to `want` files at lines that do not depend on the current zone"""
    size = os.path.getsize(hpath)
    n = min(want, size // SHARD_MIN_BYTES)
    if n < 2:
        return [hpath]
    cuts = [0]
    with open(hpath, "rb") as f:
        for k in range(1, n):
            f.seek(size * k // n)
            f.readline()
            while True:
                pos = f.tell()
                line = f.readline()
                if not line:
                    break
                if not line.startswith(ZONE_DEPENDENT):
                    if pos > cuts[-1]:
                        cuts.append(pos)
                    break
        cuts.append(size)
        paths = []
        for k in range(len(cuts) - 1):
            sp = "%s.s%d" % (hpath, k)
            f.seek(cuts[k])
            left = cuts[k + 1] - cuts[k]
            with open(sp, "wb") as o:
                while left > 0:
                    b = f.read(min(left, 1 << 22))
                    if not b:
                        break
                    o.write(b)
                    left -= len(b)
            paths.append(sp)
    return paths


def run_pipe(harness_bin, hargs, stdin_file=None, timeout=3600):
    """harness ... | tzmodel ; returns driver output lines and harness comment lines"""
    driver = os.path.join(LEAN, ".lake", "build", "bin", "tzmodel")
    os.makedirs(WORK, exist_ok=True)
    tag = hashlib.md5((" ".join(hargs) + str(stdin_file) + str(os.getpid())).encode()).hexdigest()[:10]
    hpath = os.path.join(WORK, "h_%s.txt" % tag)
    t0 = time.time()
    with open(hpath, "wb") as hf:
        if stdin_file:
            with open(stdin_file, "rb") as sf:
                p = subprocess.run([harness_bin] + hargs, stdin=sf, stdout=hf, stderr=subprocess.PIPE, timeout=timeout)
        else:
            p = subprocess.run([harness_bin] + hargs, stdout=hf, stderr=subprocess.PIPE, timeout=timeout)
    if p.returncode != 0:
        # an abort (allocation failure, stack overflow) kills the harness: that is itself an observation
        return {"harness_rc": p.returncode, "harness_err": p.stderr.decode("utf-8", "replace")[-2000:], "lines": [], "comments": [], "hpath": hpath, "wall": time.time() - t0}
    shards = shard_stream(hpath)
    if len(shards) == 1:
        with open(hpath, "rb") as hf:
            d = subprocess.run([driver], stdin=hf, stdout=subprocess.PIPE, stderr=subprocess.PIPE, timeout=timeout)
    else:
        # the driver's only state is the current zone: shards start at lines that do not depend on it
        def one(sp):
            with open(sp, "rb") as sf:
                return subprocess.run([driver], stdin=sf, stdout=subprocess.PIPE, stderr=subprocess.PIPE, timeout=timeout)
        with ThreadPoolExecutor(max_workers=len(shards)) as ex:
            ds = list(ex.map(one, shards))
        for sp in shards:
            try:
                os.remove(sp)
            except OSError:
                pass

        class _D:
            pass
        d = _D()
        d.returncode = max(x.returncode for x in ds)
        d.stdout = b"".join(x.stdout for x in ds)
        d.stderr = b"".join(x.stderr for x in ds)
    comments = []
    with open(hpath, "r", errors="replace") as hf:
        for line in hf:
            if line.startswith("# ALLOC") or line.startswith("# EXEC-ERROR"):
                comments.append(line.strip())
    if d.returncode != 0:
        infra("driver failed: " + d.stderr.decode("utf-8", "replace")[-2000:])
    res = {"harness_rc": 0, "lines": d.stdout.decode("utf-8", "replace").splitlines(), "comments": comments, "hpath": hpath, "wall": time.time() - t0}
    return res


class Tally:
    def __init__(self):
        self.fam = {}          # family -> dict of counters
        self.disagree = []     # (tag, text)
        self.oracle_fail = []  # (oracle, text)
        self.samples = {}
        self.bad_lines = 0
        self.comments = []
        self.aborts = []

    def absorb(self, res, label):
        if res["harness_rc"] != 0:
            self.aborts.append((label, res["harness_rc"], res.get("harness_err", "")))
            return
        self.comments += res["comments"]
        for l in res["lines"]:
            if l.startswith("SUMMARY family="):
                kv = dict(x.split("=", 1) for x in l[len("SUMMARY "):].split(" ") if "=" in x)
                f = kv["family"]
                d = self.fam.setdefault(f, {"lines": 0, "disagree": 0, "disagree_errkind": 0, "panics": 0, "oracle_runs": 0, "oracle_fail": 0, "non_err": 0, "distinct": 0, "distinct_non_err": 0, "err_kinds": {}})
                for k in ("lines", "disagree", "disagree_errkind", "panics", "oracle_runs", "oracle_fail", "non_err", "distinct", "distinct_non_err"):
                    d[k] += int(kv.get(k, 0))
                for item in kv.get("err_kinds", "").split(","):
                    if ":" in item:
                        k, n = item.rsplit(":", 1)
                        d["err_kinds"][k] = d["err_kinds"].get(k, 0) + int(n)
            elif l.startswith("SUMMARY-END"):
                m = re.search(r"bad_lines=(\d+)", l)
                if m:
                    self.bad_lines += int(m.group(1))
            elif l.startswith("DISAGREE-ERRKIND "):
                self.disagree.append(("errkind", l[len("DISAGREE-ERRKIND "):]))
            elif l.startswith("DISAGREE "):
                self.disagree.append(("value", l[len("DISAGREE "):]))
            elif l.startswith("PANIC "):
                self.disagree.append(("panic", l[len("PANIC "):]))
            elif l.startswith("ORACLE-FAIL "):
                rest = l[len("ORACLE-FAIL "):]
                name, _, text = rest.partition(" ")
                self.oracle_fail.append((name, text))
            elif l.startswith("SAMPLE "):
                t = l[len("SAMPLE "):]
                f = t.split(" ", 1)[0]
                self.samples.setdefault(f, [])
                if len(self.samples[f]) < 3:
                    self.samples[f].append(t[:300])
            elif l.startswith("BADLINE"):
                self.disagree.append(("badline", l))


def family_of(text):
    return text.split(" ", 1)[0]


def split_ctx(text):
    """'line || model=… @@ zoneline' -> (line, model, zone)"""
    zone = ""
    if " @@ " in text:
        text, zone = text.split(" @@ ", 1)
    model = ""
    if " || model=" in text:
        text, model = text.split(" || model=", 1)
    return text, model, zone


def write_replay(pid, kind, detail):
    os.makedirs(REPLAYS, exist_ok=True)
    h = hashlib.sha1(json.dumps(detail, sort_keys=True).encode()).hexdigest()[:12]
    path = os.path.join(REPLAYS, "%s-%s.json" % (pid, h))
    detail = dict(detail, property=pid, kind=kind)
    with open(path, "w") as f:
        json.dump(detail, f, indent=1)
    return path


def anchors_summary():
    try:
        r = json.load(open(os.path.join(LEAN, "TzVerif", "Generated", "anchors_report.json")))
        return {"model_anchors": r.get("anchors"), "missing_functions": r.get("missing"), "bodies_changed_since_baseline": r.get("changed_since_baseline")}
    except (OSError, ValueError):
        return {}


def load_known():
    try:
        return json.load(open(os.path.join(ROOT, "known_findings.json")))
    except OSError:
        return {"findings": [], "fixed": []}


# ----------------------------------------------------------------------------- main check

def run_groups(pid, cfg, tier, seed, tally, flavour="release"):
    ok, out, hbin = build_harness(flavour)
    if not ok:
        return False, out
    jobs = []
    corpus_dir = os.path.join(ROOT, "corpus")
    for fn in sorted(os.listdir(corpus_dir)) if os.path.isdir(corpus_dir) else []:
        tags = fn.split(".")[0].split("_")
        if pid in tags or "all" in tags:
            jobs.append(("corpus:" + fn, ["exec"], os.path.join(corpus_dir, fn)))
    for g in cfg["groups"]:
        jobs.append((g, [g, tier, str(seed)], None))
    with ThreadPoolExecutor(max_workers=min(16, max(1, len(jobs)))) as ex:
        futs = [(j, ex.submit(run_pipe, hbin, j[1], j[2])) for j in jobs]
        walls = {}
        for j, fu in futs:
            res = fu.result()
            walls[j[0]] = round(res["wall"], 2)
            tally.absorb(res, j[0])
            try:
                os.remove(res["hpath"])
            except OSError:
                pass
    return True, walls


def decide(pid, cfg, tier, seed, t0):
    from importlib import import_module
    special = cfg.get("special")
    coverage_extra = {}
    assumptions = list(cfg.get("assumptions", []))
    gen = regenerate()
    build_driver()
    theorems = list(cfg.get("theorems", []))
    if theorems:
        # per-run obligations: the current translation of every function the property's theorems mention (and of what
        # they call) equals the baseline translation those theorems are about (Generated/Stable/*.lean)
        theorems += [t for t in gen.get("translator", {}).get("stable", {}).get(pid, []) if t not in theorems]
    # proof obligations exist only for properties with registered theorems (a Properties file that is still
    # work in progress is not yet part of the claim)
    p_ok, p_err = build_property(pid) if theorems else (True, "")
    audit = audit_axioms(pid, theorems) if p_ok else {t: (False, ["module did not build"]) for t in theorems}
    scan = source_scan(pid) if theorems else []
    undischarged = [t for t, (ok, _) in audit.items() if not ok]
    if not gen["ok"]:
        p_ok = False
        p_err = "constants could not be regenerated from src/constants/mod.rs: " + gen.get("error", "")
    if scan:
        p_ok = False
        p_err += "\nforbidden constructs: " + "; ".join(scan[:5])
    axioms_used = sorted({a for _, (_, axs) in audit.items() for a in axs if not a.startswith("<")})
    if tier == "thorough" and theorems and p_ok:
        lc = leanchecker(pid)
        coverage_extra["leanchecker"] = lc
        if lc.get("ran") and lc.get("rc") != 0:
            p_ok = False
            p_err += "\nleanchecker rejected the compiled modules: " + lc.get("output", "")

    tally = Tally()
    ok, walls = run_groups(pid, cfg, tier, seed, tally, cfg.get("flavour", "release"))
    if not ok:
        if cfg.get("build_is_check"):
            rp = write_replay(pid, "build", {"error": walls[-3000:], "note": "the harness (public API client) no longer builds against /repo"})
            return finish(pid, cfg, tier, seed, t0, tally, [("build", rp, False)], [], p_ok, theorems, undischarged, axioms_used, coverage_extra, assumptions, gen)
        m = re.search(r"error\[E0277\]: `[^`]*` cannot be (sent|shared) between threads safely", walls)
        if pid == "C15" and m:
            # rustc is the authority for Send + Sync: the harness' assert_send_sync::<T>() for a public type fails
            rp = write_replay(pid, "send-sync", {"rustc_error": walls[max(0, m.start() - 200):m.start() + 2500],
                                                  "note": "a public type is no longer Send + Sync (harness/src/main.rs static_asserts)"})
            return finish(pid, cfg, tier, seed, t0, tally, [("send-sync", rp, False)], [], p_ok, theorems, undischarged, axioms_used, coverage_extra, assumptions, gen)
        # the client of the public API that carries the correspondence no longer compiles: the property is no
        # longer shown to hold on this tree, and nothing could be executed to look for a failing input
        rp = write_replay(pid, "unproved", {"correspondence": "harness build (cargo build --offline in /verif/harness against /repo)",
                                            "error": walls[-3000:], "note": "the correspondence check cannot run: the harness no longer builds against /repo"})
        return finish(pid, cfg, tier, seed, t0, tally, [("unproved", rp, True)], [], p_ok, theorems, undischarged, axioms_used, coverage_extra, assumptions, gen)
    if special:
        mod = import_module("special_" + special)
        extra_viol, extra_cov = mod.run(pid, cfg, tier, seed, tally, sys.modules[__name__])
        coverage_extra.update(extra_cov)
    else:
        extra_viol = []

    fams = set(cfg["families"])
    known = load_known()
    kf_classes = {}
    for f in known.get("findings", []):
        if f["property"] == pid or pid in f.get("also", []):
            kf_classes[f["class"]] = f
    violations = []   # (kind, replay path, no_input_found)
    known_hits = {}
    # O: oracle failures for this property
    for name, text in tally.oracle_fail:
        if not name.startswith(pid + "."):
            continue
        m = re.search(r"\[KF:([a-z_]+)\]", name)
        if m and m.group(1) in kf_classes:
            known_hits.setdefault(m.group(1), text)
            continue
        line, model, zone = split_ctx(text)
        rp = write_replay(pid, "oracle", {"oracle": name, "line": line, "zone_line": zone, "seed": seed, "tier": tier})
        violations.append(("oracle:" + name, rp, False))
        if len(violations) >= 5:
            break
    # panics / aborts are failing inputs for every property whose families they hit
    for tag, text in tally.disagree:
        line, model, zone = split_ctx(text)
        if tag == "panic" and family_of(line) in fams:
            rp = write_replay(pid, "panic", {"line": line, "zone_line": zone, "model": model, "seed": seed, "tier": tier})
            violations.append(("panic", rp, False))
            if len(violations) >= 5:
                break
    for label, rc, err in tally.aborts:
        rp = write_replay(pid, "abort", {"group": label, "harness_rc": rc, "stderr": err, "seed": seed, "tier": tier})
        violations.append(("abort", rp, False))
    violations += extra_viol
    # K: correspondence on this property's projection
    k_bad = []
    for tag, text in tally.disagree:
        line, model, zone = split_ctx(text)
        if tag == "badline":
            k_bad.append((tag, line, model, zone))
            continue
        if family_of(line) not in fams:
            continue
        if tag == "errkind" and not cfg.get("errkind_matters", True):
            continue
        if tag == "panic":
            continue
        k_bad.append((tag, line, model, zone))
    if not violations and (k_bad or not p_ok or undischarged):
        # the property is no longer shown; a failing input was searched for by the oracles on this run
        # (and on the thorough generators when the run was quick)
        if tier == "quick" and not os.environ.get("VERIF_NO_ESCALATE"):
            t2 = Tally()
            ok2, _ = run_groups(pid, cfg, "thorough", seed, t2, cfg.get("flavour", "release"))
            for name, text in t2.oracle_fail:
                if name.startswith(pid + ".") and not re.search(r"\[KF:", name):
                    line, model, zone = split_ctx(text)
                    rp = write_replay(pid, "oracle", {"oracle": name, "line": line, "zone_line": zone, "seed": seed, "tier": "thorough(escalated)"})
                    violations.append(("oracle:" + name, rp, False))
                    break
        if not violations:
            detail = {"seed": seed, "tier": tier}
            if k_bad:
                tag, line, model, zone = k_bad[0]
                detail.update({"correspondence_family": family_of(line), "first_disagreeing_line": line, "model_answer": model, "zone_line": zone, "disagreements": len(k_bad)})
            if not p_ok:
                detail["proof_module"] = "TzVerif.Properties." + pid
                detail["lake_error"] = p_err[:3000]
            if undischarged:
                detail["theorems_not_checked"] = {t: audit[t][1] for t in undischarged}
            rp = write_replay(pid, "unproved", detail)
            violations.append(("unproved", rp, True))
    return finish(pid, cfg, tier, seed, t0, tally, violations, sorted(known_hits.items()), p_ok, theorems, undischarged, axioms_used, coverage_extra, assumptions, gen, walls, len(k_bad))


def finish(pid, cfg, tier, seed, t0, tally, violations, known_hits, p_ok, theorems, undischarged, axioms_used, coverage_extra, assumptions, gen, walls=None, k_bad=0):
    fams = cfg["families"]
    evaluations = sum(tally.fam.get(f, {}).get("lines", 0) for f in fams)
    distinct_nt = sum(tally.fam.get(f, {}).get("distinct_non_err", 0) + len(tally.fam.get(f, {}).get("err_kinds", {})) for f in fams)
    samples = []
    for f in fams:
        samples += tally.samples.get(f, [])[:2]
    level = cfg["level"]
    discharged = len(theorems) - len(undischarged) if p_ok else 0
    cov = {
        "evaluations": evaluations,
        "distinct_nontrivial": distinct_nt,
        "rule": cfg.get("rule", "lines generated by the harness groups %s; distinct = distinct protocol lines (64-bit hash); non-trivial = accepted (non-error) answers, plus one per distinct error kind" % ",".join(cfg["groups"])),
        "samples": samples[:8] or ["(no line generated)"],
        "obligations": len(theorems),
        "discharged": discharged,
        "checker_cmd": "cd lean && lake build TzVerif.Properties.%s && lake env lean work/audit_%s.lean  (#print axioms)" % (pid, pid),
        "trusted_base": ["Lean 4.33 kernel", "axioms used by the listed theorems: " + (", ".join(axioms_used) or "none"),
                         "hand-written model tied to /repo by generated constants + differential correspondence (this run)",
                         "rustc/cargo, catch_unwind"] + cfg.get("trusted_extra", []),
        "theorems": theorems,
        "theorems_not_checked": undischarged,
        "families": {f: {k: v for k, v in tally.fam.get(f, {}).items()} for f in fams},
        "model_sync": {f: {"lines": d["lines"], "disagree": d["disagree"], "disagree_errkind": d["disagree_errkind"]} for f, d in tally.fam.items()},
        "model_disagreements": k_bad,
        "impl_oracle_failures": len([1 for n, _ in tally.oracle_fail if n.startswith(pid + ".") and "[KF:" not in n]),
        "oracle_runs": sum(tally.fam.get(f, {}).get("oracle_runs", 0) for f in fams),
        "known_findings_replayed": [k for k, _ in known_hits],
        "generated_constants": gen,
        "anchors": anchors_summary(),
        "group_wall_s": walls or {},
        "explanation": cfg.get("explanation", ""),
        "exhaustive": bool(cfg.get("exhaustive", False)),
    }
    if level == "translation_validation":
        cov["programs"] = coverage_extra.get("programs", 1)
        cov["disagreements_checked"] = coverage_extra.get("disagreements_checked", evaluations)
    cov.update(coverage_extra)
    ev = {
        "property_id": pid, "tier": tier, "seed": seed, "level": level, "coverage": cov,
        "assumptions": assumptions + ["64-bit usize target", "Rust integer semantics modelled on unbounded Int (DESIGN §1.4)",
                                      "tools/rs2lean.py (Rust-subset translator) and its modelled externs: parse_int, from_be/ne_bytes, core::fmt padding, str methods, tuple partial_cmp (DESIGN §13, §12.8)"],
        "wall_s": round(time.time() - t0, 2), "violations": len(violations),
    }
    os.makedirs(EVID, exist_ok=True)
    with open(os.path.join(EVID, pid + ".json"), "w") as f:
        json.dump(ev, f, indent=1)
    for cls, text in known_hits:
        print("KNOWN-FINDING: property=%s class=%s e.g. %s" % (pid, cls, split_ctx(text)[0][:200]))
    if violations:
        for kind, rp, nofound in violations[:5]:
            print("VIOLATION property=%s replay=%s%s" % (pid, rp, " no-failing-input-found" if nofound else ""))
        return 1
    print("OK property=%s tier=%s evaluations=%d theorems=%d/%d wall=%.1fs" % (pid, tier, evaluations, discharged, len(theorems), time.time() - t0))
    return 0


def replay(pid, path):
    d = json.load(open(path))
    lines = []
    if d.get("zone_line"):
        lines.append(d["zone_line"])
    line = d.get("line") or d.get("first_disagreeing_line")
    if not line:
        print("replay file names no input (%s): %s" % (d.get("kind"), json.dumps({k: d[k] for k in d if k not in ("property",)})[:1500]))
        return 1
    lines.append(line)
    os.makedirs(WORK, exist_ok=True)
    inp = os.path.join(WORK, "replay_in.txt")
    open(inp, "w").write("\n".join(lines) + "\n")
    ok, out, hbin = build_harness("release")
    if not ok:
        infra("harness does not build:\n" + out[-2000:])
    build_driver()
    res = run_pipe(hbin, ["exec"], inp)
    bad = [l for l in res["lines"] if l.startswith(("DISAGREE", "ORACLE-FAIL", "PANIC"))]
    for l in res["lines"]:
        print(l[:600])
    return 1 if bad or res["harness_rc"] != 0 else 0


def main():
    ap = argparse.ArgumentParser()
    ap.add_argument("pid")
    ap.add_argument("--tier", default=os.environ.get("VERIF_TIER", "quick"))
    ap.add_argument("--replay")
    a = ap.parse_args()
    if os.environ.get("VERIF_TIER") in ("quick", "thorough"):
        a.tier = os.environ["VERIF_TIER"]
    if a.pid not in PROPS:
        infra("unknown property " + a.pid)
    if a.replay:
        sys.exit(replay(a.pid, a.replay))
    try:
        seed = int(os.environ.get("VERIF_SEED", "1"))
    except ValueError:
        seed = 1
    t0 = time.time()
    sys.exit(decide(a.pid, PROPS[a.pid], a.tier, seed, t0))


if __name__ == "__main__":
    main()
