#!/bin/sh
# MANIFEST.setup_cmd: build the framework from files on disk only (offline).
set -e
cd "$(dirname "$0")/.."
export CARGO_NET_OFFLINE=true
python3 tools/gen_lean.py
python3 tools/rs2lean.py
(cd lean && lake build TzVerif tzmodel)
# warm the proof cache (a tree on which a proof obligation is broken must not fail the setup: the checks report it)
(cd lean && lake build TzVerif.Properties.All > /dev/null 2>&1 || true)
cp /repo/Cargo.lock harness/Cargo.lock 2>/dev/null || true
(cd harness && CARGO_TARGET_DIR=target cargo build --offline --release)
(cd harness && CARGO_TARGET_DIR=target cargo build --offline)
(cd harness && CARGO_TARGET_DIR=target-alloc cargo build --offline --release --no-default-features --features alloc)
(cd harness && CARGO_TARGET_DIR=target-core cargo build --offline --release --no-default-features)
echo setup-done
