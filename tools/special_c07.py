"""C07: every generator group is run once more in the `dev` build (overflow-checks, debug-assertions);
any PANIC answer, abort, or allocation above the bound is the replay."""
import os
import re


GROUPS_QUICK = ["gmtime", "utcnew", "tn", "fmt", "dt", "lttnew", "rulenew", "rulelookup", "zonelookup", "leap", "zonenew", "findn", "tzstr", "tzifgen", "resolve"]


def run(pid, cfg, tier, seed, tally, ck):
    viol = []
    ok, out, hbin = ck.build_harness("dev")
    if not ok:
        ck.infra("dev harness does not build:\n" + out[-2000:])
    from concurrent.futures import ThreadPoolExecutor
    t2 = ck.Tally()
    with ThreadPoolExecutor(max_workers=16) as ex:
        futs = [(g, ex.submit(ck.run_pipe, hbin, [g, tier, str(seed)], None)) for g in GROUPS_QUICK]
        for g, fu in futs:
            res = fu.result()
            t2.absorb(res, g)
            try:
                os.remove(res["hpath"])
            except OSError:
                pass
    total = sum(d["lines"] for d in t2.fam.values())
    panics = [(tag, text) for tag, text in t2.disagree if tag == "panic"]
    for tag, text in panics[:5]:
        line, model, zone = ck.split_ctx(text)
        rp = ck.write_replay(pid, "panic", {"line": line, "zone_line": zone, "model": model, "build": "dev (overflow-checks, debug-assertions)", "seed": seed})
        viol.append(("panic", rp, False))
    for label, rc, err in t2.aborts:
        rp = ck.write_replay(pid, "abort", {"group": label, "harness_rc": rc, "stderr": err, "build": "dev"})
        viol.append(("abort", rp, False))
    allocv = [c for c in (tally.comments + t2.comments) if c.startswith("# ALLOC-VIOLATION")]
    for c in allocv[:3]:
        rp = ck.write_replay(pid, "alloc", {"detail": c})
        viol.append(("alloc", rp, False))
    stats = [c for c in tally.comments if c.startswith("# ALLOC-STATS")]
    # release/dev divergence: both were compared with the same model, so any is a model disagreement in one of them
    dev_dis = [(tag, text) for tag, text in t2.disagree if tag in ("value",)]
    for tag, text in dev_dis[:3]:
        line, model, zone = ck.split_ctx(text)
        rp = ck.write_replay(pid, "dev-divergence", {"line": line, "zone_line": zone, "model": model, "build": "dev"})
        viol.append(("dev-divergence", rp, False))
    cov = {"dev_build_lines": total, "dev_build_panics": len(panics), "alloc_stats": stats, "alloc_violations": len(allocv),
           "dev_build_families": {f: d["lines"] for f, d in t2.fam.items()}}
    return viol, cov
