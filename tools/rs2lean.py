#!/usr/bin/env python3
"""rs2lean: translate a listed set of functions of /repo/src from Rust to Lean 4, on every run.

The output (lean/TzVerif/Generated/Src.lean, namespace TzVerif.Src) is what the source says *now*; the
theorems of Proofs/SrcEq*.lean state that each translated function equals the hand-written model function the
property theorems are about.  A change to one of these functions changes the generated definition, and the
equality either still checks (harmless) or breaks a proof obligation.

Rust subset (enough for the pure integer code of the crate):
  items      fn / const fn inside or outside `impl T { }`, single-arm macro_rules! used as expression macros
  statements let [mut], compound and plain assignment to locals, if / else, if let, while (with break / return),
             for x in slice (with break), return, expression statements
  exprs      integer / bool literals, paths, unary - !, binary arithmetic / comparison / logic, `as` casts,
             calls, method calls (checked_*, saturating_*, rem_euclid, div_euclid, abs, len, accessors),
             indexing, field access, struct literals, tuples, match, if, blocks, `?`
Semantics (recorded in DESIGN.md, trusted base):
  * every integer type is Lean `Int`; `+ - *` are the unbounded operations (that they do not overflow is the
    list of C07 site obligations); `/` and `%` are T-division (Int.tdiv / Int.tmod); div_euclid / rem_euclid are
    Int.ediv / Int.emod; `as T` wraps into T's range (Src.wrap); checked_* test T's range; saturating_* clamp;
  * `let mut` + assignment become shadowing `let`s; an `if` that assigns becomes a tuple-valued `if`;
    `return` inside a branch makes the rest of the function the other branch;
  * `while` becomes Src.loop with explicit fuel (given per function below, and shown sufficient by the equality
    proofs); `for` over a slice becomes Src.forIn (structural);
  * slices are Lists, indexing is `Src.idx` (total: default value out of range — indexes in range is again a
    C07 obligation), references and derefs are erased.
Anything outside the subset makes the translator fail closed: the function is emitted as `sorry`-free
`def f := (TRANSLATION_FAILED : …)` is NOT attempted — instead the run aborts with exit code 3 and the check
reports the proof obligation as broken.
"""
import json
import os
import re
import sys

ROOT = os.path.dirname(os.path.dirname(os.path.abspath(__file__)))
REPO = os.environ.get("VERIF_REPO", "/repo")
OUT = os.path.join(ROOT, "lean", "TzVerif", "Generated")


class TransError(Exception):
    pass


# ----------------------------------------------------------------------------------------------- lexer

TOKEN_RE = re.compile(r"""
    (?P<ws>\s+)
  | (?P<lc>//[^\n]*)
  | (?P<bc>/\*.*?\*/)
  | (?P<str>b?"(?:[^"\\]|\\.)*")
  | (?P<chr>b?'(?:[^'\\]|\\.)')
  | (?P<life>'[A-Za-z_][A-Za-z0-9_]*)
  | (?P<num>0x[0-9a-fA-F_]+|[0-9][0-9_]*(?:[iu](?:8|16|32|64|128|size))?)
  | (?P<id>[A-Za-z_][A-Za-z0-9_]*)
  | (?P<op>::|->|=>|==|!=|<=|>=|&&|\|\||\+=|-=|\*=|/=|%=|\.\.=|\.\.|<<|>>|[-+*/%=<>!&|^.,;:(){}\[\]#?$@])
""", re.X | re.S)


def lex(src):
    toks = []
    pos = 0
    n = len(src)
    while pos < n:
        m = TOKEN_RE.match(src, pos)
        if not m:
            raise TransError("cannot tokenise at %r" % src[pos:pos + 30])
        pos = m.end()
        k = m.lastgroup
        if k in ("ws", "lc", "bc"):
            continue
        toks.append((k, m.group(k)))
    return toks


# ----------------------------------------------------------------------------------------------- parser

INT_TYPES = {"i8", "i16", "i32", "i64", "i128", "isize", "u8", "u16", "u32", "u64", "u128", "usize"}
BITS = {"i8": 8, "i16": 16, "i32": 32, "i64": 64, "i128": 128, "isize": 64, "u8": 8, "u16": 16, "u32": 32, "u64": 64, "u128": 128, "usize": 64}

BINPREC = [("||",), ("&&",), ("==", "!=", "<", ">", "<=", ">="), ("|",), ("^",), ("&",), ("<<", ">>"), ("+", "-"), ("*", "/", "%")]


class Parser:
    def __init__(self, toks, macros=None):
        self.t = toks
        self.i = 0
        self.macros = macros if macros is not None else {}

    # -- helpers
    def peek(self, k=0):
        return self.t[self.i + k] if self.i + k < len(self.t) else ("eof", "")

    def at(self, v, k=0):
        return self.peek(k)[1] == v and self.peek(k)[0] in ("op", "id")

    def next(self):
        tok = self.peek()
        self.i += 1
        return tok

    def expect(self, v):
        tok = self.next()
        if tok[1] != v:
            raise TransError("expected %r, got %r (near %s)" % (v, tok[1], " ".join(x[1] for x in self.t[max(0, self.i - 8):self.i + 4])))
        return tok

    def ident(self):
        tok = self.next()
        if tok[0] != "id":
            raise TransError("expected identifier, got %r" % (tok[1],))
        return tok[1]

    def skip_attrs(self):
        while self.at("#"):
            self.next()
            if self.at("!"):
                self.next()
            self.skip_group("[", "]")

    def skip_group(self, o, c):
        self.expect(o)
        d = 1
        while d:
            tok = self.next()
            if tok[0] == "eof":
                raise TransError("unbalanced " + o)
            if tok[1] == o and tok[0] == "op":
                d += 1
            elif tok[1] == c and tok[0] == "op":
                d -= 1

    # -- types
    def ty(self):
        if self.at("&"):
            self.next()
            if self.peek()[0] == "life":
                self.next()
            if self.at("mut"):
                self.next()
            return ("ref", self.ty())
        if self.at("["):
            self.next()
            t = self.ty()
            if self.at(";"):
                self.next()
                self.expr()
            self.expect("]")
            return ("slice", t)
        if self.at("("):
            self.next()
            ts = []
            while not self.at(")"):
                ts.append(self.ty())
                if self.at(","):
                    self.next()
            self.expect(")")
            return ("tuple", ts) if ts else ("unit",)
        if self.at("_"):
            self.next()
            return ("infer",)
        if self.at("impl") or self.at("dyn"):
            self.next()
        name = self.ident()
        while self.at("::"):
            self.next()
            name = self.ident()
        args = []
        if self.at("<"):
            self.next()
            while not self.at(">"):
                if self.peek()[0] == "life":
                    self.next()
                elif self.peek()[0] == "num":
                    args.append(("constarg", self.number(self.next()[1])))
                else:
                    args.append(self.ty())
                if self.at(","):
                    self.next()
            self.expect(">")
        if name in INT_TYPES or name == "bool":
            return (name,)
        if name == "char":
            return ("char",)
        if name == "str":
            return ("str",)
        if name == "Vec" and len(args) == 1:
            return ("slice", args[0])
        consts = [a[1] for a in args if a[0] == "constarg"]
        if consts and name not in ("Result", "Option"):
            return ("named", "%s_%d" % (name, consts[0]))
        if name == "Result" and args:
            return ("result", args[0], args[1] if len(args) > 1 else ("named", "TzError"))
        if name == "Option" and args:
            return ("option", args[0])
        return ("named", name)

    # -- patterns
    def pat(self):
        p = self.pat1()
        if self.at("|"):
            alts = [p]
            while self.at("|"):
                self.next()
                alts.append(self.pat1())
            return ("por", alts)
        return p

    def pat1(self):
        if self.at("&"):
            self.next()
            return self.pat1()
        if self.at("mut"):
            self.next()
            return ("pvar", self.ident())
        if self.at("_"):
            self.next()
            return ("pwild",)
        if self.at("["):
            self.next()
            if self.at("]"):
                self.next()
                return ("pslice_empty",)
            if self.at(".."):
                self.next()
                self.expect(",")
                sub = self.pat()
                self.expect("]")
                return ("pslice_last", sub)
            ps = []
            while not self.at("]"):
                if self.at(".."):
                    raise TransError("slice pattern with a rest in the middle")
                ps.append(self.pat())
                if self.at(","):
                    self.next()
            self.expect("]")
            return ("parray", ps)
        if self.at("("):
            self.next()
            ps = []
            while not self.at(")"):
                ps.append(self.pat())
                if self.at(","):
                    self.next()
            self.expect(")")
            return ("ptuple", ps)
        if self.peek()[0] == "chr" and self.peek()[1].startswith("b'"):
            v = byte_value(self.next()[1])
            if self.at("..="):
                self.next()
                return ("prange", v, byte_value(self.next()[1]))
            return ("plit", v)
        if self.at("-") or self.peek()[0] == "num":
            neg = False
            if self.at("-"):
                self.next()
                neg = True
            v = self.number(self.next()[1])
            v = -v if neg else v
            if self.at("..="):
                self.next()
                neg2 = False
                if self.at("-"):
                    self.next()
                    neg2 = True
                w = self.number(self.next()[1])
                return ("prange", v, -w if neg2 else w)
            return ("plit", v)
        if self.at("true") or self.at("false"):
            return ("pbool", self.next()[1] == "true")
        path = [self.ident()]
        while self.at("::"):
            self.next()
            path.append(self.ident())
        if self.at("("):
            self.next()
            ps = []
            while not self.at(")"):
                ps.append(self.pat())
                if self.at(","):
                    self.next()
            self.expect(")")
            return ("pctor", path, ps)
        if self.at("{"):
            self.next()
            fs = []
            while not self.at("}"):
                if self.at(".."):
                    self.next()
                    continue
                f = self.ident()
                if self.at(":"):
                    self.next()
                    fs.append((f, self.pat()))
                else:
                    fs.append((f, ("pvar", f)))
                if self.at(","):
                    self.next()
            self.expect("}")
            return ("pstruct", path, fs)
        if len(path) == 1 and (path[0][0].islower() or path[0][0] == "_"):
            if self.at("@"):
                self.next()
                return ("pat_at", path[0], self.pat1())
            return ("pvar", path[0])
        return ("pctor", path, [])

    @staticmethod
    def number(text):
        if text.startswith("0x"):
            return int(text[2:].replace("_", ""), 16)
        m = re.match(r"([0-9_]+)", text)
        return int(m.group(1).replace("_", ""))

    # -- expressions
    def expr(self, nostruct=False):
        e = self.binexpr(0, nostruct)
        if self.at("..="):
            self.next()
            return ("range", e, self.binexpr(0, nostruct), True)
        return e

    def binexpr(self, level, nostruct):
        if level == len(BINPREC):
            return self.castexpr(nostruct)
        lhs = self.binexpr(level + 1, nostruct)
        while self.peek()[0] == "op" and self.peek()[1] in BINPREC[level]:
            # `a < b` vs generic brackets: this subset has no turbofish in expressions
            op = self.next()[1]
            rhs = self.binexpr(level + 1, nostruct)
            lhs = ("bin", op, lhs, rhs)
        return lhs

    def castexpr(self, nostruct):
        e = self.unary(nostruct)
        while self.at("as"):
            self.next()
            e = ("cast", e, self.ty())
        return e

    def unary(self, nostruct):
        if self.at("-"):
            self.next()
            return ("neg", self.unary(nostruct))
        if self.at("!"):
            self.next()
            return ("not", self.unary(nostruct))
        if self.at("&"):
            self.next()
            if self.at("mut"):
                self.next()
            return self.unary(nostruct)
        if self.at("*"):
            self.next()
            return self.unary(nostruct)
        return self.postfix(nostruct)

    def postfix(self, nostruct):
        e = self.primary(nostruct)
        while True:
            if self.at("?"):
                self.next()
                e = ("try", e)
            elif self.at("."):
                self.next()
                tok = self.next()
                if tok[0] == "num":
                    e = ("tfield", e, int(tok[1]))
                    continue
                name = tok[1]
                targs = []
                if self.at("::") and self.at("<", 1):
                    self.next()
                    self.next()
                    while not self.at(">"):
                        if self.peek()[0] == "num":
                            targs.append(("lit", self.number(self.next()[1])))
                        else:
                            tt = self.ty()
                            targs.append(("path", [tt[1]]) if tt[0] == "named" else ("tyarg", tt))
                        if self.at(","):
                            self.next()
                    self.expect(">")
                if self.at("("):
                    e = ("mcall", e, name, self.args()) if not targs else ("mcall", e, name, targs + self.args())
                else:
                    e = ("field", e, name)
            elif self.at("["):
                self.next()
                if self.at(".."):
                    self.next()
                    i = ("rangeto", self.expr())
                else:
                    i = self.expr()
                    if self.at(".."):
                        self.next()
                        if not self.at("]"):
                            i = ("rangefromto", i, self.expr())
                        else:
                            i = ("rangefrom", i)
                self.expect("]")
                e = ("index", e, i)
            elif self.at("("):
                e = ("call", e, self.args())
            else:
                return e

    def args(self):
        self.expect("(")
        a = []
        while not self.at(")"):
            a.append(self.expr())
            if self.at(","):
                self.next()
        self.expect(")")
        return a

    def primary(self, nostruct):
        tok = self.peek()
        if tok[0] == "num":
            self.next()
            return ("lit", self.number(tok[1]))
        if tok[0] == "chr" and tok[1].startswith("b'"):
            self.next()
            return ("lit", byte_value(tok[1]), "byte")
        if tok[0] == "str" and tok[1].startswith('b"'):
            self.next()
            return ("bytes", bytes_value(tok[1]))
        if tok[0] == "chr":
            self.next()
            return ("charlit", tok[1])
        if tok[0] == "str":
            self.next()
            return ("strlit", tok[1])
        if self.at("true") or self.at("false"):
            return ("bool", self.next()[1] == "true")
        if self.at("("):
            self.next()
            es = []
            trailing = False
            while not self.at(")"):
                es.append(self.expr())
                trailing = False
                if self.at(","):
                    self.next()
                    trailing = True
            self.expect(")")
            if len(es) == 1 and not trailing:
                return es[0]
            return ("tuple", es)
        if self.at("{"):
            return self.block()
        if self.at("move"):
            self.next()
        if self.at("|") or self.at("||"):
            params = []
            if self.at("||"):
                self.next()
            else:
                self.next()
                while not self.at("|"):
                    pp = self.pat1()
                    pt = None
                    if self.at(":"):
                        self.next()
                        pt = self.ty()
                    params.append((pp, pt))
                    if self.at(","):
                        self.next()
                self.expect("|")
            rt = None
            if self.at("->"):
                self.next()
                rt = self.ty()
            body = self.block() if self.at("{") else self.expr()
            return ("closure", params, rt, body)
        if self.at("["):
            self.next()
            es = []
            while not self.at("]"):
                es.append(self.expr())
                if self.at(";") and len(es) == 1:
                    self.next()
                    n = self.expr()
                    self.expect("]")
                    return ("arrayrep", es[0], n)
                if self.at(","):
                    self.next()
            self.expect("]")
            return ("array", es)
        if self.at("if"):
            return self.ifexpr()
        if self.at("match"):
            self.next()
            scrut = self.expr(nostruct=True)
            self.expect("{")
            arms = []
            while not self.at("}"):
                p = self.pat()
                guard = None
                if self.at("if"):
                    self.next()
                    guard = self.expr()
                self.expect("=>")
                body = self.block() if self.at("{") else self.expr()
                if self.at(","):
                    self.next()
                arms.append((p, guard, body))
            self.expect("}")
            return ("match", scrut, arms)
        if self.at("return"):
            self.next()
            if self.at(";") or self.at("}") or self.at(","):
                return ("return", None)
            return ("return", self.expr())
        if self.at("break"):
            self.next()
            return ("break",)
        if self.at("<"):
            # <T>::NAME
            self.next()
            t = self.ty()
            self.expect(">")
            self.expect("::")
            return ("tyconst", t, self.ident())
        if tok[0] == "id":
            path = [self.ident()]
            targs = None
            while self.at("::"):
                self.next()
                if self.at("<"):
                    # turbofish: f::<4>(…)
                    self.next()
                    targs = []
                    while not self.at(">"):
                        if self.peek()[0] == "num":
                            targs.append(("lit", self.number(self.next()[1])))
                        else:
                            tt = self.ty()
                            targs.append(("path", [tt[1]]) if tt[0] == "named" else ("tyarg", tt))
                        if self.at(","):
                            self.next()
                    self.expect(">")
                    break
                path.append(self.ident())
            if targs is not None:
                return ("tpath", path, targs)
            if self.at("!"):
                # macro invocation
                self.next()
                name = path[-1]
                o = self.peek()[1]
                c = {"(": ")", "[": "]", "{": "}"}[o]
                start = self.i + 1
                self.skip_group(o, c)
                inner = self.t[start:self.i - 1]
                if name == "matches":
                    # matches!(expr, pat | pat): a match to bool
                    pp = Parser(inner, self.macros)
                    scr = pp.expr()
                    pp.expect(",")
                    pt = pp.pat()
                    return ("match", scr, [(pt, None, ("bool", True)), (("pwild",), None, ("bool", False))])
                if name == "write":
                    # write!(target, "format string with inline {name} / {name:0W} arguments")
                    if len(inner) != 3 or inner[0][0] != "id" or inner[1] != ("op", ",") or inner[2][0] != "str":
                        raise TransError("write! with positional arguments")
                    return ("fmtwrite", ("path", [inner[0][1]]), inner[2][1][1:-1])
                if name == "vec":
                    # vec![a, b, …]: the list
                    pp = Parser(inner + [("eof", "")], self.macros)
                    es = []
                    while pp.peek()[0] != "eof":
                        es.append(pp.expr())
                        if pp.at(","):
                            pp.next()
                        elif pp.peek()[0] != "eof":
                            raise TransError("vec! with a repeat count")
                    return ("array", es)
                if name == "format":
                    if len(inner) != 1 or inner[0][0] != "str":
                        raise TransError("format! with positional arguments")
                    return ("fmtstr", inner[0][1][1:-1])
                return self.expand_macro(name, inner)
            if self.at("{") and not nostruct and path[-1][0].isupper():
                self.next()
                fs = []
                while not self.at("}"):
                    f = self.ident()
                    if self.at(":"):
                        self.next()
                        fs.append((f, self.expr()))
                    else:
                        fs.append((f, ("path", [f])))
                    if self.at(","):
                        self.next()
                self.expect("}")
                return ("struct", path, fs)
            return ("path", path)
        raise TransError("unexpected token %r in expression" % (tok[1],))

    def expand_macro(self, name, inner):
        if name in ("unreachable", "panic", "debug_assert", "assert"):
            return ("unreachable",)
        if name not in self.macros:
            raise TransError("unknown macro %s!" % name)
        params, body = self.macros[name]
        # split arguments at top-level commas
        args = [[]]
        d = 0
        for tok in inner:
            if tok[0] == "op" and tok[1] in "([{":
                d += 1
            elif tok[0] == "op" and tok[1] in ")]}":
                d -= 1
            if d == 0 and tok == ("op", ","):
                args.append([])
            else:
                args[-1].append(tok)
        if args and not args[-1]:
            args.pop()
        if len(args) != len(params):
            raise TransError("macro %s!: %d arguments for %d parameters" % (name, len(args), len(params)))
        sub = dict(zip(params, args))
        out = []
        i = 0
        while i < len(body):
            if body[i] == ("op", "$") and i + 1 < len(body) and body[i + 1][1] in sub:
                arg = sub[body[i + 1][1]]
                out.extend([("op", "(")] + arg + [("op", ")")] if len(arg) > 1 else arg)
                i += 2
            else:
                out.append(body[i])
                i += 1
        p = Parser(out, self.macros)
        e = p.expr()
        if p.peek()[0] != "eof":
            raise TransError("macro %s!: trailing tokens after expansion" % name)
        return e

    def ifexpr(self):
        self.expect("if")
        if self.at("let"):
            self.next()
            p = self.pat()
            self.expect("=")
            scrut = self.expr(nostruct=True)
            then = self.block()
            els = None
            if self.at("else"):
                self.next()
                els = self.ifexpr() if self.at("if") else self.block()
            return ("iflet", p, scrut, then, els)
        c = self.expr(nostruct=True)
        then = self.block()
        els = None
        if self.at("else"):
            self.next()
            els = self.ifexpr() if self.at("if") else self.block()
        return ("if", c, then, els)

    def block(self):
        self.expect("{")
        stmts = []
        tail = None
        drop_from = None
        while not self.at("}"):
            if drop_from is not None and len(stmts) > drop_from:
                del stmts[drop_from:]
                drop_from = None
            if self.at("#") and self.peek(1)[1] == "[" and self.peek(2)[1] in ("cfg", "cfg_attr"):
                # a statement gated on the *target* (`unix`, as `rustc --print cfg` reports it for this machine) is
                # kept or dropped; the meaning of anything gated on a feature would depend on the feature set,
                # which is C19's subject: not in the subset
                pred = [t[1] for t in self.t[self.i + 3:self.i + 9]]
                if pred[:3] == ["(", "unix", ")"] and pred[3] == "]":
                    keep = target_cfg("unix")
                elif pred[:6] == ["(", "not", "(", "unix", ")", ")"]:
                    keep = not target_cfg("unix")
                else:
                    raise TransError("cfg-gated statement inside a function body")
                self.skip_attrs()
                if not keep:
                    drop_from = len(stmts)
            self.skip_attrs()
            if self.at(";"):
                self.next()
                continue
            if self.at("use"):
                while not self.at(";"):
                    self.next()
                self.next()
                continue
            if self.at("let"):
                self.next()
                p = self.pat()
                t = None
                if self.at(":"):
                    self.next()
                    t = self.ty()
                init = None
                if self.at("="):
                    self.next()
                    init = self.expr()
                if init is not None and self.at("else"):
                    # `let PAT = EXPR else { DIVERGES };` is `let (v..) = match EXPR { PAT => (v..), _ => DIVERGES };`
                    self.next()
                    els = self.block()
                    names = pat_bound_names(p)
                    if not names:
                        raise TransError("let-else whose pattern binds nothing")
                    if len(names) == 1:
                        val, lp = ("path", [names[0]]), ("pvar", names[0])
                    else:
                        val, lp = ("tuple", [("path", [n]) for n in names]), ("ptuple", [("pvar", n) for n in names])
                    init = ("match", init, [(p, None, val), (("pwild",), None, els)])
                    p, t = lp, None
                self.expect(";")
                stmts.append(("let", p, t, init))
                continue
            if self.at("while"):
                self.next()
                c = self.expr(nostruct=True)
                stmts.append(("while", c, self.block()))
                continue
            if self.at("for"):
                self.next()
                p = self.pat()
                self.expect("in")
                it = self.expr(nostruct=True)
                stmts.append(("for", p, it, self.block()))
                continue
            if self.at("if") or self.at("match") or self.at("{"):
                # block-like expression statement: ends at its closing brace (no postfix / binary continuation)
                e = self.primary(False)
                if self.at("}"):
                    tail = e
                    break
                if self.at(";"):
                    self.next()
                stmts.append(("expr", e))
                continue
            e = self.expr()
            if self.peek()[0] == "op" and self.peek()[1] in ("=", "+=", "-=", "*=", "/=", "%="):
                op = self.next()[1]
                rhs = self.expr()
                if not self.at("}"):
                    self.expect(";")
                stmts.append(("assign", e, op, rhs))
                continue
            if self.at(";"):
                self.next()
                stmts.append(("expr", e))
                continue
            if self.at("}"):
                tail = e
                break
            # block-like expression statements need no semicolon
            if e[0] in ("if", "iflet", "match", "block"):
                stmts.append(("expr", e))
                continue
            raise TransError("expected ; or } after expression, got %r" % (self.peek()[1],))
        self.expect("}")
        if drop_from is not None:
            if len(stmts) > drop_from:
                del stmts[drop_from:]
            elif tail is not None:
                tail = None
        return ("block", stmts, tail)


def pat_bound_names(p):
    if p[0] == "pvar":
        return [p[1]]
    if p[0] == "pat_at":
        return [p[1]] + pat_bound_names(p[2])
    if p[0] in ("ptuple", "parray"):
        return [n for x in p[1] for n in pat_bound_names(x)]
    if p[0] == "pslice_last":
        return pat_bound_names(p[1])
    if p[0] == "pctor":
        return [n for x in p[2] for n in pat_bound_names(x)]
    if p[0] == "pstruct":
        return [n for _, x in p[2] for n in pat_bound_names(x)]
    return []


_TARGET_CFG = None


def target_cfg(name):
    """is `name` set for the compilation target (rustc --print cfg)?"""
    global _TARGET_CFG
    if _TARGET_CFG is None:
        import subprocess
        try:
            out = subprocess.run(["rustc", "--print", "cfg"], capture_output=True, text=True, timeout=60).stdout
        except Exception as e:
            raise TransError("rustc --print cfg: %s" % e)
        _TARGET_CFG = set(out.split())
        if not _TARGET_CFG:
            raise TransError("rustc --print cfg printed nothing")
    return name in _TARGET_CFG


def char_value(tok):
    """code of a char literal token like '\\n' or ':'"""
    body = tok[1:-1]
    if body.startswith("\\"):
        return {"n": 10, "t": 9, "r": 13, "0": 0, "\\": 92, "'": 39, '"': 34}[body[1]] if body[1] != "x" else int(body[2:], 16)
    return ord(body)


def byte_value(tok):
    body = tok[2:-1]
    if body.startswith("\\"):
        return {"n": 10, "t": 9, "r": 13, "0": 0, "\\": 92, "'": 39, '"': 34}[body[1]] if body[1] != "x" else int(body[2:], 16)
    return ord(body)


def bytes_value(tok):
    body = tok[2:-1]
    out = []
    i = 0
    while i < len(body):
        if body[i] == "\\":
            if body[i + 1] == "x":
                out.append(int(body[i + 2:i + 4], 16))
                i += 4
            else:
                out.append({"n": 10, "t": 9, "r": 13, "0": 0, "\\": 92, "'": 39, '"': 34}[body[i + 1]])
                i += 2
        else:
            out.append(ord(body[i]))
            i += 1
    return out


def parse_file(path):
    """-> (functions: dict qualified name -> (params, ret, body), macros)"""
    toks = lex(open(path).read())
    # cut unit tests
    for i in range(len(toks) - 6):
        if [t[1] for t in toks[i:i + 7]] == ["#", "[", "cfg", "(", "test", ")", "]"]:
            toks = toks[:i]
            break
    macros = {}
    funcs = {}
    fn_generics = {}
    impl_consts = {}
    p = Parser(toks, macros)

    def parse_macro_rules():
        p.expect("macro_rules")
        p.expect("!")
        name = p.ident()
        p.expect("{")
        # single arm: ( $a:ty, ... ) => { body };
        o = p.next()[1]
        params = []
        while not p.at(")") and not p.at("]"):
            if p.at("$"):
                p.next()
                params.append(p.ident())
                p.expect(":")
                p.ident()
            else:
                p.next()
        p.next()
        p.expect("=>")
        start = p.i + 1
        p.skip_group("{", "}")
        body = p.t[start:p.i - 1]
        while not p.at("}"):
            p.next()
        p.expect("}")
        macros[name] = (params, body)

    def parse_fn(prefix):
        p.expect("fn")
        name = p.ident()
        generics = {}
        if p.at("<"):
            p.next()
            while not p.at(">"):
                if p.peek()[0] == "life":
                    p.next()
                elif p.at("const"):
                    p.next()
                    gn = p.ident()
                    p.expect(":")
                    p.ty()
                    generics[gn] = ("const",)
                else:
                    gn = p.ident()
                    generics[gn] = ("type",)
                    if p.at(":"):
                        p.next()
                        if p.at("Fn") or p.at("FnMut") or p.at("FnOnce"):
                            p.next()
                            p.expect("(")
                            ats = []
                            while not p.at(")"):
                                ats.append(p.ty())
                                if p.at(","):
                                    p.next()
                            p.expect(")")
                            rt = ("unit",)
                            if p.at("->"):
                                p.next()
                                rt = p.ty()
                            generics[gn] = ("fn", ats, rt)
                        else:
                            # other bounds (FromStr<Err = …>): skip to the next , or > at depth 0
                            d = 0
                            while not ((p.at(",") or p.at(">")) and d == 0):
                                if p.peek()[0] == "eof":
                                    raise TransError("unterminated generics")
                                if p.at("<"):
                                    d += 1
                                elif p.at(">"):
                                    d -= 1
                                elif p.at(">>"):
                                    # lexed as one token: closes the bound and the parameter list
                                    d -= 2
                                    if d < 0:
                                        p.t[p.i] = ("op", ">")
                                        d = 0
                                        break
                                p.next()
                if p.at(","):
                    p.next()
            p.expect(">")
        p.expect("(")
        params = []
        while not p.at(")"):
            p.skip_attrs()
            self_mut = False
            if p.at("&"):
                p.next()
                if p.peek()[0] == "life":
                    p.next()
                if p.at("mut"):
                    p.next()
                    self_mut = True
            if p.at("mut"):
                p.next()
            pn = p.ident()
            if pn == "self":
                # `&mut self`: threaded through like every other `&mut` parameter
                params.append(("self", ("mutref", ("named", "Self")) if self_mut else ("named", "Self")))
            else:
                p.expect(":")
                mutref = p.at("&") and (p.at("mut", 1) or (p.peek(1)[0] == "life" and p.at("mut", 2)))
                pt = p.ty()
                if pt[0] == "named" and pt[1] in generics and generics[pt[1]][0] == "fn":
                    pt = ("fnty", generics[pt[1]][1], generics[pt[1]][2])
                params.append((pn, ("mutref", pt[1] if pt[0] == "ref" else pt) if mutref else pt))
            if p.at(","):
                p.next()
        p.expect(")")
        ret = ("unit",)
        if p.at("->"):
            p.next()
            ret = p.ty()
        if p.at("where"):
            while not p.at("{"):
                p.next()
        if p.at(";"):
            p.next()
            return
        start = p.i
        try:
            body = p.block()
            funcs[(prefix + "." if prefix else "") + name] = (params, ret, body)
            fn_generics[(prefix + "." if prefix else "") + name] = [g for g, k in generics.items() if k[0] == "type"]
            cgs = [g for g, k in generics.items() if k[0] == "const"]
            if cgs:
                fq = (prefix + "." if prefix else "") + name
                funcs[fq] = ([(c, ("usize",)) for c in cgs] + list(params), ret, body)
        except TransError as e:
            # not every function of the file is in the subset; only listed ones must parse
            funcs[(prefix + "." if prefix else "") + name] = ("ERROR", str(e), None)
            p.i = start
            p.skip_group("{", "}")

    def parse_items(prefix, closing):
        while p.peek()[0] != "eof":
            if closing and p.at("}"):
                return
            p.skip_attrs()
            while p.at("pub"):
                p.next()
                if p.at("("):
                    p.skip_group("(", ")")
            while p.at("const") and p.at("fn", 1) or p.at("unsafe") or p.at("async"):
                p.next()
            if p.peek()[0] == "id" and p.peek()[1] in macros and not macros[p.peek()[1]][0] and p.at("!", 1) and p.at("(", 2) and p.at(")", 3):
                # item-level invocation of a parameterless macro_rules macro (`impl_datetime!();`): its body is spliced
                # in place and parsed as items of the enclosing impl block
                end = p.i + 4
                if p.t[end] == ("op", ";"):
                    end += 1
                p.t[p.i:end] = macros[p.peek()[1]][1]
                continue
            if p.at("fn"):
                parse_fn(prefix)
            elif p.at("macro_rules"):
                parse_macro_rules()
            elif p.at("impl"):
                p.next()
                iconsts = []
                if p.at("<"):
                    st = p.i
                    p.skip_group("<", ">")
                    toks2 = p.t[st:p.i]
                    for j in range(len(toks2) - 1):
                        if toks2[j] == ("id", "const") and toks2[j + 1][0] == "id":
                            iconsts.append(toks2[j + 1][1])
                t = p.ty()
                if p.at("for"):
                    p.next()
                    t = p.ty()
                name = t[1] if t[0] == "named" else "?"
                if p.at("where"):
                    while not p.at("{"):
                        p.next()
                p.expect("{")
                before = set(funcs)
                parse_items(name, True)
                p.expect("}")
                for q in set(funcs) - before:
                    impl_consts[q] = iconsts
            elif p.at("mod") and p.peek(2)[1] == "{":
                p.next()
                p.ident()
                p.expect("{")
                parse_items(prefix, True)
                p.expect("}")
            else:
                # skip one item: up to ; at depth 0 or a balanced { }
                d = 0
                while p.peek()[0] != "eof":
                    tok = p.next()
                    if tok[0] == "op" and tok[1] in "([{":
                        d += 1
                    elif tok[0] == "op" and tok[1] in ")]}":
                        d -= 1
                        if d == 0 and tok[1] == "}":
                            break
                        if d < 0:
                            p.i -= 1
                            return
                    elif tok == ("op", ";") and d == 0:
                        break

    parse_items("", False)
    # macro invocations at item level inside impl blocks (impl_datetime!()) are skipped by the item skipper
    for q, g in fn_generics.items():
        if q in funcs and funcs[q][0] != "ERROR":
            funcs[q] = funcs[q] + (g,)
    for q, cs in impl_consts.items():
        if cs and q in funcs and funcs[q][0] != "ERROR":
            # const generic parameters of the impl block: explicit leading parameters of every method
            params = [(c, ("usize",)) for c in cs] + list(funcs[q][0])
            funcs[q] = (params,) + tuple(funcs[q][1:])
    return funcs, macros


# ----------------------------------------------------------------------------------------------- translation

def camel(s):
    parts = s.split("_")
    return parts[0] + "".join(x[:1].upper() + x[1:] for x in parts[1:])


def lower_first(s):
    return s[:1].lower() + s[1:]


LEAN_KEYWORDS = {"end", "from", "at", "do", "then", "else", "if", "let", "fun", "match", "with", "open", "in", "have", "show", "by", "local", "mut", "for", "where", "instance", "structure", "class", "def", "theorem", "type", "prefix", "infix", "macro", "section", "namespace", "variable", "universe", "export", "import", "private", "protected"}


def vname(s):
    c = s  # keep the Rust spelling: definitions read like the source
    if c in LEAN_KEYWORDS:
        c = c + "'"
    return c


# struct name -> {rust field: (lean field, rust type)}; accessors (methods without arguments) map to the same
STRUCTS = {
    "UtcDateTime": {"year": ("year", "i32"), "month": ("month", "u8"), "month_day": ("monthDay", "u8"), "hour": ("hour", "u8"), "minute": ("minute", "u8"),
                    "second": ("second", "u8"), "nanoseconds": ("nanoseconds", "u32")},
    "DateTime": {"year": ("year", "i32"), "month": ("month", "u8"), "month_day": ("monthDay", "u8"), "hour": ("hour", "u8"), "minute": ("minute", "u8"),
                 "second": ("second", "u8"), "nanoseconds": ("nanoseconds", "u32"), "unix_time": ("unixTime", "i64"), "local_time_type": ("localTimeType", "LocalTimeType")},
    "LocalTimeType": {"ut_offset": ("utOffset", "i32"), "is_dst": ("isDst", "bool")},
    "Transition": {"unix_leap_time": ("unixLeapTime", "i64"), "local_time_type_index": ("localTimeTypeIndex", "nat")},
    "LeapSecond": {"unix_leap_time": ("unixLeapTime", "i64"), "correction": ("correction", "i32")},
}

def _t(x):
    return x


STRUCTS.update({
    "AlternateTime": {"std": ("std", "LocalTimeType"), "dst": ("dst", "LocalTimeType"), "dst_start": ("dstStart", "RuleDay"), "dst_start_time": ("dstStartTime", "i32"),
                      "dst_end": ("dstEnd", "RuleDay"), "dst_end_time": ("dstEndTime", "i32")},
    "MonthWeekDay": {"month": ("month", "u8"), "week": ("week", "u8"), "week_day": ("weekDay", "u8")},
    "JulianDayCheckInfos": {"start_normal_year_offset": ("startNormalYearOffset", "i64"), "end_normal_year_offset": ("endNormalYearOffset", "i64"),
                            "start_leap_year_offset": ("startLeapYearOffset", "i64"), "end_leap_year_offset": ("endLeapYearOffset", "i64")},
    "MonthWeekDayCheckInfos": {"start_normal_year_offset_range": ("startNormalYearOffsetRange", ("tuple", [("i64",), ("i64",)])),
                               "end_normal_year_offset_range": ("endNormalYearOffsetRange", ("tuple", [("i64",), ("i64",)])),
                               "start_leap_year_offset_range": ("startLeapYearOffsetRange", ("tuple", [("i64",), ("i64",)])),
                               "end_leap_year_offset_range": ("endLeapYearOffsetRange", ("tuple", [("i64",), ("i64",)]))},
    "TimeZoneRef": {"transitions": ("transitions", ("slice", ("named", "Transition"))), "local_time_types": ("localTimeTypes", ("slice", ("named", "LocalTimeType"))),
                    "leap_seconds": ("leapSeconds", ("slice", ("named", "LeapSecond"))), "extra_rule": ("extraRule", ("option", ("named", "TransitionRule")))},
})
STRUCTS["TimeZone"] = dict(STRUCTS["TimeZoneRef"])      # the owned zone: Vec for slice, same model structure
# structures that exist only in the translation (TzVerif.Src, SrcPrelude.lean); everything else is TzVerif.Model
SRC_STRUCTS = {"MonthWeekDay", "JulianDayCheckInfos", "MonthWeekDayCheckInfos"}
LEAN_TYPE_NAME = {"TimeZoneRef": "TzVerif.Model.TimeZone", "FoundDateTimeKind": "TzVerif.Model.Found", "FoundDateTimeListRefMut": "TzVerif.Model.RefMut"}
# tuple structs with one field: the field itself
NEWTYPES = {"Julian1WithoutLeap": "u16", "Julian0WithLeap": "u16"}
# enums with payloads: variant -> (lean constructor, payload kinds)
STRUCT_VARIANTS = {
    # enum struct-variant literal / pattern -> (lean constructor, field order)
    ("FoundDateTimeKind", "Skipped"): ("TzVerif.Model.Found.skipped", ["before_transition", "after_transition"]),
}

STRUCT_VARIANT_FIELDS = {("FoundDateTimeKind", "Skipped"): {"before_transition": ("named", "DateTime"), "after_transition": ("named", "DateTime")}}

ENUMS = {
    "FoundDateTimeKind": {"Normal": ("TzVerif.Model.Found.normal", ["DateTime"])},
    "RuleDay": {"Julian1WithoutLeap": ("TzVerif.Model.RuleDay.julian1", ["Julian1WithoutLeap"]), "Julian0WithLeap": ("TzVerif.Model.RuleDay.julian0", ["Julian0WithLeap"]),
                "MonthWeekDay": ("TzVerif.Model.RuleDay.mwd", ["MonthWeekDay"])},
    "TransitionRule": {"Fixed": ("TzVerif.Model.TransitionRule.fixed", ["LocalTimeType"]), "Alternate": ("TzVerif.Model.TransitionRule.alternate", ["AlternateTime"])},
}


# methods that are not translated but given a meaning directly (trusted, listed in DESIGN.md): structural equality
# of local time types (the byte loop of TzAsciiStr::equal is exercised by the harness instead)
EXTERN_METHODS = {
    ("LocalTimeType", "equal"): ("(%s == %s)", ("bool",)),
}


# functions that are not translated but given a meaning directly (trusted; DESIGN §13)
EXTERN_FNS = {
    # big-endian integers (modelled as in the model: DESIGN trusted base)
    "u32.from_be_bytes": ("TzVerif.Src.be_unsigned", [("bytesN", 4)], ("u32",)),
    # native-endian u64 of an 8-byte buffer (x86-64 / aarch64: little-endian); only ever compared for equality
    "u64.from_ne_bytes": ("TzVerif.Src.ne_u64", [("bytesN", 8)], ("u64",)),
    "i32.from_be_bytes": ("TzVerif.Src.be_signed", [("bytesN", 4)], ("i32",)),
    "i64.from_be_bytes": ("TzVerif.Src.be_signed", [("bytesN", 8)], ("i64",)),
    # the constructor of local time types (its byte loop `TzAsciiStr::new` is not in the subset): the model function
    "LocalTimeType.new": ("TzVerif.Model.LocalTimeType.new", [("i32",), ("bool",), ("option", ("slice", ("u8",)))],
                          ("result", ("named", "LocalTimeType"), ("named", "LocalTimeTypeError"))),
    "u8.is_ascii_digit": ("TzVerif.Src.u8_is_ascii_digit", [("u8",)], ("bool",)),
    "u8.is_ascii_alphabetic": ("TzVerif.Src.u8_is_ascii_alphabetic", [("u8",)], ("bool",)),
}
# `str::from_utf8(bytes)?.parse::<T>()?` on the digit strings the parser hands over (modelled: DESIGN trusted base)
PARSE_INT = {"i32": "TzVerif.Src.parse_int_i32", "u16": "TzVerif.Src.parse_int_u16", "u8": "TzVerif.Src.parse_int_u8"}
# From conversions used by `?`: (from, to) -> constructor
FROM_CONV = {
    ("ParseDataError", "TzStringError"): "TzVerif.Model.TzStringError.parseData",
    ("ParseDataError", "TzFileError"): "TzVerif.Model.TzFileError.parseData",
}


STRUCTS.update({
    "Header": {"version": ("version", "Version"), "ut_local_count": ("utLocalCount", "usize"), "std_wall_count": ("stdWallCount", "usize"),
               "leap_count": ("leapCount", "usize"), "transition_count": ("transitionCount", "usize"), "type_count": ("typeCount", "usize"),
               "char_count": ("charCount", "usize")},
    "DataBlocks": {k: (v, ("slice", ("u8",))) for k, v in [("transition_times", "transitionTimes"), ("transition_types", "transitionTypes"),
                   ("local_time_types", "localTimeTypes"), ("time_zone_designations", "timeZoneDesignations"), ("leap_seconds", "leapSeconds"),
                   ("std_walls", "stdWalls"), ("ut_locals", "utLocals")]},
})
STRUCTS["DataBlocks_4"] = STRUCTS["DataBlocks"]
STRUCTS["DataBlocks_8"] = STRUCTS["DataBlocks"]
SRC_STRUCTS.update({"Header", "DataBlocks", "Version", "TzAsciiStr", "LocalTimeTypeSrc"})
STRUCTS.update({
    "TzAsciiStr": {"bytes": ("bytes", ("slice", ("u8",)))},
    "LocalTimeTypeSrc": {"ut_offset": ("utOffset", "i32"), "is_dst": ("isDst", "bool"), "time_zone_designation": ("timeZoneDesignation", ("option", ("named", "TzAsciiStr")))},
})
LEAN_TYPE_NAME.update({"DataBlocks_4": "TzVerif.Src.DataBlocks", "DataBlocks_8": "TzVerif.Src.DataBlocks", "TimeZone": "TzVerif.Model.TimeZone"})
# enums without payloads that exist only in the translation
UNIT_ENUMS = {"Version": "TzVerif.Src.Version"}
# trait methods implemented per const-generic instance: dispatch on the const parameter in scope
TRAIT_DISPATCH = {("DataBlocks", "parse_time"): ("TIME_SIZE", [(4, "DataBlocks_4.parse_time"), (8, "DataBlocks_8.parse_time")])}
# calls given the meaning of another translated function (owned constructor = borrowed constructor, C13)
CALL_ALIASES = {"TimeZone.new": "TimeZoneRef.new"}


def elem_type(t):
    """element type of a slice; elements of byte slices are Lean `Nat`s (tag `byte`)"""
    t = strip_ref(t) if t else None
    if not t or t[0] != "slice":
        return None
    e = strip_ref(t[1]) if t[1] else None
    return ("byte",) if e == ("u8",) else e


def field_type(ft):
    if isinstance(ft, tuple):
        return ft
    if ft in INT_TYPES or ft in ("bool", "nat"):
        return (ft,)
    return ("named", ft)


def struct_lean(name):
    if name in LEAN_TYPE_NAME:
        return LEAN_TYPE_NAME[name]
    return ("TzVerif.Src." if name in SRC_STRUCTS else "TzVerif.Model.") + name


ERROR_ENUMS = {"TzError", "DateTimeError", "LocalTimeTypeError", "TransitionRuleError", "TimeZoneError", "TzFileError", "TzStringError", "ParseDataError"}
# `?` / From conversions into TzError
FROM_TZERROR = {"DateTimeError": "dateTime", "LocalTimeTypeError": "localTimeType", "TransitionRuleError": "transitionRule", "TimeZoneError": "timeZone",
                "TzFileError": "tzFile", "TzStringError": "tzString"}


def lean_ty(t):
    k = t[0]
    if k in INT_TYPES:
        return "Int"
    if k == "bool":
        return "Bool"
    if k == "char":
        return "Char"
    if k == "byte" or k == "charbyte" or k == "charcode":
        return "Nat"
    if k == "str" or k == "chars":
        return "List Nat"
    if k == "bytesN":
        return "List Nat"
    if k == "array":
        return lean_ty(("slice", t[1]))
    if k == "unit":
        return "Unit"
    if k == "ref":
        return lean_ty(t[1])
    if k == "slice":
        if strip_ref(t[1]) == ("u8",):
            return "List Nat"       # bytes
        return "List " + paren(lean_ty(t[1]))
    if k == "mutref":
        return lean_ty(strip_ref(t))
    if k == "fnty":
        return "(" + " → ".join(("Nat" if strip_ref(a) == ("u8",) else paren(lean_ty(strip_ref(a)))) for a in t[1]) + " → " + lean_ty(t[2]) + ")"
    if k == "tyvar":
        return t[1]
    if k == "tuple":
        return " × ".join(paren(lean_ty(x)) for x in t[1])
    if k == "result":
        return "Except %s %s" % (paren(lean_ty(t[2])), paren(lean_ty(t[1])))
    if k == "option":
        return "Option " + paren(lean_ty(t[1]))
    if k == "named":
        if t[1] == "Ordering":
            return "Ordering"
        if t[1] == "BoxError":
            return "Unit"           # Box<dyn Error + …>: nothing in it is looked at
        if t[1] == "IoLog":
            return "TzVerif.Src.IoLog"
        if t[1] == "Error":
            return "TzVerif.Model.Error"
        if t[1] == "Self":
            raise TransError("unresolved Self")
        if t[1] in NEWTYPES:
            return "Int"
        if t[1] in TYPE_ALIASES:
            return lean_ty(TYPE_ALIASES[t[1]])
        if t[1] in UNIT_ENUMS:
            return UNIT_ENUMS[t[1]]
        if len(t[1]) == 1 and t[1].isupper():
            return t[1]             # a type parameter
        return struct_lean(t[1])
    raise TransError("type %r" % (t,))


def paren(s):
    return s if re.match(r"^[A-Za-z0-9_.']+$", s) else "(" + s + ")"


TYPE_ALIASES = {"Cursor": ("slice", ("u8",)), "TimeData": ("slice", ("u8",)),
                # struct FoundDateTimeList(Vec<FoundDateTimeKind>): the sequence itself
                "FoundDateTimeList": ("slice", ("named", "FoundDateTimeKind"))}
TYPE_ALIASES["ReadFileFn"] = ("fnty", [("str",)], ("result", ("slice", ("u8",)), ("named", "BoxError")))
STRUCTS["TimeZoneSettings"] = {"directories": ("directories", ("slice", ("str",))), "read_file_fn": ("readFileFn", TYPE_ALIASES["ReadFileFn"])}
SRC_STRUCTS.add("TimeZoneSettings")
# function-typed fields whose calls are effects (each call is put on the log threaded through `io` functions)
IO_FIELDS = {"read_file_fn"}
STRUCTS["FoundDateTimeListRefMut"] = {"buf": ("buf", ("slice", ("option", ("named", "FoundDateTimeKind")))), "current_index": ("currentIndex", "nat"), "count": ("count", "nat")}


def strip_ref(t):
    while t and t[0] in ("ref", "mutref"):
        t = t[1]
    if t and t[0] == "named" and t[1] in TYPE_ALIASES:
        t = TYPE_ALIASES[t[1]]
    if t and t[0] == "infer":
        return None
    return t


class Normaliser:
    """AST rewriting before translation: `?` inside larger expressions is hoisted into `let`s, `x.push(v)` on the
    output list becomes an assignment, `expr?;` becomes `let _ = expr?;`, the pair-swap idiom becomes one call."""

    def __init__(self, out_param, io_methods=()):
        self.out = out_param
        self.n = 0
        self.vecs = set()
        self.io_methods = set(io_methods)
        self.ioclosures = set()

    def is_io_call(self, e):
        """an expression with an effect on the log: calling an injected function, an `io` method of self, a closure
        that does, or find_map with such a closure"""
        if not isinstance(e, tuple) or not e:
            return False
        if e[0] == "call" and e[1][0] == "field" and e[1][2] in IO_FIELDS:
            return True
        if e[0] == "mcall" and e[1] == ("path", ["self"]) and e[2] in self.io_methods:
            return True
        if e[0] == "call" and e[1][0] == "path" and len(e[1][1]) == 1 and e[1][1][0] in self.ioclosures:
            return True
        if e[0] == "mcall" and e[2] == "find_map" and e[3] and e[3][0][0] == "closure" and self.contains_io(e[3][0][3]):
            return True
        return False

    def contains_io(self, e):
        if self.is_io_call(e):
            return True
        if isinstance(e, (tuple, list)):
            return any(self.contains_io(x) for x in e)
        return False

    def fresh(self):
        self.n += 1
        return "__t%d" % self.n

    def block(self, blk):
        if blk is None:
            return None
        stmts = []
        for st in blk[1]:
            stmts.extend(self.stmt(st))
        tail = blk[2]
        if tail is not None:
            lets, tail = self.hoist(tail, top=True)
            stmts.extend(lets)
        return ("block", stmts, tail)

    def body(self, e):
        """a branch body (block or bare expression)"""
        if e is None:
            return None
        if e[0] == "block":
            return self.block(e)
        lets, e2 = self.hoist(e, top=True)
        if lets:
            return ("block", lets, e2)
        return e2

    def stmt(self, st):
        k = st[0]
        if k == "let":
            if st[3] is None:
                return [st]
            if st[1][0] == "pvar" and st[3][0] == "call" and st[3][1][0] == "path" and st[3][1][1][-2:] in (["Vec", "with_capacity"], ["Vec", "new"]):
                self.vecs.add(st[1][1])
            if st[3][0] == "mcall" and st[3][2] == "next" and not st[3][3] and st[3][1][0] == "path" and len(st[3][1][1]) == 1:
                # let v = it.next();  on a local iterator: its head, and the iterator advances
                it = st[3][1]
                return [("let", ("ptuple", [st[1], ("pvar", it[1][0])]), None, ("mcall", it, "__next", []))]
            lets, init = self.hoist(st[3], top=True)
            if init[0] == "closure" and st[1][0] == "pvar" and self.contains_io(init[3]):
                self.ioclosures.add(st[1][1])
            return lets + [("let", st[1], st[2], init)]
        if k == "assign" and st[1][0] == "field" and st[1][1][0] == "path" and len(st[1][1][1]) == 1:
            # s.f = v / s.f += v  on a local structure (or `&mut self`): the structure with that field replaced
            base, f = st[1][1], st[1][2]
            val = st[3] if st[2] == "=" else ("bin", st[2][0], st[1], st[3])
            return self.stmt(("assign", base, "=", ("structupd", base, f, val)))
        if k == "assign" and st[1][0] == "index" and st[1][1][0] == "field" and st[1][1][1][0] == "path" and st[2] == "=":
            # s.f[i] = v
            fld = st[1][1]
            return self.stmt(("assign", fld, "=", ("listset", fld, st[1][2], st[3])))
        if k == "assign":
            lets, rhs = self.hoist(st[3], top=(st[2] == "="))
            if st[1][0] == "index" and st[1][1][0] == "path" and len(st[1][1][1]) == 1 and st[2] == "=":
                # a[i] = v  on a local array
                l2, ix = self.hoist(st[1][2], top=False)
                return lets + l2 + [("assign", st[1][1], "=", ("listset", st[1][1], ix, rhs))]
            return lets + [("assign", st[1], st[2], rhs)]
        if k == "while":
            return [("while", st[1], self.block(st[2]))]
        if k == "for":
            it, body = st[2], st[3]
            # for chunk in X.chunks_exact_mut(2) { chunk.swap(0, 1); }
            if it[0] == "mcall" and it[2] == "chunks_exact_mut" and st[1][0] == "pvar":
                b = body[1] + ([("expr", body[2])] if body[2] is not None else [])
                if (len(b) == 1 and b[0][0] == "expr" and b[0][1][0] == "mcall" and b[0][1][2] == "swap"
                        and b[0][1][1] == ("path", [st[1][1]]) and [x for x in b[0][1][3]] == [("lit", 0), ("lit", 1)] and it[3] == [("lit", 2)]):
                    return [("assign", it[1], "=", ("swappairs", it[1]))]
                raise TransError("chunks_exact_mut loop that is not the pair swap")
            lets, it2 = self.hoist(it, top=False)
            return lets + [("for", st[1], it2, self.block(body))]
        if k == "expr" and st[1][0] == "iflet" and st[1][2][0] == "mcall" and st[1][2][2] == "get_mut":
            # if let Some(x) = S.get_mut(i) { *x = v; … }: the slot exists iff i < S.len(); writing through x is S[i] = v
            e = st[1]
            pat, scrut = e[1], e[2]
            if not (pat[0] == "pctor" and pat[1][-1] == "Some" and len(pat[2]) == 1 and pat[2][0][0] == "pvar"):
                raise TransError("get_mut pattern")
            x = pat[2][0][1]
            target = ("index", scrut[1], scrut[3][0])
            then = self.as_stmts(e[3])
            out = []
            for b in then:
                if b[0] == "assign" and b[1] == ("path", [x]):
                    # (the parser drops `*`; x is an immutable pattern binding, so only `*x = v` compiles)
                    out.append(("assign", target, b[2], b[3]))
                elif self.mentions(b, x):
                    raise TransError("get_mut slot used other than by assignment through it")
                else:
                    out.append(b)
            cond = ("bin", "<", scrut[3][0], ("mcall", scrut[1], "len", []))
            return self.stmt(("expr", ("if", cond, ("block", out, None), e[4])))
        if k == "expr" and st[1][0] == "mcall" and st[1][2] == "push" and st[1][1] == ("tfield", ("path", ["self"]), 0):
            # self.0.push(v) in a tuple struct around a Vec (the struct is its field: TYPE_ALIASES)
            lets, v = self.hoist(st[1][3][0], top=False)
            return lets + [("assign", ("path", ["self"]), "=", ("pushed", ("path", ["self"]), v))]
        if k == "expr":
            e = st[1]
            if e[0] == "mcall" and e[2] == "push" and e[1][0] == "path" and len(e[1][1]) == 1 and (e[1][1][0] == self.out or e[1][1][0] in self.vecs):
                lets, v = self.hoist(e[3][0], top=False)
                return lets + [("assign", e[1], "=", ("pushed", e[1], v))]
            if e[0] == "try" and e[1][0] == "fmtwrite":
                # core::fmt is modelled: writing to the formatter appends and cannot fail
                return [("assign", e[1][1], "=", ("fmtappend", e[1][1], e[1][2]))]
            if e[0] == "try":
                lets, inner = self.hoist(e[1], top=False)
                return lets + [("let", ("pwild",), None, ("try", inner))]
            lets, e2 = self.hoist(e, top=True)
            return lets + [("expr", e2)]
        return [st]

    @staticmethod
    def as_stmts(blk):
        if blk[0] != "block":
            return [("expr", blk)]
        return list(blk[1]) + ([("expr", blk[2])] if blk[2] is not None else [])

    def mentions(self, node, name):
        if node == ("path", [name]):
            return True
        if isinstance(node, (tuple, list)):
            return any(self.mentions(x, name) for x in node)
        return False

    def norm_pat(self, p, nested):
        """literals and `x @ lit` inside constructor patterns become variables with a guard:
        -> (pattern, guard expression or None)"""
        k = p[0]
        if k == "pat_at":
            sub, g = self.norm_pat(p[2], nested=True)
            if sub[0] != "pvar" or g is None:
                raise TransError("x @ pattern that is not a literal")
            # rename the fresh variable to the bound name
            return ("pvar", p[1]), self.rename(g, sub[1], p[1])
        if k in ("plit", "prange") and nested:
            v = self.fresh()
            if k == "plit":
                return ("pvar", v), ("bin", "==", ("path", [v]), ("lit", p[1]) if p[1] < 256 else ("lit", p[1]))
            return ("pvar", v), ("bin", "&&", ("bin", "<=", ("lit", p[1]), ("path", [v])), ("bin", "<=", ("path", [v]), ("lit", p[2])))
        if k == "pctor" and p[2]:
            subs = []
            guard = None
            for x in p[2]:
                x2, g = self.norm_pat(x, nested=True)
                subs.append(x2)
                if g is not None:
                    guard = g if guard is None else ("bin", "&&", guard, g)
            return ("pctor", p[1], subs), guard
        if k == "ptuple" and nested:
            subs = []
            guard = None
            for x in p[1]:
                x2, g = self.norm_pat(x, nested=True)
                subs.append(x2)
                if g is not None:
                    guard = g if guard is None else ("bin", "&&", guard, g)
            return ("ptuple", subs), guard
        if k == "por":
            alts = [self.norm_pat(x, nested) for x in p[1]]
            if all(g is None for _, g in alts):
                return p, None
            # alternatives of one shape binding the same variable: Some(c @ b'+') | Some(c @ b'-')
            shapes = [a for a, _ in alts]
            if all(sh == shapes[0] for sh in shapes) and all(g is not None for _, g in alts):
                guard = alts[0][1]
                for _, g in alts[1:]:
                    guard = ("bin", "||", guard, g)
                return shapes[0], guard
            raise TransError("or-pattern with literals of different shapes")
        return p, None

    def rename(self, e, a, b):
        if isinstance(e, tuple):
            if e == ("path", [a]):
                return ("path", [b])
            return tuple(self.rename(x, a, b) for x in e)
        if isinstance(e, list):
            return [self.rename(x, a, b) for x in e]
        return e

    def hoist(self, e, top):
        """-> (let statements, expression without nested `?`).  `top`: e is the whole initialiser / tail, where a
        `?` directly at the top, and branching constructs, are handled by the translator itself."""
        if e is None or not isinstance(e, tuple):
            return [], e
        k = e[0]
        if k == "try":
            lets, inner = self.hoist(e[1], top=False)
            if top:
                return lets, ("try", inner)
            v = self.fresh()
            return lets + [("let", ("pvar", v), None, ("try", inner))], ("path", [v])
        if k == "block":
            return [], self.block(e)
        if k == "if":
            lets, c = self.hoist(e[1], top=False)
            return lets, ("if", c, self.body(e[2]), self.body(e[3]) if e[3] is not None else None)
        if k == "iflet":
            lets, sc = self.hoist(e[2], top=False)
            p2, g = self.norm_pat(e[1], nested=False)
            if g is not None:
                # `if let p = s { a } else { b }` with literals inside p: a match with a guard
                els = self.body(e[4]) if e[4] is not None else ("block", [], None)
                return lets, ("match", sc, [(p2, g, self.body(e[3])), (("pwild",), None, els)])
            return lets, ("iflet", e[1], sc, self.body(e[3]), self.body(e[4]) if e[4] is not None else None)
        if k == "match":
            lets, sc = self.hoist(e[1], top=False)
            arms = []
            for p, g, b in e[2]:
                p2, g2 = self.norm_pat(p, nested=False)
                if g2 is not None:
                    g = g2 if g is None else ("bin", "&&", g2, g)
                arms.append((p2, g, self.body(b)))
            return lets, ("match", sc, arms)
        if k == "closure":
            return [], ("closure", e[1], e[2], self.body(e[3]))
        if k == "return":
            if e[1] is None:
                return [], e
            lets, v = self.hoist(e[1], top=False)
            return lets, ("return", v)
        # generic: left-to-right over the children
        lets = []
        out = [k]
        for x in e[1:]:
            if isinstance(x, tuple) and x and isinstance(x[0], str):
                l2, x2 = self.hoist(x, top=False)
                lets += l2
                out.append(x2)
            elif isinstance(x, list):
                xs = []
                for y in x:
                    if isinstance(y, tuple) and y and isinstance(y[0], str):
                        l2, y2 = self.hoist(y, top=False)
                        lets += l2
                        xs.append(y2)
                    elif isinstance(y, tuple) and len(y) == 2 and isinstance(y[0], str) and isinstance(y[1], tuple):
                        # (field, expr) of a struct literal
                        l2, y2 = self.hoist(y[1], top=False)
                        lets += l2
                        xs.append((y[0], y2))
                    else:
                        xs.append(y)
                out.append(xs)
            else:
                out.append(x)
        node = tuple(out)
        if not top and self.is_io_call(node):
            # effects happen in statement order: `let v = <effect>;` before the expression that uses v
            v = self.fresh()
            return lets + [("let", ("pvar", v), None, node)], ("path", [v])
        if not top and node[0] == "mcall" and node[2] == "next" and not node[3] and node[1][0] == "path" and len(node[1][1]) == 1:
            # it.next() inside an expression, on a local iterator: head and advance, before the expression
            v = self.fresh()
            return lets + [("let", ("ptuple", [("pvar", v), ("pvar", node[1][1][0])]), None, ("mcall", node[1], "__next", []))], ("path", [v])
        return lets, node


class Fn:
    """translation of one function"""

    def __init__(self, tr, qname, params, ret, body, cfg, generics=None):
        self.generics = generics or []
        self.inout = []
        self.tr = tr
        self.qname = qname
        self.owner = qname.split(".")[0] if "." in qname else None
        self.params = params
        self.cfg = cfg
        self.ret = self.resolve(ret)
        self.out = cfg.get("out_param")
        self.io = bool(cfg.get("io"))
        self.norm = Normaliser(self.out, tr.io_methods if self.io else ())
        self.body = self.norm.block(body)
        self.loop_no = 0
        self.post = []
        self.sclosures = {}

    def resolve(self, t):
        if t is None:
            return None
        if t[0] == "named" and t[1] == "Self":
            return ("named", self.cfg.get("struct_override", {}).get(self.owner, self.owner))
        if t[0] in ("ref", "slice", "option", "mutref"):
            return (t[0], self.resolve(t[1]))
        if t[0] == "result":
            return ("result", self.resolve(t[1]), self.resolve(t[2]))
        if t[0] == "tuple":
            return ("tuple", [self.resolve(x) for x in t[1]])
        return t

    # ---- expressions: returns (lean text, rust type or None)
    def ex(self, e, env, want=None):
        k = e[0]
        if k == "lit":
            if len(e) > 2 and e[2] == "byte":
                return (str(e[1]), ("u8",))
            return (str(e[1]) if e[1] >= 0 else "(%d)" % e[1], want if want and want[0] in INT_TYPES else ("int",))
        if k == "bytes":
            return ("([" + ", ".join(str(b) for b in e[1]) + "] : List Nat)", ("slice", ("u8",)))
        if k == "bool":
            return ("true" if e[1] else "false", ("bool",))
        if k == "neg":
            s, t = self.ex(e[1], env, want)
            return ("(-%s)" % s, t)
        if k == "not":
            s, t = self.ex(e[1], env)
            if strip_ref(t)[0] != "bool":
                raise TransError("bitwise ! on %r" % (t,))
            return ("(!%s)" % s, ("bool",))
        if k == "path":
            return self.path(e[1], env)
        if k == "tyconst":
            t = e[1]
            if t[0] in INT_TYPES and e[2] in ("MIN", "MAX"):
                return (self.bound(t[0], e[2]), t)
            raise TransError("<T>::%s" % e[2])
        if k == "cast":
            s, t = self.ex(e[1], env)
            t = strip_ref(t) if t else ("int",)
            to = e[2]
            if to[0] not in INT_TYPES:
                raise TransError("cast to %r" % (to,))
            if t[0] == "bool":
                return ("(if %s then 1 else 0)" % s, to)
            if t[0] == "byte":
                # a byte (Lean Nat, < 256 by construction of byte slices) widens into every wider integer type
                return ("(%s : Int)" % s, to)
            if t[0] == "nat":
                return ("(Src.wrap_%s (%s : Int))" % (to[0], s), to)
            if t[0] == "int":
                # type not inferred (a local initialised with a literal): a literal needs no wrap, anything else
                # is wrapped (sound whatever the source type was)
                if e[1][0] == "lit":
                    return (s, to)
                return ("(Src.wrap_%s %s)" % (to[0], s), to)
            if t[0] in INT_TYPES:
                if self.widens(t[0], to[0]):
                    return (s, to)
                return ("(Src.wrap_%s %s)" % (to[0], s), to)
            raise TransError("cast from %r" % (t,))
        if k == "bin":
            return self.binop(e, env)
        if k == "tuple":
            parts = [self.ex(x, env) for x in e[1]]
            return ("(" + ", ".join(p[0] for p in parts) + ")", ("tuple", [p[1] for p in parts]))
        if k == "index" and e[2][0] == "rangefromto":
            s, t = self.ex(e[1], env)
            a, _ = self.ex(e[2][1], env)
            b, _ = self.ex(e[2][2], env)
            return ("(List.take (Int.toNat (%s - %s)) (List.drop (Int.toNat %s) %s))" % (b, a, a, s), strip_ref(t) if t else None)
        if k == "index" and e[2][0] == "rangeto":
            s, t = self.ex(e[1], env)
            i, _ = self.ex(e[2][1], env)
            return ("(List.take (Int.toNat %s) %s)" % (i, s), strip_ref(t) if t else None)
        if k == "structupd":
            s, t = self.ex(e[1], env)
            t = strip_ref(t)
            if not (t and t[0] == "named" and t[1] in STRUCTS and e[2] in STRUCTS[t[1]]):
                raise TransError("field update %s of %r" % (e[2], t))
            lf, ft = STRUCTS[t[1]][e[2]]
            v, _ = self.ex(e[3], env, want=field_type(ft) if ft != "nat" else ("usize",))
            if ft == "nat":
                v = "(Int.toNat %s)" % v
            return ("{ %s with %s := %s }" % (s, lf, v), t)
        if k == "index" and e[2][0] == "rangefrom":
            s, t = self.ex(e[1], env)
            i, _ = self.ex(e[2][1], env)
            return ("(List.drop (Int.toNat %s) %s)" % (i, s), strip_ref(t) if t else None)
        if k == "index":
            s, t = self.ex(e[1], env)
            i, _ = self.ex(e[2], env)
            t = strip_ref(t) if t else None
            el = elem_type(t) if (t and t[0] == "slice") else ("i64",)
            return ("(Src.idx %s %s)" % (s, i), el)
        if k == "field":
            s, t = self.ex(e[1], env)
            return self.field(s, strip_ref(t), e[2])
        if k == "tfield":
            s, t = self.ex(e[1], env)
            t = strip_ref(t) if t else t
            if t and t[0] == "named" and t[1] in NEWTYPES and e[2] == 0:
                return (s, (NEWTYPES[t[1]],))
            if e[1] == ("path", ["self"]) and self.owner in TYPE_ALIASES and e[2] == 0:
                return (s, t)       # tuple struct with one field: the field itself
            n = len(t[1]) if (t and t[0] == "tuple") else 2
            proj = ".1" if e[2] == 0 else (".2" if n == 2 else ".2" * e[2] + (".1" if e[2] < n - 1 else ""))
            return ("%s%s" % (s, proj), t[1][e[2]] if (t and t[0] == "tuple") else None)
        if k == "mcall":
            return self.mcall(e, env)
        if k == "call":
            return self.call(e, env, want)
        if k == "struct":
            name = e[1][-1]
            if name == "Self":
                name = self.owner
            name = self.cfg.get("struct_override", {}).get(name, name)
            if len(e[1]) >= 2 and (e[1][-2], name) in STRUCT_VARIANTS:
                ctor, order = STRUCT_VARIANTS[(e[1][-2], name)]
                vals = dict(e[2])
                return ("(%s %s)" % (ctor, " ".join(self.ex(vals[f], env)[0] for f in order)), ("named", e[1][-2]))
            if name not in STRUCTS:
                raise TransError("struct literal %s" % name)
            fs = []
            for f, v in e[2]:
                s, _ = self.ex(v, env, want=field_type(STRUCTS[name][f][1]))
                if STRUCTS[name][f][1] == "nat":
                    s = "(Int.toNat %s)" % s
                fs.append("%s := %s" % (STRUCTS[name][f][0], s))
            return ("({ %s } : %s)" % (", ".join(fs), struct_lean(name)), ("named", name))
        if k in ("if", "iflet", "match", "block"):
            # value position: translate as a statement list whose continuation is the identity
            return (self.value_block(e, env), self.ty_of(e, env))
        if k == "unreachable":
            return ("default", None)
        if k == "charlit":
            if want == ("charcode",):
                return (str(char_value(e[1])), ("charcode",))      # a char compared with a decoded scalar value
            return (e[1], ("char",))
        if k == "strlit":
            body = e[1][1:-1]
            if "\\" in body or not all(32 <= ord(c) < 127 for c in body):
                raise TransError("string literal %s" % e[1])
            return ("[" + ", ".join(str(ord(c)) for c in body) + "]", ("str",))
        if k == "fmtstr":
            # format!("{a}/{b}") over string variables: the concatenation of the UTF-8 bytes
            pieces = []
            for m in re.finditer(r"\{([a-z_][a-z_0-9]*)\}|([^{}]+)", e[1]):
                if m.group(2) is not None:
                    if not all(32 <= ord(c) < 127 and c != "\\" for c in m.group(2)):
                        raise TransError("format string %r" % e[1])
                    pieces.append("[" + ", ".join(str(ord(c)) for c in m.group(2)) + "]")
                else:
                    v = m.group(1)
                    vt = strip_ref(env.get(v)) if env.get(v) else None
                    if not vt or vt[0] != "str":
                        raise TransError("format argument %s that is not a string" % v)
                    pieces.append(vname(v))
            if "".join(m.group(0) for m in re.finditer(r"\{([a-z_][a-z_0-9]*)\}|([^{}]+)", e[1])) != e[1]:
                raise TransError("format string %r" % e[1])
            return ("(" + " ++ ".join(pieces) + ")", ("str",))
        if k == "fmtappend":
            l, t = self.ex(e[1], env)
            pieces = []
            for m in re.finditer(r"\{([a-z_][a-z_0-9]*)(?::0(\d+))?\}|([^{}]+)", e[2]):
                if m.group(3) is not None:
                    pieces.append("[" + ", ".join("'%s'" % c for c in m.group(3)) + "]")
                    continue
                v, w = m.group(1), m.group(2)
                vt = strip_ref(env.get(v)) if env.get(v) else None
                if v not in env:
                    raise TransError("format argument %s" % v)
                if vt and vt[0] == "char":
                    if w:
                        raise TransError("padded char")
                    pieces.append("[%s]" % vname(v))
                elif w:
                    pieces.append("(TzVerif.Model.pad %s %s)" % (w, vname(v)))
                else:
                    pieces.append("(TzVerif.Model.showInt %s)" % vname(v))
            if "".join(m.group(0) for m in re.finditer(r"\{([a-z_][a-z_0-9]*)(?::0(\d+))?\}|([^{}]+)", e[2])) != e[2]:
                raise TransError("format string %r" % e[2])
            return ("(%s ++ %s)" % (l, " ++ ".join(pieces)), t)
        if k == "pushed":
            l, t = self.ex(e[1], env)
            v, _ = self.ex(e[2], env)
            return ("(%s ++ [%s])" % (l, v), t)
        if k == "swappairs":
            l, t = self.ex(e[1], env)
            return ("(Src.swapPairs %s)" % l, t)
        if k == "arrayrep":
            v, vt = self.ex(e[1], env)
            n, _ = self.ex(e[2], env)
            return ("(List.replicate (Int.toNat %s) (%s : Nat))" % (n, v), ("slice", ("u8",)))
        if k == "listset":
            l, t = self.ex(e[1], env)
            i, _ = self.ex(e[2], env)
            v, vt = self.ex(e[3], env)
            if elem_type(t) == ("byte",) and not (vt and strip_ref(vt)[0] == "byte"):
                v = "(Int.toNat %s)" % v
            return ("(List.set %s (Int.toNat %s) %s)" % (l, i, v), t)
        if k == "array":
            parts = [self.ex(x, env) for x in e[1]]
            return ("[" + ", ".join(p[0] for p in parts) + "]", ("slice", parts[0][1] if parts else None))
        if k == "closure":
            # a closure that assigns none of its captured variables: a Lean `fun`
            if [n for n in self.assigned(e[3], []) if n in env]:
                raise TransError("closure that mutates its environment in expression position")
            env1 = dict(env)
            saved = self.post
            self.post = []
            ps = [paren(self.pat(pp, env1, self.resolve(pt))) for pp, pt in e[1]]
            self.post = saved
            body = self.value_block(e[3], env1) if e[3][0] in ("block", "if", "iflet", "match") else self.ex(e[3], env1)[0]
            return ("(fun %s => %s)" % (" ".join(ps), body), ("closure", self.ty_of(e[3], env1)))
        if k == "getlast":
            s, t = self.ex(e[1], env)
            t = strip_ref(t) if t else None
            return ("(List.getLast? %s)" % s, ("option", t[1]) if (t and t[0] == "slice") else None)
        raise TransError("expression %s" % k)

    def ty_of(self, e, env):
        """Rust type of an expression, best effort (None when not inferred)"""
        if e is None:
            return ("unit",)
        k = e[0]
        try:
            if k == "block":
                env2 = dict(env)
                for s in e[1]:
                    if s[0] == "let" and s[3] is not None:
                        t = self.resolve(s[2]) or self.ty_of(s[3], env2)
                        saved = self.post
                        self.post = []
                        self.pat(s[1], env2, t)
                        self.post = saved
                return self.ty_of(e[2], env2) if e[2] is not None else ("unit",)
            if k == "if":
                if not self.diverges(e[2]):
                    t = self.ty_of(e[2], env)
                    if t is not None:
                        return t
                return self.ty_of(e[3], env) if e[3] is not None else ("unit",)
            if k == "iflet":
                return self.ty_of(e[3], env)
            if k == "match":
                _, st = self.ex(e[1], env)
                for p, g, body in e[2]:
                    if self.diverges(body) or body[0] in ("return", "unreachable"):
                        continue
                    env2 = dict(env)
                    saved = self.post
                    self.post = []
                    try:
                        self.pat(p, env2, st)
                    except TransError:
                        pass
                    self.post = saved
                    t = self.ty_of(body, env2)
                    if t is not None:
                        return t
                return None
            if k in ("return", "break", "unreachable"):
                return None
            saved_loop = self.loop_no
            t = self.ex(e, env)[1]
            self.loop_no = saved_loop
            return t
        except TransError:
            return None

    def value_block(self, e, env):
        blk = e if e[0] == "block" else ("block", [], e)
        return "(" + self.block(blk, dict(env), lambda s, env2: s, value_only=True) + ")"

    @staticmethod
    def widens(a, b):
        sa, sb = a[0] == "i", b[0] == "i"
        if sa == sb:
            return BITS[b] >= BITS[a]
        if not sa and sb:
            return BITS[b] > BITS[a]
        return False

    @staticmethod
    def bound(t, which):
        bits = BITS[t]
        if t[0] == "i":
            v = -(1 << (bits - 1)) if which == "MIN" else (1 << (bits - 1)) - 1
        else:
            v = 0 if which == "MIN" else (1 << bits) - 1
        return str(v) if v >= 0 else "(%d)" % v

    def path(self, path, env):
        if len(path) == 1:
            n = path[0]
            if n in env:
                return (vname(n), env[n])
            if n in self.tr.consts:
                return ("TzVerif.Gen." + n, self.tr.consts[n])
            if n == "None":
                return ("none", None)
            raise TransError("unknown name %s in %s" % (n, self.qname))
        head, last = path[-2], path[-1]
        if head == "Self":
            head = self.owner
        if path[-2:] == ["Error", "Io"]:
            # the constructor as a function (map_err): the boxed payload is not modelled
            return ("(fun _ => TzVerif.Model.Error.io)", ("fnty", [("named", "BoxError")], ("named", "Error")))
        if "%s.%s" % (head, last) in EXTERN_FNS:
            lean, pts, rt = EXTERN_FNS["%s.%s" % (head, last)]
            return (lean, ("fnty", pts, rt))
        if head in INT_TYPES and last in ("MIN", "MAX"):
            return (self.bound(head, last), (head,))
        if head == "Ordering":
            return ({"Less": "Ordering.lt", "Equal": "Ordering.eq", "Greater": "Ordering.gt"}[last], ("named", "Ordering"))
        if head in ERROR_ENUMS:
            return ("TzVerif.Model.%s.%s" % (head, lower_first(last)), ("named", head))
        if head in UNIT_ENUMS:
            return ("%s.%s" % (UNIT_ENUMS[head], lower_first(last)), ("named", head))
        if last in self.tr.consts:
            return ("TzVerif.Gen." + last, self.tr.consts[last])
        raise TransError("path %s" % "::".join(path))

    def field(self, s, t, f):
        if t and t[0] == "named" and t[1] in STRUCTS and f in STRUCTS[t[1]]:
            lf, ft = STRUCTS[t[1]][f]
            rt = field_type(ft)
            if ft == "nat":
                return ("(%s.%s : Int)" % (s, lf), ("usize",))
            return ("%s.%s" % (s, lf), rt)
        raise TransError("field %s of %r" % (f, t))

    def binop(self, e, env):
        op = e[1]
        if op in ("&&", "||"):
            a, _ = self.ex(e[2], env)
            b, _ = self.ex(e[3], env)
            return ("(%s %s %s)" % (a, op, b), ("bool",))
        a, ta = self.ex(e[2], env)
        b, tb = self.ex(e[3], env, want=ta)
        ta = strip_ref(ta) if ta else ta
        tb = strip_ref(tb) if tb else tb
        t = ta if ta and ta[0] in INT_TYPES else tb
        if op in ("==", "!=", "<", ">", "<=", ">="):
            if ta and ta[0] == "bool":
                return ("(%s %s %s)" % (a, op, b), ("bool",))
            lop = {"==": "=", "!=": "≠", "<": "<", ">": ">", "<=": "≤", ">=": "≥"}[op]
            if ta and ta[0] == "named" and ta[1] not in ("Ordering",) and ta[1] not in ERROR_ENUMS and ta[1] not in UNIT_ENUMS:
                raise TransError("comparison of %r" % (ta,))
            if ta and ta[0] in ("slice", "option") and op in ("==", "!="):
                return ("(%s %s %s)" % (a, op, b), ("bool",))
            return ("(decide (%s %s %s))" % (a, lop, b), ("bool",))
        if op in ("+", "-", "*"):
            return ("(%s %s %s)" % (a, op, b), t)
        if op == "/":
            return ("(Int.tdiv %s %s)" % (a, b), t)
        if op == "%":
            return ("(Int.tmod %s %s)" % (a, b), t)
        raise TransError("operator %s" % op)

    def mcall(self, e, env):
        recv, name, args = e[1], e[2], e[3]
        if recv[0] == "range" or (name == "map_err" and recv[0] == "call" and recv[1] == ("path", ["str", "from_utf8"])):
            s, t = "", None
        else:
            s, t = self.ex(recv, env)
        t = strip_ref(t) if t else t
        a = [self.ex(x, env, want=t)[0] for x in args if x[0] != "closure"]
        it = t[0] if t and t[0] in INT_TYPES else None
        if name in ("checked_add", "checked_sub", "checked_mul") and it:
            op = {"checked_add": "+", "checked_sub": "-", "checked_mul": "*"}[name]
            return ("(Src.checked_%s (%s %s %s))" % (it, s, op, a[0]), ("option", t))
        if name in ("saturating_add", "saturating_sub") and it:
            op = {"saturating_add": "+", "saturating_sub": "-"}[name]
            return ("(Src.sat_%s (%s %s %s))" % (it, s, op, a[0]), t)
        if name == "partial_cmp" and t and t[0] == "tuple" and len(t[1]) == 2 and all(x[0] in INT_TYPES for x in t[1]):
            # core's lexicographic PartialOrd on a pair of integers (modelled: Src.tuple2_partial_cmp)
            return ("(Src.tuple2_partial_cmp %s %s)" % (s, a[0]), ("option", ("named", "Ordering")))
        if name == "rem_euclid":
            return ("(%s %% %s)" % (s, a[0]), t)
        if name == "div_euclid":
            return ("(%s / %s)" % (s, a[0]), t)
        if name == "abs":
            return ("(Int.natAbs %s : Int)" % s, t)
        if name == "len":
            return ("(%s.length : Int)" % s, ("usize",))
        if name == "is_empty":
            return ("%s.isEmpty" % s, ("bool",))
        if name == "map_err" and recv[0] == "call" and recv[1] == ("path", ["str", "from_utf8"]) and args and args[0] == ("path", ["TzFileError", "from"]):
            return ("(TzVerif.Src.str_from_utf8_tzfile %s)" % self.ex(recv[2][0], env)[0], ("result", ("str",), ("named", "TzFileError")))
        if t and t[0] == "str":
            cv = lambda x: char_value(x[1]) if x[0] == "charlit" else None
            if name == "len":
                return ("(%s.length : Int)" % s, ("usize",))
            if name == "starts_with" and cv(args[0]) is not None:
                return ("(List.head? %s == some %d)" % (s, cv(args[0])), ("bool",))
            if name == "ends_with" and cv(args[0]) is not None:
                return ("(List.getLast? %s == some %d)" % (s, cv(args[0])), ("bool",))
            if name == "contains" and cv(args[0]) is not None:
                return ("(List.contains %s %d)" % (s, cv(args[0])), ("bool",))
            if name == "trim_matches" and args[0][0] == "closure":
                cl = args[0]
                env1 = dict(env)
                env1[cl[1][0][0][1]] = ("charbyte",)
                return ("(TzVerif.Src.str_trim_matches (fun %s => %s) %s)" % (vname(cl[1][0][0][1]), self.ex(cl[3], env1)[0], s), ("str",))
            if name == "is_empty":
                return ("%s.isEmpty" % s, ("bool",))
            if name == "as_bytes":
                return (s, ("slice", ("u8",)))
            if name == "chars":
                return (s, ("chars",))
            raise TransError("str method %s" % name)
        if t and t[0] == "charbyte" and name == "is_ascii_whitespace":
            return ("(TzVerif.Src.char_is_ascii_whitespace %s)" % s, ("bool",))
        if name in ("iter", "copied", "into_iter", "as_slice", "into"):
            return (s, t)
        if name == "chunks_exact":
            return ("(Src.chunks_exact %s %s)" % (a[0], s), ("slice", t))
        if name == "first_chunk":
            return ("(Src.first_chunk %s %s)" % (a[0], s), ("option", t))
        if name == "split_first_chunk":
            return ("(Src.split_first_chunk %s %s)" % (a[0], s), ("option", ("tuple", [t, t])))
        if name == "unwrap" and t and t[0] == "option":
            return ("(Src.unwrap %s)" % s, t[1])
        if name == "chain" and args and args[0][0] == "call" and args[0][1] == ("path", ["iter", "repeat"]):
            return ("(Src.Padded.mk %s %s)" % (s, self.ex(args[0][2][0], env)[0]), ("padded", t))
        if name == "zip" and t and t[0] == "padded":
            s2, t2 = self.ex(args[0], env)
            return ("(Src.PaddedZip.mk %s %s)" % (s, s2), ("paddedzip", elem_type(t[1]), elem_type(strip_ref(t2)[1]) if t2 else None))
        if name == "take" and t and t[0] == "paddedzip":
            return ("(Src.PaddedZip.take %s %s)" % (a[0], s), ("slice", ("tuple", [t[1], t[2]])))
        if name == "and_then" and t and t[0] == "option":
            cl, ct = self.ex(args[0], dict(env, **{args[0][1][0][0][1]: t[1]}) if args[0][0] == "closure" else env)
            rt = ct[1] if (ct and ct[0] == "closure") else None
            return ("(Option.bind %s %s)" % (s, cl), rt)
        if name == "transpose" and t and t[0] == "result":
            return ("(Src.res_transpose %s)" % s, ("option", ("result", t[1][1] if (t[1] and t[1][0] == "option") else None, t[2])))
        if name == "transpose" and t and t[0] == "option":
            return ("(Src.opt_transpose %s)" % s, ("result", ("option", t[1][1] if (t[1] and t[1][0] == "result") else None), t[1][2] if (t[1] and t[1][0] == "result") else None))
        if t and t[0] == "named" and (t[1], name) in TRAIT_DISPATCH:
            cname, impls = TRAIT_DISPATCH[(t[1], name)]
            if cname not in env:
                raise TransError("trait dispatch without %s in scope" % cname)
            text = None
            for cval, q in reversed(impls):
                call = "(Src.%s %s)" % (q, " ".join([s] + a))
                text = call if text is None else "(if (decide (%s = %d)) then %s else %s)" % (vname(cname), cval, call, text)
            return (text, self.tr.sigs[impls[0][1]][1] if impls[0][1] in self.tr.sigs else None)
        if name == "flatten" and t and t[0] == "slice" and t[1] and strip_ref(t[1])[0] == "option":
            return ("(Src.flatten %s)" % s, ("slice", strip_ref(t[1])[1]))
        if name == "__next" and t and t[0] == "slice":
            return ("(List.head? %s, List.tail %s)" % (s, s), ("tuple", [("option", t[1]), t]))
        if name == "__next" and t and t[0] == "chars":
            return ("(TzVerif.Src.str_chars_next %s)" % s, ("tuple", [("option", ("charcode",)), t]))
        if name == "chars" and t and t[0] == "str":
            return (s, ("chars",))
        if name == "as_str" and t and t[0] == "chars":
            return (s, ("str",))
        if name == "ok" and t and t[0] == "result" and not args:
            return ("(Src.res_ok %s)" % s, ("option", t[1]))
        if name == "map_err" and t and t[0] == "result" and len(args) == 1:
            f, ft = self.err_fn(args[0], env)
            return ("(Src.res_map_err %s %s)" % (f, s), ("result", t[1], ft))
        if name == "ok_or_else" and t and t[0] == "option" and len(args) == 1 and args[0][0] == "closure" and not args[0][1]:
            ev, et = self.ex(args[0][3], env)
            return ("(Src.ok_or_else %s %s)" % (s, ev), ("result", t[1], et))
        if name == "ok_or" and t and t[0] == "option" and len(args) == 1 and args[0][0] != "closure":
            # the error value is a pure expression here (evaluated eagerly in Rust: unobservable)
            ev, et = self.ex(args[0], env)
            return ("(Src.ok_or_else %s %s)" % (s, ev), ("result", t[1], et))
        if name in ("first", "next") and t and t[0] == "slice":
            # (`next` on an iterator expression that is not kept: its first element)
            return ("(List.head? %s)" % s, ("option", t[1] if (t and t[0] == "slice") else None))
        if name == "next_back" and t and t[0] == "slice":
            return ("(List.getLast? %s)" % s, ("option", t[1]))
        if name == "first":
            return ("(List.head? %s)" % s, ("option", t[1] if (t and t[0] == "slice") else None))
        if name == "split_at_checked":
            return ("(Src.split_at_checked %s %s)" % (s, a[0]), ("option", ("tuple", [t, t])))
        if name == "starts_with":
            return ("(List.isPrefixOf %s %s)" % (a[0], s), ("bool",))
        if name == "unwrap_or":
            return ("(Option.getD %s %s)" % (s, a[0]), t[1] if (t and t[0] == "option") else None)
        if name == "enumerate":
            return ("(Src.enumerate %s)" % s, ("slice", ("tuple", [("usize",), t[1] if (t and t[0] == "slice") else None])))
        if name == "zip":
            s2, t2 = self.ex(args[0], env)
            t2 = strip_ref(t2) if t2 else None
            return ("(List.zip %s %s)" % (s, s2), ("slice", ("tuple", [elem_type(t), elem_type(t2)])))
        if name == "last":
            return ("(List.getLast? %s)" % s, ("option", t[1] if (t and t[0] == "slice") else None))
        if name == "is_none":
            return ("(Option.isNone %s)" % s, ("bool",))
        if name == "is_some":
            return ("(Option.isSome %s)" % s, ("bool",))
        if name == "position":
            return ("(Src.position %s %s)" % (self.ex(args[0], env)[0], s), ("option", ("usize",)))
        if name == "windows":
            return (s, ("windows", t))
        if name == "all" and t and t[0] == "windows":
            # .windows(2).all(|x| …): the closure sees a two-element slice
            cl = args[0]
            env1 = dict(env)
            env1[cl[1][0][0][1]] = ("slice", ("i64",))
            body = self.ex(cl[3], env1)[0]
            return ("(Src.windows2All (fun %s => %s) %s)" % (vname(cl[1][0][0][1]), body, s), ("bool",))
        if name == "contains" and recv[0] == "range":
            lo, _ = self.ex(recv[1], env)
            hi, _ = self.ex(recv[2], env)
            x, _ = self.ex(args[0], env)
            return ("((decide (%s ≤ %s)) && (decide (%s ≤ %s)))" % (lo, x, x, hi), ("bool",))
        if name == "saturating_abs" and it:
            return ("(Src.sat_%s (Int.natAbs %s : Int))" % (it, s), t)
        if t and t[0] == "named" and (t[1], name) in EXTERN_METHODS:
            fmt, rt = EXTERN_METHODS[(t[1], name)]
            return (fmt % tuple([s] + a), rt)
        if not args and t and t[0] == "named" and t[1] in STRUCTS and name in STRUCTS[t[1]]:
            return self.field(s, t, name)
        # method of a translated type: T.name(self, args)
        if t and t[0] == "named":
            q = "%s.%s" % (t[1], name)
            if q in self.tr.sigs:
                pre = []
                nparams = len(self.tr.sigs[q][0])
                if nparams == len(a) + 2:
                    # one leading const-generic parameter of the impl block
                    if len(t) > 2:
                        pre = [t[2]]
                    elif self.tr.sigs[q][0][0][0] in env:
                        pre = [vname(self.tr.sigs[q][0][0][0])]
                    else:
                        raise TransError("const argument of %s not known" % q)
                return ("(Src.%s %s)" % (self.tr.lean_name(q), " ".join(pre + [s] + a)), self.tr.sigs[q][1])
        raise TransError("method %s on %r in %s" % (name, t, self.qname))

    def call(self, e, env, want=None):
        f, args = e[1], e[2]
        targs = []
        if f[0] == "tyconst" and f[2] == "try_from" and f[1][0] == "slice":
            # <[u8; N]>::try_from(slice): Some iff the length is N (the array size is not kept by the parser: the
            # only use is on exact chunks, followed by unwrap)
            return ("(some %s)" % self.ex(args[0], env)[0], ("option", ("slice", ("u8",))))
        if f[0] == "tpath":
            targs = f[2]
            f = ("path", f[1])
            args = list(targs) + list(args)
        if f[0] != "path":
            raise TransError("call of a non-path")
        path = f[1]
        name = path[-1]
        if len(path) == 2 and name == "from" and path[0] in INT_TYPES and len(args) == 1:
            # `i64::from(x)`: core implements From between integer types only where it is lossless; same meaning as
            # the cast (which wraps whenever the translator cannot see that it widens)
            return self.ex(("cast", args[0], (path[0],)), env)
        if path == ["iter", "repeat"]:
            return ("(Src.Repeat.mk %s)" % self.ex(args[0], env)[0], ("repeat",))
        if path[-2:] == ["Vec", "with_capacity"] or path[-2:] == ["Vec", "new"]:
            return ("[]", ("slice", None))
        if len(path) == 2 and name == "default" and path[0] in TYPE_ALIASES and TYPE_ALIASES[path[0]][0] == "slice" and not args:
            # #[derive(Default)] on a tuple struct around a Vec: the empty list
            return ("[]", TYPE_ALIASES[path[0]])
        if name == "read_chunk_exact" and len(path) == 1:
            n = want[1] if (want and want[0] == "bytesN") else None
            if n is None:
                raise TransError("read_chunk_exact: array size not inferred in %s" % self.qname)
            return ("(Src.read_exact %s %d)" % (self.ex(args[0], env)[0], n), ("result", ("tuple", [("slice", ("u8",)), ("slice", ("u8",))]), ("named", "ParseDataError")))
        if len(path) == 1 and name in env and env[name] and env[name][0] == "fnty":
            return ("(%s %s)" % (vname(name), " ".join(self.ex(x, env)[0] for x in args)), env[name][2])
        if name == "parse_int" and len(path) == 1:
            t = want[0] if (want and want[0] in PARSE_INT) else None
            if t is None:
                raise TransError("parse_int: result type not inferred in %s" % self.qname)
            return ("(%s %s)" % (PARSE_INT[t], self.ex(args[0], env)[0]), ("result", (t,), ("named", "TzStringError")))
        if len(path) == 1 and name in env and env[name] and env[name][0] == "closure":
            return ("(%s %s)" % (vname(name), " ".join(self.ex(x, env)[0] for x in args)), env[name][1])
        if name == "Err" and len(path) == 1 and want and want[0] == "result" and want[2] is not None:
            s, t = self.ex(args[0], env)
            if t is not None and strip_ref(t) != strip_ref(want[2]) and strip_ref(t)[0] == "named" and strip_ref(want[2])[0] == "named":
                s = self.conv_err(s, t, want[2])      # `.into()` / From
            return ("(Except.error %s)" % s, None)
        if name == "Some" and len(path) == 1 and want and want[0] == "option" and want[1] == ("charcode",):
            s, t = self.ex(args[0], env, want=want[1])
            return ("(some %s)" % s, ("option", t))
        if name in ("Ok", "Err", "Some") and len(path) == 1:
            s, t = self.ex(args[0], env)
            return ("(%s %s)" % ({"Ok": "Except.ok", "Err": "Except.error", "Some": "some"}[name], s), ("option", t) if name == "Some" else None)
        if path[-2:] == ["Error", "Io"]:
            return ("TzVerif.Model.Error.io", ("named", "Error"))     # the boxed payload is not modelled
        if len(path) >= 2 and path[-2] in ERROR_ENUMS:
            s, _ = self.ex(args[0], env)
            return ("(TzVerif.Model.%s.%s %s)" % (path[-2], lower_first(name), s), ("named", path[-2]))
        if len(path) == 1 and (name == "Self" and self.owner in NEWTYPES or name in NEWTYPES):
            nt = self.owner if name == "Self" else name
            s, _ = self.ex(args[0], env, want=(NEWTYPES[nt],))
            return (s, ("named", nt))
        if len(path) >= 2 and (path[-2] if path[-2] != "Self" else self.owner) in ENUMS:
            en = path[-2] if path[-2] != "Self" else self.owner
            ctor, kinds = ENUMS[en][name]
            s, _ = self.ex(args[0], env)
            if kinds == ["MonthWeekDay"]:
                return ("(%s %s.month %s.week %s.weekDay)" % (ctor, s, s, s), ("named", en))
            return ("(%s %s)" % (ctor, s), ("named", en))
        q = name
        if len(path) >= 2:
            head = path[-2]
            if head == "Self":
                head = self.owner
            if head[0].isupper() or "%s.%s" % (head, name) in EXTERN_FNS:
                q = "%s.%s" % (head, name)
        q = CALL_ALIASES.get(q, q)
        if q in EXTERN_FNS:
            lean, pts, rt = EXTERN_FNS[q]
            a = [self.ex(x, env, want=pt)[0] for pt, x in zip(pts, args)]
            return ("(%s %s)" % (lean, " ".join(a)), rt)
        if q not in self.tr.sigs:
            raise TransError("call of untranslated function %s in %s" % ("::".join(path), self.qname))
        if q in self.tr.funcs and self.tr.funcs[q][5].get("out_param") and not self.tr.funcs[q][5].get("out_kind"):
            raise TransError("call of %s (output list) outside the `f(&mut list, …)?;` statement form" % q)
        params, ret = self.tr.sigs[q]
        a = []
        for (pn, pt), x in zip(params, args):
            a.append(self.ex(x, env, want=pt)[0])
        if targs and ret:
            ret = self.annotate_const(ret, a[0])
        return ("(Src.%s %s)" % (self.tr.lean_name(q), " ".join(a)) if a else "Src.%s" % self.tr.lean_name(q), ret)

    def err_fn(self, f, env):
        """an error-mapping function value: -> (lean text, resulting error type)"""
        if f[0] == "path" and f[1][-2:] == ["Error", "Io"]:
            return ("(fun _ => TzVerif.Model.Error.io)", ("named", "Error"))
        raise TransError("map_err argument")

    @staticmethod
    def conv_err(text, et, rt):
        """`From` conversion of an error value (used by `?` and `.into()`): -> lean text"""
        et, rt = strip_ref(et), strip_ref(rt)
        if et == rt:
            return text
        if rt == ("named", "TzError") and et[0] == "named" and et[1] in FROM_TZERROR:
            return "(TzVerif.Model.TzError.%s %s)" % (FROM_TZERROR[et[1]], text)
        if et[0] == "named" and rt[0] == "named" and (et[1], rt[1]) in FROM_CONV:
            return "(%s %s)" % (FROM_CONV[(et[1], rt[1])], text)
        if rt == ("named", "Error") and et == ("named", "TzError"):
            return "(TzVerif.Model.Error.tz %s)" % text
        if rt == ("named", "Error") and et[0] == "named" and et[1] in FROM_TZERROR:
            # From<X> for Error goes through TzError
            return "(TzVerif.Model.Error.tz (TzVerif.Model.TzError.%s %s))" % (FROM_TZERROR[et[1]], text)
        raise TransError("? converts %r into %r" % (et, rt))

    def annotate_const(self, t, ctext):
        """DataBlocks<TIME_SIZE> returned by f::<4>(…): remember the const argument for later method calls"""
        if t[0] == "named" and t[1] in ("DataBlocks",):
            return ("named", t[1], ctext)
        if t[0] == "result":
            return ("result", self.annotate_const(t[1], ctext), t[2])
        if t[0] == "tuple":
            return ("tuple", [self.annotate_const(x, ctext) for x in t[1]])
        return t

    # ---- patterns
    def pat(self, p, env, t):
        """-> lean pattern text; binds variables in env"""
        k = p[0]
        t = strip_ref(t) if t else t
        if k == "pvar":
            env[p[1]] = t
            return vname(p[1])
        if k == "pwild":
            return "_"
        if k == "plit":
            return str(p[1]) if p[1] >= 0 else "(%d)" % p[1]
        if k == "pbool":
            return "true" if p[1] else "false"
        if k == "ptuple":
            ts = t[1] if t and t[0] == "tuple" else [None] * len(p[1])
            return "(" + ", ".join(self.pat(x, env, ts[i]) for i, x in enumerate(p[1])) + ")"
        if k == "por":
            return " | ".join(self.pat(x, env, t) for x in p[1])
        if k == "pctor":
            path, subs = p[1], p[2]
            name = path[-1]
            if len(path) == 1 and name in ("Ok", "Err", "Some", "None"):
                inner = None
                if t:
                    if name == "Ok" and t[0] == "result":
                        inner = t[1]
                    if name == "Err" and t[0] == "result":
                        inner = t[2]
                    if name == "Some" and t[0] == "option":
                        inner = t[1]
                head = {"Ok": ".ok", "Err": ".error", "Some": "some", "None": "none"}[name]
                if not subs:
                    return head
                return "%s %s" % (head, paren(self.pat(subs[0], env, inner)))
            if len(path) >= 2 and path[-2] == "Ordering":
                return {"Less": ".lt", "Equal": ".eq", "Greater": ".gt"}[name]
            if len(path) >= 2 and path[-2] in ERROR_ENUMS:
                s = "TzVerif.Model.%s.%s" % (path[-2], lower_first(name))
                return s if not subs else "%s %s" % (s, " ".join(paren(self.pat(x, env, None)) for x in subs))
            if len(path) >= 2 and path[-2] in UNIT_ENUMS:
                return "%s.%s" % (UNIT_ENUMS[path[-2]], lower_first(name))
            en = None
            if len(path) >= 2:
                en = path[-2] if path[-2] != "Self" else self.owner
            if en in ENUMS:
                ctor, kinds = ENUMS[en][name]
                if kinds == ["MonthWeekDay"]:
                    if subs[0][0] != "pvar":
                        raise TransError("MonthWeekDay payload pattern")
                    v = subs[0][1]
                    env[v] = ("named", "MonthWeekDay")
                    self.post.append("let %s : TzVerif.Src.MonthWeekDay := { month := %s_m, week := %s_w, weekDay := %s_d }" % (vname(v), v, v, v))
                    return "%s %s_m %s_w %s_d" % (ctor, v, v, v)
                return "%s %s" % (ctor, paren(self.pat(subs[0], env, ("named", kinds[0]))))
            raise TransError("pattern %s" % "::".join(path))
        if k == "parray":
            et = elem_type(t) if (t and t[0] in ("slice", "array")) else None
            return "[" + ", ".join(self.pat(x, env, et) for x in p[1]) + "]"
        if k == "pstruct" and len(p[1]) >= 2 and (p[1][-2], p[1][-1]) in STRUCT_VARIANTS:
            # enum struct variant, fields by name, the rest `..`
            ctor, order = STRUCT_VARIANTS[(p[1][-2], p[1][-1])]
            given = dict(p[2])
            ftypes = STRUCT_VARIANT_FIELDS.get((p[1][-2], p[1][-1]), {})
            return "%s %s" % (ctor, " ".join(paren(self.pat(given[f], env, ftypes.get(f))) if f in given else "_" for f in order))
        if k == "pstruct":
            name = p[1][-1]
            if name == "Self":
                name = self.owner
            fs = []
            for f, sp in p[2]:
                lf, ft = STRUCTS[name][f]
                ftt = field_type(ft)
                fs.append("%s := %s" % (lf, self.pat(sp, env, ftt)))
            return "{ %s }" % ", ".join(fs)
        raise TransError("pattern kind %s" % k)

    # ---- control flow
    # A block is translated with a continuation `k(value_text, env) -> lean text` for its normal completion.
    # `ctx` describes what return / break mean here.
    def block(self, blk, env, k, value_only=False, ctx=None):
        stmts, tail = blk[1], blk[2]
        return self.stmts(list(stmts), tail, env, k, ctx or {"ret": self.ret_plain, "value_only": value_only, "fn_tail": not value_only})

    def ret_plain(self, text):
        if self.io:
            return "(%s, __io)" % text      # every exit hands back the log as it is at that point
        return text

    # ---- effects on the log (`io` functions)
    def io_init(self, init):
        """initialiser that is an effect (after normalisation effects only occur as whole initialisers)"""
        if not self.io:
            return None
        if init[0] == "try" and self.norm.is_io_call(init[1]):
            return (init[1], True)
        if self.norm.is_io_call(init):
            return (init, False)
        return None

    def no_return(self, text):
        raise TransError("return / ? inside a closure with effects")

    def io_body(self, body, env1):
        """body of a closure with effects: fun … __io => (value, __io); -> (text, value type)"""
        self.last_tail_type = None
        text = self.block(self.as_block(body), env1, lambda v, e2: "(%s, __io)" % v,
                          ctx={"ret": self.no_return, "value_only": True, "fn_tail": False})
        return text, self.last_tail_type

    def io_call(self, node, env):
        """-> (lean text of type R × IoLog, R)"""
        if node[0] == "call" and node[1][0] == "field":
            s, st = self.ex(node[1][1], env)
            ftext, ft = self.field(s, strip_ref(st), node[1][2])
            if not ft or ft[0] != "fnty" or len(node[2]) != len(ft[1]):
                raise TransError("call of field %s" % node[1][2])
            args = " ".join(self.ex(a, env, want=pt)[0] for a, pt in zip(node[2], ft[1]))
            return ("(TzVerif.Src.call_io %s %s __io)" % (ftext, args), ft[2])
        if node[0] == "mcall" and node[2] == "find_map":
            s, t = self.ex(node[1], env)
            t = strip_ref(t) if t else None
            cl = node[3][0]
            if len(cl[1]) != 1 or cl[1][0][0][0] != "pvar":
                raise TransError("find_map closure parameters")
            env1 = dict(env)
            env1[cl[1][0][0][1]] = elem_type(t)
            body, bt = self.io_body(cl[3], env1)
            if not bt or bt[0] != "option":
                raise TransError("find_map closure result type")
            return ("(TzVerif.Src.find_map_io (fun %s __io =>\n%s) %s __io)" % (vname(cl[1][0][0][1]), indent(body, 4), s), bt)
        if node[0] == "mcall":
            q = "%s.%s" % (self.owner, node[2])
            if q not in self.tr.sigs:
                raise TransError("call of untranslated method %s" % q)
            params, ret = self.tr.sigs[q]
            args = [self.ex(a, env, want=pt)[0] for a, (pn, pt) in zip(node[3], params[1:])]
            return ("(Src.%s %s __io)" % (self.tr.lean_name(q), " ".join(["self"] + args)), ret)
        if node[0] == "call":
            c = node[1][1][0]
            ct = env.get(c)
            if not ct or ct[0] != "ioclosure":
                raise TransError("call of %s" % c)
            args = " ".join(self.ex(a, env, want=pt)[0] for a, pt in zip(node[2], ct[2]))
            return ("(%s %s __io)" % (vname(c), args), ct[1])
        raise TransError("effect %s" % node[0])

    def io_closure_def(self, name, cl, env, cont):
        env1 = dict(env)
        ps, pts = [], []
        for pp, pt in cl[1]:
            if pp[0] != "pvar" or pt is None:
                raise TransError("closure parameter without a type")
            ty = strip_ref(self.resolve(pt))
            env1[pp[1]] = ty
            pts.append(ty)
            ps.append("(%s : %s)" % (vname(pp[1]), lean_ty(ty)))
        body, bt = self.io_body(cl[3], env1)
        env2 = dict(env)
        env2[name] = ("ioclosure", bt, pts)
        return "let %s := fun %s (__io : TzVerif.Src.IoLog) =>\n%s\n%s" % (vname(name), " ".join(ps), indent(body), cont(env2))

    def diverges(self, e):
        """does evaluating e always leave by return / break?"""
        if e is None:
            return False
        k = e[0]
        if k in ("return", "break"):
            return True
        if k == "block":
            for s in e[1]:
                if s[0] == "expr" and self.diverges(s[1]):
                    return True
            return self.diverges(e[2])
        if k == "if":
            return e[3] is not None and self.diverges(e[2]) and self.diverges(e[3])
        if k == "match":
            return all(self.diverges(a[2]) for a in e[2])
        return False

    def may_leave(self, e):
        """does e contain a return or break (not inside a nested loop for break)?"""
        if e is None or not isinstance(e, tuple):
            return False
        if e[0] in ("return", "break", "try"):
            return True
        if e[0] in ("while", "for"):
            return self.contains_return(e)
        return any(self.may_leave(x) if isinstance(x, tuple) else (any(self.may_leave(y) if isinstance(y, tuple) else (isinstance(y, list) and any(self.may_leave(z) for z in y if isinstance(z, tuple))) for y in x) if isinstance(x, list) else False) for x in e[1:])

    def contains_return(self, e):
        if e is None or not isinstance(e, (tuple, list)):
            return False
        if isinstance(e, tuple) and e and e[0] in ("return", "try"):
            return True
        return any(self.contains_return(x) for x in e if isinstance(x, (tuple, list)))

    def assigned(self, node, acc):
        """names assigned (not declared) in node"""
        if isinstance(node, list):
            for x in node:
                self.assigned(x, acc)
            return acc
        if not isinstance(node, tuple) or not node:
            return acc
        if node[0] == "call" and node[1][0] == "path" and len(node[1][1]) == 1 and node[1][1][0] in self.sclosures:
            # calling a closure that assigns captured variables assigns them
            acc.extend(self.sclosures[node[1][1][0]])
        if node[0] == "call" and node[1][0] in ("path", "tpath"):
            path = node[1][1]
            off = len(node[1][2]) if node[1][0] == "tpath" else 0
            q = path[-1]
            if len(path) >= 2 and path[-2][0].isupper():
                q = "%s.%s" % (path[-2] if path[-2] != "Self" else self.owner, path[-1])
            io = [0] if q == "read_chunk_exact" else [i - off for i in self.tr.inout.get(q, [])]
            for i in io:
                if 0 <= i < len(node[2]) and node[2][i][0] == "path" and len(node[2][i][1]) == 1:
                    acc.append(node[2][i][1][0])
        if node[0] == "assign":
            lhs = node[1]
            if lhs[0] == "path" and len(lhs[1]) == 1:
                acc.append(lhs[1][0])
            else:
                raise TransError("assignment to a non-local in %s" % self.qname)
        for x in node[1:]:
            if isinstance(x, (tuple, list)):
                self.assigned(x, acc)
        return acc

    def stmts(self, stmts, tail, env, k, ctx):
        if not stmts:
            if tail is None:
                if ctx.get("fn_tail") and self.inout and not self.out:
                    return k(self.ret_value(("tuple", []), env), env)
                return k("()", env)
            return self.tail(tail, env, k, ctx)
        s = stmts[0]
        rest = stmts[1:]
        kind = s[0]
        cont = lambda env2: self.stmts(rest, tail, env2, k, ctx)
        self.following = (rest, tail)
        if kind == "let":
            p, t, init = s[1], self.resolve(s[2]), s[3]
            if init is None:
                raise TransError("let without initialiser")
            if t is None and p[0] == "pvar" and self.mentions_parse_int(init):
                t = self.use_type(p[1], rest, tail, env)
            oc = self.out_call(init)
            if oc is not None:
                return self.out_call_stmt(p, oc, env, cont, ctx)
            io = self.io_init(init)
            if io is not None:
                text, rt = self.io_call(io[0], env)
                self.io_no = getattr(self, "io_no", 0) + 1
                v = "__r%d" % self.io_no
                env2 = dict(env)
                env2[v] = rt
                init2 = ("try", ("path", [v])) if io[1] else ("path", [v])
                return "let (%s, __io) := %s\n%s" % (v, text, self.bind(p, t, init2, env2, cont, ctx))
            if self.io and init[0] == "closure" and p[0] == "pvar" and p[1] in self.norm.ioclosures:
                return self.io_closure_def(p[1], init, env, cont)
            if init[0] == "closure" and p[0] == "pvar":
                captured = []
                for n in self.assigned(init[3], []):
                    if n in env and n not in captured:
                        captured.append(n)
                if captured:
                    return self.stateful_closure(p[1], init, captured, env, cont)
            return self.bind(p, t, init, env, cont, ctx)
        if kind == "assign":
            lhs, op, rhs = s[1], s[2], s[3]
            if lhs[0] != "path" or len(lhs[1]) != 1:
                raise TransError("assignment to a non-local")
            n = lhs[1][0]
            if op != "=":
                rhs = ("bin", op[0], lhs, rhs)
            tn = env.get(n)
            if (tn is None or tn[0] == "int") and self.mentions_parse_int(rhs):
                tn = self.use_type(n, rest, tail, env)
            return self.bind(("pvar", n), tn, rhs, env, cont, ctx, keep_type=True)
        if kind == "expr":
            e = s[1]
            if e[0] in ("return", "break"):
                return self.leave(e, env, ctx)
            if e[0] in ("if", "iflet", "match", "block"):
                return self.branching(e, env, cont, ctx)
            if e[0] == "unreachable":
                return "default"
            if e[0] in ("call", "mcall"):
                raise TransError("expression statement with effects: %s" % e[0])
            return cont(env)
        if kind == "rawlet":
            return s[1] + "\n" + cont(env)
        if kind == "while":
            return self.loop(s, env, cont, ctx)
        if kind == "for":
            return self.forloop(s, env, cont, ctx)
        raise TransError("statement %s" % kind)

    def out_call(self, init):
        """`f(&mut list, args…)?` where f is translated with an output list: (q, list variable, other args)"""
        if init[0] != "try" or init[1][0] != "call" or init[1][1][0] != "path" or len(init[1][1][1]) != 1:
            return None
        q = init[1][1][1][0]
        if q not in self.tr.funcs or not self.tr.funcs[q][5].get("out_param") or self.tr.funcs[q][5].get("out_kind"):
            return None
        names = [n for n, _ in self.tr.funcs[q][1]]
        i = names.index(self.tr.funcs[q][5]["out_param"])
        arg = init[1][2][i]
        if arg[0] != "path" or len(arg[1]) != 1:
            raise TransError("output list argument that is not a local variable")
        return (q, arg[1][0], [a for j, a in enumerate(init[1][2]) if j != i], i)

    def out_call_stmt(self, p, oc, env, cont, ctx):
        """the callee only pushes into its `&mut impl DateTimeList` argument (it is translated as the pushed sequence):
        the caller's container receives that sequence, one `push` of its own type at a time"""
        q, lname, args, i = oc
        if p[0] != "pwild":
            raise TransError("value of a call with an output list")
        lt = env.get(lname)
        owner = None
        if lt and lt[0] == "named":
            owner = lt[1]
        else:
            for an, at in TYPE_ALIASES.items():
                if at == lt and "%s.push" % an in self.tr.sigs:
                    owner = an
        if owner is None or "%s.push" % owner not in self.tr.sigs:
            raise TransError("output list of type %r has no translated push" % (lt,))
        params, ret = self.tr.sigs[q]
        a = []
        k = 0
        for j, (pn, pt) in enumerate(params):
            if j == i:
                a.append("[]")
            else:
                a.append(self.ex(args[k], env, want=pt)[0])
                k += 1
        conv = "e"
        et, rt = strip_ref(ret[2]), strip_ref(self.ret[2]) if (self.ret and self.ret[0] == "result") else None
        if rt is None:
            raise TransError("? in a function that does not return a Result")
        if et != rt:
            raise TransError("? converts %r into %r" % (et, rt))
        v = vname(lname)
        return ("match (Src.%s %s) with\n| .ok __pushed =>\n  let %s := List.foldl (fun acc x => (Src.%s acc x).2) %s __pushed\n%s\n| .error e => %s"
                % (self.tr.lean_name(q), " ".join(a), v, self.tr.lean_name("%s.push" % owner), v, indent(cont(env)), ctx["ret"]("(Except.error %s)" % conv)))

    @staticmethod
    def mentions_parse_int(e):
        if not isinstance(e, (tuple, list)):
            return False
        if isinstance(e, tuple) and len(e) >= 3 and e[0] == "call" and e[1] in (("path", ["parse_int"]), ("path", ["read_chunk_exact"])):
            return True
        return any(Fn.mentions_parse_int(x) for x in e if isinstance(x, (tuple, list)))

    def use_type(self, name, rest, tail, env):
        """type a variable must have, from its first use as an argument of a call with a known signature or as a
        component of the returned `Ok((…))` tuple"""
        found = []

        def visit(node):
            if found or not isinstance(node, (tuple, list)):
                return
            if isinstance(node, tuple) and node and node[0] == "call" and node[1][0] == "path":
                path = node[1][1]
                q = path[-1]
                if len(path) >= 2 and (path[-2][0].isupper() or "%s.%s" % (path[-2], path[-1]) in EXTERN_FNS):
                    q = "%s.%s" % (path[-2] if path[-2] != "Self" else self.owner, path[-1])
                sig = None
                if q in self.tr.sigs:
                    sig = [t for _, t in self.tr.sigs[q][0]]
                elif q in EXTERN_FNS:
                    sig = EXTERN_FNS[q][1]
                if sig:
                    for a, t in zip(node[2], sig):
                        if a == ("path", [name]):
                            found.append(strip_ref(t))
                            return
                if path == ["Ok"] and node[2] and node[2][0][0] == "tuple" and self.ret and self.ret[0] == "result":
                    rt = strip_ref(self.ret[1])
                    if rt and rt[0] == "tuple":
                        comps = rt[1][0][1] if (self.inout and rt[1] and rt[1][0] and rt[1][0][0] == "tuple") else rt[1]
                        for i, a in enumerate(node[2][0][1]):
                            if a == ("path", [name]) and i < len(comps):
                                found.append(strip_ref(comps[i]))
                                return
            for x in node:
                if isinstance(x, (tuple, list)):
                    visit(x)
        visit(rest)
        visit(tail)
        if not found:
            visit(self.body)     # a use after the enclosing block
        return found[0] if found else None

    def leave(self, e, env, ctx):
        if e[0] == "break":
            if "brk" not in ctx:
                raise TransError("break outside a loop")
            return ctx["brk"](env)
        v = "()" if e[1] is None else self.ret_value(e[1], env)
        return ctx["ret"](v)

    def ret_value(self, e, env):
        """text of a returned value; with an output list, `Ok(())` is `Ok(list)`"""
        if self.out and e == ("call", ("path", ["Ok"]), [("tuple", [])]) and not getattr(self, "in_closure", False):
            return "(Except.ok %s)" % vname(self.out)
        if self.inout and not getattr(self, "in_closure", False):
            st = ", ".join(vname(n) for n in self.inout)
            if e[0] == "call" and e[1] == ("path", ["Ok"]):
                inner = strip_ref(self.ret[1])[1][0] if (self.ret and self.ret[0] == "result") else None
                return "(Except.ok (%s, %s))" % (self.ex(e[2][0], env, want=inner)[0], st)
            if e[0] == "call" and e[1] == ("path", ["Err"]):
                return "(Except.error %s)" % self.ex(e[2][0], env)[0]
            if self.state_vars(e, env) == self.inout:
                return self.ex(e, env)[0]           # a call that threads the same state: its result is ours
            if self.ret and self.ret[0] == "result":
                return "(Src.withState %s (%s))" % (self.ex(e, env)[0], st)
            return "(%s, %s)" % (self.ex(e, env)[0], st)
        return self.ex(e, env, want=self.ret)[0]

    def state_vars(self, e, env):
        """the caller's variables that a call passes at the callee's `&mut` positions (through wrappers such as
        `map_err(f(cursor))`), or []"""
        if e[0] != "call" or e[1][0] not in ("path", "tpath"):
            return []
        path = e[1][1]
        off = len(e[1][2]) if e[1][0] == "tpath" else 0
        q = path[-1]
        if q == "read_chunk_exact":
            return [e[2][0][1][0]] if (e[2] and e[2][0][0] == "path") else []
        if len(path) >= 2 and path[-2][0].isupper():
            q = "%s.%s" % (path[-2] if path[-2] != "Self" else self.owner, path[-1])
        if q in self.tr.inout and self.tr.inout[q]:
            names = []
            for i in self.tr.inout[q]:
                a = e[2][i - off]
                if a[0] != "path" or len(a[1]) != 1:
                    raise TransError("&mut argument that is not a local variable")
                names.append(a[1][0])
            return names
        if q in self.tr.sigs and len(e[2]) == 1 and len(self.tr.sigs[q][0]) == 1:
            pt = strip_ref(self.tr.sigs[q][0][0][1])
            if pt and pt[0] == "result":
                return self.state_vars(e[2][0], env)   # Result -> Result wrapper (map_err)
        return []

    def tail(self, e, env, k, ctx):
        if e[0] in ("return", "break"):
            return self.leave(e, env, ctx)
        if e[0] == "unreachable":
            return "default"
        if e[0] in ("if", "iflet", "match", "block"):
            return self.branching(e, env, None, ctx, value_k=k)
        if e[0] == "try":
            return self.bind(("pvar", "__v"), None, e, env, lambda env2: k("__v", env2), ctx)
        if ctx.get("tailmap"):
            return ctx["tailmap"](e, env)
        if ctx.get("fn_tail") and (self.out or self.inout):
            return k(self.ret_value(e, env), env)
        s, t = self.ex(e, env, want=self.ret if not ctx.get("value_only") else None)
        self.last_tail_type = t
        return k(s, env)

    def with_carried(self, e, carried):
        """rewrite every value a branching construct yields, v, into (v, carried…)"""
        k = e[0]
        if k == "block":
            if e[2] is None:
                return ("block", e[1], ("tuple", [("tuple", [])] + [("path", [n]) for n in carried]))
            return ("block", e[1], self.with_carried(e[2], carried))
        if k == "if":
            return ("if", e[1], self.with_carried(self.as_block(e[2]), carried), self.with_carried(self.as_block(e[3]), carried) if e[3] is not None else None)
        if k == "iflet":
            return ("iflet", e[1], e[2], self.with_carried(self.as_block(e[3]), carried), self.with_carried(self.as_block(e[4]), carried) if e[4] is not None else None)
        if k == "match":
            return ("match", e[1], [(p, g, self.with_carried(self.as_block(b), carried)) for p, g, b in e[2]])
        if k in ("return", "break", "unreachable"):
            return e
        if k == "try":
            self.carry_no = getattr(self, "carry_no", 0) + 1
            v = "__c%d" % self.carry_no
            return ("block", [("let", ("pvar", v), None, e)], ("tuple", [("path", [v])] + [("path", [n]) for n in carried]))
        return ("tuple", [e] + [("path", [n]) for n in carried])

    def stateful_closure(self, name, cl, captured, env, cont):
        """a closure that assigns captured variables M and returns Result<T, E>:
        `fun M args => Except E (T × M)`; call sites rebind M"""
        mt = vname(captured[0]) if len(captured) == 1 else "(" + ", ".join(vname(n) for n in captured) + ")"
        env1 = dict(env)
        saved = self.post
        self.post = []
        ps = [paren(self.pat(pp, env1, self.resolve(pt))) for pp, pt in cl[1]]
        self.post = saved

        def tailmap(e, env2):
            if e[0] == "call" and e[1] == ("path", ["Ok"]):
                return "(Except.ok (%s, %s))" % (self.ex(e[2][0], env2)[0], mt)
            if e[0] == "call" and e[1] == ("path", ["Err"]):
                return "(Except.error %s)" % self.ex(e[2][0], env2)[0]
            return "(match %s with | .ok __v => Except.ok (__v, %s) | .error __e => Except.error __e)" % (self.ex(e, env2)[0], mt)
        ctx2 = {"ret": lambda v: v, "tailmap": tailmap}
        body = cl[3] if cl[3][0] == "block" else ("block", [], cl[3])
        saved_in = getattr(self, "in_closure", False)
        self.in_closure = True
        text = self.stmts(list(body[1]), body[2], env1, lambda v, env2: v, ctx2)
        self.in_closure = saved_in
        env2 = dict(env)
        env2[name] = ("sclosure", captured)
        self.sclosures[name] = captured
        return "let %s := fun %s %s =>\n%s\n%s" % (vname(name), paren(mt), " ".join(ps), indent(text), cont(env2))

    def bind(self, p, t, init, env, cont, ctx, keep_type=False):
        """let p = init; cont"""
        if p[0] == "parray" and all(x[0] in ("pvar", "pwild") for x in p[1]):
            # let [a, b, c] = array;  (irrefutable in Rust: components by index)
            s, ti = self.ex(init, env)
            env2 = dict(env)
            lines = ["let __arr := %s" % s]
            for i, x in enumerate(p[1]):
                if x[0] == "pvar":
                    env2[x[1]] = elem_type(ti) or ("byte",)
                    lines.append("let %s := (Src.idx __arr %d)" % (vname(x[1]), i))
            return "\n".join(lines) + "\n" + cont(env2)
        if (init[0] == "try" and init[1][0] == "call" and init[1][1][0] == "path" and len(init[1][1][1]) == 1
                and env.get(init[1][1][1][0]) and env[init[1][1][1][0]][0] == "sclosure"):
            cname = init[1][1][1][0]
            captured = env[cname][1]
            mt = vname(captured[0]) if len(captured) == 1 else "(" + ", ".join(vname(n) for n in captured) + ")"
            args = " ".join(self.ex(x, env)[0] for x in init[1][2])
            env2 = dict(env)
            self.post = []
            okp = self.pat(p, env2, None)
            self.post = []
            return "match (%s %s %s) with\n| .ok (%s, %s) =>\n%s\n| .error e => %s" % (vname(cname), mt, args, okp, mt, indent(cont(env2)), ctx["ret"]("(Except.error e)"))
        # initialisers that may leave the function
        if init[0] == "try":
            s, ti = self.ex(init[1], env, want=t)
            env2 = dict(env)
            self.post = []
            if ti and ti[0] == "option":
                # `?` on an Option in a function returning an Option
                if not (self.ret and self.ret[0] == "option") or self.inout or self.out:
                    raise TransError("? on an Option in a function that does not return one")
                okp = self.pat(p, env2, ti[1])
                if self.post:
                    raise TransError("payload pattern after ?")
                return "match %s with\n| some %s =>\n%s\n| none => %s" % (s, paren(okp), indent(cont(env2)), ctx["ret"]("none"))
            sv = self.state_vars(init[1], env)
            inner = ti[1] if ti and ti[0] == "result" else t
            if sv:
                inner = strip_ref(inner)
                vt = inner[1][0] if (inner and inner[0] == "tuple") else None
                okp = "(%s, %s)" % (self.pat(p, env2, vt), ", ".join(vname(n) for n in sv))
            else:
                okp = self.pat(p, env2, inner)
            if self.post:
                raise TransError("payload pattern after ?")
            conv = "e"
            if ti and ti[0] == "result" and self.ret and self.ret[0] == "result" and ti[2] is not None:
                conv = self.conv_err("e", ti[2], self.ret[2])
            return "match %s with\n| .ok %s =>\n%s\n| .error e => %s" % (s, paren(okp), indent(cont(env2)), ctx["ret"]("(Except.error %s)" % conv))
        if init[0] in ("match", "if", "iflet", "block"):
            carried = []
            for n in self.assigned(init, []):
                if n in env and n not in carried and n not in self.pat_names(p):
                    carried.append(n)
            if carried:
                # the construct also updates outer variables: they travel with its value
                if t is None:
                    t = self.ty_of(init, env)
                p = ("ptuple", [p] + [("pvar", n) for n in carried])
                t = ("tuple", [t] + [env[n] for n in carried])
                init = self.with_carried(init, carried)
        ctx = dict(ctx, fn_tail=False) if init[0] in ("match", "if", "iflet", "block") else ctx
        if init[0] in ("match", "if", "iflet", "block") and self.may_leave(init):
            if t is None:
                t = self.ty_of(init, env)
            if self.completing_arms(init) > 1:
                # several arms yield a value and some return early: a Src.Flow value, so that what follows is
                # written once
                ctx2 = self.flow_ctx(ctx)
                text = self.branching(init, env, None, ctx2, value_k=lambda v, env2: "Src.Flow.val %s" % paren(v))
                env2 = dict(env)
                self.post = []
                pt = self.pat(p, env2, t)
                post, self.post = self.post, []
                return "match %s with\n| .ret __r => %s\n| .val %s =>\n%s" % (self.flow_ascribe(text), ctx["ret"]("__r"), paren(pt), indent("".join(l + "\n" for l in post) + cont(env2)))

            def value_k(vtext, env_in):
                env2 = dict(env_in)
                self.post = []
                pt = self.pat(p, env2, t)
                post, self.post = self.post, []
                return "let %s := %s\n%s%s" % (pt, vtext, "".join(l + "\n" for l in post), cont(env2))
            return self.branching(init, env, None, ctx, value_k=value_k)
        s, ti = self.ex(init, env, want=t)
        env2 = dict(env)
        ty = t if (t is not None and (keep_type or True)) else ti
        if t is None:
            ty = ti
        self.post = []
        pt = self.pat(p, env2, ty)
        post, self.post = self.post, []
        if p[0] == "pvar" and (init[0] == "lit" or (init[0] == "neg" and init[1][0] == "lit")):
            # an integer literal: every integer type is Int (without this Lean may default the numeral to Nat)
            pt = pt + " : Int"
        return "let %s := %s\n%s%s" % (pt, s, "".join(l + "\n" for l in post), cont(env2))

    @staticmethod
    def as_block(body):
        if body is None:
            return ("block", [], None)
        return body if body[0] == "block" else ("block", [], body)

    @staticmethod
    def stmt_block(body):
        """block in statement position: a tail expression is one more expression statement"""
        blk = Fn.as_block(body)
        if blk[2] is not None:
            return ("block", list(blk[1]) + [("expr", blk[2])], None)
        return blk

    def branching(self, e, env, cont, ctx, value_k=None):
        """if / if let / match / block in statement position (cont: what follows) or in value position
        (value_k: what to do with the value)."""
        k = e[0]
        if k == "block":
            if value_k is not None:
                return self.stmts(list(e[1]), e[2], dict(env), value_k, ctx)
            blk = self.stmt_block(e)
            self.check_no_shadow(blk, env)
            return self.stmts(list(blk[1]), None, dict(env), lambda v, env2: cont({n: env2[n] for n in env}), ctx)
        kind, scrut, arms = self.arms_of(e, env)
        if value_k is not None:
            out = []
            for head, body, env_arm in arms:
                blk = self.as_block(body)
                out.append((head, self.stmts(list(blk[1]), blk[2], env_arm, value_k, ctx)))
            return self.emit_arms(kind, scrut, out)
        # statement position
        blocks = [(head, self.stmt_block(body), env_arm) for head, body, env_arm in arms]
        if any(self.may_leave(blk) for _, blk, _ in blocks):
            # what follows is emitted inside the arms: an inner `let` must not shadow an outer name
            for _, blk, _ in blocks:
                self.check_no_shadow(blk, env)
        if not any(self.may_leave(blk) for _, blk, _ in blocks):
            # pure state update: tuple of the assigned outer variables
            names = []
            for _, blk, _ in blocks:
                shadowed = [n for st in blk[1] if st[0] == "let" for n in self.pat_names(st[1]) if n in env]
                for n in self.assigned(blk, []):
                    if n in shadowed:
                        raise TransError("assignment to a shadowed variable %s in %s" % (n, self.qname))
                    if n in env and n not in names:
                        names.append(n)
            if not names:
                return cont(env)
            tup = vname(names[0]) if len(names) == 1 else "(" + ", ".join(vname(n) for n in names) + ")"
            out = []
            for head, blk, env_arm in blocks:
                out.append((head, self.stmts(list(blk[1]), None, env_arm, lambda v, env2: tup, ctx)))
            return "let %s := %s\n%s" % (tup, paren_block(self.emit_arms(kind, scrut, out)), cont(env))
        # some arm leaves. If at most one arm can complete normally the continuation goes into that arm; otherwise
        # the construct becomes a Src.Flow value (early return, or the updated state) so that what follows is
        # written once.
        completing = [1 for _, blk, _ in blocks if not self.diverges(blk)]
        if len(completing) <= 1:
            out = []
            for head, blk, env_arm in blocks:
                out.append((head, self.stmts(list(blk[1]), None, env_arm, lambda v, env2: cont({n: env2[n] for n in env}), ctx)))
            return self.emit_arms(kind, scrut, out)
        names = []
        for _, blk, _ in blocks:
            for n in self.assigned(blk, []):
                if n in env and n not in names:
                    names.append(n)
        tup = "()" if not names else (vname(names[0]) if len(names) == 1 else "(" + ", ".join(vname(n) for n in names) + ")")
        ctx2 = self.flow_ctx(ctx)
        out = []
        for head, blk, env_arm in blocks:
            out.append((head, self.stmts(list(blk[1]), None, env_arm, lambda v, env2: "Src.Flow.val %s" % tup, ctx2)))
        return "match %s with\n| .ret __r => %s\n| .val %s =>\n%s" % (self.flow_ascribe(self.emit_arms(kind, scrut, out)), ctx["ret"]("__r"), tup if names else "_", indent(cont(env)))

    def flow_ascribe(self, text):
        if getattr(self, "in_closure", False) or self.ret is None:
            return paren_block(text)
        return "(%s : Src.Flow %s _)" % (paren_block(text), paren(lean_ty(self.ret)))

    def flow_ctx(self, ctx):
        def no_break(env2):
            raise TransError("break inside a construct that also returns early, in %s" % self.qname)
        c = dict(ctx)
        c["ret"] = lambda v: "Src.Flow.ret %s" % paren(v)
        if "brk" in c:
            c["brk"] = no_break
        return c

    def completing_arms(self, e):
        """number of arms of a value-position if / match that yield a value"""
        k = e[0]
        if k == "block":
            return 0 if self.diverges(e) else (self.completing_arms(e[2]) if (e[2] is not None and e[2][0] in ("if", "iflet", "match", "block")) else 1)
        if k == "if":
            return self.completing_arms(self.as_block(e[2])) + (self.completing_arms(self.as_block(e[3]) if e[3][0] != "if" else e[3]) if e[3] is not None else 1)
        if k == "iflet":
            return self.completing_arms(self.as_block(e[3])) + (self.completing_arms(self.as_block(e[4])) if e[4] is not None else 1)
        if k == "match":
            return sum(self.completing_arms(self.as_block(b)) for _, _, b in e[2])
        return 0 if self.diverges(e) else 1

    def check_no_shadow(self, blk, env):
        if blk is None or blk[0] != "block":
            return
        for s in blk[1]:
            if s[0] == "let":
                for n in self.pat_names(s[1]):
                    if n in env:
                        raise TransError("inner let shadows outer %s in %s" % (n, self.qname))

    def pat_names(self, p):
        if p[0] == "pvar":
            return [p[1]]
        if p[0] in ("ptuple", "por"):
            return [n for x in p[1] for n in self.pat_names(x)]
        if p[0] == "pctor":
            return [n for x in p[2] for n in self.pat_names(x)]
        if p[0] == "pstruct":
            return [n for _, x in p[2] for n in self.pat_names(x)]
        return []

    def arms_of(self, e, env):
        """-> (kind, scrutinee text, [(head text, body, env for the body)])"""
        k = e[0]
        if k == "if":
            c, _ = self.ex(e[1], env)
            return ("if", c, [("then", e[2], dict(env)), ("else", e[3], dict(env))])
        if k in ("iflet", "match"):
            e = self.slice_adapt(e)
        if k == "iflet":
            s, t = self.ex(e[2], env)
            env1 = dict(env)
            self.post = []
            pt = self.pat(e[1], env1, t)
            post, self.post = self.post, []
            return ("match", s, [(pt, self.with_post(post, e[3]), env1), ("_", e[4], dict(env))])
        if k == "match":
            for i, (p, g, body) in enumerate(e[2]):
                if g is not None and self.pat_names(p):
                    # `p if g => b, rest…`  ==  `p => if g { b } else { match s { rest… } }, _ => match s { rest… }`
                    rest = ("match", e[1], e[2][i + 1:])
                    arms2 = list(e[2][:i]) + [(p, None, ("if", g, self.as_block(body), self.as_block(rest))), (("pwild",), None, rest)]
                    return self.arms_of(("match", e[1], arms2), env)
            if any(g is not None or self.needs_chain(p) for p, g, _ in e[2]):
                return self.chain_arms(e, env)
            s, t = self.ex(e[1], env)
            arms = []
            for p, guard, body in e[2]:
                env1 = dict(env)
                self.post = []
                pt = self.pat(p, env1, t)
                post, self.post = self.post, []
                arms.append((pt, self.with_post(post, body), env1))
            return ("match", s, arms)
        raise TransError("arms of %s" % k)

    def slice_adapt(self, e):
        """`[]` / `[.., x]` patterns: match on `List.getLast?` of the scrutinee (component)"""
        def is_slice(p):
            return p[0] in ("pslice_empty", "pslice_last")

        def conv(p):
            if p[0] == "pslice_empty":
                return ("pctor", ["None"], [])
            if p[0] == "pslice_last":
                return ("pctor", ["Some"], [p[1]])
            return p
        if e[0] == "iflet":
            pats, scrut = [e[1]], e[2]
        else:
            pats, scrut = [a[0] for a in e[2]], e[1]
        if any(is_slice(p) for p in pats):
            scrut2 = ("getlast", scrut)
            pats2 = [conv(p) for p in pats]
        elif scrut[0] == "tuple" and any(p[0] == "ptuple" and any(is_slice(x) for x in p[1]) for p in pats):
            marks = [any(p[0] == "ptuple" and is_slice(p[1][i]) for p in pats) for i in range(len(scrut[1]))]
            scrut2 = ("tuple", [("getlast", c) if m else c for c, m in zip(scrut[1], marks)])
            pats2 = [("ptuple", [conv(x) for x in p[1]]) if p[0] == "ptuple" else p for p in pats]
        else:
            return e
        if e[0] == "iflet":
            return ("iflet", pats2[0], scrut2, e[3], e[4])
        return ("match", scrut2, [(p2, a[1], a[2]) for p2, a in zip(pats2, e[2])])

    @staticmethod
    def with_post(post, body):
        """prefix a body with raw Lean `let` lines produced by a pattern"""
        if not post:
            return body
        blk = Fn.as_block(body)
        return ("block", [("rawlet", l) for l in post] + list(blk[1]), blk[2])

    def needs_chain(self, p):
        if p[0] in ("plit", "prange", "pbool"):
            return True
        if p[0] == "parray":
            # byte-literal arrays go through the if-chain; arrays of constructor patterns are Lean list patterns
            return any(x[0] in ("plit", "prange", "pbool", "pvar", "pwild", "pat_at") for x in p[1])
        if p[0] in ("ptuple", "por"):
            return any(self.needs_chain(x) for x in p[1])
        return False

    def chain_arms(self, e, env):
        """match with guards / integer literal and range patterns: an if-chain over the scrutinee's components"""
        scrut = e[1]
        comps = scrut[1] if scrut[0] == "tuple" else [scrut]
        cs = [self.ex(c, env) for c in comps]
        arms = []
        for p, guard, body in e[2]:
            if p[0] == "por" and all(x[0] == "ptuple" for x in p[1]) and scrut[0] == "tuple":
                # (0, 0) | (1, 0) | (1, 1): a disjunction of conjunctions of literal tests
                alts = []
                for x in p[1]:
                    conj = []
                    for sp, (ctext, ctype) in zip(x[1], cs):
                        if sp[0] == "plit":
                            conj.append("(decide (%s = %s))" % (ctext, sp[1]))
                        elif sp[0] != "pwild":
                            raise TransError("pattern in an or of tuples")
                    alts.append("(" + " && ".join(conj) + ")" if conj else "true")
                cond = "(" + " || ".join(alts) + ")"
                if guard is not None:
                    cond = "(%s && %s)" % (cond, self.ex(guard, env)[0])
                arms.append((cond, body, dict(env)))
                continue
            if p[0] == "parray" and all(x[0] == "plit" for x in p[1]) and len(cs) == 1:
                arms.append(("(decide (%s = [%s]))" % (cs[0][0], ", ".join(str(x[1]) for x in p[1])), body, dict(env)))
                continue
            ps = p[1] if (p[0] == "ptuple" and scrut[0] == "tuple") else [p]
            if p[0] == "pwild":
                ps = [("pwild",)] * len(cs)
            if len(ps) != len(cs):
                raise TransError("pattern arity")
            conds = []
            lets = []
            env1 = dict(env)
            for sp, (ctext, ctype) in zip(ps, cs):
                alts = sp[1] if sp[0] == "por" else [sp]
                ors = []
                for a in alts:
                    if a[0] == "pwild":
                        ors = None
                        break
                    if a[0] == "pvar":
                        lets.append("let %s := %s" % (vname(a[1]), ctext))
                        env1[a[1]] = ctype
                        ors = None
                        break
                    if a[0] == "plit":
                        ors.append("(decide (%s = %s))" % (ctext, a[1] if a[1] >= 0 else "(%d)" % a[1]))
                    elif a[0] == "prange":
                        ors.append("((decide (%s ≤ %s)) && (decide (%s ≤ %s)))" % (a[1], ctext, ctext, a[2]))
                    elif a[0] == "pbool":
                        ors.append(ctext if a[1] else "(!%s)" % ctext)
                    else:
                        raise TransError("pattern %s in a match with guards or ranges" % a[0])
                if ors:
                    conds.append(ors[0] if len(ors) == 1 else "(" + " || ".join(ors) + ")")
            if guard is not None:
                if lets:
                    raise TransError("guard with bindings")
                conds.append(self.ex(guard, env1)[0])
            cond = "true" if not conds else (conds[0] if len(conds) == 1 else "(" + " && ".join(conds) + ")")
            arms.append((cond, self.with_post(lets, body), env1))
        return ("chain", None, arms)

    def emit_arms(self, kind, scrut, out):
        if kind == "chain":
            # the last arm that is unconditionally true closes the chain; without one the fall-through is the
            # `unreachable!()` of an exhaustive Rust match: `default`
            text = None
            closed = False
            for head, body in reversed(out):
                if head == "true":
                    text = body
                    closed = True
                elif text is None:
                    text = "if %s then\n%s\nelse\n  default" % (head, indent(body))
                else:
                    text = "if %s then\n%s\nelse\n%s" % (head, indent(body), indent(text))
            return text
        if kind == "if":
            (_, b1), (_, b2) = out
            return "if %s then\n%s\nelse\n%s" % (scrut, indent(b1), indent(b2))
        lines = ["match %s with" % scrut]
        for head, body in out:
            lines.append("| %s =>\n%s" % (head, indent(body)))
        return "\n".join(lines)

    # arms_of returns a pseudo-arm for the scrutinee; make the generic code skip it
    def loop(self, s, env, cont, ctx):
        cond, body = s[1], s[2]
        self.loop_no += 1
        fuel = self.cfg.get("fuel", {}).get(str(self.loop_no))
        if fuel is None:
            raise TransError("no fuel given for loop %d of %s" % (self.loop_no, self.qname))
        names = []
        for n in self.assigned(body, []):
            if n in env and n not in names:
                names.append(n)
        if not names:
            raise TransError("loop without state")
        st = vname(names[0]) if len(names) == 1 else "(" + ", ".join(vname(n) for n in names) + ")"
        has_ret = self.contains_return(body)
        c, _ = self.ex(cond, env)
        if has_ret:
            ctx2 = {"ret": lambda v: "Src.Step.ret %s" % paren(ctx["ret"](v)), "brk": lambda env2: "Src.Step.stop %s" % st}
        else:
            ctx2 = {"ret": None, "brk": lambda env2: "Src.Step.stop %s" % st}
        self.check_no_shadow(body, env)
        b = self.stmts(list(body[1]), body[2], dict(env), lambda v, env2: "Src.Step.next %s" % st, ctx2)
        fn = "fun %s =>\n%s" % (st if len(names) > 1 else paren(st), indent("if %s then\n%s\nelse Src.Step.stop %s" % (c, indent(b), st)))
        fuel_s, _ = self.ex(Parser(lex(fuel)).expr(), env)
        if has_ret:
            return "match Src.loopR (Int.toNat %s) (%s) %s with\n| .inr __r => __r\n| .inl %s =>\n%s" % (paren(fuel_s), fn, st, st, indent(cont(env)))
        return "let %s := Src.loopS (Int.toNat %s) (%s) %s\n%s" % (st, paren(fuel_s), fn, st, cont(env))

    def forloop(self, s, env, cont, ctx):
        p, it, body = s[1], s[2], s[3]
        names = []
        for n in self.assigned(body, []):
            if n in env and n not in names:
                names.append(n)
        has_ret = self.contains_return(body)
        if not names and not has_ret:
            return cont(env)            # a loop without effect
        st = "()" if not names else (vname(names[0]) if len(names) == 1 else "(" + ", ".join(vname(n) for n in names) + ")")
        its, tt = self.ex(it, env)
        tt = strip_ref(tt) if tt else None
        env1 = dict(env)
        self.post = []
        pt = self.pat(p, env1, elem_type(tt) if tt and tt[0] == "slice" else None)
        self.post = []
        if has_ret:
            ctx2 = {"ret": lambda v: "Src.Step.ret %s" % paren(ctx["ret"](v)), "brk": lambda env2: "Src.Step.stop %s" % st}
        else:
            ctx2 = {"ret": None, "brk": lambda env2: "Src.Step.stop %s" % st}
        self.check_no_shadow(body, env)
        b = self.stmts(list(body[1]), body[2], env1, lambda v, env2: "Src.Step.next %s" % st, ctx2)
        fn = "fun %s %s =>\n%s" % (paren(st), paren(pt), indent(b))
        if has_ret:
            return "match Src.forInR %s (%s) %s with\n| .inr __r => __r\n| .inl %s =>\n%s" % (its, fn, st, st, indent(cont(env)))
        return "let %s := Src.forIn %s (%s) %s\n%s" % (st, its, fn, st, cont(env))


def indent(s, n=2):
    return "\n".join((" " * n + l) if l else l for l in s.split("\n"))


def paren_block(s):
    return "(" + s.replace("\n", "\n ") + ")"


class Translator:
    def __init__(self, config):
        self.config = config
        self.funcs = {}
        self.sigs = {}
        self.consts = {}
        self.order = []
        self.inout = {}
        self.emitted = {}
        self.poisoned = {}           # functions whose generated text Lean rejected on an earlier pass of this run
        self.discovered = set()      # helpers translated on demand: if one is outside the subset only its callers fail
        self.helper_failed = {}
        # methods that call an injected function (directly or not): the log of those calls is threaded through them
        self.io_methods = {q.split(".")[-1] for rel, names in config["groups"] for q, c in names.items() if c.get("io")}
        self.failed = {}

    def lean_name(self, q):
        return q

    def load_consts(self):
        # names and types of the generated constants (Generated/Consts.lean is produced by gen_lean.py)
        path = os.path.join(OUT, "Consts.lean")
        for m in re.finditer(r"^def ([A-Z][A-Z0-9_]*) : (List Int|Int)", open(path).read(), re.M):
            self.consts[m.group(1)] = ("slice", ("i64",)) if m.group(2) == "List Int" else ("i64",)

    def discover(self, funcs, q, configured, stack):
        """unlisted functions of the same file called (transitively) by q, callees first"""
        if q not in funcs or funcs[q][0] == "ERROR" or q in stack:
            return []
        owner = q.split(".")[0] if "." in q else None
        found = []

        special = set(EXTERN_FNS) | set(CALL_ALIASES) | {"parse_int", "read_chunk_exact"} | {"%s.%s" % k for k in EXTERN_METHODS}

        def cand(name):
            if "." in name and name.split(".")[0] in STRUCTS and name.split(".")[1] in STRUCTS[name.split(".")[0]]:
                return      # an accessor: the field
            if name in funcs and name not in configured and name not in special and name != q and funcs[name][0] != "ERROR":
                for d in self.discover(funcs, name, configured, stack + [q]):
                    if d not in found:
                        found.append(d)
                if name not in found:
                    found.append(name)

        def walk(node):
            if isinstance(node, list):
                for x in node:
                    walk(x)
                return
            if not isinstance(node, tuple) or not node:
                return
            if node[0] == "call" and node[1][0] in ("path", "tpath"):
                path = node[1][1]
                if len(path) == 1:
                    cand(path[0])
                elif len(path) >= 2:
                    head = owner if path[-2] == "Self" else path[-2]
                    cand("%s.%s" % (head, path[-1]))
            if node[0] == "mcall":
                name = node[2]
                if node[1] == ("path", ["self"]) and owner:
                    cand("%s.%s" % (owner, name))
                else:
                    ks = [k for k in funcs if k.endswith("." + name) and k not in configured and funcs[k][0] != "ERROR"]
                    if len(ks) == 1:
                        cand(ks[0])
            for x in node[1:]:
                if isinstance(x, (tuple, list)):
                    walk(x)

        walk(funcs[q][2])
        return found

    def run(self):
        self.load_consts()
        configured = {q for rel, names in self.config["groups"] for q in names}
        parsed = {}
        for rel, names in self.config["groups"]:
            if rel not in parsed:
                parsed[rel] = parse_file(os.path.join(REPO, rel))
            funcs, _ = parsed[rel]
            for q, cfg in names.items():
                # private helpers of the same file that a listed function calls (extracted by a refactor, say) are
                # translated on demand, before their caller
                for h in self.discover(funcs, q, configured, []):
                    if h not in self.funcs and h not in self.poisoned:
                        fh = funcs[h] if len(funcs[h]) == 4 else funcs[h] + ([],)
                        self.funcs[h] = (rel,) + fh + ({},)
                        self.order.append(h)
                        self.discovered.add(h)
                if q not in funcs:
                    self.failed[q] = "%s: function %s not found" % (rel, q)
                    continue
                if q in self.poisoned:
                    self.failed[q] = "%s: %s: the generated definition does not elaborate: %s" % (rel, q, self.poisoned[q])
                    continue
                if funcs[q][0] == "ERROR":
                    self.failed[q] = "%s: %s does not parse: %s" % (rel, q, funcs[q][1])
                    continue
                fq = funcs[q] if len(funcs[q]) == 4 else funcs[q] + ([],)
                self.funcs[q] = (rel,) + fq + (cfg,)
                self.order.append(q)
        # signatures first (calls need return types)
        for q in list(self.order):
            rel, params, ret, body, generics, cfg = self.funcs[q]
            try:
                f = Fn(self, q, params, ret, body, cfg, generics)
            except Exception as e:
                (self.helper_failed if q in self.discovered else self.failed)[q] = "%s: %s: %s" % (rel, q, e)
                self.order.remove(q)
                continue
            ps = [(n, f.resolve(t)) for n, t in params]
            # a `&mut` parameter the body never writes through (it is only moved into a structure, say) is a plain one
            try:
                written = set(f.assigned(f.body, []))
            except TransError:
                written = None
            if written is not None:
                ps = [(n, (t[1] if (t and t[0] == "mutref" and n not in written and n != f.out) else t)) for n, t in ps]
            inout = [n for n, t in ps if t and t[0] == "mutref"]
            self.inout[q] = [i for i, (n, t) in enumerate(ps) if t and t[0] == "mutref"]
            if inout:
                # `&mut` parameters: passed in, and returned next to the value
                sts = [strip_ref(t) for n, t in ps if t and t[0] == "mutref"]
                if f.ret[0] == "result":
                    f.ret = ("result", ("tuple", [f.ret[1]] + sts), f.ret[2])
                else:
                    f.ret = ("tuple", [f.ret] + sts)
            if f.out:
                # `&mut impl DateTimeList`: the pushed sequence, threaded through and returned
                lt = ("slice", ("char",)) if cfg.get("out_kind") == "fmt" else ("slice", ("named", "FoundDateTimeKind"))
                ps = [(n, lt if n == f.out else t) for n, t in ps]
                f.ret = ("result", lt, f.ret[2] if f.ret[0] == "result" else (("unit",) if cfg.get("out_kind") == "fmt" else ("named", "TzError")))
                self.inout[q] = []
            self.sigs[q] = (ps, f.ret)
        out = []
        for q in list(self.order):
            rel, params, ret, body, generics, cfg = self.funcs[q]
            try:
                f = Fn(self, q, params, ret, body, cfg, generics)
                f.ret = self.sigs[q][1]
                f.inout = [n for n, t in self.sigs[q][0] if t and t[0] == "mutref"]
                env = {}
                binders = ["{%s : Type}" % g for g in generics]
                for n, t in self.sigs[q][0]:
                    env[n] = strip_ref(t)
                    binders.append("(%s : %s)" % (vname(n), lean_ty(strip_ref(t))))
                if f.io:
                    binders.append("(__io : TzVerif.Src.IoLog)")
                    text = f.block(f.body, env, lambda v, env2: "(%s, __io)" % v)
                    rty = "%s × TzVerif.Src.IoLog" % paren(lean_ty(f.ret))
                else:
                    text = f.block(f.body, env, lambda v, env2: v)
                    rty = lean_ty(f.ret)
            except Exception as e:
                # fail closed per function: it is not emitted, nor is anything that calls it
                (self.helper_failed if q in self.discovered else self.failed)[q] = "%s: %s: %s" % (rel, q, e)
                self.order.remove(q)
                del self.sigs[q]
                continue
            out.append("-- %s `%s`\ndef %s %s: %s :=\n%s\n" % (rel, q.replace(".", "::"), q, "".join(b + " " for b in binders), rty, indent(text)))
            self.emitted[q] = {"binders": len(binders), "text": text}
        return out


CONFIG = {
    "groups": [
        ("src/utils/const_fns.rs", {
            "cmp": {}, "min": {}, "try_into_i32": {}, "try_into_i64": {}, "copied": {},
            "binary_search_i64": {"fuel": {"1": "slice.len() + 1"}},
        }),
        ("src/datetime/mod.rs", {
            "is_leap_year": {}, "days_since_unix_epoch": {}, "unix_time": {}, "week_day": {}, "year_day": {},
            "nanoseconds_since_unix_epoch": {}, "total_nanoseconds_to_timespec": {}, "check_date_time_inputs": {},
            "UtcDateTime.check_unix_time": {}, "UtcDateTime.new": {},
            "UtcDateTime.from_timespec": {"fuel": {"1": "DAY_IN_MONTHS_LEAP_YEAR_FROM_MARCH.len() + 1"}},
            "UtcDateTime.from_total_nanoseconds": {}, "UtcDateTime.unix_time": {},
            "DateTime.new": {}, "DateTime.from_timespec_and_local": {}, "DateTime.from_total_nanoseconds_and_local": {},
        }),
        ("src/timezone/rule.rs", {
            "Julian1WithoutLeap.new": {}, "Julian1WithoutLeap.transition_date": {}, "Julian1WithoutLeap.compute_check_infos": {},
            "Julian0WithLeap.new": {}, "Julian0WithLeap.transition_date": {}, "Julian0WithLeap.compute_check_infos": {},
            "MonthWeekDay.new": {}, "MonthWeekDay.transition_date": {}, "MonthWeekDay.compute_check_infos": {},
            "RuleDay.transition_date": {}, "RuleDay.unix_time": {},
            "check_two_julian_days": {}, "check_month_week_day_and_julian_day": {}, "check_two_month_week_days": {},
            "check_dst_transition_rules_consistency": {},
            "AlternateTime.new": {}, "AlternateTime.find_local_time_type": {}, "TransitionRule.find_local_time_type": {},
        }),
        ("src/timezone/mod.rs", {
            "Transition.unix_leap_time": {}, "LeapSecond.unix_leap_time": {},
        }),
        ("src/utils/const_fns.rs", {
            "binary_search_transitions": {"fuel": {"1": "slice.len() + 1"}},
            "binary_search_leap_seconds": {"fuel": {"1": "slice.len() + 1"}},
        }),
        ("src/timezone/mod.rs", {
            "TimeZoneRef.unix_time_to_unix_leap_time": {"fuel": {"1": "self.leap_seconds.len() + 1"}},
            "TimeZoneRef.unix_leap_time_to_unix_time": {},
            "TimeZoneRef.find_local_time_type": {},
            "TimeZoneRef.new_unchecked": {},
            "TimeZoneRef.check_inputs": {"fuel": {"1": "self.transitions.len() + 1", "2": "self.leap_seconds.len() + 1"}},
            "TimeZoneRef.new": {},
        }),
        ("src/datetime/mod.rs", {
            "DateTime.from_timespec": {}, "DateTime.from_total_nanoseconds": {}, "DateTime.project": {}, "UtcDateTime.project": {},
        }),
        ("src/datetime/find.rs", {
            "find_date_time": {"out_param": "found_date_time_list"},
            # the two result containers
            "FoundDateTimeListRefMut.new": {}, "FoundDateTimeListRefMut.data": {}, "FoundDateTimeListRefMut.count": {},
            "FoundDateTimeListRefMut.is_exhaustive": {}, "FoundDateTimeListRefMut.push": {},
            "FoundDateTimeListRefMut.unique": {}, "FoundDateTimeListRefMut.earliest": {}, "FoundDateTimeListRefMut.latest": {},
            "FoundDateTimeList.unique": {}, "FoundDateTimeList.earliest": {}, "FoundDateTimeList.latest": {}, "FoundDateTimeList.push": {},
        }),
        ("src/datetime/mod.rs", {
            # the two entry points of the search
            "DateTime.find": {}, "DateTime.find_n": {},
        }),
        ("src/datetime/mod.rs", {
            # equality and ordering of zoned date-times (impl PartialEq / PartialOrd)
            "DateTime.eq": {}, "DateTime.partial_cmp": {}, "DateTime.unix_time": {},
            # the getters generated by impl_datetime!() for both date-time types
            "UtcDateTime.year": {}, "UtcDateTime.month": {}, "UtcDateTime.month_day": {}, "UtcDateTime.hour": {}, "UtcDateTime.minute": {},
            "UtcDateTime.second": {}, "UtcDateTime.nanoseconds": {}, "UtcDateTime.week_day": {}, "UtcDateTime.year_day": {}, "UtcDateTime.total_nanoseconds": {},
            "DateTime.year": {}, "DateTime.month": {}, "DateTime.month_day": {}, "DateTime.hour": {}, "DateTime.minute": {},
            "DateTime.second": {}, "DateTime.nanoseconds": {}, "DateTime.week_day": {}, "DateTime.year_day": {}, "DateTime.total_nanoseconds": {},
            "DateTime.local_time_type": {},
        }),
        ("src/datetime/mod.rs", {
            "format_date_time": {"out_param": "f", "out_kind": "fmt"},
        }),
        ("src/parse/utils.rs", {
            "read_exact": {}, "read_tag": {}, "read_optional_tag": {}, "read_while": {}, "read_until": {},
        }),
        ("src/timezone/mod.rs", {
            "Transition.new": {}, "LeapSecond.new": {},
            # the constructor of local time types as the source has it (8-byte length-prefixed buffer); the other
            # translated functions call the model's constructor, whose meaning these two justify (SrcEqLtt.lean)
            "TzAsciiStr.new": {"fuel": {"1": "input.len() + 1"}},
            "LocalTimeType.new": {"struct_override": {"LocalTimeType": "LocalTimeTypeSrc"}},
            "LocalTimeType.with_ut_offset": {"struct_override": {"LocalTimeType": "LocalTimeTypeSrc"}},
            "TzAsciiStr.equal": {},
            "LocalTimeType.equal": {"struct_override": {"LocalTimeType": "LocalTimeTypeSrc"}},
        }),
        ("src/parse/tz_string.rs", {
            "map_err": {}, "parse_time_zone_designation": {}, "parse_hhmmss": {}, "parse_signed_hhmmss": {}, "parse_offset": {},
            "parse_rule_day": {}, "parse_rule_time": {}, "parse_rule_time_extended": {}, "parse_rule_block": {}, "parse_posix_tz": {},
        }),
        ("src/parse/tz_file.rs", {
            "parse_header": {}, "parse_footer": {}, "read_data_blocks": {}, "DataBlocks_4.parse_time": {}, "DataBlocks_8.parse_time": {},
            "DataBlocks.parse": {}, "parse_tz_file": {},
        }),
        ("src/timezone/mod.rs", {
            # the owned zone's constructors and wrappers
            "TimeZone.as_ref": {}, "TimeZone.find_local_time_type": {}, "TimeZone.from_tz_data": {},
            "LocalTimeType.utc": {"struct_override": {"LocalTimeType": "LocalTimeTypeSrc"}},
        }),
        ("src/timezone/mod.rs", {
            # TZ value resolution; `io`: the calls of the injected file-reading function are logged, in order
            "TimeZoneSettings.new": {}, "TimeZoneSettings.read_tz_file": {"io": True},
            "TimeZoneSettings.parse_posix_tz": {"io": True}, "TimeZoneSettings.parse_local": {"io": True},
        }),
    ]
}


STABLE_TACTIC = """
open Lean Elab Tactic Meta in
/-- replace every matcher application in the goal by its definition (`casesOn` with the alternatives), beta-reduced:
the two translations have their own (identical) auxiliary matchers, and comparing them must not need evaluation -/
elab "delta_matchers" : tactic => do
  let g ← getMainGoal
  let t ← instantiateMVars (← g.getType)
  let env ← getEnv
  let names := t.foldConsts (#[] : Array Name) fun c acc =>
    if Lean.Meta.isMatcherCore env c && !acc.contains c then acc.push c else acc
  if names.isEmpty then
    return
  let t' ← Lean.Meta.deltaExpand t (fun n => names.contains n)
  let t'' ← Core.betaReduce t'
  let g' ← g.replaceTargetDefEq t''
  replaceMainGoal [g']

/-- restructured control flow: case analysis on both sides, each case by syntactic equality, arithmetic or rewriting.
Everything here is a kernel-checked proof or fails. -/
theorem TzVerif.Src.ite_congr_same {α} {c c' : Prop} [Decidable c] [Decidable c'] {a b a' b' : α} (h : c ↔ c')
    (h1 : c' → a = a') (h2 : ¬ c' → b = b') : ite c a b = ite c' a' b' := by
  by_cases hc : c' <;> simp_all

theorem TzVerif.Src.ite_congr_flip {α} {c c' : Prop} [Decidable c] [Decidable c'] {a b a' b' : α} (h : c ↔ ¬ c')
    (h1 : ¬ c' → a = b') (h2 : c' → b = a') : ite c a b = ite c' a' b' := by
  by_cases hc : c' <;> simp_all

/-- two `if` cascades whose conditions are linear-arithmetic equivalent (`x > 23` / `x ≥ 24`, De Morgan, a negated
test with the branches exchanged): walk both in step; every condition equivalence is an `omega` proof. `split` on
such a pair multiplies the cases and is slow; this is linear in the length of the cascade. -/
macro "src_ite_walk" : tactic => `(tactic|
  ((try simp only [Bool.or_eq_true, Bool.and_eq_true, decide_eq_true_eq, Bool.not_eq_true, Bool.and_eq_false_iff,
      Bool.or_eq_false_iff, decide_eq_false_iff_not, Bool.not_eq_eq_eq_not, Bool.not_true, Bool.not_false]);
   (repeat' (first
      | with_reducible rfl
      | (refine TzVerif.Src.ite_congr_same (by omega) (fun _ => ?_) (fun _ => ?_))
      | (refine TzVerif.Src.ite_congr_flip (by omega) (fun _ => ?_) (fun _ => ?_))));
   done))

macro "src_portfolio" : tactic => `(tactic|
  first
    | with_reducible rfl
    | src_ite_walk
    | ((repeat' split) <;> first | with_reducible rfl | (delta_matchers; with_reducible rfl) | omega | (simp_all; done) | grind))
"""


def now_text(text, names):
    """references to translated functions: Src.f -> SrcNow.f (the prelude stays TzVerif.Src)"""
    for n in sorted(names, key=len, reverse=True):
        text = re.sub(r"(?<![\w.])Src\." + re.escape(n) + r"(?![\w'])", "SrcNow." + n, text)
    return text


def file_stem(q):
    return re.sub(r"[^A-Za-z0-9]", "_", q)


def write_if_changed(path, text):
    old = open(path).read() if os.path.exists(path) else None
    if old != text:
        os.makedirs(os.path.dirname(path), exist_ok=True)
        open(path, "w").write(text)


def src_text(tr, defs):
    names = list(tr.emitted)
    fails = "".join("-- NOT TRANSLATED %s\n" % str(v).replace("\n", " ") for v in tr.failed.values())
    return ("-- GENERATED by tools/rs2lean.py from /repo/src on every run. Do not edit.\n"
            "-- One Lean definition per listed Rust function, translated statement by statement (namespace TzVerif.SrcNow;\n"
            "-- Generated/Stable/*.lean prove each equal to the committed baseline TzVerif.Src of SrcBase.lean).\n" + fails +
            "import TzVerif.SrcPrelude\nimport TzVerif.SrcPreludeStr\nimport TzVerif.SrcPreludeIo\nimport TzVerif.Model.TzFile\nimport TzVerif.Model.Find\n\nset_option linter.unusedVariables false\n\nnamespace TzVerif.SrcNow\nopen TzVerif\n\n"
            + now_text("\n".join(defs), names) + "\nend TzVerif.SrcNow\n")


def translate(poisoned):
    tr = Translator(CONFIG)
    tr.poisoned = dict(poisoned)
    try:
        defs = tr.run()
    except Exception as e:     # anything the translator does not expect: fail closed (empty module)
        sys.stderr.write("rs2lean: %s: %s\n" % (type(e).__name__, e))
        defs = []
        tr.failed["*"] = "internal: %s: %s" % (type(e).__name__, e)
        tr.order = []
        tr.emitted = {}
    return tr, defs


def elaboration_errors(text):
    """functions of the generated module that Lean rejects (so that one ill-typed definition costs that function and
    its callers, not the module): {function: first error}. The verdict for a text is cached by its hash."""
    import hashlib
    import subprocess
    lean_dir = os.path.dirname(os.path.dirname(OUT))
    work = os.path.join(os.path.dirname(lean_dir), "work")
    os.makedirs(work, exist_ok=True)
    h = hashlib.sha256(text.encode()).hexdigest()
    cache = os.path.join(work, "src_elab_ok.txt")
    if os.path.exists(cache) and h in open(cache).read().split():
        return {}
    tmp = os.path.join(work, "SrcCheck.lean")
    open(tmp, "w").write(text)
    try:
        # the hand-written preludes the generated module imports must be compiled from their current text first
        # (a stale object file would make a new prelude definition look like an unknown identifier)
        mods = re.findall(r"^import (TzVerif\.\S+)", text, re.M)
        if mods:
            subprocess.run(["lake", "build"] + mods, cwd=lean_dir, capture_output=True, text=True, timeout=900)
        r = subprocess.run(["lake", "env", "lean", tmp], cwd=lean_dir, capture_output=True, text=True, timeout=900)
    except Exception as e:
        sys.stderr.write("rs2lean: elaboration check not run: %s\n" % e)
        return {}
    out = r.stdout + r.stderr
    lines = text.split("\n")
    starts = [(i + 1, m.group(1)) for i, l in enumerate(lines) for m in [re.match(r"def (\S+) ", l)] if m]
    bad = {}
    for m in re.finditer(r"SrcCheck\.lean:(\d+):\d+: error(?:\([^)]*\))?: ([^\n]*)", out):
        ln = int(m.group(1))
        owner = None
        for st, name in starts:
            if st <= ln:
                owner = name
        if owner and owner not in bad:
            bad[owner] = m.group(2)[:160]
    if not bad and r.returncode == 0:
        open(cache, "a").write(h + "\n")
    return bad


def main():
    poisoned = {}
    for _ in range(4):
        tr, defs = translate(poisoned)
        bad = elaboration_errors(src_text(tr, defs))
        if not bad:
            break
        poisoned.update(bad)
    names = list(tr.emitted)
    text = src_text(tr, defs)
    write_if_changed(os.path.join(OUT, "Src.lean"), text)
    # ---- stability: the current translation equals the baseline, function by function
    base_path = os.path.join(os.path.dirname(OUT), "SrcBase.lean")
    base = open(base_path).read() if os.path.exists(base_path) else ""
    base_names = re.findall(r"^def (\S+) ", base, re.M)
    write_if_changed(os.path.join(OUT, "StableTactic.lean"),
                     "-- GENERATED by tools/rs2lean.py. Do not edit.\nimport Lean\nimport TzVerif.Generated.Src\nimport TzVerif.SrcBase\n" + STABLE_TACTIC)
    stable_dir = os.path.join(OUT, "Stable")
    os.makedirs(stable_dir, exist_ok=True)
    wanted = set()
    callees = {}
    for q in base_names:
        stem = file_stem(q)
        wanted.add(stem + ".lean")
        body = now_text(tr.emitted[q]["text"], names) if q in tr.emitted else ""
        # private helpers the baseline does not have (transitively), and then the baseline functions called by any of them
        helpers, grew = [], True
        text_all = body
        while grew:
            grew = False
            for n in names:
                if n not in base_names and n not in helpers and re.search(r"(?<![\w.])SrcNow\." + re.escape(n) + r"(?![\w'])", text_all):
                    helpers.append(n)
                    text_all += "\n" + now_text(tr.emitted[n]["text"], names)
                    grew = True
        cs = [n for n in base_names if n != q and re.search(r"(?<![\w.])SrcNow\." + re.escape(n) + r"(?![\w'])", text_all)]
        callees[q] = cs
        imports = "".join("import TzVerif.Generated.Stable.%s\n" % file_stem(c) for c in cs)
        lemmas = ", ".join("TzVerif.Stable.%s.stable" % c for c in cs)
        if q in tr.emitted:
            xs = " ".join("x%d" % i for i in range(tr.emitted[q]["binders"]))
            proof = ("theorem stable : @SrcNow.%s = @Src.%s := by\n" % (q, q)
                     + ("  funext %s\n" % xs if xs else "")
                     + "  unfold SrcNow.%s Src.%s\n" % (q, q)
                     # functions of the current translation that the baseline does not have (extracted private helpers)
                     + ("  (try simp only [%s])\n" % ", ".join("SrcNow.%s" % n for n in helpers) if helpers else "")
                     # callees: rewritten to the baseline's, so that nothing below them has to be unfolded
                     + "".join("  (try rw [TzVerif.Stable.%s.stable])\n" % c for c in cs)
                     + "  all_goals (\n    first\n"
                     + "      | (delta_matchers; with_reducible rfl)\n"                                # identical text
                     + "      | ((try simp only []); (try delta_matchers); with_reducible rfl)\n"      # lets renamed / reordered / inlined
                     + "      | src_portfolio)\n")
        else:
            proof = ("-- the function is no longer inside the translated subset: nothing ties it to the baseline\n"
                     "theorem stable : @SrcNow.%s = @Src.%s := by\n  rfl\n" % (q, q))
        write_if_changed(os.path.join(stable_dir, stem + ".lean"),
                         "-- GENERATED by tools/rs2lean.py on every run. Do not edit.\nimport TzVerif.Generated.StableTactic\n" + imports +
                         "\nnamespace TzVerif.Stable.%s\nopen TzVerif\n\n%send TzVerif.Stable.%s\n" % (q, proof, q))
    for f in os.listdir(stable_dir):
        if f.endswith(".lean") and f not in wanted:
            os.remove(os.path.join(stable_dir, f))
    # per property: the stability theorems of the translated functions its Properties file mentions (their callees come
    # with them through the imports)
    props_dir = os.path.join(os.path.dirname(OUT), "Properties")
    stable_index = {}
    for pf in sorted(os.listdir(props_dir)) if os.path.isdir(props_dir) else []:
        m = re.match(r"(C\d\d)\.lean$", pf)
        if not m:
            continue
        ptext = open(os.path.join(props_dir, pf)).read()
        used = [n for n in base_names if re.search(r"(?<![\w])Src\." + re.escape(n) + r"(?![\w'.])", ptext)]
        # closure over callees, for the audit list
        closure, todo = [], list(used)
        while todo:
            n = todo.pop()
            if n not in closure:
                closure.append(n)
                todo.extend(callees.get(n, []))
        stable_index[m.group(1)] = sorted("TzVerif.Stable.%s.stable" % n for n in closure)
        write_if_changed(os.path.join(OUT, "Stable%s.lean" % m.group(1)),
                         "-- GENERATED by tools/rs2lean.py on every run. Do not edit.\n-- the current translation of every function Properties/%s mentions equals the baseline\n" % pf +
                         "import TzVerif.Generated.StableTactic\n" + "".join("import TzVerif.Generated.Stable.%s\n" % file_stem(n) for n in used))
    json.dump({"ok": not tr.failed, "functions": tr.order, "not_translated": tr.failed, "helpers": sorted(tr.discovered & set(tr.emitted)),
               "helpers_not_translated": tr.helper_failed, "stable": stable_index},
              open(os.path.join(OUT, "src_report.json"), "w"), indent=1)
    for v in tr.failed.values():
        sys.stderr.write("rs2lean: %s\n" % v)
    print("rs2lean: %d functions translated%s" % (len(defs), (", %d NOT translated" % len(tr.failed)) if tr.failed else ""))
    sys.exit(3 if tr.failed else 0)


if __name__ == "__main__":
    main()
