"""Round-3 seeds (made after the translator covered the containers, the entry points and TimeZoneSettings): write
seeded/<id>/meta.json from the confirmation and check logs, and print the DESIGN table rows."""
import json
import os
import re
import sys

ROOT = os.path.dirname(os.path.dirname(os.path.abspath(__file__)))
S = {
 "C05-seedG": ("early break of the transition walk against a Unix-time bound built from the smallest offset, compared with leap-count times",
               "leap table, a non-last transition into the smallest-offset type, instant within the correction after it"),
 "C05-seedH": ("`sorted` test of the four rule instants made strict (`<` for `<=`)",
               "DST end coinciding exactly with the next DST start (`EST5EDT,0/0,J365/25`): every result duplicated"),
 "C06-seedG": ("Skipped instant derived from the searched time's cached leap conversion instead of converting the transition back",
               "leap record between a gap transition and the searched skipped local time: instant one second early"),
 "C06-seedH": ("first rule transition after the table chosen with `<=` instead of `<`",
               "last table transition coinciding with a rule transition (slim-format zone): the same gap reported twice"),
 "C08-seedG": ("indicator-pair loop without the zero padding (`zip` of the two vectors only)",
               "isstdcnt = 0 with isutcnt = typecnt and a set UT flag (or a value 2): forbidden pair accepted"),
 "C08-seedH": ("designation index must be 0 or follow a NUL",
               "designation stored as the tail of another string (`AHST` / `HST`, America/Adak): well-formed file rejected"),
 "C13-seedG": ("designation character class `is_ascii_alphanumeric() || '+'..='-'`",
               "a comma in a designation"),
 "C13-seedH": ("leap-table spacing with `checked_sub` → OutOfRange instead of `saturating_sub`",
               "leap times / corrections whose difference overflows: OutOfRange instead of InvalidLeapSecond"),
 "C17-seedG": ("earliest() of the buffer list reads slot 0 of the whole buffer",
               "k = 0 results into a buffer whose slot 0 holds a stale entry"),
 "C17-seedH": ("transition walk stops once the buffer list has overflowed (`is_overflowed()` on the trait)",
               "k ≥ n + 2: count under-reported; a later OutOfRange swallowed"),
 "C20-seedG": ("optional ':' stripped before the `localtime` comparison",
               "the value `:localtime`: /etc/localtime opened, directories not searched"),
 "C20-seedH": ("fallback description trimmed with `str::trim()`",
               "value padded with U+000B / U+0085 / U+00A0 / U+2003 … that names no file: accepted instead of refused"),
}


def main():
    rows = []
    for sid in sorted(S):
        change, needs = S[sid]
        d = os.path.join(ROOT, "seeded", sid)
        log = [l.rstrip() for l in open(os.path.join(d, "confirm.log"), errors="replace") if l.strip()][:12]
        checks = [l.rstrip()[:200] for l in open(os.path.join(d, "checks.log"), errors="replace") if l.startswith(("VIOLATION", "OK", "INFRA"))][:6]
        oracles = []
        for l in checks:
            m = re.search(r"replay=(\S+)", l)
            if m and os.path.exists(m.group(1)):
                r = json.load(open(m.group(1)))
                o = "%s %s" % (r.get("kind", "?"), r.get("oracle") or r.get("theorem") or "")
                if o not in oracles:
                    oracles.append(o.strip())
        nf = any("no-failing-input-found" in l for l in checks[:1])
        caught = "%s: %s%s (first run, concrete input)" % (sid.split("-")[0], "; ".join(oracles) or "reported", " — no-failing-input-found" if nf else "")
        meta = {"breaks_property": sid.split("-")[0], "round": 3, "change": change, "needs_to_manifest": needs,
                "origin": "written by an independent sub-agent that was given only the property text and its own scratch clone of /repo (third round, after the translator covered the containers, the entry points and TimeZoneSettings: asked for plausible maintainer mistakes on rarely taken paths)",
                "confirmed": {"how": "tools/seed_confirm.sh in the scratch clone: demo passes on the pristine tree; with the patch the crate's 42 unit tests + 3 doc tests pass and the demo fails", "log": log},
                "checks_run": "tools/seed_run.sh patch.diff <check> (git -C /repo apply; python3 tools/check.py <id>; git -C /repo checkout -- .)",
                "last_check_output": checks, "missed_at_first": False, "caught_by": [caught]}
        json.dump(meta, open(os.path.join(d, "meta.json"), "w"), indent=1, ensure_ascii=False)
        rows.append("| %s | %s | %s | %s |" % (sid, change, needs, caught))
    print("\n".join(rows))


if __name__ == "__main__":
    main()
