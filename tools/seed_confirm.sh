#!/bin/sh
# usage: seed_confirm.sh <worktree> <seed.diff> <demo.rs>
# Confirms in the scratch worktree: (1) with the seed the crate's own tests pass, the demo fails;
# (2) without the seed the demo passes. Leaves the worktree pristine.
set -u
WT=$1; DIFF=$2; DEMO=$3
cd "$WT" || exit 2
git checkout -q -- src
mkdir -p tests
rm -f tests/*.rs
NAME=$(basename "$DEMO" .rs)
echo "== pristine: demo must pass"
cp "$DEMO" tests/$NAME.rs
cargo test --offline --test $NAME 2>&1 | grep -E "^test result|error" | head -3
echo "== seeded: own suite must pass, demo must fail"
git apply "$DIFF" || { echo "PATCH DOES NOT APPLY"; exit 3; }
rm -f tests/$NAME.rs
cargo test --offline 2>&1 | grep -E "^test result|error(\[|:)" | head -5
cp "$DEMO" tests/$NAME.rs
cargo test --offline --test $NAME 2>&1 | grep -E "^test result|error(\[|:)" | head -3
git checkout -q -- src
rm -f tests/$NAME.rs
