#!/bin/sh
# usage: harm_run.sh <refactor.diff> [Cxx ...] — apply a behaviour-preserving refactor to /repo, regenerate the Lean
# translation, report which proof modules stop checking, optionally run quick checks, undo.
DIFF=$1; shift
SAVE=$(mktemp -d /tmp/harmrun.XXXXXX)
cp /verif/evidence/*.json $SAVE/ 2>/dev/null
git -C /repo apply "$DIFF" || { echo "PATCH DOES NOT APPLY"; rm -rf $SAVE; exit 3; }
python3 /verif/tools/gen_lean.py > /dev/null
python3 /verif/tools/rs2lean.py 2>&1 | tail -1
grep "^-- NOT TRANSLATED" /verif/lean/TzVerif/Generated/Src.lean | cut -c1-220 | head -5
(cd /verif/lean && lake build TzVerif.Properties.All 2>&1 | grep -E "^✖|^error: TzVerif" | cut -c1-260 | head -8)
for p in "$@"; do
  VERIF_NO_ESCALATE=1 python3 /verif/tools/check.py $p 2>&1 | grep -E "^(VIOLATION|OK|INFRA)" | head -2
done
git -C /repo checkout -- .
git -C /repo status --short | head -3
cp $SAVE/*.json /verif/evidence/ 2>/dev/null
rm -rf $SAVE
python3 /verif/tools/gen_lean.py > /dev/null
python3 /verif/tools/rs2lean.py > /dev/null
