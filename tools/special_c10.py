"""C10: four-way differential on the vendored IANA snapshot.
The Rust implementation's answers (harness group `iana`, already compared with the Lean model by the
main run) are compared here with glibc (`TZ=:/abs/path`, time.localtime) and CPython zoneinfo.

Scales: for a right/ file glibc's time_t is the leap count while tz-rs takes UTC: glibc is queried at
toCount(u). Instants where tz-rs answers NoAvailableLocalTimeType (every right/ file has an empty footer)
or OutOfRange, or which the reference cannot represent, are counted as not_comparable.
"""
import calendar
import datetime
import os
import subprocess
import time
import zoneinfo


def hexname(tok):
    if tok == "_":
        return ""
    return bytes.fromhex(tok[1:]).decode("ascii", "replace")


def to_count(leaps, u):
    est = u
    for (L, c) in leaps:
        if est < L:
            break
        corrected = u + c
        if corrected < L:
            break
        est = corrected
    return est


def parse_zone(line):
    t = line.split(" ")
    i = 1
    assert t[i] == "T"
    n = int(t[i + 1]); i += 2
    trans = []
    for _ in range(n):
        trans.append((int(t[i]), int(t[i + 1]))); i += 2
    assert t[i] == "Y"
    n = int(t[i + 1]); i += 2
    types = []
    for _ in range(n):
        types.append((int(t[i]), int(t[i + 1]), hexname(t[i + 2]))); i += 3
    assert t[i] == "L"
    n = int(t[i + 1]); i += 2
    leaps = []
    for _ in range(n):
        leaps.append((int(t[i]), int(t[i + 1]))); i += 2
    return trans, types, leaps


def glibc_at(k):
    try:
        tm = time.localtime(k)
    except (OverflowError, OSError, ValueError):
        return None
    return (tm.tm_gmtoff, 1 if tm.tm_isdst > 0 else 0, tm.tm_zone)


EPOCH = datetime.datetime(1970, 1, 1, tzinfo=datetime.timezone.utc)


def cpython_at(z, u):
    if not (-62135596800 + 86400 * 2 <= u <= 253402300799 - 86400 * 2):
        return None
    d = (EPOCH + datetime.timedelta(seconds=u)).astimezone(z)
    off = d.utcoffset()
    return (off.days * 86400 + off.seconds, d.tzname())


def rule_text_from_footer(tz):
    """protocol text (`A …`) of the rule the generated Lean list holds for this footer"""
    import gen_lean
    r = gen_lean.parse_iana_tz(tz)
    if r is None:
        return None
    stdname, so, dstname, do, d1, t1, d2, t2 = r

    def nm(x):
        return "x" + bytes(int(b) for b in x.strip("[]").split(", ")).hex()

    def day(x):
        k, *v = x.split(" ")
        return {".julian1": "J%s", ".julian0": "Z%s"}.get(k, "M%s.%s.%s") % tuple(v)

    return "A %d 0 %s %d 1 %s %s %d %s %d" % (so, nm(stdname), do, nm(dstname), day(d1), t1, day(d2), t2)


def run(pid, cfg, tier, seed, tally, ck):
    viol = []
    rules_checked = 0
    ok, out, hbin = ck.build_harness("release")
    if not ok:
        ck.infra("harness does not build")
    root = os.path.join(ck.ROOT, "data", "zoneinfo")
    p = subprocess.run([hbin, "iana", tier, str(seed), root], stdout=subprocess.PIPE, stderr=subprocess.PIPE)
    if p.returncode != 0:
        ck.infra("harness iana failed")
    cur_file = None
    is_right = False
    z = None
    leaps = []
    types = []
    trans = []
    no_rule = False
    stats = {"files": 0, "lookups_compared_glibc": 0, "lookups_compared_cpython": 0, "not_comparable": 0,
             "finds_compared": 0, "find_instants": 0, "mismatch_glibc": 0, "mismatch_cpython": 0, "mismatch_find": 0}
    samples = []
    old_tz = os.environ.get("TZ")
    try:
        for raw in p.stdout.decode("utf-8", "replace").splitlines():
            if raw.startswith("# file "):
                cur_file = raw[len("# file "):]
                is_right = "/right/" in cur_file
                os.environ["TZ"] = ":" + cur_file
                time.tzset()
                z = None
                if not is_right:
                    try:
                        with open(cur_file, "rb") as f:
                            z = zoneinfo.ZoneInfo.from_file(f)
                    except Exception:
                        z = None
                stats["files"] += 1
                continue
            if raw.startswith("zone "):
                trans, types, leaps = parse_zone(raw.split(" => ")[0])
                no_rule = raw.split(" => ")[0].endswith(" R N")
                # the generated Lean list of IANA rules must hold exactly the rule the implementation decoded
                lhs = raw.split(" => ")[0]
                if " R A " in lhs and cur_file:
                    b = open(cur_file, "rb").read()
                    i = b.rfind(b"\n", 0, len(b) - 1)
                    want = rule_text_from_footer(b[i + 1:-1].decode("ascii", "replace"))
                    got = "A " + lhs.split(" R A ", 1)[1]
                    rules_checked += 1
                    if want != got and len(viol) < 5:
                        rp = ck.write_replay(pid, "generated-rule-mismatch", {"file": cur_file, "implementation_decoded": got, "generated_lean_rule": want})
                        viol.append(("iana-rule", rp, False))
                continue
            if raw.startswith("lookup ") and cur_file:
                lhs, ans = raw.split(" => ")
                u = int(lhs.split(" ")[1])
                if ans.startswith("Err") or ans == "PANIC":
                    stats["not_comparable"] += 1
                    continue
                a = ans.split(" ")
                impl = (int(a[0]), int(a[1]), hexname(a[2]))
                k = to_count(leaps, u) if is_right else u
                g = glibc_at(k)
                if g is None:
                    stats["not_comparable"] += 1
                else:
                    stats["lookups_compared_glibc"] += 1
                    if g != impl:
                        stats["mismatch_glibc"] += 1
                        if len(viol) < 5:
                            rp = ck.write_replay(pid, "reference-mismatch", {"file": cur_file, "line": raw, "reference": "glibc", "reference_answer": list(g), "queried_glibc_at": k})
                            viol.append(("glibc", rp, False))
                    elif len(samples) < 4:
                        samples.append({"file": os.path.relpath(cur_file, root), "instant": u, "tz_rs": list(impl), "glibc": list(g)})
                if z is not None:
                    c = cpython_at(z, u)
                    if c is None:
                        pass
                    else:
                        stats["lookups_compared_cpython"] += 1
                        if c != (impl[0], impl[2]):
                            stats["mismatch_cpython"] += 1
                            if len(viol) < 5:
                                rp = ck.write_replay(pid, "reference-mismatch", {"file": cur_file, "line": raw, "reference": "cpython-zoneinfo", "reference_answer": list(c)})
                                viol.append(("cpython", rp, False))
                continue
            if raw.startswith("find ") and cur_file:
                lhs, ans = raw.split(" => ")
                f = [int(x) for x in lhs.split(" ")[1:8]]
                if not ans.startswith("["):
                    continue
                # implementation's valid instants
                toks = ans.split(" ")
                impl_set = []
                i = 2
                n = int(toks[1])
                for _ in range(n):
                    if toks[i] == "N":
                        impl_set.append((int(toks[i + 12]), int(toks[i + 9])))
                        i += 13
                    else:
                        i += 25
                if not (1 <= f[0] <= 9998):
                    continue
                sec = min(f[5], 59)
                try:
                    base = calendar.timegm((f[0], f[1], f[2], f[3], f[4], sec, 0, 0, 0)) + (f[5] - sec)
                except Exception:
                    continue
                ref = set()
                for off in sorted({t[0] for t in types}):
                    u = base - off
                    # right/ files: glibc's time_t is the leap count of the UTC instant
                    k = to_count(leaps, u) if is_right else u
                    if no_rule and trans and k >= trans[-1][0]:
                        # no footer rule (every right/ file): tz-rs has no type after the last transition where
                        # glibc extends the last one: not comparable
                        continue
                    g = glibc_at(k)
                    if g is not None and g[0] == off:
                        ref.add((u, off))
                stats["finds_compared"] += 1
                stats["find_instants"] += len(ref)
                if ref != set(impl_set):
                    stats["mismatch_find"] += 1
                    if len(viol) < 5:
                        rp = ck.write_replay(pid, "reference-mismatch", {"file": cur_file, "line": raw, "reference": "glibc (forward function)", "reference_instants": sorted(ref)})
                        viol.append(("find", rp, False))
    finally:
        if old_tz is None:
            os.environ.pop("TZ", None)
        else:
            os.environ["TZ"] = old_tz
        time.tzset()
    stats["footer_rules_cross_checked_with_generated_lean_list"] = rules_checked
    cov = {"reference_differential": stats, "reference_samples": samples,
           "explanation": "every vendored TZif file decoded by implementation and Lean model (identical zones); implementation answers at every "
                          "transition and leap record -1/0/+1, rule instants and random instants compared with glibc (posix and right/ trees) and CPython "
                          "zoneinfo (posix tree); search results compared with the instants implied by glibc's forward function"}
    return viol, cov
