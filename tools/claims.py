"""Claim texts for MANIFEST.json (one place; updated whenever a theorem lands)."""

_K = ("Correspondence: the hand-written Lean model (one def per Rust fn) is executed by the native driver on every line the Rust harness "
      "produces by calling the real crate built from /repo's working tree; constants are regenerated from src/constants/mod.rs each run.")
_TB = ("Trusted: Lean 4.33 kernel (axioms propext, Classical.choice, Quot.sound only; no sorry/native_decide), tools/gen_lean.py (constant extraction), "
       "the differential correspondence (strength = generators, printed in the evidence), Rust integer semantics modelled on unbounded Int, rustc/cargo.")

def _c(text, technique, note=_TB):
    return {"text": text, "technique": technique, "note": note}

CLAIMS = {
    "C01": _c(_K + " gmtime family: the whole 400-year cycle at two seconds per day, both range ends, i64 extremes, random instants. Theorems pending; until then this is differential exploration against the model and the spec oracles.", "Lean model + exhaustive-cycle differential correspondence"),
    "C02": _c(_K + " utcnew/utccmp families over year classes x months 0..13 x days x boundary times.", "Lean model + differential correspondence"),
    "C03": _c(_K + " zone/lookup/dtfrom families on generated zones (0-40 transitions, leap tables, rules) at every transition -1/0/+1.", "Lean model + differential correspondence"),
    "C04": _c(_K + " rule-only zones, lookups at start/end/New Year -1/0/+1 over year sets.", "Lean model + differential correspondence"),
    "C05": _c(_K + " find family on generated zones with overlapping candidates.", "Lean model + differential correspondence"),
    "C06": _c(_K + " find family; gap entries and order.", "Lean model + differential correspondence"),
    "C07": _c(_K + " hostile TZif/TZ-string streams with a counting allocator, and every generator group re-run in the dev build (overflow-checks, debug-assertions); any PANIC/abort/allocation above 1024+16*len is a violation.", "hostile differential run in overflow-checked build + model totality"),
    "C08": _c(_K + " all 894 vendored IANA files, files written by an independent writer from random zones (v1/v2/v3, shared designations, indicator vectors), and by-construction corruptions that must be rejected.", "Lean model + differential correspondence + writer round trip"),
    "C09": _c(_K + " TZ strings through v2/v3 footers: bounded-exhaustive over a 16-letter grammar alphabet, token sequences, grammar-directed sentences and mutations.", "Lean model + bounded-exhaustive differential correspondence"),
    "C10": _c("Four-way differential on the vendored tzdata 2025b snapshot (894 files): Rust implementation, Lean model, glibc (TZ=:/path, right/ with scale conversion) and CPython zoneinfo at every transition/leap record -1/0/+1, rule instants and random instants; search results against glibc's forward function. Lean cannot state anything about glibc or CPython; they are black-box oracles.", "model + reference-implementation differential"),
    "C11": _c(_K + " rulenew family: all 1151x1151 day-notation pairs with breakpoint values of d, limits of the range tests.", "Lean model + exhaustive-pair differential correspondence"),
    "C12": _c(_K + " probe zones [(T->1),(i64::MAX->0)] with generated leap tables (insertions and deletions, minimum spacing): lookups reveal toCount u >= T, the search reveals toUtc T.", "Lean model + differential correspondence"),
    "C13": _c(_K + " zonenew family: valid zones and every single-defect perturbation, both constructors; lttnew over every byte at three positions.", "Lean model + differential correspondence"),
    "C14": _c(_K + " every constructor of zoned date-times and every search entry.", "Lean model + differential correspondence"),
    "C15": _c("Static: whole-source inventory (global state, interior mutability, ambient calls) regenerated into Lean each run and decided by `decide`; rustc checks Send+Sync for every public type in the harness build. Dynamic: a 16-thread runner regenerates the corpus concurrently and on shared zones; per-call answers must equal the sequential run, which is compared with the model. No theorem can quantify over Rust schedules: partial.", "source inventory decided in Lean + rustc auto-trait check + threaded differential"),
    "C16": _c(_K + " utctn/dttn families at multiples of 1e9 +-1, range ends, i128 extremes.", "Lean model + differential correspondence"),
    "C17": _c(_K + " findn family: every buffer length 0..k+2 with stale-filled buffers.", "Lean model + differential correspondence"),
    "C18": _c(_K + " fmt family over boundary offsets and years.", "Lean model + differential correspondence"),
    "C19": _c("The harness (client of the public API) is built against /repo with no features, `alloc` and `std`; each runs the same deterministic corpus; the three streams must be identical and the std stream equal to the Lean model's. A build failure in any configuration is a violation.", "translation validation across three feature builds"),
    "C20": _c(_K + " resolve family with a recording virtual file system: all states of the candidate files x directory lists x TZ values.", "Lean model + differential correspondence"),
}

NOT_APPLICABLE = {}

NOTES = ("Two genuine defects were repaired in /repo with `fix:` commits (negative leap second in the forward conversion, single-newline footer); "
         "see known_findings.json and DESIGN.md §2. No source hooks are used.")
