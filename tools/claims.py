"""Claim texts for MANIFEST.json (one place; updated whenever a theorem lands)."""

_K = ("Tie to the code (checked on every run, not asserted): constants, guard literals and two source inventories are regenerated "
      "from /repo/src into Lean; the hand-written model (one def per Rust fn) is executed by the native driver on every protocol line "
      "the Rust harness produces by calling the real crate built from /repo's working tree, and the Spec oracles judge the "
      "implementation's own answers. ")
_TB = ("Trusted: Lean 4.33 kernel; axioms propext, Classical.choice, Quot.sound only (audited with #print axioms each run; no sorry, "
       "native_decide, bv_decide; `decide +kernel` for finite tables); tools/gen_lean.py (literal extraction, fails closed on "
       "src/constants/mod.rs); the differential correspondence, whose strength is that of the generators printed in the evidence; "
       "tools/rs2lean.py (Rust-subset translator; its conventions are listed in DESIGN §13); Rust integer semantics modelled on unbounded Int (/,% as tdiv/tmod, checked_* as range tests); slices as List; "
       "core::fmt padding, str::parse on digit strings and core's lexicographic PartialOrd on integer pairs modelled; the injected read_file_fn is a function of the path during one call and its calls are logged "
       "(C20); `cfg(unix)` statements as `rustc --print cfg` has them; 64-bit usize; rustc/cargo and catch_unwind.")


_S = ("Second tie (DESIGN §13): the functions this property is about are translated from /repo/src to Lean on every run "
      "(tools/rs2lean.py); each current translation is proved, on every run, equal to the committed baseline translation "
      "(Generated/Stable/*.lean: per-function kernel-checked stability theorems that see through renamed or reordered lets, "
      "extracted helpers and simple control-flow restructuring), and the baseline is proved EQUAL to the model functions "
      "(Proofs/SrcEq*.lean, loops and casts included) — so the theorems are re-checked against what the source says now; a "
      "change of behaviour in a translated function makes its stability theorem unprovable. ")


def _c(text, technique, note=_TB):
    return {"text": text, "technique": technique, "note": note}


CLAIMS = {
    "C01": _c("Proved in Lean for ALL integers t: an accepted timestamp yields a real date, time in range, whose second count is t "
              "(fields_correct), acceptance iff MIN ≤ t ≤ MAX else OutOfRange (accepted_iff, refused), the range ends are the first/last "
              "second of years i32::MIN/MAX, uniqueness of the fields, weekday and day-of-year; getters_src states the same about the getters the "
              "impl_datetime!() macro generates (expanded by the translator) applied to the translated from_timespec. " + _S + _K +
              "gmtime family: the whole 400-year cycle at two seconds per day (exhaustive for the quotient the property names), both range "
              "ends, i64 extremes, random instants.",
              "Lean 4 proof (unbounded) + source translated to Lean and proved equal to the model + exhaustive-cycle differential correspondence"),
    "C02": _c("Proved: the day count equals the spec's day number for every year (both branches of the 1970 split, 32 December included); "
              "the constructor's answer clause by clause (new_correct) and acceptance iff real date/time; Unix time = second count; second 60 = "
              "next minute; both round trips; lexicographic order iff Unix-time order. " + _S + _K +
              "utcnew/utccmp families over year classes x months 0..13 x days 0..32 x boundary times.",
              "Lean 4 proof (unbounded) + source translated to Lean and proved equal to the model + differential correspondence"),
    "C03": _c("Proved for tables of any length: binary search correct on strictly increasing data and total; before the last transition the "
              "type is that of the latest transition at or before the instant (filter-based spec), the first type before the first transition, "
              "rule or NoAvailableLocalTimeType after the last; the local date-time is the C01 calendar of instant+offset. " + _S + _K +
              "zone/lookup/dtfrom/dtfromtn families on generated zones at every transition and leap record -1/0/+1 on both scales.",
              "Lean 4 proof (induction, unbounded table) + source translated to Lean and proved equal to the model + differential correspondence"),
    "C04": _c("Proved: the three day notations compute what they mean for every year (Mm.w.d against a scan of the month); the year guard; and "
              "PARTIAL: for accepted interleaving rules that are tie-free the answer is DST exactly inside a period [start(y), following end) "
              "with the matching half of the rule, and changes only at start/end instants. The full statement is false of the code: "
              "¬C04_full is itself a theorem (full_statement_is_false; known finding F1). " + _S + _K +
              "rule-only zones, lookups at start/end/New Year -1/0/+1 over year sets incl. the year-guard ends.",
              "Lean 4 proof (partial: TieFree) + source translated to Lean and proved equal to the model + differential correspondence + known finding"),
    "C05": _c("Proved (PARTIAL) for zones without a DST rule (table, table+fixed rule, fixed rule, single type; any offsets, leap seconds) and "
              "for zones WITH a DST rule meeting C04's hypotheses (every IANA rule does: proved over the regenerated list) for searched years "
              "inside the year guard: every valid result shows the searched local time under the forward lookup, no such instant of the i64 "
              "range is missing, valid results strictly increase; and as one set equality, valid results = Spec.validSet, the executable spec "
              "the oracle runs (valid_results_are_the_spec_set). False without the hypotheses: known findings F1, F2, F5 (proved "
              "counterexample_F2, counterexample_F5). " + _S + _K + "find family incl. junction zones (last table transition = a rule instant).",
              "Lean 4 proof (partial) + source translated to Lean and proved equal to the model + spec-oracle differential + known findings"),
    "C06": _c("Proved (same partial scope as C05, rule zones included): a reported gap is a real one with the transition instant on both clocks, every gap "
              "containing the local time is reported, exactly once, all results ascending; unique/earliest/latest characterised; and as one set equality, reported gaps = Spec.gapSet, the "
              "executable spec the oracle runs (reported_gaps_are_the_spec_set). " + _S + _K +
              "find family; Spec oracle gapSet for rule zones.",
              "Lean 4 proof (partial) + source translated to Lean and proved equal to the model + spec-oracle differential + known finding"),
    "C07": _c("PARTIAL. Proved on the model: every modelled function is total; 13 obligations that the unchecked arithmetic / casts / indexes / "
              "unreachable! arms / with_capacity requests of the modelled functions cannot fail for inputs of the argument types; and the "
              "regenerated per-file inventory of such sites equals the one the obligations were written against (decide). Exercised, not "
              "proved: core/alloc internals, stack, allocator. " + _K +
              "hostile TZif/TZ-string streams under a counting allocator, and every generator group re-run in the dev build "
              "(overflow-checks, debug-assertions): any PANIC/abort/allocation above 1024+16*len is a violation.",
              "Lean 4 proof of site obligations + regenerated site inventory + overflow-checked hostile differential"),
    "C08": _c("Proved: decoding what an independent writer wrote (any reserved bytes, shared/overlapping designation table, any isstd/isut "
              "vectors, v1 from the 32-bit block, v2/v3 from the 64-bit block with an ARBITRARY well-sized 32-bit block in front, extensions iff "
              "version 3) gives exactly TimeZone::new of the encoded parts; big-endian round trip; nine named rejections for arbitrary bytes; "
              "and the converse (soundness): any byte string the decoder accepts IS a file the writer produces for the decoded zone under some "
              "layout (accepted_v1_is_written, accepted_v2_is_written). " + _S + _K +
              "all 894 vendored IANA files, writer-generated files, by-construction corruptions that must be rejected.",
              "Lean 4 proof (round trip + rejections + soundness) + decoder source translated to Lean and proved equal to the model + differential correspondence"),
    "C09": _c("Proved: the executable reference reader accepts exactly the declarative grammar (which is unambiguous), and the code's parser = "
              "reference reader ∘ denotation ∘ the library's constructors; hence parse_complete and parse_sound; accepted strings are ASCII; footer "
              "framing. " + _S + _K +
              "tzfooter family through v2/v3 footers: bounded-exhaustive over a 16-letter alphabet, token sequences, grammar-directed sentences, mutations.",
              "Lean 4 proof (grammar = reader = parser) + parser source translated to Lean and proved equal to the model + bounded-exhaustive differential correspondence"),
    "C10": _c("Proved: the model's forward lookup equals the executable spec the oracle runs (lookup_is_the_executable_spec) and the 32 distinct "
              "DST rules of the vendored snapshot, regenerated into Lean each run and cross-checked against what the implementation decodes, satisfy "
              "the hypotheses of C04/C05/C06 (iana_rules_satisfy_hypotheses). Decided by: four-way differential on the vendored tzdata 2025b (894 files): Rust implementation, Lean model (whose lookup/decoding is proved "
              "against the spec in C03/C04/C08/C09/C12), glibc (TZ=:/path; right/ with scale conversion) and CPython zoneinfo, at every transition "
              "and leap record -1/0/+1, rule instants, random instants; search results against glibc's forward function. Lean cannot state "
              "anything about glibc or CPython: they are black-box oracles.",
              "reference-implementation differential + proved model"),
    "C11": _c("Proved: the constructor accepts iff the guards hold and, for EVERY year, the three weak-order clauses of the property hold "
              "(new_accepts_iff), each refusal names its clause (new_errors), and no accepted rule ever flips order (no_order_flip). 'Every year' reduces to 28 consecutive years by a proved year-kind "
              "argument; Julian x Julian by arithmetic; the month-week-day cases by kernel-evaluated tables over all (month, week, weekday) "
              "with the time-of-day handled symbolically at the breakpoints (`decide +kernel`, 21 table modules). " + _S + _K +
              "rulenew family: all 1151x1151 day-notation pairs with breakpoint values of d and the limits of the three range tests.",
              "Lean 4 proof (year-kind reduction + kernel-decided tables) + source translated to Lean and proved equal to the model + exhaustive-pair differential correspondence"),
    "C12": _c("Proved for every well-formed leap table: the backward conversion is the spec's toUtc; the Galois connection T ≤ toCount u ⟺ toUtc T ≤ u "
              "(a transition takes effect exactly at the instant its count denotes; the search reports the instant the lookup switches); both "
              "monotone; round trip off deleted seconds; insertion shares / deletion skips; the pre-fix function violates it (F3, fixed). " + _S + _K +
              "probe zones [(T→1),(i64::MAX→0)] with generated tables (insertions, deletions, minimum spacing) and the search.",
              "Lean 4 proof (induction over the table) + source translated to Lean and proved equal to the model + differential correspondence"),
    "C13": _c("Proved: the constructor accepts iff the zone is well-formed (each clause of the property), each error blames its clause, the "
              "saturating arithmetic decides the mathematical conditions, local time types accept exactly offset ≠ i32::MIN and 3–7 characters "
              "of [A-Za-z0-9+-]. Owned = borrowed: one function in model and source; the harness calls both. " + _S + _K +
              "zonenew family: valid zones and every single-defect perturbation incl. one-character designation changes.",
              "Lean 4 proof + source translated to Lean and proved equal to the model + differential correspondence"),
    "C14": _c("Proved: the invariant (fields are a real date/time whose second count is Unix time + offset) for every constructor, projection "
              "and every search entry incl. gaps; exact answer of construction from fields; equality/ordering on (Unix time, ns), also stated on the translated "
              "`impl PartialEq/PartialOrd for DateTime` (equality_src, ordering_src: always Some, Equal exactly when eq). " + _S + _K +
              "dtnew/dtfromlocal/dttn/dtfromtn/dtcmp/dtfrom/find families incl. exact range ends for every kind of offset; dtcmp pairs over the whole supported "
              "range (near the epoch, uniform, log-uniform, both range ends; second instant equal / 1 ns / 1 s / log-uniform away) with their own oracle.",
              "Lean 4 proof + source translated to Lean and proved equal to the model + differential correspondence"),
    "C15": _c("PARTIAL. Static: whole-source inventory (statics, thread_local, unsafe, Cell/Atomic/Mutex/Once/Lazy/Rc/raw pointers, env, ambient "
              "calls) regenerated into Lean each run and decided by `decide`; rustc decides Send+Sync for every public type in the harness build. "
              "Dynamic: 16 threads regenerate the corpus concurrently and query shared zones; per-call answers must equal the sequential run, "
              "which is compared with the stateless model. No theorem can quantify over Rust schedules.",
              "source inventory decided in Lean + rustc auto-trait check + threaded differential"),
    "C16": _c("Proved: the split is floor division by 1e9 with remainder in [0, 999999999], unique; recombination and both round trips; the total "
              "fits i128; constructors from total nanoseconds equal those from the pair; ns ≥ 1e9 refused. " + _S + _K +
              "utctn/dttn/dtfromtn families at multiples of 1e9 ± 1, range ends, i128 extremes, negative totals around transitions.",
              "Lean 4 proof + source translated to Lean and proved equal to the model + differential correspondence"),
    "C17": _c("Proved for ANY buffer and ANY pushed sequence: final buffer = first min(n,k) results then the untouched tail, count = k, exhaustive iff "
              "n ≥ k, accessors agree when exhaustive, both entry points run the same search; push_all_src / accessors_agree_src state this about the "
              "translated push / data / count / is_exhaustive / unique / earliest / latest of both containers. " + _S + _K +
              "findn family: every n in 0..k+2 with stale-filled buffers; oracle compares find_n with find on the implementation itself.",
              "Lean 4 proof (induction over the pushed sequence) + search and both result containers translated to Lean and proved equal to the model + differential correspondence"),
    "C18": _c("Proved: an independent strict reader recovers exactly year, fields, nanoseconds and offset from the rendering for every year in i32 "
              "and offset in i32 \\ {MIN}; 'Z' iff offset 0; fixed widths. core::fmt padding is modelled (tied by the fmt family). " + _S + _K,
              "Lean 4 proof (round trip through an independent reader) + formatter source translated to Lean and proved equal to the model + differential correspondence"),
    "C19": _c("The harness (a client of the public API) is built against /repo with no features, `alloc` and `std`; each runs the same deterministic "
              "corpus restricted to the API available everywhere; the three streams must be identical and the std stream equal to the Lean model's. "
              "A build failure in any configuration is a violation.",
              "translation validation across three feature builds"),
    "C20": _c("Proved on the model with the injectable reader as a parameter: empty → refused, nothing opened; `localtime` → exactly /etc/localtime; "
              "':' → file lookup, never the description fallback; absolute path as is; relative name under each directory in order up to the first "
              "readable; decoding error final; description (whitespace-stripped, no extensions) only if nothing was readable; no other path is ever "
              "opened. " + _S + "Here the translation has effects: the log of paths handed to the injected reader is threaded through every exit of "
              "read_tz_file / parse_posix_tz / parse_local, and the translated functions are proved to return exactly the model's result AND its "
              "request sequence for every settings value and every well-formed-UTF-8 TZ value (translated_source_is_the_model, only_candidates_src, "
              "value_shapes_src). " + _K + "resolve family with a recording virtual file system.",
              "Lean 4 proof + source translated to Lean (effects as a threaded request log) and proved equal to the model + differential correspondence with recording reader"),
}

NOT_APPLICABLE = {}

NOTES = ("Genuine defects: F3 (negative leap second in the forward conversion) and F4 (single-newline footer) were repaired in /repo with `fix:` "
         "commits; F1 (reverse-order rule with a tie), F2 (overlapping rule periods in the search) and F5 (search in the outermost guarded year returns an "
         "instant the lookup refuses; found by a proof obligation) are listed in known_findings.json. "
         "No source hooks are used. Seeded breaking changes written by independent sub-agents are under /verif/seeded; DESIGN.md §12 records which "
         "check catches which.")
