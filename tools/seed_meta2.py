"""Round-2 seeds: write seeded/<id>/meta.json from the confirmation and check logs, and print the DESIGN table rows."""
import json
import os
import sys

ROOT = os.path.dirname(os.path.dirname(os.path.abspath(__file__)))
S = {
 "C01-seedC": ("is_leap_year rewritten with bit tricks on `year as u32`: the %25 test is wrong for negative years", "March–December of years -100, -200, -300, -196, -296 … (6 years per 400 negative years): year_day and week_day off by one", "C01: oracle on week_day / year_day (negative years are in the exhaustive-cycle family, which is replayed at several cycle offsets)", False),
 "C01-seedD": ("pre-1970 leap-day count mixes a March-based year in the /4 term with the calendar year in /100 and /400", "1 Jan–28 Feb of non-leap century years before 1970: week_day one day early", "C01 / C02: oracle on week_day of utcnew/gmtime lines (century years are in the year classes)", False),
 "C02-seedC": ("19xx/20xx fast path of days_since_unix_epoch with its own year%4 leap test", "1900-01-01 … 1900-02-28 only (59 dates): Unix time one day early", "C02: oracle C02.unix_time_is_second_count (1900 is in the year set)", False),
 "C02-seedD": ("leap-second exclusion for the last representable day no longer tests hour and minute", "year i32::MAX, 31 December, second 60, time other than 23:59", "C02: oracle C02.accepts_exactly_real_dates (range-end enumeration)", False),
 "C03-seedC": ("same-offset fast path in DateTime::project copies the source fields", "a second-60 DateTime (new/find) projected into a zone whose type at that instant has the source's offset", "MISSED at first (projection was only exercised on canonical values). Caught after adding the project/utcproject families (second 60, own-offset sources): C03 oracle C03.local_date_time_is_instant_plus_offset", True),
 "C03-seedD": ("trailing rule evaluated at the leap-count time instead of the UTC time", "leap table + DST rule, instant after the last transition within /correction/ seconds before a rule change", "C03: oracle C03.local_time_type_at_instant on lookups of leap zones with rules", False),
 "C04-seedC": ("current-year-only fast path for day-of-year in [8, len-8): one day too narrow", "offset beyond ±24 h and a day time within 2 h of ∓7 days on 1 January / day 365: transition more than 8 days into the neighbouring year", "MISSED at first (random rules rarely combine the three extremes). Caught after adding the year-end straddle rule shapes: C04 oracle C04.dst_exactly_inside_periods", True),
 "C04-seedD": ("cached permanent_dst flag for `0/0,J365/25` that assumes a one-hour saving", "exactly that idiom with a saving other than 1 h: the standard-time gap before New Year is reported as DST", "MISSED at first. Caught after adding the all-year-DST idiom with several savings: C04 oracle C04.dst_exactly_inside_periods", True),
 "C05-seedC": ("Ordering::Equal of cmp(start, end) moved to the end-before-start arm of the forward lookup", "zero-length DST (start and end at the same UTC instant)", "MISSED at first. Caught after adding zero-length / one-second DST rules and the implementation's own forward lookup at every valid result to the find lines: C05 oracle C05.results_show_the_time_under_the_implementations_own_lookup; C04 oracle", True),
 "C05-seedD": ("type arrays of the three-year rule window trimmed to 6 while the times keep the 7th sentinel (zip truncates)", "both rule transitions in the neighbouring calendar year (early-January days with negative day times), local time after them before New Year", "first run: correspondence only (no-failing-input-found). After adding rules with both transitions in the neighbouring year: C05 oracle C05.valid_results_are_exactly_the_instants with a concrete zone and local time", True),
 "C05-seedE": ("optional: buffer-list accessors iterate the whole buffer", "reused find_n buffer", "C05 (through the findn family): model disagreement, no-failing-input-found for C05 itself; concrete input from C06 oracle C06.buffer_accessors_are_extremes_of_own_results and C17", False),
 "C05-seedF": ("optional: early break of the transition walk compares a leap-count time with a Unix-time bound", "offset near -i32::MAX, positive leap seconds, three transitions, instant within the correction after a transition", "MISSED by the quick tier at first. Caught after giving leap-gap zones extreme offsets and a third transition: C05 oracle C05.valid_results_are_exactly_the_instants", True),
 "C06-seedC": ("gap test derives the after-candidate's leap time from the before-candidate's", "leap record between the two candidate instants of a forward table transition, local time exactly at the upper gap boundary", "MISSED at first. Caught after adding leap-gap zones (a transition within its own width of a leap record) and UTC-scale local times in leap zones: C06 oracle C06.gaps_reported_exactly", True),
 "C06-seedD": ("latest() of the buffer list scans the whole buffer from the end", "find_n into a reused buffer with fewer results than the previous search", "MISSED by C06 at first (only C17 ran the findn family). C06 now runs it, with oracle C06.buffer_accessors_are_extremes_of_own_results", True),
 "C07-seedC": ("latest() indexes the buffer with count-1 instead of the written length", "find_n with fewer slots than results, then latest(): index out of bounds", "C07: PANIC answers on findn lines (both builds)", False),
 "C07-seedD": ("checked_sub → plain subtraction in unix_leap_time_to_unix_time", "negative cumulative correction, last transition within /correction/ of i64::MAX, rule present: the constructor panics instead of returning OutOfRange", "C07: PANIC in the overflow-checked build on zonenew lines", False),
 "C08-seedC": ("shared big-endian helper zero-extends 4-byte times", "version-1 file with a pre-1970 transition", "C08: oracle C08.decodes_to_the_encoded_zone (writer-generated v1 files)", False),
 "C08-seedD": ("designation terminator searched in a window of 8 bytes; an unterminated tail is accepted", "last designation not NUL-terminated (3–7 byte tail) and referenced by a type", "C08: oracle C08.rejects_* (corruption class: missing terminator); theorem C08.type_record no longer corresponds", False),
 "C09-seedC": ("read_until gets a 7-byte limit; the caller still consumes the next byte unchecked as '>'", "'<' + exactly 7 designation bytes + any byte", "C09: oracle C09.accepts_exactly_the_grammar", False),
 "C09-seedD": ("sign folded into the hour of an extended time: -0:30 becomes +0:30", "v3 footer, '-' sign, hour 0, non-zero minutes or seconds", "C09: oracle C09.decodes_to_the_denoted_rule", False),
 "C10-seedC": ("designation = the whole NUL-terminated string containing the index", "index into the middle of a string (America/Adak, US/Aleutian …)", "C10: glibc/CPython differential names file and instant; C08 oracle", False),
 "C10-seedD": ("transition walk of the search mixes Unix and leap-count scales (one stale assignment)", "right/ zone, local time whose instant lies within the accumulated correction after a transition", "first run: correspondence only. After extending the search-vs-glibc comparison to the right/ tree: concrete file + local time (reference-mismatch)", True),
 "C11-seedC": ("days_in_month computed as a difference of cumulative tables: -334 for December→January", "Mm.w.d pairs December/January, weeks 1–4, weekdays differing by 1–3", "C11: oracle C11.accepts_exactly_consistent_rules on the exhaustive pair family", False),
 "C11-seedD": ("`diff_days_min >= 14 → consistent` fast path (true for local times, not for UTC day times)", "day pair 14–16 days apart, both day times at opposite 7-day limits, offsets differing", "MISSED at first: the pair family realised the time difference with zero offsets only (|d| ≤ 13 days). Caught after extending d to the largest value the argument ranges allow (times at their limits, rest carried by the offsets): C11 oracle", True),
 "C12-seedC": ("negative leap second recognised by the sign of the cumulative correction", "mixed-sign table (+1 then 0) and a transition exactly at the negative record", "C12: oracle C12.transition_takes_effect_at_its_utc_instant", False),
 "C12-seedD": ("Skipped instant reuses the leap correction of the searched time", "leap record between a gap transition and the searched skipped local time", "C12: oracle C12.search_reports_the_instant_the_lookup_switches", False),
 "C13-seedC": ("elapsed_seconds helper maps checked_sub overflow (either direction) to i64::MAX", "consecutive times whose difference underflows i64: (i64::MAX, i64::MIN), (1, i64::MIN) …", "MISSED at first (inverted pairs were at most 100 s apart). Caught after adding pairs whose difference does not fit i64: C13 oracle C13.accepts_exactly_well_formed", True),
 "C13-seedD": ("owned constructor skips check_inputs when there are no transitions", "TimeZone::new / TZif parse, no transitions, malformed leap table", "C13: oracle C13.owned_equals_borrowed", False),
 "C14-seedC": ("search converts the wall clock once to the leap scale and back", "table + leap table, local time within /offset/ of a leap second", "C14: oracle C14.search_entries (fields ≠ instant + offset)", False),
 "C14-seedD": ("4-year fast path of from_timespec starts at 1900-01-01 instead of 1900-03-01", "instants whose local date is 1 Jan–28 Feb 1900", "C14: oracle C14.fields_match_instant; C01", False),
 "C15-seedC": ("directories de-duplicated through a HashSet: probe order follows std's per-thread random hash keys", "a relative name present in two configured directories", "MISSED at first (no forbidden token, and the thread runner did not resolve names). Caught after (a) adding randomised hashers to the inventory decided in Lean and (b) adding the resolve family to the thread runner: inventory entry + `threads … DIFF`", True),
 "C15-seedD": ("fourth default directory written without its leading slash", "process working directory containing usr/share/lib/zoneinfo", "MISSED at first. Caught after (a) the path-literal inventory (theorem path_literals_are_absolute) and (b) the strace probe of the DEFAULT-settings entry points: concrete call + relative path opened", True),
 "C15-seedE": ("bonus: Box<dyn Error> in Error::Io loses Send + Sync", "any use of tz::Error across threads", "was reported as an infrastructure error (harness build); now C15: rustc's E0277 on assert_send_sync::<tz::Error>() is the violation", True),
 "C16-seedC": ("64-bit fast path guarded by `total >> 64 ∈ {0,-1}` (accepts 65-bit values)", "|total| in [2^63, 2^64)", "C16: oracle C16.seconds_are_floor (i64-boundary totals are in the family)", False),
 "C16-seedD": ("zone lookup of from_total_nanoseconds at the truncated second", "negative total, non-zero sub-second part, last second before a transition", "C16: oracle C16.zoned_from_total_uses_floor_seconds", False),
 "C17-seedC": ("push_with: fallible work skipped when the buffer is full", "a search that fails at a push site with no free slot", "C17: oracle C17.same_error", False),
 "C17-seedD": ("unique() reads buf.first() when count ≤ 1", "empty result with a stale Normal in slot 0", "C17: oracle C17.accessors_agree_when_exhaustive", False),
 "C18-seedC": ("sign taken from the truncated minute count", "offsets -59..-1 s", "C18: oracle C18.reads_back", False),
 "C18-seedD": ("offset hours through a u8 helper", "|offset| ≥ 256 h", "C18: oracle C18.reads_back", False),
 "C19-seedC": ("std-only thread_local memo of rule instants keyed without offsets", "two searches, same year, sibling zones", "C19: stream divergence; C15 inventory", False),
 "C19-seedD": ("alloc branch of Display pads the year to 4 digits", "years in [-999, 999]", "C19: stream divergence core vs alloc on fmt lines; C18", False),
 "C20-seedC": ("colon peeled before the `localtime` test", "the value `:localtime`", "C20: oracle C20.opens_exactly_the_expected_paths_in_order", False),
 "C20-seedD": ("settings value remembers the directory of the last hit and probes it first", "two lookups through ONE settings value", "MISSED at first (one settings value per case). Caught after adding lookups preceded by an earlier lookup through the same settings value (`W` field): C20 oracle on paths and result; C15 inventory (Atomic)", True),
}


def main():
    rows = []
    for sid in sorted(S):
        change, needs, caught, missed = S[sid]
        d = os.path.join(ROOT, "seeded", sid)
        if not os.path.isdir(d):
            sys.stderr.write("missing " + sid + "\n")
            continue
        log = [l.rstrip() for l in open(os.path.join(d, "confirm.log"), errors="replace") if l.strip()][:12]
        checks = [l.rstrip()[:200] for l in open(os.path.join(d, "checks.log"), errors="replace") if l.startswith(("VIOLATION", "OK", "INFRA"))][:6] if os.path.exists(os.path.join(d, "checks.log")) else []
        meta = {"breaks_property": sid.split("-")[0], "round": 2, "change": change, "needs_to_manifest": needs,
                "origin": "written by an independent sub-agent that was given only the property text and a scratch worktree of /repo (second round: asked for subtle, cooperating-site or multi-step changes)",
                "confirmed": {"how": "tools/seed_confirm.sh in the scratch worktree: demo passes on the pristine tree; with the patch the crate's 42 unit tests + 3 doc tests pass and the demo fails", "log": log},
                "checks_run": "tools/seed_run.sh patch.diff <checks> (git -C /repo apply; python3 tools/check.py <id>; git -C /repo checkout -- .)",
                "last_check_output": checks, "missed_at_first": missed, "caught_by": [caught]}
        json.dump(meta, open(os.path.join(d, "meta.json"), "w"), indent=1)
        rows.append("| %s | %s | %s | %s |" % (sid, change, needs, caught))
    print("\n".join(rows))


if __name__ == "__main__":
    main()
