#!/bin/sh
# Maintainer tool, never run by a check: make the current translation of /repo the baseline (lean/TzVerif/SrcBase.lean).
# Do this only together with the proofs Proofs/SrcEq*.lean (they are about the baseline text): afterwards
# `lake build TzVerif.Properties.All` must pass, and the commit should name the /repo commit the baseline was taken at.
set -e
cd /verif
python3 tools/rs2lean.py || true
python3 - <<'PY'
import re
src = open('/verif/lean/TzVerif/Generated/Src.lean').read()
lines = src.split("\n")
body = "\n".join(l for l in lines if not l.startswith("-- GENERATED") and not l.startswith("-- One Lean definition") and not l.startswith("-- Generated/Stable"))
body = body.replace("namespace TzVerif.SrcNow", "namespace TzVerif.Src").replace("end TzVerif.SrcNow", "end TzVerif.Src")
body = re.sub(r"(?<![\w.])SrcNow\.", "Src.", body)
old = open('/verif/lean/TzVerif/SrcBase.lean').read()
hdr = "\n".join(l for l in old.split("\n")[:4]) + "\n"
open('/verif/lean/TzVerif/SrcBase.lean', 'w').write(hdr + body.lstrip("\n"))
PY
echo "baseline rewritten from /repo $(git -C /repo rev-parse --short HEAD); now rebuild: cd lean && lake build TzVerif.Properties.All"
