#!/bin/sh
# usage: seed_process.sh <Pid> <A|B> <check ids...>
# confirm in the scratch worktree, copy into /verif/seeded/, run the checks against /repo with the seed
P=$1; S=$2; shift; shift
WT=/tmp/seed/$P
D=/verif/seeded/$P-seed$S
mkdir -p $D
sh /verif/tools/seed_confirm.sh $WT $WT/SEED/seed$S.diff $WT/SEED/demo_seed$S.rs > $D/confirm.log 2>&1
cat $D/confirm.log
cp $WT/SEED/seed$S.diff $D/patch.diff
cp $WT/SEED/demo_seed$S.rs $D/demo.rs
echo "--- checks"
sh /verif/tools/seed_run.sh $D/patch.diff "$@" 2>&1 | tee $D/checks.log
