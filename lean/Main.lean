/-
`tzmodel`: native driver. Reads protocol lines `<family> <args…> => <implementation answer>`,
computes the model's answer, compares, evaluates the spec oracles on the implementation's answer,
prints every disagreement / oracle failure and a per-family summary.
-/
import Std.Data.HashSet
import TzVerif.Driver.Codec
import TzVerif.Spec.Oracles

open TzVerif TzVerif.Model TzVerif.Driver

structure Stats where
  lines : Nat := 0
  disagree : Nat := 0
  disagreeErrKind : Nat := 0
  panics : Nat := 0
  oracleFail : Nat := 0
  oracleRuns : Nat := 0
  nonErr : Nat := 0
  distinct : Std.HashSet UInt64 := {}
  distinctNonErr : Nat := 0
  errKinds : List (String × Nat) := []
  deriving Inhabited

structure St where
  zone : TimeZone := default
  zoneLine : String := ""
  stats : List (String × Stats) := []
  badLines : Nat := 0

def bump (st : St) (fam : String) (f : Stats → Stats) : St :=
  let rec go : List (String × Stats) → List (String × Stats)
    | [] => [(fam, f {})]
    | (k, v) :: rest => if k == fam then (k, f v) :: rest else (k, v) :: go rest
  { st with stats := go st.stats }

/-- minimal TZif file of version byte `v` (one type `UTC`), used by the `tzfooter` family;
    the harness builds the identical bytes -/
def minimalBlock (v : Nat) : List Nat :=
  [84, 90, 105, 102, v] ++ List.replicate 15 0 ++
  [0,0,0,0, 0,0,0,0, 0,0,0,0, 0,0,0,0, 0,0,0,1, 0,0,0,4] ++
  [0,0,0,0, 0, 0] ++ [85, 84, 67, 0]

def minimalFile (v : Nat) (tz : List Nat) : List Nat :=
  minimalBlock v ++ minimalBlock v ++ [10] ++ tz ++ [10]

def fields7 : P (Int × Int × Int × Int × Int × Int × Int) := do
  let y ← int; let mo ← int; let d ← int; let h ← int; let mi ← int; let s ← int; let ns ← int
  pure (y, mo, d, h, mi, s, ns)

def showUtc (c : UtcDateTime) : String :=
  s!"{c.year} {c.month} {c.monthDay} {c.hour} {c.minute} {c.second} {c.nanoseconds} {weekDay c.year c.month c.monthDay} {yearDay c.year c.month c.monthDay}"

def cmpLex (a b : List Int) : Int :=
  match a, b with
  | x :: xs, y :: ys => if x < y then -1 else if x > y then 1 else cmpLex xs ys
  | _, _ => 0

def showBufEntry : Option Found → String
  | none => "-"
  | some f => showFound f

/-- Result of handling one line: model answer and oracle verdicts `(name, ok)` on the impl answer. -/
structure Out where
  model : String
  oracles : List (String × Bool) := []
  newZone : Option TimeZone := none

def handle (st : St) (fam : String) (rhs : String) : P Out := do
  let rhsToks := rhs.splitOn " "
  match fam with
  | "gmtime" =>
    let t ← int; let ns ← int
    let m := UtcDateTime.fromTimespec t ns
    pure { model := showTz showUtc m, oracles := Spec.gmtimeOracles t ns rhsToks }
  | "utcnew" =>
    let (y, mo, d, h, mi, s, ns) ← fields7
    let m := UtcDateTime.new y mo d h mi s ns
    let sh (c : UtcDateTime) : String :=
      s!"{c.unixTime} {weekDay c.year c.month c.monthDay} {yearDay c.year c.month c.monthDay} {nanosecondsSinceUnixEpoch c.unixTime c.nanoseconds}"
    pure { model := showTz sh m, oracles := Spec.utcnewOracles y mo d h mi s ns rhsToks }
  | "utccmp" =>
    let (y, mo, d, h, mi, s, ns) ← fields7
    let (y', mo', d', h', mi', s', ns') ← fields7
    let c := cmpLex [y, mo, d, h, mi, s, ns] [y', mo', d', h', mi', s', ns']
    pure { model := s!"{c} {unixTime y mo d h mi s} {unixTime y' mo' d' h' mi' s'}", oracles := Spec.utccmpOracles [y, mo, d, h, mi, s, ns] [y', mo', d', h', mi', s', ns'] rhsToks }
  | "utctn" =>
    let n ← int
    let m := UtcDateTime.fromTotalNanoseconds n
    pure { model := showTz (fun c => showUtc c ++ s!" {c.unixTime}") m, oracles := Spec.utctnOracles n rhsToks }
  | "fmt" =>
    let (y, mo, d, h, mi, s, ns) ← fields7
    let off ← int
    let m := match LocalTimeType.withUtOffset off with
      | .error e => Except.error (TzError.localTimeType e)
      | .ok l => DateTime.new y mo d h mi s ns l
    let sh (x : DateTime) : String :=
      String.ofList (formatDateTime x.year x.month x.monthDay x.hour x.minute x.second x.nanoseconds x.localTimeType.utOffset)
    pure { model := showTz sh m, oracles := Spec.fmtOracles y mo d h mi s ns off rhs }
  | "lttnew" =>
    let off ← int; let dst ← bool; let name ← optName
    let m := liftLtt (LocalTimeType.new off dst name)
    pure { model := showTz (fun _ => "ok") m, oracles := Spec.lttnewOracles off name rhs }
  | "dtnew" =>
    let (y, mo, d, h, mi, s, ns) ← fields7
    let l ← ltt
    let m := DateTime.new y mo d h mi s ns l
    pure { model := showTz showDt m, oracles := Spec.dtOracles rhsToks ++ Spec.dtnewOracles y mo d h mi s ns l rhsToks }
  | "dtfromlocal" =>
    let u ← int; let ns ← int; let l ← ltt
    let m := DateTime.fromTimespecAndLocal u ns l
    pure { model := showTz showDt m, oracles := Spec.dtOracles rhsToks ++ Spec.dtfromlocalOracles u ns l rhsToks }
  | "dttn" =>
    let n ← int; let l ← ltt
    let m := DateTime.fromTotalNanosecondsAndLocal n l
    pure { model := showTz (fun d => showDt d ++ s!" TN {nanosecondsSinceUnixEpoch d.unixTime d.nanoseconds}") m,
           oracles := Spec.dtOracles rhsToks ++ Spec.dttnOracles n l rhsToks }
  | "dtcmp" =>
    let u1 ← int; let ns1 ← int; let o1 ← int; let u2 ← int; let ns2 ← int; let o2 ← int
    -- `==` and `partial_cmp` of two zoned date-times (built with from_timespec_and_local)
    let mk (u ns o : Int) := DateTime.fromTimespecAndLocal u ns { utOffset := o, isDst := false, name := none }
    let m := match mk u1 ns1 o1, mk u2 ns2 o2 with
      | .ok a, .ok b => s!"{if a.beq b then 1 else 0} {a.cmp b}"
      | _, _ => "Err:Construct"
    pure { model := m, oracles := Spec.dtcmpOracles u1 ns1 u2 ns2 rhsToks }
  | "rulenew" =>
    let (std, dst, ds, st', de, et) ← altRaw
    let m := liftRule (AlternateTime.new std dst ds st' de et)
    pure { model := showTz (fun _ => "ok") m, oracles := Spec.rulenewOracles std dst ds st' de et rhs }
  | "zonenew" =>
    let z ← zone
    let m := z.checkInputs
    let a := showTz (fun _ => "ok") m
    pure { model := a ++ " " ++ a, oracles := Spec.zonenewOracles z rhsToks }
  | "zone" =>
    let z ← zone
    let m := TimeZone.new z.transitions z.localTimeTypes z.leapSeconds z.extraRule
    pure { model := showTz (fun _ => "ok") m, newZone := some z }
  | "lookup" =>
    let u ← int
    let m := st.zone.findLocalTimeType u
    pure { model := showTz showLtt m, oracles := Spec.lookupOracles st.zone u rhsToks }
  | "dtfrom" =>
    let u ← int; let ns ← int
    let m := DateTime.fromTimespec u ns st.zone
    pure { model := showTz showDt m, oracles := Spec.dtOracles rhsToks ++ Spec.dtfromOracles st.zone u ns rhsToks }
  | "project" =>
    let (y, mo, d, h, mi, s, ns) ← fields7
    let l ← ltt
    let m := match DateTime.new y mo d h mi s ns l with
      | .ok x => x.project st.zone
      | .error e => .error e
    pure { model := showTz showDt m, oracles := Spec.dtOracles rhsToks ++ Spec.projectOracles st.zone y mo d h mi s ns l.utOffset rhsToks }
  | "utcproject" =>
    let (y, mo, d, h, mi, s, ns) ← fields7
    let m := match UtcDateTime.new y mo d h mi s ns with
      | .ok x => x.project st.zone
      | .error e => .error e
    pure { model := showTz showDt m, oracles := Spec.dtOracles rhsToks ++ Spec.projectOracles st.zone y mo d h mi s ns 0 rhsToks }
  | "dtfromtn" =>
    let n ← int
    let m := DateTime.fromTotalNanoseconds n st.zone
    pure { model := showTz (fun d => showDt d ++ s!" TN {nanosecondsSinceUnixEpoch d.unixTime d.nanoseconds}") m,
           oracles := Spec.dtfromtnOracles st.zone n rhsToks }
  | "find" =>
    let (y, mo, d, h, mi, s, ns) ← fields7
    let m := findDateTime y mo d h mi s ns st.zone
    let sh (l : List Found) : String :=
      let own := l.filterMap (fun f => match f with
        | .normal x => some (showTz showLtt (st.zone.findLocalTimeType x.unixTime))
        | _ => none)
      let ownS := match own with | [] => "" | _ => " " ++ " | ".intercalate own
      s!"{showFoundList l} U {showOptDt (listUnique l)} E {showOptDt (listEarliest l)} X {showOptDt (listLatest l)} ## L{ownS}"
    pure { model := showTz sh m, oracles := Spec.findOracles st.zone y mo d h mi s ns rhsToks }
  | "findn" =>
    let n ← nat
    let (y, mo, d, h, mi, s, ns) ← fields7
    expect "stale"
    let (y', mo', d', h', mi', s', ns') ← fields7
    let buf0 : List (Option Found) := List.replicate n none
    let buf1 := match findN buf0 y' mo' d' h' mi' s' ns' st.zone with
      | .ok r => r.buf
      | .error _ => buf0   -- the harness resets the buffer after a failed stale search
    let m := findN buf1 y mo d h mi s ns st.zone
    let ents (b : List (Option Found)) : String := b.foldl (fun acc e => acc ++ " " ++ showBufEntry e) ""
    let sh (r : RefMut) : String :=
      s!"{r.count} {if r.isExhaustive then 1 else 0} {r.data.length} B{ents r.buf} U {showOptDt r.unique} E {showOptDt r.earliest} X {showOptDt r.latest}"
    -- companion answers (allocating search, buffer after the stale search) as the model computes them
    let shF (l : List Found) : String :=
      s!"{showFoundList l} U {showOptDt (listUnique l)} E {showOptDt (listEarliest l)} X {showOptDt (listLatest l)}"
    let fAns := showTz shF (findDateTime y mo d h mi s ns st.zone)
    pure { model := s!"{showTz sh m} ## F {fAns} ## S{ents buf1}",
           oracles := Spec.findnOracles st.zone n (y, mo, d, h, mi, s, ns) (y', mo', d', h', mi', s', ns') rhsToks }
  | "tzif" =>
    let b ← bytes
    let m := parseTzFile b
    pure { model := showTz showZone m, oracles := Spec.tzifOracles b rhsToks }
  | "tzifgen" =>
    let v ← nat
    expect "Z"
    let z ← zone
    expect "B"
    let b ← bytes
    let m := parseTzFile b
    pure { model := showTz showZone m, oracles := Spec.tzifgenOracles v z b rhsToks }
  | "tzifbad" =>
    let cls ← tok
    let b ← bytes
    let m := parseTzFile b
    pure { model := showTz showZone m, oracles := Spec.tzifbadOracles cls b rhs }
  | "threads" =>
    let _ ← nat; let _ ← nat; let _ ← tok
    pure { model := "identical" }
  | "tzfooter" =>
    let v ← nat
    let b ← bytes
    let m := parseTzFile (minimalFile v b)
    pure { model := showTz showZone m, oracles := Spec.tzfooterOracles v b rhsToks }
  | "resolve" =>
    expect "D"
    let n ← nat
    let dirs ← repeatP n bytes
    expect "F"
    let n ← nat
    let files ← repeatP n (do let p ← bytes; let c ← bytes; pure (p, c))
    -- `W <name>`: an earlier lookup made through the same settings value; resolution is a function of its
    -- arguments, so the model ignores it
    match (← peek?) with
    | some "W" => let _ ← tok; let _ ← bytes; pure ()
    | _ => pure ()
    expect "S"
    let tz ← bytes
    let fs : List Nat → Option (List Nat) := fun p => (files.find? (·.1 == p)).map (·.2)
    let (paths, r) := resolveTz dirs fs tz
    let ps := paths.foldl (fun acc p => acc ++ " x" ++ hexEncode p) ""
    pure { model := s!"P {paths.length}{ps} R {showE showZone r}", oracles := Spec.resolveOracles dirs files tz rhsToks }
  | _ => throw s!"unknown family {fam}"

def splitArrow (line : String) : Option (String × String) :=
  match line.splitOn " => " with
  | [a, b] => some (a, b)
  | _ => none

def processLine (st : St) (line : String) : St × List String :=
  match splitArrow line with
  | none => ({ st with badLines := st.badLines + 1 }, [s!"BADLINE {line}"])
  | some (lhs, rhs) =>
    match lhs.splitOn " " with
    | [] => ({ st with badLines := st.badLines + 1 }, [s!"BADLINE {line}"])
    | fam :: args =>
      match runP (handle st fam rhs) args with
      | .error e => ({ st with badLines := st.badLines + 1 }, [s!"BADLINE {e} :: {line}"])
      | .ok out =>
        let st := match out.newZone with
          | some z => { st with zone := z, zoneLine := line }
          | none => st
        let dis := out.model != rhs
        let isPanic := rhs == "PANIC"
        let implErr := rhs.startsWith "Err"
        let errKindOnly := dis && !isPanic && implErr && out.model.startsWith "Err"
        let fails := out.oracles.filter (fun o => !o.2)
        let h := hash line
        let first := (st.stats.find? (·.1 == fam)).map (·.2.lines) |>.getD 0
        let st := bump st fam fun s =>
          let isNew := !s.distinct.contains h
          let ek := if implErr then (rhs.splitOn " ").headD "" else ""
          let rec addKind : List (String × Nat) → List (String × Nat)
            | [] => [(ek, 1)]
            | (k, n) :: rest => if k == ek then (k, n + 1) :: rest else (k, n) :: addKind rest
          { lines := s.lines + 1,
            disagree := s.disagree + (if dis && !errKindOnly && !isPanic then 1 else 0),
            disagreeErrKind := s.disagreeErrKind + (if errKindOnly then 1 else 0),
            panics := s.panics + (if isPanic then 1 else 0),
            oracleFail := s.oracleFail + fails.length, oracleRuns := s.oracleRuns + out.oracles.length,
            nonErr := s.nonErr + (if implErr then 0 else 1),
            distinct := if isNew then s.distinct.insert h else s.distinct,
            distinctNonErr := s.distinctNonErr + (if isNew && !implErr then 1 else 0),
            errKinds := if implErr then addKind s.errKinds else s.errKinds }
        let zoneCtx := if st.zoneLine.isEmpty || out.newZone.isSome then "" else s!" @@ {st.zoneLine}"
        let tag := if isPanic then "PANIC" else if errKindOnly then "DISAGREE-ERRKIND" else "DISAGREE"
        let msgs := (if dis then [s!"{tag} {line} || model={out.model}{zoneCtx}"] else []) ++
          fails.map (fun o => s!"ORACLE-FAIL {o.1} {line}{zoneCtx}") ++
          (if first < 3 then [s!"SAMPLE {line.take 400}"] else [])
        (st, msgs)

partial def loop (h : IO.FS.Stream) (out : IO.FS.Stream) (st : St) : IO St := do
  let line ← h.getLine
  if line.isEmpty then return st
  let line := line.trimAscii.toString
  if line.isEmpty || line.startsWith "#" then
    loop h out st
  else
    let (st, msgs) := processLine st line
    for m in msgs do out.putStrLn m
    loop h out st

def main : IO Unit := do
  let stdin ← IO.getStdin
  let stdout ← IO.getStdout
  let st ← loop stdin stdout {}
  for (fam, s) in st.stats do
    let kinds := s.errKinds.foldl (fun acc (k, n) => acc ++ s!"{k}:{n},") ""
    stdout.putStrLn s!"SUMMARY family={fam} lines={s.lines} disagree={s.disagree} disagree_errkind={s.disagreeErrKind} panics={s.panics} oracle_runs={s.oracleRuns} oracle_fail={s.oracleFail} non_err={s.nonErr} distinct={s.distinct.size} distinct_non_err={s.distinctNonErr} err_kinds={kinds}"
  stdout.putStrLn s!"SUMMARY-END bad_lines={st.badLines}"
