import TzVerif.Model.Basic
import TzVerif.Model.DateTime
import TzVerif.Model.Rule
import TzVerif.Model.TimeZone
import TzVerif.Model.Find
import TzVerif.Model.TzString
import TzVerif.Model.TzFile
