/-
Prelude of the Rust → Lean translation (tools/rs2lean.py): the meaning given to the Rust constructs the
translator does not expand inline. Hand-written, small, import-free.

 * integer types are `Int`; `as T` is `wrap_T` (two's-complement wrap into T's range);
 * `checked_*` on type T is the range test of the exact result; `saturating_*` clamps it;
 * `slice[i]` is `idx` (total; the default value outside the range);
 * `while` is `loopS` / `loopR` (explicit fuel; a loop that runs out of fuel stops with its current state —
   the equality theorems show the given fuel suffices, because the model functions they are equated with
   have no fuel); `for x in slice` is `forIn` (structural).
-/
import TzVerif.Model.Basic

namespace TzVerif.Src

def wrapU (bits : Nat) (x : Int) : Int := x % (2 ^ bits : Int)

def wrapS (bits : Nat) (x : Int) : Int :=
  let m : Int := 2 ^ bits
  let r := x % m
  if r ≥ m / 2 then r - m else r

def wrap_u8 (x : Int) : Int := wrapU 8 x
def wrap_u16 (x : Int) : Int := wrapU 16 x
def wrap_u32 (x : Int) : Int := wrapU 32 x
def wrap_u64 (x : Int) : Int := wrapU 64 x
def wrap_usize (x : Int) : Int := wrapU 64 x
def wrap_u128 (x : Int) : Int := wrapU 128 x
def wrap_i8 (x : Int) : Int := wrapS 8 x
def wrap_i16 (x : Int) : Int := wrapS 16 x
def wrap_i32 (x : Int) : Int := wrapS 32 x
def wrap_i64 (x : Int) : Int := wrapS 64 x
def wrap_isize (x : Int) : Int := wrapS 64 x
def wrap_i128 (x : Int) : Int := wrapS 128 x

def inS (bits : Nat) (x : Int) : Bool := decide (-(2 ^ (bits - 1) : Int) ≤ x ∧ x ≤ (2 ^ (bits - 1) : Int) - 1)
def inU (bits : Nat) (x : Int) : Bool := decide (0 ≤ x ∧ x ≤ (2 ^ bits : Int) - 1)

def checked_i32 (x : Int) : Option Int := if inS 32 x then some x else none
def checked_i64 (x : Int) : Option Int := if inS 64 x then some x else none
def checked_i128 (x : Int) : Option Int := if inS 128 x then some x else none
def checked_u8 (x : Int) : Option Int := if inU 8 x then some x else none
def checked_u32 (x : Int) : Option Int := if inU 32 x then some x else none
def checked_usize (x : Int) : Option Int := if inU 64 x then some x else none

def satS (bits : Nat) (x : Int) : Int :=
  if x < -(2 ^ (bits - 1) : Int) then -(2 ^ (bits - 1) : Int) else if x > (2 ^ (bits - 1) : Int) - 1 then (2 ^ (bits - 1) : Int) - 1 else x

def sat_i32 (x : Int) : Int := satS 32 x
def sat_i64 (x : Int) : Int := satS 64 x

/-- `PartialOrd::partial_cmp` of core on a pair of integers: lexicographic, always `Some` (modelled, trusted) -/
def tuple2_partial_cmp (a b : Int × Int) : Option Ordering :=
  some (if a.1 < b.1 then .lt else if a.1 > b.1 then .gt else if a.2 < b.2 then .lt else if a.2 > b.2 then .gt else .eq)

/-- `MonthWeekDay` (the model keeps its three fields inside `RuleDay.mwd`) -/
structure MonthWeekDay where
  month : Int
  week : Int
  weekDay : Int
  deriving DecidableEq, Repr, Inhabited

/-- src/timezone/rule.rs `JulianDayCheckInfos` -/
structure JulianDayCheckInfos where
  startNormalYearOffset : Int
  endNormalYearOffset : Int
  startLeapYearOffset : Int
  endLeapYearOffset : Int
  deriving DecidableEq, Repr, Inhabited

/-- src/timezone/rule.rs `MonthWeekDayCheckInfos` -/
structure MonthWeekDayCheckInfos where
  startNormalYearOffsetRange : Int × Int
  endNormalYearOffsetRange : Int × Int
  startLeapYearOffsetRange : Int × Int
  endLeapYearOffsetRange : Int × Int
  deriving DecidableEq, Repr, Inhabited

def idx {α} [Inhabited α] (l : List α) (i : Int) : α := l.getD i.toNat default

/-- a statement or initialiser that may `return` early: the returned value, or the value / state it yields -/
inductive Flow (ρ : Type) (α : Type) where
  | ret (r : ρ)
  | val (a : α)

instance {ρ α : Type} [Inhabited α] : Inhabited (Flow ρ α) := ⟨.val default⟩

/-- one iteration of a loop body: go on, stop (condition false or `break`), or `return r` -/
inductive Step (σ : Type) (ρ : Type) where
  | next (s : σ)
  | stop (s : σ)
  | ret (r : ρ)

/-- `while` without `return` in its body -/
def loopS {σ : Type} : Nat → (σ → Step σ Empty) → σ → σ
  | 0, _, s => s
  | n + 1, f, s =>
    match f s with
    | .next s' => loopS n f s'
    | .stop s' => s'
    | .ret r => nomatch r

/-- `while` whose body may `return`: the final state, or the returned value -/
def loopR {σ ρ : Type} : Nat → (σ → Step σ ρ) → σ → σ ⊕ ρ
  | 0, _, s => .inl s
  | n + 1, f, s =>
    match f s with
    | .next s' => loopR n f s'
    | .stop s' => .inl s'
    | .ret r => .inr r

/-- `for x in slice` with `break` -/
def forIn {α σ : Type} : List α → (σ → α → Step σ Empty) → σ → σ
  | [], _, s => s
  | x :: xs, f, s =>
    match f s x with
    | .next s' => forIn xs f s'
    | .stop s' => s'
    | .ret r => nomatch r

/-- `for x in slice` whose body may `return` -/
def forInR {α σ ρ : Type} : List α → (σ → α → Step σ ρ) → σ → σ ⊕ ρ
  | [], _, s => .inl s
  | x :: xs, f, s =>
    match f s x with
    | .next s' => forInR xs f s'
    | .stop s' => .inl s'
    | .ret r => .inr r

/-- `slice.iter().enumerate()` -/
def enumerateFrom {α : Type} : Int → List α → List (Int × α)
  | _, [] => []
  | i, x :: xs => (i, x) :: enumerateFrom (i + 1) xs

def enumerate {α : Type} (l : List α) : List (Int × α) := enumerateFrom 0 l

/-- `slice.iter().position(p)` -/
def positionFrom {α : Type} (p : α → Bool) : Int → List α → Option Int
  | _, [] => none
  | i, x :: xs => if p x then some i else positionFrom p (i + 1) xs

def position {α : Type} (p : α → Bool) (l : List α) : Option Int := positionFrom p 0 l

/-- `slice.windows(2).all(p)`; the predicate sees the two-element window as a list -/
def windows2All {α : Type} (p : List α → Bool) : List α → Bool
  | a :: b :: rest => p [a, b] && windows2All p (b :: rest)
  | _ => true

/-- `for chunk in slice.chunks_exact_mut(2) { chunk.swap(0, 1) }` -/
def swapPairs {α : Type} : List α → List α
  | a :: b :: rest => b :: a :: swapPairs rest
  | l => l

/-- a `Result` next to the current value of the `&mut` state -/
def withState {ε α σ : Type} (r : Except ε α) (s : σ) : Except ε (α × σ) :=
  match r with
  | .ok a => .ok (a, s)
  | .error e => .error e

/-- `slice.split_at_checked(n)` -/
def split_at_checked {α : Type} (l : List α) (n : Int) : Option (List α × List α) :=
  if n.toNat ≤ l.length then some (l.take n.toNat, l.drop n.toNat) else none

def u8_is_ascii_digit (b : Nat) : Bool := 48 ≤ b && b ≤ 57
def u8_is_ascii_alphabetic (b : Nat) : Bool := (65 ≤ b && b ≤ 90) || (97 ≤ b && b ≤ 122)

/-- `str::from_utf8(bytes)?.parse::<T>()?` for an unsigned / non-negative target with maximum `max`, on the byte
    strings the TZ-string parser hands over (all ASCII digits, by `read_while(is_ascii_digit)`): empty → error,
    overflow → error. MODELLED (the same convention as the model's `parseInt`; DESIGN trusted base). -/
def parse_int (max : Nat) (ds : List Nat) : Except TzVerif.Model.TzStringError Int :=
  if ds.isEmpty then .error .parseInt
  else
    let v := ds.foldl (fun acc d => acc * 10 + (d - 48)) 0
    if v > max then .error .parseInt else .ok v

def parse_int_i32 := parse_int 2147483647
def parse_int_u16 := parse_int 65535
def parse_int_u8 := parse_int 255

/-! ### src/parse/tz_file.rs -/

/-- `Version` -/
inductive Version where
  | v1 | v2 | v3
  deriving DecidableEq, Repr, Inhabited

/-- `Header` (the model stores the version as 1, 2, 3) -/
structure Header where
  version : Version
  utLocalCount : Int
  stdWallCount : Int
  leapCount : Int
  transitionCount : Int
  typeCount : Int
  charCount : Int
  deriving DecidableEq, Repr, Inhabited

/-- `DataBlocks<'a, TIME_SIZE>` (the const parameter is an explicit argument of the functions) -/
structure DataBlocks where
  transitionTimes : List Nat
  transitionTypes : List Nat
  localTimeTypes : List Nat
  timeZoneDesignations : List Nat
  leapSeconds : List Nat
  stdWalls : List Nat
  utLocals : List Nat
  deriving DecidableEq, Repr, Inhabited

/-- `uN::from_be_bytes` -/
def be_unsigned (b : List Nat) : Int := (b.foldl (fun acc x => acc * 256 + x) 0 : Nat)

/-- `iN::from_be_bytes` on `b.length` bytes (two's complement) -/
def be_signed (b : List Nat) : Int :=
  let v : Int := be_unsigned b
  let bits := 8 * b.length
  if v ≥ 2 ^ (bits - 1) then v - 2 ^ bits else v

/-- `slice.chunks_exact(n)` -/
def chunksExactNat (n : Nat) (b : List Nat) : List (List Nat) :=
  if _h : n = 0 ∨ b.length < n then [] else b.take n :: chunksExactNat n (b.drop n)
termination_by b.length
decreasing_by simp only [List.length_drop]; omega

def chunks_exact (n : Int) (b : List Nat) : List (List Nat) := chunksExactNat n.toNat b

/-- `slice.first_chunk::<N>()` -/
def first_chunk (n : Int) (b : List Nat) : Option (List Nat) :=
  if n.toNat ≤ b.length then some (b.take n.toNat) else none

/-- `slice.split_first_chunk::<N>()` -/
def split_first_chunk (n : Int) (b : List Nat) : Option (List Nat × List Nat) :=
  if n.toNat ≤ b.length then some (b.take n.toNat, b.drop n.toNat) else none

/-- `Option::unwrap` made total (that it cannot fail at its sites is a C07 obligation) -/
def unwrap {α : Type} [Inhabited α] (o : Option α) : α := o.getD default

/-- `Iterator::flatten` over a slice of options: the present elements, in order -/
def flatten {α : Type} : List (Option α) → List α
  | [] => []
  | none :: rest => flatten rest
  | some a :: rest => a :: flatten rest

/-- `iter::repeat(x)` -/
structure Repeat where
  x : Nat

/-- `slice.iter().copied().chain(iter::repeat(x))` -/
structure Padded where
  l : List Nat
  pad : Nat

/-- the zip of two padded (infinite) iterators -/
structure PaddedZip where
  a : Padded
  b : Padded

def paddedTake : Nat → List Nat → Nat → List Nat
  | 0, _, _ => []
  | n + 1, [], p => p :: paddedTake n [] p
  | n + 1, x :: xs, p => x :: paddedTake n xs p

/-- `.take(n)` of it -/
def PaddedZip.take (n : Int) (z : PaddedZip) : List (Nat × Nat) :=
  List.zip (paddedTake n.toNat z.a.l z.a.pad) (paddedTake n.toNat z.b.l z.b.pad)

/-- `Result<Option<T>, E>::transpose` -/
def res_transpose {ε α : Type} : Except ε (Option α) → Option (Except ε α)
  | .ok (some a) => some (.ok a)
  | .ok none => none
  | .error e => some (.error e)

/-- `Option<Result<T, E>>::transpose` -/
def opt_transpose {ε α : Type} : Option (Except ε α) → Except ε (Option α)
  | some (.ok a) => .ok (some a)
  | some (.error e) => .error e
  | none => .ok none

/-- src/timezone/mod.rs `TzAsciiStr`: length-prefixed 8-byte buffer -/
structure TzAsciiStr where
  bytes : List Nat
  deriving DecidableEq, Repr, Inhabited

/-- `LocalTimeType` as the source stores it (the model stores the designation as the byte string itself) -/
structure LocalTimeTypeSrc where
  utOffset : Int
  isDst : Bool
  timeZoneDesignation : Option TzAsciiStr
  deriving DecidableEq, Repr, Inhabited

/-- `u64::from_ne_bytes` on a little-endian target -/
def ne_u64 (b : List Nat) : Int := (b.foldr (fun x acc => x + 256 * acc) 0 : Nat)

end TzVerif.Src
