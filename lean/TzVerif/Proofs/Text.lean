/-
Helper lemmas for C18 (text form). INTERFACE used by Properties/C18.lean:
`readBack_format`, `format_ends_with_Z_iff`, `format_length`.
-/
import TzVerif.Model.DateTime
import TzVerif.Spec.Text

namespace TzVerif.Proofs
open TzVerif.Model

theorem digitChar_spec (d : Nat) (h : d < 10) :
    Spec.isDigit (Nat.digitChar d) = true ∧ Spec.digitValue (Nat.digitChar d) = d ∧
      (Nat.digitChar d = '0' ↔ d = 0) := by
  have : d = 0 ∨ d = 1 ∨ d = 2 ∨ d = 3 ∨ d = 4 ∨ d = 5 ∨ d = 6 ∨ d = 7 ∨ d = 8 ∨ d = 9 := by omega
  rcases this with h | h | h | h | h | h | h | h | h | h <;> subst h <;> decide

theorem natDigits_lt (n : Nat) (h : n < 10) : natDigits n = [Nat.digitChar n] := by
  rw [natDigits]; simp [h]

theorem natDigits_ge (n : Nat) (h : 10 ≤ n) :
    natDigits n = natDigits (n / 10) ++ [Nat.digitChar (n % 10)] := by
  rw [natDigits]; simp [Nat.not_lt.mpr h]

theorem natDigits_all (n : Nat) : ∀ c ∈ natDigits n, Spec.isDigit c = true := by
  induction n using Nat.strongRecOn with
  | _ n ih =>
    by_cases h : n < 10
    · rw [natDigits_lt n h]; intro c hc
      simp only [List.mem_singleton] at hc; subst hc; exact (digitChar_spec n h).1
    · rw [natDigits_ge n (by omega)]; intro c hc
      rcases List.mem_append.mp hc with hc | hc
      · exact ih (n / 10) (by omega) c hc
      · simp only [List.mem_singleton] at hc; subst hc; exact (digitChar_spec _ (by omega)).1

theorem natDigits_ne_nil (n : Nat) : natDigits n ≠ [] := by
  by_cases h : n < 10
  · rw [natDigits_lt n h]; simp
  · rw [natDigits_ge n (by omega)]; simp

theorem digitsValue_snoc (ds : List Char) (c : Char) :
    Spec.digitsValue (ds ++ [c]) = Spec.digitsValue ds * 10 + Spec.digitValue c := by
  simp [Spec.digitsValue, List.foldl_append]

theorem digitsValue_natDigits (n : Nat) : Spec.digitsValue (natDigits n) = n := by
  induction n using Nat.strongRecOn with
  | _ n ih =>
    by_cases h : n < 10
    · rw [natDigits_lt n h]
      simp only [Spec.digitsValue, List.foldl_cons, List.foldl_nil]
      have := (digitChar_spec n h).2.1; omega
    · rw [natDigits_ge n (by omega), digitsValue_snoc, ih (n / 10) (by omega),
        (digitChar_spec _ (by omega)).2.1]; omega

theorem natDigits_head (n : Nat) (h : 1 ≤ n) : (natDigits n).head? ≠ some '0' := by
  induction n using Nat.strongRecOn with
  | _ n ih =>
    by_cases h10 : n < 10
    · rw [natDigits_lt n h10]; simp only [List.head?_cons, ne_eq, Option.some.injEq]
      intro hc; have := (digitChar_spec n h10).2.2.mp hc; omega
    · have h1 := ih (n / 10) (by omega) (by omega)
      have h2 := natDigits_ne_nil (n / 10)
      rw [natDigits_ge n (by omega)]
      cases hd : natDigits (n / 10) with
      | nil => exact absurd hd h2
      | cons a as => rw [hd] at h1; simpa using h1

theorem natDigits_length_le (k : Nat) : ∀ n, n < 10 ^ (k + 1) → (natDigits n).length ≤ k + 1 := by
  induction k with
  | zero => intro n h; rw [natDigits_lt n (by simpa using h)]; simp
  | succ k ih =>
    intro n h
    by_cases h10 : n < 10
    · rw [natDigits_lt n h10]; simp
    · rw [natDigits_ge n (by omega)]
      have : n / 10 < 10 ^ (k + 1) := by
        rw [Nat.div_lt_iff_lt_mul (by decide)]; rw [Nat.pow_succ] at h; exact h
      have := ih _ this
      simp only [List.length_append, List.length_singleton]; omega

theorem natDigits_length_ge2 (n : Nat) (h : 10 ≤ n) : 2 ≤ (natDigits n).length := by
  rw [natDigits_ge n h]
  have := List.length_pos_iff.mpr (natDigits_ne_nil (n / 10))
  simp only [List.length_append, List.length_singleton]; omega


/-! ### pad -/

theorem digitsValue_replicate_zero_append (k : Nat) (ds : List Char) :
    Spec.digitsValue (List.replicate k '0' ++ ds) = Spec.digitsValue ds := by
  induction k with
  | zero => simp
  | succ k ih =>
    have : Spec.digitValue '0' = 0 := by decide
    simp only [Spec.digitsValue, List.replicate_succ, List.cons_append, List.foldl_cons, this] at ih ⊢
    exact ih

theorem pad_all (w : Nat) (n : Int) : ∀ c ∈ pad w n, Spec.isDigit c = true := by
  intro c hc
  simp only [pad] at hc
  rcases List.mem_append.mp hc with hc | hc
  · have := (List.mem_replicate.mp hc).2; subst this; decide
  · exact natDigits_all _ c hc

theorem pad_ne_nil (w : Nat) (n : Int) : pad w n ≠ [] := by
  simp only [pad]; simp [natDigits_ne_nil]

theorem digitsValue_pad (w : Nat) (n : Int) : Spec.digitsValue (pad w n) = n.toNat := by
  simp only [pad]; rw [digitsValue_replicate_zero_append, digitsValue_natDigits]

theorem pad_length_ge (w : Nat) (n : Int) : w ≤ (pad w n).length := by
  simp only [pad, List.length_append, List.length_replicate]; omega

theorem pad_length_eq (w : Nat) (n : Int) (h : (natDigits n.toNat).length ≤ w) : (pad w n).length = w := by
  simp only [pad, List.length_append, List.length_replicate]; omega

theorem pad2_head (n : Int) (h : (pad 2 n).length > 2) : (pad 2 n).head? ≠ some '0' := by
  simp only [pad, List.length_append, List.length_replicate] at h
  have hl : (natDigits n.toNat).length > 2 := by omega
  have h10 : 10 ≤ n.toNat := by
    apply Nat.le_of_not_lt; intro hlt; rw [natDigits_lt _ hlt] at hl; simp at hl
  have : 2 - (natDigits n.toNat).length = 0 := by omega
  simp only [pad, this, List.replicate_zero, List.nil_append]
  exact natDigits_head _ (by omega)

theorem two_digitChar (a b : Nat) (ha : a < 10) (hb : b < 10) :
    Spec.two (Nat.digitChar a) (Nat.digitChar b) = some (a * 10 + b) := by
  simp only [Spec.two, (digitChar_spec a ha).1, (digitChar_spec b hb).1, (digitChar_spec a ha).2.1,
    (digitChar_spec b hb).2.1, Bool.and_self, if_true]

theorem pad2_spec (n : Int) (h : 0 ≤ n ∧ n ≤ 99) :
    ∃ a b, pad 2 n = [a, b] ∧ Spec.two a b = some n.toNat := by
  have hm : n.toNat ≤ 99 := by omega
  simp only [pad]
  generalize n.toNat = m at hm
  by_cases h10 : m < 10
  · refine ⟨'0', Nat.digitChar m, ?_, ?_⟩
    · rw [natDigits_lt m h10]; rfl
    · have := two_digitChar 0 m (by omega) h10
      have e : Nat.digitChar 0 = '0' := rfl
      rw [e] at this; simpa using this
  · refine ⟨Nat.digitChar (m / 10), Nat.digitChar (m % 10), ?_, ?_⟩
    · rw [natDigits_ge m (by omega), natDigits_lt (m / 10) (by omega)]; rfl
    · rw [two_digitChar _ _ (by omega) (by omega)]; congr 1; omega

theorem pad2_length (n : Int) (h : 0 ≤ n ∧ n ≤ 99) : (pad 2 n).length = 2 := by
  obtain ⟨a, b, hab, _⟩ := pad2_spec n h
  rw [hab]; rfl

theorem pad9_spec (n : Int) (h : 0 ≤ n ∧ n < 1000000000) :
    (pad 9 n).length = 9 ∧ (pad 9 n).all Spec.isDigit = true ∧ Spec.digitsValue (pad 9 n) = n.toNat := by
  refine ⟨?_, ?_, digitsValue_pad 9 n⟩
  · apply pad_length_eq
    exact natDigits_length_le 8 _ (by omega)
  · rw [List.all_eq_true]; exact pad_all 9 n

/-! ### spanDigits -/

theorem spanDigits_append (ds : List Char) (c : Char) (rest : List Char)
    (hds : ∀ x ∈ ds, Spec.isDigit x = true) (hc : Spec.isDigit c = false) :
    Spec.spanDigits (ds ++ c :: rest) = (ds, c :: rest) := by
  induction ds with
  | nil => simp [Spec.spanDigits, hc]
  | cons d ds ih =>
    have hd := hds d (by simp)
    have := ih (fun x hx => hds x (by simp [hx]))
    simp [Spec.spanDigits, hd, this]


/-! ### readOffset -/

def offTail (rest : List Char) : Option (Nat × Nat) :=
  match rest with
  | [':', a, b] => (Spec.two a b).map (fun m => (m, 0))
  | [':', a, b, ':', c, d] =>
    match Spec.two a b, Spec.two c d with
    | some m, some s => if s = 0 then none else some (m, s)
    | _, _ => none
  | _ => none

theorem readOffset_cons (sg : Char) (hsg : sg = '+' ∨ sg = '-') (rest : List Char) :
    Spec.readOffset (sg :: rest) =
      (let hd := (Spec.spanDigits rest).1
       let r := (Spec.spanDigits rest).2
       if hd.length < 2 ∨ (hd.length > 2 ∧ hd.head? = some '0') then none else
       match offTail r with
       | none => none
       | some (m, s) =>
         if m ≥ 60 ∨ s ≥ 60 then none else
         let total : Int := (Spec.digitsValue hd : Nat) * 3600 + m * 60 + s
         if total = 0 then none else some (if sg = '-' then -total else total)) := by
  rcases hsg with rfl | rfl
  · unfold Spec.readOffset offTail
    split
    · rename_i h; injection h with h1 h2; exact absurd h1 (by decide)
    · rename_i h; injection h with h1 h2; subst h1; subst h2
      simp only [ne_eq, not_true_eq_false, false_and, if_false]
      rfl
    · rename_i h; exact absurd h (by simp)
  · unfold Spec.readOffset offTail
    split
    · rename_i h; injection h with h1 h2; exact absurd h1 (by decide)
    · rename_i h; injection h with h1 h2; subst h1; subst h2
      simp only [ne_eq, not_true_eq_false, and_false, if_false]
      rfl
    · rename_i h; exact absurd h (by simp)

theorem readOffset_render (sg : Char) (hsg : sg = '+' ∨ sg = '-') (hd tl : List Char) (m s : Nat)
    (hds : ∀ x ∈ hd, Spec.isDigit x = true) (hlen : 2 ≤ hd.length)
    (hhead : hd.length > 2 → hd.head? ≠ some '0')
    (htl : offTail (':' :: tl) = some (m, s)) (hm : m < 60) (hs : s < 60)
    (hne : ((Spec.digitsValue hd : Nat) : Int) * 3600 + m * 60 + s ≠ 0) :
    Spec.readOffset (sg :: (hd ++ ':' :: tl)) =
      some (if sg = '-' then -(((Spec.digitsValue hd : Nat) : Int) * 3600 + m * 60 + s)
            else ((Spec.digitsValue hd : Nat) : Int) * 3600 + m * 60 + s) := by
  have hspan := spanDigits_append hd ':' tl hds (by decide)
  rw [readOffset_cons sg hsg]
  simp only [hspan, htl]
  rw [if_neg (by intro h; rcases h with h | h; omega; exact hhead h.1 h.2)]
  rw [if_neg (by omega), if_neg hne]


theorem offTail_noSec (a b : Char) (m : Nat) (h : Spec.two a b = some m) :
    offTail [':', a, b] = some (m, 0) := by
  simp [offTail, h]

theorem offTail_sec (a b c d : Char) (m s : Nat) (h : Spec.two a b = some m) (h2 : Spec.two c d = some s)
    (hs : s ≠ 0) : offTail [':', a, b, ':', c, d] = some (m, s) := by
  simp [offTail, h, h2, hs]

/-! ### readBack -/

def readBody (neg : Bool) (s : List Char) : Option Spec.Rendered :=
  let yd := (Spec.spanDigits s).1
  let s := (Spec.spanDigits s).2
  if yd.isEmpty || (yd.length > 1 && yd.head? == some '0') || (neg && yd == ['0']) then none else
  let year : Int := if neg then -(Spec.digitsValue yd : Int) else Spec.digitsValue yd
  match s with
  | '-' :: m1 :: m2 :: '-' :: d1 :: d2 :: 'T' :: h1 :: h2 :: ':' :: i1 :: i2 :: ':' :: s1 :: s2 :: '.' :: rest =>
    let nsd := rest.take 9
    let rest := rest.drop 9
    if nsd.length ≠ 9 ∨ ¬ nsd.all Spec.isDigit then none else
    match Spec.two m1 m2, Spec.two d1 d2, Spec.two h1 h2, Spec.two i1 i2, Spec.two s1 s2, Spec.readOffset rest with
    | some mo, some d, some h, some mi, some sec, some off =>
      some { year, month := mo, day := d, hour := h, minute := mi, second := sec,
             nanoseconds := Spec.digitsValue nsd, offset := off }
    | _, _, _, _, _, _ => none
  | _ => none

theorem readBack_neg (r : List Char) : Spec.readBack ('-' :: r) = readBody true r := by
  unfold Spec.readBack readBody
  rfl

theorem readBack_pos (c : Char) (r : List Char) (hc : c ≠ '-') :
    Spec.readBack (c :: r) = readBody false (c :: r) := by
  unfold Spec.readBack readBody
  split
  rename_i h
  split at h
  · rename_i h'; injection h' with h1 h2; exact absurd h1 hc
  · injection h with h1 h2; subst h1; subst h2; rfl

theorem readBody_render (neg : Bool) (yd nsd off : List Char)
    (m1 m2 d1 d2 h1 h2 i1 i2 s1 s2 : Char) (mo d h mi sec : Nat) (o : Int)
    (hyd : ∀ x ∈ yd, Spec.isDigit x = true) (hne : yd ≠ [])
    (hhead : yd.length > 1 → yd.head? ≠ some '0') (hneg : neg = true → yd ≠ ['0'])
    (hmo : Spec.two m1 m2 = some mo) (hd : Spec.two d1 d2 = some d) (hh : Spec.two h1 h2 = some h)
    (hmi : Spec.two i1 i2 = some mi) (hs : Spec.two s1 s2 = some sec)
    (hnl : nsd.length = 9) (hnd : nsd.all Spec.isDigit = true)
    (ho : Spec.readOffset off = some o) :
    readBody neg (yd ++ '-' :: m1 :: m2 :: '-' :: d1 :: d2 :: 'T' :: h1 :: h2 :: ':' :: i1 :: i2 :: ':' ::
        s1 :: s2 :: '.' :: (nsd ++ off)) =
      some { year := if neg then -(Spec.digitsValue yd : Int) else Spec.digitsValue yd,
             month := mo, day := d, hour := h, minute := mi, second := sec,
             nanoseconds := Spec.digitsValue nsd, offset := o } := by
  unfold readBody
  rw [spanDigits_append yd '-' _ hyd (by decide)]
  simp only
  have c1 : (yd.isEmpty || (decide (yd.length > 1) && yd.head? == some '0') || (neg && yd == ['0'])) = false := by
    simp only [Bool.or_eq_false_iff, Bool.and_eq_false_iff]
    refine ⟨⟨?_, ?_⟩, ?_⟩
    · cases yd with
      | nil => exact absurd rfl hne
      | cons _ _ => rfl
    · by_cases hl : yd.length > 1
      · right; have := hhead hl; simpa using this
      · left; simpa using hl
    · cases neg with
      | false => left; rfl
      | true => right; have := hneg rfl; simpa using this
  rw [c1]
  have t9 : (nsd ++ off).take 9 = nsd := by rw [← hnl]; exact List.take_left
  have d9 : (nsd ++ off).drop 9 = off := by rw [← hnl]; exact List.drop_left
  simp only [t9, d9, hnl, hnd, hmo, hd, hh, hmi, hs, ho]
  simp


/-! ### shape of the rendering -/

def fmtBase (y mo d h mi s ns : Int) : List Char :=
  showInt y ++ ['-'] ++ pad 2 mo ++ ['-'] ++ pad 2 d ++ ['T'] ++ pad 2 h ++ [':']
    ++ pad 2 mi ++ [':'] ++ pad 2 s ++ ['.'] ++ pad 9 ns

def offSec (os : Int) : List Char := if os ≠ 0 then ':' :: pad 2 os else []

def offBody (sign : Char) (a : Int) : List Char :=
  sign :: (pad 2 (a.tdiv 3600) ++ ':' :: (pad 2 ((a.tdiv 60).tmod 60) ++ offSec (a.tmod 60)))

def offText (off : Int) : List Char :=
  if off ≠ 0 then offBody (if off < 0 then '-' else '+') (if off < 0 then -off else off) else ['Z']

theorem format_eq (y mo d h mi s ns off : Int) :
    formatDateTime y mo d h mi s ns off = fmtBase y mo d h mi s ns ++ offText off := by
  unfold formatDateTime fmtBase offText offBody offSec
  simp only [Gen.SECONDS_PER_HOUR, Gen.SECONDS_PER_MINUTE, Gen.MINUTES_PER_HOUR]
  by_cases h0 : off = 0
  · simp [h0]
  · simp only [ne_eq, h0, not_false_eq_true, if_true]
    split <;> simp <;> split <;> simp

theorem getLast?_append_ne_nil (l l' : List Char) (h : l' ≠ []) : (l ++ l').getLast? = l'.getLast? := by
  rw [List.getLast?_append]
  cases hl : l'.getLast? with
  | none => exact absurd (List.getLast?_eq_none_iff.mp hl) h
  | some c => rfl

theorem getLast?_pad_ne_Z (l : List Char) (w : Nat) (n : Int) : (l ++ pad w n).getLast? ≠ some 'Z' := by
  rw [getLast?_append_ne_nil _ _ (pad_ne_nil w n)]
  intro h
  have := pad_all w n _ (List.mem_of_getLast? h)
  exact absurd this (by decide)

theorem offText_ne_nil (off : Int) : offText off ≠ [] := by
  unfold offText offBody; split <;> simp

theorem offBody_last (sg : Char) (a : Int) : (offBody sg a).getLast? ≠ some 'Z' := by
  unfold offBody offSec
  split
  · have e : ∀ (p q r : List Char), sg :: (p ++ ':' :: (q ++ ':' :: r)) = (sg :: (p ++ ':' :: (q ++ [':']))) ++ r := by
      intro p q r; simp
    rw [e]; exact getLast?_pad_ne_Z _ _ _
  · have e : ∀ (p q : List Char), sg :: (p ++ ':' :: (q ++ [])) = (sg :: (p ++ [':'])) ++ q := by
      intro p q; simp
    rw [e]; exact getLast?_pad_ne_Z _ _ _

theorem offText_last (off : Int) : (offText off).getLast? = some 'Z' ↔ off = 0 := by
  constructor
  · intro h
    apply Classical.byContradiction
    intro hne
    unfold offText at h
    rw [if_pos hne] at h
    exact offBody_last _ _ h
  · intro h; subst h; rfl

theorem format_ends_with_Z_iff (y mo d h mi s ns off : Int) :
    (formatDateTime y mo d h mi s ns off).getLast? = some 'Z' ↔ off = 0 := by
  rw [format_eq, getLast?_append_ne_nil _ _ (offText_ne_nil off)]
  exact offText_last off

/-- the fixed part: year digits are followed by exactly `-MM-DDTHH:MM:SS.nnnnnnnnn` (25 characters)
    and 'Z' for in-range fields -/
theorem format_length (y mo d h mi s ns : Int)
    (hmo : 0 ≤ mo ∧ mo ≤ 99) (hd : 0 ≤ d ∧ d ≤ 99) (hh : 0 ≤ h ∧ h ≤ 99)
    (hmi : 0 ≤ mi ∧ mi ≤ 99) (hs : 0 ≤ s ∧ s ≤ 99) (hns : 0 ≤ ns ∧ ns < 1000000000) :
    (formatDateTime y mo d h mi s ns 0).length = (showInt y).length + 26 := by
  rw [format_eq]
  unfold fmtBase
  simp only [List.length_append, pad2_length _ hmo, pad2_length _ hd, pad2_length _ hh, pad2_length _ hmi,
    pad2_length _ hs, (pad9_spec ns hns).1, List.length_singleton]
  have : (offText 0).length = 1 := rfl
  omega


theorem readOffset_offBody (sg : Char) (hsg : sg = '+' ∨ sg = '-') (a : Int) (ha : 0 < a) :
    Spec.readOffset (offBody sg a) = some (if sg = '-' then -a else a) := by
  unfold offBody
  rw [Int.tdiv_eq_ediv_of_nonneg (by omega : 0 ≤ a), Int.tdiv_eq_ediv_of_nonneg (by omega : 0 ≤ a),
    Int.tmod_eq_emod_of_nonneg (by omega : 0 ≤ a / 60), Int.tmod_eq_emod_of_nonneg (by omega : 0 ≤ a)]
  obtain ⟨a1, b1, hab, hv⟩ := pad2_spec ((a / 60) % 60) (by omega)
  have hdv := digitsValue_pad 2 (a / 3600)
  rw [hab]
  by_cases hs : a % 60 = 0
  · have htl : offTail (':' :: ([a1, b1] ++ offSec (a % 60))) = some (((a / 60) % 60).toNat, 0) := by
      simp only [offSec, hs, ne_eq, not_true_eq_false, if_false]
      exact offTail_noSec _ _ _ hv
    rw [readOffset_render sg hsg (pad 2 (a / 3600)) _ _ _ (pad_all _ _) (pad_length_ge _ _) (pad2_head _) htl
      (by omega) (by omega) (by rw [hdv]; omega)]
    rw [hdv]; congr 1; split <;> omega
  · obtain ⟨c1, d1, hcd, hw⟩ := pad2_spec (a % 60) (by omega)
    have htl : offTail (':' :: ([a1, b1] ++ offSec (a % 60))) = some (((a / 60) % 60).toNat, (a % 60).toNat) := by
      simp only [offSec, hs, ne_eq, not_false_eq_true, if_true, hcd]
      exact offTail_sec _ _ _ _ _ _ hv hw (by omega)
    rw [readOffset_render sg hsg (pad 2 (a / 3600)) _ _ _ (pad_all _ _) (pad_length_ge _ _) (pad2_head _) htl
      (by omega) (by omega) (by rw [hdv]; omega)]
    rw [hdv]; congr 1; split <;> omega

theorem readOffset_offText (off : Int) : Spec.readOffset (offText off) = some off := by
  unfold offText
  by_cases h0 : off = 0
  · subst h0; rfl
  · rw [if_pos h0]
    by_cases hneg : off < 0
    · rw [if_pos hneg, if_pos hneg, readOffset_offBody _ (Or.inr rfl) _ (by omega)]; simp
    · rw [if_neg hneg, if_neg hneg, readOffset_offBody _ (Or.inl rfl) _ (by omega)]; simp


theorem readBack_digits (yd rest : List Char) (hyd : ∀ x ∈ yd, Spec.isDigit x = true) (hne : yd ≠ []) :
    Spec.readBack (yd ++ rest) = readBody false (yd ++ rest) := by
  cases yd with
  | nil => exact absurd rfl hne
  | cons c cs =>
    rw [List.cons_append]
    apply readBack_pos
    intro hc
    have := hyd c (by simp)
    rw [hc] at this
    exact absurd this (by decide)

theorem natDigits_ne_zero (n : Nat) (h : 1 ≤ n) : natDigits n ≠ ['0'] := by
  intro he
  have := natDigits_head n h
  rw [he] at this
  exact this rfl

theorem natDigits_head_of_length (n : Nat) (h : (natDigits n).length > 1) : (natDigits n).head? ≠ some '0' := by
  apply natDigits_head
  apply Nat.le_of_not_lt
  intro hlt
  have : n = 0 := by omega
  subst this
  rw [natDigits_lt 0 (by omega)] at h
  simp at h

set_option linter.unusedVariables false in
theorem readBack_format (y mo d h mi s ns off : Int)
    (hy : i32Min ≤ y ∧ y ≤ i32Max) (hmo : 0 ≤ mo ∧ mo ≤ 99) (hd : 0 ≤ d ∧ d ≤ 99) (hh : 0 ≤ h ∧ h ≤ 99)
    (hmi : 0 ≤ mi ∧ mi ≤ 99) (hs : 0 ≤ s ∧ s ≤ 99) (hns : 0 ≤ ns ∧ ns < 1000000000)
    (hoff : i32Min < off ∧ off ≤ i32Max) :
    Spec.readBack (formatDateTime y mo d h mi s ns off) =
      some { year := y, month := mo, day := d, hour := h, minute := mi, second := s, nanoseconds := ns, offset := off } := by
  rw [format_eq]
  unfold fmtBase
  obtain ⟨m1, m2, em, hm⟩ := pad2_spec mo hmo
  obtain ⟨d1, d2, ed, hdd⟩ := pad2_spec d hd
  obtain ⟨h1, h2, eh, hhh⟩ := pad2_spec h hh
  obtain ⟨i1, i2, ei, hii⟩ := pad2_spec mi hmi
  obtain ⟨s1, s2, es, hss⟩ := pad2_spec s hs
  obtain ⟨n1, n2, n3⟩ := pad9_spec ns hns
  have ho := readOffset_offText off
  rw [em, ed, eh, ei, es]
  unfold showInt
  by_cases hneg : y < 0
  · rw [if_pos hneg]
    simp only [List.append_assoc, List.cons_append, List.nil_append]
    rw [readBack_neg, readBody_render true _ _ _ _ _ _ _ _ _ _ _ _ _ _ _ _ _ _ _ (natDigits_all _) (natDigits_ne_nil _)
      (natDigits_head_of_length _) (fun _ => natDigits_ne_zero _ (by omega)) hm hdd hhh hii hss n1 n2 ho]
    rw [digitsValue_natDigits, n3]
    simp only [if_true]
    congr 1
    congr <;> omega
  · rw [if_neg hneg]
    simp only [List.append_assoc, List.cons_append, List.nil_append]
    rw [readBack_digits _ _ (natDigits_all _) (natDigits_ne_nil _),
      readBody_render false _ _ _ _ _ _ _ _ _ _ _ _ _ _ _ _ _ _ _ (natDigits_all _) (natDigits_ne_nil _)
      (natDigits_head_of_length _) (fun h => absurd h (by decide)) hm hdd hhh hii hss n1 n2 ho]
    rw [digitsValue_natDigits, n3]
    simp only [Bool.false_eq_true, if_false]
    congr 1
    congr <;> omega

end TzVerif.Proofs
