/-
The translated source equals the model: the getters `impl_datetime!()` generates for `UtcDateTime` and `DateTime`
(src/datetime/mod.rs) — the field getters, `week_day`, `year_day`, `total_nanoseconds` — and `DateTime::local_time_type`.
The macro is expanded by the translator (item-level, parameterless), so these are the functions as the source has them.
-/
import TzVerif.Proofs.SrcEqCal

namespace TzVerif.Proofs.SrcEq
open TzVerif TzVerif.Model

theorem utc_field_getters_eq (c : UtcDateTime) :
    Src.UtcDateTime.year c = c.year ∧ Src.UtcDateTime.month c = c.month ∧ Src.UtcDateTime.month_day c = c.monthDay ∧
    Src.UtcDateTime.hour c = c.hour ∧ Src.UtcDateTime.minute c = c.minute ∧ Src.UtcDateTime.second c = c.second ∧
    Src.UtcDateTime.nanoseconds c = c.nanoseconds :=
  ⟨rfl, rfl, rfl, rfl, rfl, rfl, rfl⟩

theorem dt_field_getters_eq (d : DateTime) :
    Src.DateTime.year d = d.year ∧ Src.DateTime.month d = d.month ∧ Src.DateTime.month_day d = d.monthDay ∧
    Src.DateTime.hour d = d.hour ∧ Src.DateTime.minute d = d.minute ∧ Src.DateTime.second d = d.second ∧
    Src.DateTime.nanoseconds d = d.nanoseconds ∧ Src.DateTime.local_time_type d = d.localTimeType :=
  ⟨rfl, rfl, rfl, rfl, rfl, rfl, rfl, rfl⟩

theorem utc_week_day_eq (c : UtcDateTime) : Src.UtcDateTime.week_day c = weekDay c.year c.month c.monthDay := by
  unfold Src.UtcDateTime.week_day; exact week_day_eq _ _ _

theorem dt_week_day_eq (d : DateTime) : Src.DateTime.week_day d = weekDay d.year d.month d.monthDay := by
  unfold Src.DateTime.week_day; exact week_day_eq _ _ _

theorem utc_year_day_eq (c : UtcDateTime) (hm : 1 ≤ c.month ∧ c.month ≤ 12) (hd : 1 ≤ c.monthDay ∧ c.monthDay ≤ 255) :
    Src.UtcDateTime.year_day c = yearDay c.year c.month c.monthDay := by
  unfold Src.UtcDateTime.year_day; exact year_day_eq _ _ _ hm hd

theorem dt_year_day_eq (d : DateTime) (hm : 1 ≤ d.month ∧ d.month ≤ 12) (hd : 1 ≤ d.monthDay ∧ d.monthDay ≤ 255) :
    Src.DateTime.year_day d = yearDay d.year d.month d.monthDay := by
  unfold Src.DateTime.year_day; exact year_day_eq _ _ _ hm hd

theorem utc_total_nanoseconds_eq (c : UtcDateTime) :
    Src.UtcDateTime.total_nanoseconds c = nanosecondsSinceUnixEpoch c.unixTime c.nanoseconds := by
  unfold Src.UtcDateTime.total_nanoseconds; rw [utc_unix_time_eq, nanoseconds_since_unix_epoch_eq]

theorem dt_total_nanoseconds_eq (d : DateTime) :
    Src.DateTime.total_nanoseconds d = nanosecondsSinceUnixEpoch d.unixTime d.nanoseconds := by
  unfold Src.DateTime.total_nanoseconds; rw [nanoseconds_since_unix_epoch_eq]

end TzVerif.Proofs.SrcEq
