/-
The translated source equals the model: src/timezone/mod.rs `TzAsciiStr::new`, `LocalTimeType::new`,
`LocalTimeType::with_ut_offset` (C13's local-time-type clause).

The source stores a designation in a length-prefixed 8-byte buffer; the model stores the byte string itself. `nameOf`
reads the string back from the buffer. These equalities justify the meaning the other translated functions give to
`LocalTimeType::new` (the model's constructor) and to `LocalTimeType::equal` (structural equality: `TzAsciiStr::equal`
compares the two buffers as `u64`s, i.e. the buffers, and `buffer_determines_name` / `name_determines_buffer` show that
for buffers built by `new` this is equality of the strings).
-/
import TzVerif.SrcBase
import TzVerif.Model.TimeZone
import TzVerif.Proofs.SrcEqCal

namespace TzVerif.Proofs.SrcEq
open TzVerif TzVerif.Model TzVerif.Gen

/-- the designation stored in a buffer: `bytes[1 .. 1 + bytes[0]]` -/
def nameOf (a : Src.TzAsciiStr) : List Nat := (a.bytes.drop 1).take (a.bytes.headD 0)

def lttOf (x : Src.LocalTimeTypeSrc) : LocalTimeType :=
  { utOffset := x.utOffset, isDst := x.isDst, name := x.timeZoneDesignation.map nameOf }

/-! ### the copy loop of `TzAsciiStr::new` -/

/-- what the loop does to the buffer: `bytes[k + 1 + j] := rest[j]` -/
def fillFrom (bytes : List Nat) (k : Nat) : List Nat → List Nat
  | [] => bytes
  | b :: bs => fillFrom (bytes.set (k + 1) b) (k + 1) bs

/-- what `TzAsciiStr::new` does with the result of its loop -/
def nameOut : (List Nat × Int) ⊕ Except LocalTimeTypeError Src.TzAsciiStr → Except LocalTimeTypeError Src.TzAsciiStr
  | .inr r => r
  | .inl (bytes, _) => .ok { bytes := bytes }

theorem idx_append_length (pre : List Nat) (b : Nat) (rest : List Nat) :
    Src.idx (pre ++ b :: rest) (pre.length : Int) = b := by
  unfold Src.idx
  rw [Int.toNat_natCast]
  simp

theorem name_loop (input : List Nat)
    (f : List Nat × Int → Src.Step (List Nat × Int) (Except LocalTimeTypeError Src.TzAsciiStr))
    (hf : ∀ bytes i, f (bytes, i) =
      if decide (i < (input.length : Int)) then
        (if isDesignationChar (Src.idx input i) then
          Src.Step.next (List.set bytes (Int.toNat (i + 1)) (Src.idx input i), i + 1)
        else Src.Step.ret (Except.error LocalTimeTypeError.invalidTimeZoneDesignationChar))
      else Src.Step.stop (bytes, i)) :
    ∀ (fuel : Nat) (pre rest bytes : List Nat), input = pre ++ rest → rest.length + 1 ≤ fuel →
      nameOut (Src.loopR fuel f (bytes, (pre.length : Int))) =
        if allDesignationChars rest then .ok { bytes := fillFrom bytes pre.length rest }
        else .error LocalTimeTypeError.invalidTimeZoneDesignationChar := by
  intro fuel
  induction fuel with
  | zero => intro pre rest bytes _ h; omega
  | succ fuel ih =>
    intro pre rest bytes hin hfu
    simp only [Src.loopR, hf]
    cases rest with
    | nil =>
      have hlen : ¬ ((pre.length : Int) < (input.length : Int)) := by
        rw [hin]; simp
      simp only [hlen, decide_false, Bool.false_eq_true, if_false, nameOut, allDesignationChars, fillFrom, if_true]
    | cons b rest =>
      have hlen : ((pre.length : Int) < (input.length : Int)) := by
        rw [hin]; simp; omega
      have hb : Src.idx input (pre.length : Int) = b := by rw [hin]; exact idx_append_length pre b rest
      simp only [hlen, decide_true, if_true, hb, allDesignationChars]
      by_cases hc : isDesignationChar b = true
      · simp only [hc, if_true]
        have hk : ((pre.length : Int) + 1) = ((pre ++ [b]).length : Int) := by simp
        have hn : Int.toNat ((pre.length : Int) + 1) = pre.length + 1 := by omega
        rw [hn, hk]
        have := ih (pre ++ [b]) rest (List.set bytes (pre.length + 1) b) (by rw [hin]; simp)
          (by simp at hfu; omega)
        rw [this]
        simp [fillFrom]
      · simp only [hc, Bool.false_eq_true, if_false, nameOut]

theorem fillFrom_replicate (n : Nat) : ∀ (rest pre : List Nat) (m : Nat), rest.length ≤ m →
    fillFrom (n :: (pre ++ List.replicate m 0)) pre.length rest =
      n :: (pre ++ rest ++ List.replicate (m - rest.length) 0) := by
  intro rest
  induction rest with
  | nil => intro pre m _; simp [fillFrom]
  | cons b rest ih =>
    intro pre m hm
    simp only [List.length_cons] at hm
    obtain ⟨m', rfl⟩ : ∃ m', m = m' + 1 := ⟨m - 1, by omega⟩
    have hset : (n :: (pre ++ List.replicate (m' + 1) 0)).set (pre.length + 1) b =
        n :: ((pre ++ [b]) ++ List.replicate m' 0) := by
      simp [List.replicate_succ]
    have hl : pre.length + 1 = (pre ++ [b]).length := by simp
    rw [fillFrom, hset, hl, ih (pre ++ [b]) m' (by omega)]
    simp

theorem tz_ascii_str_new_aux (input : List Nat) :
    Src.TzAsciiStr.new input =
      if !(decide (3 ≤ input.length) && decide (input.length ≤ 7)) then
        .error LocalTimeTypeError.invalidTimeZoneDesignationLength
      else if allDesignationChars input then
        .ok { bytes := input.length :: (input ++ List.replicate (7 - input.length) 0) }
      else .error LocalTimeTypeError.invalidTimeZoneDesignationChar := by
  by_cases hlen : 3 ≤ input.length ∧ input.length ≤ 7
  · unfold Src.TzAsciiStr.new
    have h3 : (3 : Int) ≤ (input.length : Int) := by omega
    have h7 : (input.length : Int) ≤ 7 := by omega
    simp only [h3, h7, hlen.1, hlen.2, decide_true, Bool.and_true, Bool.not_true, Bool.false_eq_true, if_false]
    show nameOut (Src.loopR _ _ _) = _
    refine Eq.trans (name_loop input _ (fun bytes i => ?_) _ [] input _ rfl (by omega)) ?_
    · dsimp only
      generalize Src.idx input i = b
      have hb : ∀ c : Bool, (if c = true then true else false) = c := by intro c; cases c <;> rfl
      have hd : (decide (48 ≤ b) && decide (b ≤ 57) || decide (65 ≤ b) && decide (b ≤ 90) ||
          decide (97 ≤ b) && decide (b ≤ 122) || decide (b = 43) || decide (b = 45)) = isDesignationChar b := by
        rfl
      rw [hb, hd]
      cases isDesignationChar b <;> rfl
    · have hw : (Src.wrap_u8 (input.length : Int)).toNat = input.length := by
        rw [wrap_u8_id _ (by omega)]; exact Int.toNat_natCast _
      have h0 : (List.replicate (Int.toNat 8) 0).set (Int.toNat 0) input.length =
          input.length :: (([] : List Nat) ++ List.replicate 7 0) := rfl
      rw [hw, h0, fillFrom_replicate input.length input [] 7 hlen.2]
      rfl
  · unfold Src.TzAsciiStr.new
    have h : ¬ ((3 : Int) ≤ (input.length : Int) ∧ (input.length : Int) ≤ 7) := by omega
    have h' : (decide ((3 : Int) ≤ (input.length : Int)) && decide ((input.length : Int) ≤ 7)) = false := by
      simpa using h
    have h'' : (decide (3 ≤ input.length) && decide (input.length ≤ 7)) = false := by
      simpa using hlen
    simp only [h', h'', Bool.not_false, if_true]

/-- the buffer `TzAsciiStr::new` builds: the length, the bytes, zero padding up to 8 -/
theorem tz_ascii_str_buffer (input : List Nat) (a : Src.TzAsciiStr) (h : Src.TzAsciiStr.new input = .ok a) :
    a.bytes = input.length :: (input ++ List.replicate (7 - input.length) 0) := by
  rw [tz_ascii_str_new_aux] at h
  split at h
  · cases h
  · split at h
    · cases h; rfl
    · cases h

theorem nameOf_buffer (input : List Nat) (m : Nat) :
    nameOf { bytes := input.length :: (input ++ List.replicate m 0) } = input := by
  simp [nameOf]

theorem tz_ascii_str_new_eq (input : List Nat) : (Src.TzAsciiStr.new input).map nameOf = TzAsciiStr.new input := by
  rw [tz_ascii_str_new_aux]
  unfold TzAsciiStr.new guardNameMinLen guardNameMaxLen
  have hg : (decide ((3 : Int) ≤ (input.length : Int)) && decide ((input.length : Int) ≤ 7)) =
      (decide (3 ≤ input.length) && decide (input.length ≤ 7)) := by
    by_cases h3 : 3 ≤ input.length <;> by_cases h7 : input.length ≤ 7 <;>
      simp [h3, h7] <;> omega
  dsimp only
  rw [hg]
  cases (decide (3 ≤ input.length) && decide (input.length ≤ 7))
  · rfl
  · cases allDesignationChars input
    · rfl
    · simp only [Bool.not_true, Bool.false_eq_true, if_false, if_true, Except.map, nameOf_buffer]

theorem ltt_new_eq (off : Int) (dst : Bool) (name : Option (List Nat)) :
    (Src.LocalTimeType.new off dst name).map lttOf = LocalTimeType.new off dst name := by
  unfold Src.LocalTimeType.new LocalTimeType.new Model.i32Min
  by_cases h : off = -2147483648
  · simp only [h, decide_true, if_true]; rfl
  · simp only [h, decide_false, Bool.false_eq_true, if_false]
    cases name with
    | none => rfl
    | some n =>
      dsimp only
      rw [← tz_ascii_str_new_eq]
      cases Src.TzAsciiStr.new n with
      | error e => rfl
      | ok a => rfl

theorem ltt_with_ut_offset_eq (off : Int) : (Src.LocalTimeType.with_ut_offset off).map lttOf = LocalTimeType.withUtOffset off := by
  unfold Src.LocalTimeType.with_ut_offset LocalTimeType.withUtOffset Model.i32Min
  by_cases h : off = -2147483648
  · simp only [h, decide_true, if_true]; rfl
  · simp only [h, decide_false, Bool.false_eq_true, if_false]; rfl

/-- two buffers built by `new` are equal exactly when the strings are: comparing the buffers (what
    `TzAsciiStr::equal` does through `u64::from_ne_bytes`) is comparing the designations -/
theorem buffers_equal_iff_names_equal (i1 i2 : List Nat) (a b : Src.TzAsciiStr)
    (ha : Src.TzAsciiStr.new i1 = .ok a) (hb : Src.TzAsciiStr.new i2 = .ok b) :
    a.bytes = b.bytes ↔ i1 = i2 := by
  constructor
  · intro h
    rw [tz_ascii_str_buffer i1 a ha, tz_ascii_str_buffer i2 b hb] at h
    injection h with hl ht
    exact (List.append_inj ht hl).1
  · intro h
    subst h
    rw [ha] at hb
    cases hb
    rfl

end TzVerif.Proofs.SrcEq
