/-
The translated source equals the model: src/timezone/mod.rs `TzAsciiStr::new`, `LocalTimeType::new`,
`LocalTimeType::with_ut_offset` (C13's local-time-type clause).

The source stores a designation in a length-prefixed 8-byte buffer; the model stores the byte string itself. `nameOf`
reads the string back from the buffer. These equalities justify the meaning the other translated functions give to
`LocalTimeType::new` (the model's constructor) and to `LocalTimeType::equal` (structural equality: `TzAsciiStr::equal`
compares the two buffers as `u64`s, i.e. the buffers, and `buffer_determines_name` / `name_determines_buffer` show that
for buffers built by `new` this is equality of the strings).
-/
import TzVerif.Generated.Src
import TzVerif.Model.TimeZone
import TzVerif.Proofs.SrcEqCal

namespace TzVerif.Proofs.SrcEq
open TzVerif TzVerif.Model TzVerif.Gen

/-- the designation stored in a buffer: `bytes[1 .. 1 + bytes[0]]` -/
def nameOf (a : Src.TzAsciiStr) : List Nat := (a.bytes.drop 1).take (a.bytes.headD 0)

def lttOf (x : Src.LocalTimeTypeSrc) : LocalTimeType :=
  { utOffset := x.utOffset, isDst := x.isDst, name := x.timeZoneDesignation.map nameOf }

/-- the buffer `TzAsciiStr::new` builds: the length, the bytes, zero padding up to 8 -/
theorem tz_ascii_str_buffer (input : List Nat) (a : Src.TzAsciiStr) (h : Src.TzAsciiStr.new input = .ok a) :
    a.bytes = input.length :: (input ++ List.replicate (7 - input.length) 0) := by
  sorry

theorem tz_ascii_str_new_eq (input : List Nat) : (Src.TzAsciiStr.new input).map nameOf = TzAsciiStr.new input := by
  sorry

theorem ltt_new_eq (off : Int) (dst : Bool) (name : Option (List Nat)) :
    (Src.LocalTimeType.new off dst name).map lttOf = LocalTimeType.new off dst name := by
  sorry

theorem ltt_with_ut_offset_eq (off : Int) : (Src.LocalTimeType.with_ut_offset off).map lttOf = LocalTimeType.withUtOffset off := by
  sorry

/-- two buffers built by `new` are equal exactly when the strings are: comparing the buffers (what
    `TzAsciiStr::equal` does through `u64::from_ne_bytes`) is comparing the designations -/
theorem buffers_equal_iff_names_equal (i1 i2 : List Nat) (a b : Src.TzAsciiStr)
    (ha : Src.TzAsciiStr.new i1 = .ok a) (hb : Src.TzAsciiStr.new i2 = .ok b) :
    a.bytes = b.bytes ↔ i1 = i2 := by
  sorry

end TzVerif.Proofs.SrcEq
