/-
The translated source (Generated/Src.lean, regenerated from /repo/src on every run by tools/rs2lean.py)
equals the hand-written model: src/timezone/rule.rs — day notations, the consistency check of
`AlternateTime::new` (C11) and the rule evaluation (C04).

The source keeps `MonthWeekDay` and the check-info records as structures; the model keeps the three
fields of a month-week-day inside `RuleDay.mwd` and has its own records: `jInfo` / `mInfo` convert.
-/
import TzVerif.Generated.Src
import TzVerif.Model.Rule
import TzVerif.Proofs.SrcEqCal

namespace TzVerif.Proofs.SrcEq
open TzVerif TzVerif.Model TzVerif.Gen

def jInfo (c : Src.JulianDayCheckInfos) : JulianDayCheckInfos :=
  { startNormal := c.startNormalYearOffset, endNormal := c.endNormalYearOffset, startLeap := c.startLeapYearOffset, endLeap := c.endLeapYearOffset }

def mInfo (c : Src.MonthWeekDayCheckInfos) : MonthWeekDayCheckInfos :=
  { startNormal := c.startNormalYearOffsetRange, endNormal := c.endNormalYearOffsetRange, startLeap := c.startLeapYearOffsetRange, endLeap := c.endLeapYearOffsetRange }

def mwdOf (x : Src.MonthWeekDay) : RuleDay := .mwd x.month x.week x.weekDay

theorem julian1_new_eq (n : Int) : (Src.Julian1WithoutLeap.new n).map RuleDay.julian1 = RuleDay.newJulian1 n := by
  sorry

theorem julian0_new_eq (n : Int) : (Src.Julian0WithLeap.new n).map RuleDay.julian0 = RuleDay.newJulian0 n := by
  sorry

theorem mwd_new_eq (m w d : Int) : (Src.MonthWeekDay.new m w d).map mwdOf = RuleDay.newMwd m w d := by
  sorry

/-- the binary search of the source returns an index as `Int`; the model's `BS.upper` is a `Nat` -/
theorem julian1_transition_date_eq (n : Int) : Src.Julian1WithoutLeap.transition_date n = julian1TransitionDate n := by
  sorry

theorem julian0_transition_date_eq (n : Int) (leap : Bool) : Src.Julian0WithLeap.transition_date n leap = julian0TransitionDate n leap := by
  sorry

theorem mwd_transition_date_eq (m w d y : Int) :
    Src.MonthWeekDay.transition_date { month := m, week := w, weekDay := d } y = mwdTransitionDate m w d y := by
  sorry

theorem rule_day_transition_date_eq (r : RuleDay) (y : Int) : Src.RuleDay.transition_date r y = r.transitionDate y := by
  sorry

theorem rule_day_unix_time_eq (r : RuleDay) (y t : Int) : Src.RuleDay.unix_time r y t = r.unixTime y t := by
  sorry

theorem julian1_check_infos_eq (n t : Int) : jInfo (Src.Julian1WithoutLeap.compute_check_infos n t) = julian1CheckInfos n t := by
  sorry

theorem julian0_check_infos_eq (n t : Int) : jInfo (Src.Julian0WithLeap.compute_check_infos n t) = julian0CheckInfos n t := by
  sorry

theorem mwd_check_infos_eq (m w d t : Int) :
    mInfo (Src.MonthWeekDay.compute_check_infos { month := m, week := w, weekDay := d } t) = mwdCheckInfos m w t := by
  sorry

theorem check_two_julian_days_eq (a b : Src.JulianDayCheckInfos) :
    Src.check_two_julian_days a b = checkTwoJulianDays (jInfo a) (jInfo b) := by
  sorry

theorem check_month_week_day_and_julian_day_eq (a : Src.MonthWeekDayCheckInfos) (b : Src.JulianDayCheckInfos) :
    Src.check_month_week_day_and_julian_day a b = checkMonthWeekDayAndJulianDay (mInfo a) (jInfo b) := by
  sorry

/-- every arm of the source's nested matches, the `unreachable!()` one included (it yields `true` on both sides) -/
theorem check_two_month_week_days_eq (m1 w1 wd1 t1 m2 w2 wd2 t2 : Int) :
    Src.check_two_month_week_days { month := m1, week := w1, weekDay := wd1 } t1 { month := m2, week := w2, weekDay := wd2 } t2
      = checkTwoMonthWeekDays m1 w1 wd1 t1 m2 w2 wd2 t2 := by
  sorry

theorem check_dst_transition_rules_consistency_eq (std dst : LocalTimeType) (ds : RuleDay) (st : Int) (de : RuleDay) (et : Int) :
    Src.check_dst_transition_rules_consistency std dst ds st de et = checkDstTransitionRulesConsistency std dst ds st de et := by
  sorry

/-- the guard literals -25 / 26 of the source are the regenerated `guard…` constants of the model -/
theorem alternate_new_eq (std dst : LocalTimeType) (ds : RuleDay) (st : Int) (de : RuleDay) (et : Int) :
    Src.AlternateTime.new std dst ds st de et = AlternateTime.new std dst ds st de et := by
  sorry

theorem alternate_find_local_time_type_eq (a : AlternateTime) (u : Int) :
    Src.AlternateTime.find_local_time_type a u = a.findLocalTimeType u := by
  sorry

theorem transition_rule_find_local_time_type_eq (r : TransitionRule) (u : Int) :
    Src.TransitionRule.find_local_time_type r u = r.findLocalTimeType u := by
  sorry

end TzVerif.Proofs.SrcEq
