/-
The translated source (Generated/Src.lean, regenerated from /repo/src on every run by tools/rs2lean.py)
equals the hand-written model: src/timezone/rule.rs — day notations, the consistency check of
`AlternateTime::new` (C11) and the rule evaluation (C04).

The source keeps `MonthWeekDay` and the check-info records as structures; the model keeps the three
fields of a month-week-day inside `RuleDay.mwd` and has its own records: `jInfo` / `mInfo` convert.
-/
import TzVerif.SrcBase
import TzVerif.Model.Rule
import TzVerif.Proofs.SrcEqCal
import TzVerif.Proofs.SrcEqRuleSearch
import TzVerif.Proofs.SrcEqRuleMwd

namespace TzVerif.Proofs.SrcEq
open TzVerif TzVerif.Model TzVerif.Gen

def jInfo (c : Src.JulianDayCheckInfos) : JulianDayCheckInfos :=
  { startNormal := c.startNormalYearOffset, endNormal := c.endNormalYearOffset, startLeap := c.startLeapYearOffset, endLeap := c.endLeapYearOffset }

def mInfo (c : Src.MonthWeekDayCheckInfos) : MonthWeekDayCheckInfos :=
  { startNormal := c.startNormalYearOffsetRange, endNormal := c.endNormalYearOffsetRange, startLeap := c.startLeapYearOffsetRange, endLeap := c.endLeapYearOffsetRange }

def mwdOf (x : Src.MonthWeekDay) : RuleDay := .mwd x.month x.week x.weekDay

theorem julian1_new_eq (n : Int) : (Src.Julian1WithoutLeap.new n).map RuleDay.julian1 = RuleDay.newJulian1 n := by
  unfold Src.Julian1WithoutLeap.new RuleDay.newJulian1 guardJulian1Max
  split <;> rfl

theorem julian0_new_eq (n : Int) : (Src.Julian0WithLeap.new n).map RuleDay.julian0 = RuleDay.newJulian0 n := by
  unfold Src.Julian0WithLeap.new RuleDay.newJulian0 guardJulian0Max
  by_cases h : n > 365 <;> simp [h, Except.map]

theorem mwd_new_eq (m w d : Int) : (Src.MonthWeekDay.new m w d).map mwdOf = RuleDay.newMwd m w d := by
  unfold Src.MonthWeekDay.new RuleDay.newMwd
  split
  · rfl
  · split
    · rfl
    · by_cases h : d > 6 <;> simp [h, Except.map, mwdOf]

/-- the binary search of the source returns an index as `Int`; the model's `BS.upper` is a `Nat` -/
theorem julian1_transition_date_eq (n : Int) : Src.Julian1WithoutLeap.transition_date n = julian1TransitionDate n := by
  unfold Src.Julian1WithoutLeap.transition_date julian1TransitionDate
  show (bsUp (Src.binary_search_i64 CUMUL_DAYS_IN_MONTHS_NORMAL_YEAR (n - 1)),
    n - Src.idx CUMUL_DAYS_IN_MONTHS_NORMAL_YEAR (bsUp (Src.binary_search_i64 CUMUL_DAYS_IN_MONTHS_NORMAL_YEAR (n - 1)) - 1)) = _
  rw [bs_upper_eq]
  rfl

theorem julian0_transition_date_eq (n : Int) (leap : Bool) : Src.Julian0WithLeap.transition_date n leap = julian0TransitionDate n leap := by
  unfold Src.Julian0WithLeap.transition_date julian0TransitionDate
  show (bsUp (Src.binary_search_i64 (if leap then CUMUL_DAYS_IN_MONTHS_LEAP_YEAR else CUMUL_DAYS_IN_MONTHS_NORMAL_YEAR) n),
    1 + n - Src.idx (if leap then CUMUL_DAYS_IN_MONTHS_LEAP_YEAR else CUMUL_DAYS_IN_MONTHS_NORMAL_YEAR)
      (bsUp (Src.binary_search_i64 (if leap then CUMUL_DAYS_IN_MONTHS_LEAP_YEAR else CUMUL_DAYS_IN_MONTHS_NORMAL_YEAR) n) - 1)) = _
  rw [bs_upper_eq]
  rfl

theorem mwd_transition_date_eq (m w d y : Int) :
    Src.MonthWeekDay.transition_date { month := m, week := w, weekDay := d } y = mwdTransitionDate m w d y := by
  unfold Src.MonthWeekDay.transition_date mwdTransitionDate
  simp only [is_leap_year_eq, days_since_unix_epoch_eq, idx_eq_tbl, decide_eq_true_eq]

theorem rule_day_transition_date_eq (r : RuleDay) (y : Int) : Src.RuleDay.transition_date r y = r.transitionDate y := by
  cases r with
  | julian1 n => exact julian1_transition_date_eq n
  | julian0 n =>
    show Src.Julian0WithLeap.transition_date n (Src.is_leap_year y) = julian0TransitionDate n (isLeapYear y)
    rw [is_leap_year_eq, julian0_transition_date_eq]
  | mwd m w d => exact mwd_transition_date_eq m w d y

theorem rule_day_unix_time_eq (r : RuleDay) (y t : Int) : Src.RuleDay.unix_time r y t = r.unixTime y t := by
  unfold Src.RuleDay.unix_time RuleDay.unixTime
  simp only [rule_day_transition_date_eq, days_since_unix_epoch_eq]

theorem julian1_check_infos_eq (n t : Int) : jInfo (Src.Julian1WithoutLeap.compute_check_infos n t) = julian1CheckInfos n t := by
  unfold Src.Julian1WithoutLeap.compute_check_infos julian1CheckInfos jInfo
  simp only [decide_eq_true_eq]

theorem julian0_check_infos_eq (n t : Int) : jInfo (Src.Julian0WithLeap.compute_check_infos n t) = julian0CheckInfos n t := by
  rfl

theorem mwd_check_infos_eq (m w d t : Int) :
    mInfo (Src.MonthWeekDay.compute_check_infos { month := m, week := w, weekDay := d } t) = mwdCheckInfos m w t := by
  unfold Src.MonthWeekDay.compute_check_infos mwdCheckInfos mInfo
  simp only [idx_eq_tbl, decide_eq_true_eq]

theorem check_two_julian_days_eq (a b : Src.JulianDayCheckInfos) :
    Src.check_two_julian_days a b = checkTwoJulianDays (jInfo a) (jInfo b) := by
  unfold Src.check_two_julian_days checkTwoJulianDays jInfo
  by_cases h1 : a.startNormalYearOffset ≤ b.startNormalYearOffset ∧ a.startLeapYearOffset ≤ b.startLeapYearOffset
  · simp [h1]
  · by_cases h2 : b.startNormalYearOffset ≤ a.startNormalYearOffset ∧ b.startLeapYearOffset ≤ a.startLeapYearOffset
    · simp [h1, h2]
    · simp [h1, h2]

theorem check_month_week_day_and_julian_day_eq (a : Src.MonthWeekDayCheckInfos) (b : Src.JulianDayCheckInfos) :
    Src.check_month_week_day_and_julian_day a b = checkMonthWeekDayAndJulianDay (mInfo a) (jInfo b) := by
  unfold Src.check_month_week_day_and_julian_day checkMonthWeekDayAndJulianDay mInfo jInfo
  simp only []

/-- every arm of the source's nested matches, the `unreachable!()` one included (it yields `true` on both sides) -/
theorem check_two_month_week_days_eq (m1 w1 wd1 t1 m2 w2 wd2 t2 : Int) :
    Src.check_two_month_week_days { month := m1, week := w1, weekDay := wd1 } t1 { month := m2, week := w2, weekDay := wd2 } t2
      = checkTwoMonthWeekDays m1 w1 wd1 t1 m2 w2 wd2 t2 := by
  rw [src_check_two_month_week_days_unfold]
  unfold srcSort checkTwoMonthWeekDays
  simp only [show MONTHS_PER_YEAR = 12 from rfl]
  by_cases h0 : (m2 - m1) % 12 = 0
  · by_cases hw : w1 ≤ w2
    · simp [h0, hw, src_tail_eq, tailOfOpt]; rfl
    · simp [h0, hw, src_tail_eq, tailOfOpt]; rfl
  · by_cases h1 : (m2 - m1) % 12 = 1
    · simp [h1, src_tail_eq, tailOfOpt]; rfl
    · by_cases h11 : (m2 - m1) % 12 = 11
      · simp [h11, src_tail_eq, tailOfOpt]; rfl
      · simp [h0, h1, h11]


theorem check_dst_transition_rules_consistency_eq (std dst : LocalTimeType) (ds : RuleDay) (st : Int) (de : RuleDay) (et : Int) :
    Src.check_dst_transition_rules_consistency std dst ds st de et = checkDstTransitionRulesConsistency std dst ds st de et := by
  unfold Src.check_dst_transition_rules_consistency checkDstTransitionRulesConsistency
  cases ds <;> cases de <;>
    simp only [check_two_julian_days_eq, check_month_week_day_and_julian_day_eq, check_two_month_week_days_eq,
      julian1_check_infos_eq, julian0_check_infos_eq, mwd_check_infos_eq]

theorem natAbs_eq_absI (x : Int) : (Int.natAbs x : Int) = absI x := by
  unfold absI; split <;> omega

/-- the guard literals -25 / 26 of the source are the regenerated `guard…` constants of the model -/
theorem alternate_new_eq (std dst : LocalTimeType) (ds : RuleDay) (st : Int) (de : RuleDay) (et : Int) :
    Src.AlternateTime.new std dst ds st de et = AlternateTime.new std dst ds st de et := by
  unfold Src.AlternateTime.new AlternateTime.new
  simp only [check_dst_transition_rules_consistency_eq, natAbs_eq_absI,
    show guardOffsetLowHours = -25 from rfl, show guardOffsetHighHours = 26 from rfl,
    show guardDstOffsetLowHours = -25 from rfl, show guardDstOffsetHighHours = 26 from rfl]

theorem alternate_find_local_time_type_eq (a : AlternateTime) (u : Int) :
    Src.AlternateTime.find_local_time_type a u = a.findLocalTimeType u := by
  unfold Src.AlternateTime.find_local_time_type AlternateTime.findLocalTimeType
  simp only [utc_from_timespec_eq, rule_day_unix_time_eq]
  cases hc : UtcDateTime.fromTimespec u 0 with
  | error e => rfl
  | ok c =>
    simp only [show i32Min + guardYearMarginLow = -2147483648 + 2 from rfl,
      show i32Max - guardYearMarginHigh = 2147483647 - 2 from rfl]
    generalize a.dstStart.unixTime (c.year - 1) (a.dstStartTime - a.std.utOffset) = sPrev
    generalize a.dstEnd.unixTime (c.year - 1) (a.dstEndTime - a.dst.utOffset) = ePrev
    generalize a.dstStart.unixTime c.year (a.dstStartTime - a.std.utOffset) = sCur
    generalize a.dstEnd.unixTime c.year (a.dstEndTime - a.dst.utOffset) = eCur
    generalize a.dstStart.unixTime (c.year + 1) (a.dstStartTime - a.std.utOffset) = sNext
    generalize a.dstEnd.unixTime (c.year + 1) (a.dstEndTime - a.dst.utOffset) = eNext
    unfold alternateIsDst
    by_cases h1 : sCur < eCur
    · have h : sCur ≤ eCur := by omega
      rw [src_cmp_lt h1]; simp only [h, if_true, decide_eq_true_eq]
    · by_cases h2 : sCur = eCur
      · have h : sCur ≤ eCur := by omega
        rw [src_cmp_eq h2]; simp only [h, if_true, decide_eq_true_eq]
      · have h : ¬ sCur ≤ eCur := by omega
        rw [src_cmp_gt h1 h2]; simp only [h, if_false, decide_eq_true_eq]

theorem transition_rule_find_local_time_type_eq (r : TransitionRule) (u : Int) :
    Src.TransitionRule.find_local_time_type r u = r.findLocalTimeType u := by
  cases r with
  | fixed t => rfl
  | alternate a => exact alternate_find_local_time_type_eq a u

end TzVerif.Proofs.SrcEq
