/-
The executable zone semantics used by the driver's oracles (`Spec/Lookup.lean`: `toCountSpec`,
`yearOfDay`, `isDstB`, `ruleExpect`, `zoneExpect`) is the semantics the theorems are about.
INTERFACE used by Properties/C10.lean.
-/
import TzVerif.Model.TimeZone
import TzVerif.Spec.Lookup
import TzVerif.Proofs.Search
import TzVerif.Proofs.SearchRule
import TzVerif.Proofs.ConsistKinds

namespace TzVerif.Proofs
open TzVerif.Model TzVerif.Gen

/-- the rule of the zone is absent, fixed, or a DST rule satisfying C04's hypotheses -/
def ZoneRuleOK (z : TimeZone) : Prop :=
  match z.extraRule with
  | some (.alternate a) => RuleOK a
  | _ => True

/-- instants far enough from the ends of i64 for the leap conversion not to overflow -/
def Inner (u : Int) : Prop := i64Min + 4294967296 ≤ u ∧ u ≤ i64Max - 4294967296

/-- `toCountSpec` ("the largest T with toUtc T ≤ u", by enumeration of the candidates u + c) is the
    forward conversion of the code -/
theorem toCountSpec_eq (ls : List LeapSecond) (hwf : Spec.LeapWF ls) (hr : Spec.LeapInRange ls) (u k : Int)
    (h : unixTimeToUnixLeapTime ls u = .ok k) : Spec.toCountSpec ls u = k := by
  sorry

/-- `yearOfDay` is the civil year: the year whose 1 January is the last one at or before day n -/
theorem yearOfDay_spec (n : Int) :
    Spec.daysBeforeYear (Spec.yearOfDay n) ≤ n ∧ n < Spec.daysBeforeYear (Spec.yearOfDay n + 1) := by
  sorry

/-- the seven-year window of `isDstB` loses nothing -/
theorem isDstB_iff (a : AlternateTime) (ha : RuleOK a) (u : Int) : Spec.isDstB a u = true ↔ Spec.IsDst a u := by
  sorry

/-- the rule's answer is the executable spec's answer -/
theorem ruleExpect_eq (r : TransitionRule)
    (hr : match r with | .alternate a => RuleOK a | .fixed _ => True) (u : Int) :
    r.findLocalTimeType u =
      (match Spec.ruleExpect r u with
       | .type t => .ok t
       | .noAvail => .error .noAvailableLocalTimeType
       | .outOfRange => .error .outOfRange) := by
  sorry

/-- the zone's answer is the executable spec's answer -/
theorem zoneExpect_eq (z : TimeZone) (hz : ZoneOK z) (hl : Spec.LeapInRange z.leapSeconds) (hr : ZoneRuleOK z)
    (u : Int) (hu : Inner u) :
    z.findLocalTimeType u =
      (match Spec.zoneExpect z u with
       | .type t => .ok t
       | .noAvail => .error .noAvailableLocalTimeType
       | .outOfRange => .error .outOfRange) := by
  sorry

end TzVerif.Proofs
