/-
The executable zone semantics used by the driver's oracles (`Spec/Lookup.lean`: `toCountSpec`,
`yearOfDay`, `isDstB`, `ruleExpect`, `zoneExpect`) is the semantics the theorems are about.
INTERFACE used by Properties/C10.lean.
-/
import TzVerif.Model.TimeZone
import TzVerif.Spec.Lookup
import TzVerif.Proofs.Search
import TzVerif.Proofs.SearchRule
import TzVerif.Proofs.ConsistKinds

namespace TzVerif.Proofs
open TzVerif.Model TzVerif.Gen

/-- the rule of the zone is absent, fixed, or a DST rule satisfying C04's hypotheses -/
def ZoneRuleOK (z : TimeZone) : Prop :=
  match z.extraRule with
  | some (.alternate a) => RuleOK a
  | _ => True

/-- instants far enough from the ends of i64 for the leap conversion not to overflow -/
def Inner (u : Int) : Prop := i64Min + 4294967296 ≤ u ∧ u ≤ i64Max - 4294967296

/-! ### the leap scale: maximum over the candidates -/

theorem foldl_max_eq (l : List Int) (start k : Int) (hall : ∀ x ∈ l, x ≤ k) (hs : start ≤ k)
    (hk : k ∈ l ∨ start = k) :
    l.foldl (fun m T => if T > m then T else m) start = k := by
  induction l generalizing start with
  | nil =>
    rcases hk with hk | hk
    · cases hk
    · simpa using hk
  | cons x rest ih =>
    simp only [List.foldl_cons]
    have hx := hall x List.mem_cons_self
    apply ih
    · intro y hy; exact hall y (List.mem_cons_of_mem _ hy)
    · split <;> omega
    · rcases hk with hk | hk
      · rcases List.mem_cons.mp hk with rfl | hk
        · right; split <;> omega
        · left; exact hk
      · right; split <;> omega

theorem leapLoop_cand (u : Int) (ls : List LeapSecond) (est k : Int) (h : leapLoop u ls est = .ok k) :
    k = est ∨ ∃ l ∈ ls, k = u + l.correction := by
  induction ls generalizing est with
  | nil => simp only [leapLoop, Except.ok.injEq] at h; exact Or.inl h.symm
  | cons l rest ih =>
    simp only [leapLoop] at h
    split at h
    · simp only [Except.ok.injEq] at h; exact Or.inl h.symm
    · split at h
      · cases h
      · split at h
        · simp only [Except.ok.injEq] at h; exact Or.inl h.symm
        · rcases ih _ h with h' | ⟨m, hm, h'⟩
          · exact Or.inr ⟨l, List.mem_cons_self, h'⟩
          · exact Or.inr ⟨m, List.mem_cons_of_mem _ hm, h'⟩

/-- `toCountSpec` ("the largest T with toUtc T ≤ u", by enumeration of the candidates u + c) is the
    forward conversion of the code -/
theorem toCountSpec_eq (ls : List LeapSecond) (hwf : Spec.LeapWF ls) (hr : Spec.LeapInRange ls) (u k : Int)
    (h : unixTimeToUnixLeapTime ls u = .ok k) : Spec.toCountSpec ls u = k := by
  have hg := fun T => galois ls hwf u k T h
  have hc := leapLoop_cand u ls u k h
  unfold Spec.toCountSpec
  simp only []
  apply foldl_max_eq
  · intro x hx
    have := (List.mem_filter.mp hx).2
    simp only [decide_eq_true_eq] at this
    exact (hg x).mpr this
  · rcases hc with rfl | ⟨l, hl, rfl⟩
    · omega
    · have := hr l hl
      simp only [i32Min] at this
      omega
  · left
    rw [List.mem_filter]
    refine ⟨?_, ?_⟩
    · rcases hc with rfl | ⟨l, hl, rfl⟩
      · exact List.mem_cons_self
      · exact List.mem_cons_of_mem _ (List.mem_map.mpr ⟨l, hl, rfl⟩)
    · simp only [decide_eq_true_eq]
      exact (hg k).mp (Int.le_refl k)

/-! ### the civil year -/

theorem approx_lo (n : Int) : Spec.daysBeforeYear (1970 + n * 400 / 146097 - 1) ≤ n := by
  unfold Spec.daysBeforeYear
  omega

theorem approx_hi (n : Int) : n < Spec.daysBeforeYear (1970 + n * 400 / 146097 + 2) := by
  unfold Spec.daysBeforeYear
  omega

/-- `yearOfDay` is the civil year: the year whose 1 January is the last one at or before day n -/
theorem yearOfDay_spec (n : Int) :
    Spec.daysBeforeYear (Spec.yearOfDay n) ≤ n ∧ n < Spec.daysBeforeYear (Spec.yearOfDay n + 1) := by
  have h1 := approx_lo n
  have h2 := approx_hi n
  unfold Spec.yearOfDay
  generalize 1970 + n * 400 / 146097 = y at *
  have e1 : y - 1 + 1 = y := by omega
  have e2 : y + 1 + 1 = y + 2 := by omega
  have s0 := daysBeforeYear_mono (y-1) y (by omega)
  have s1 := daysBeforeYear_mono y (y+1) (by omega)
  have s2 := daysBeforeYear_mono (y+1) (y+2) (by omega)
  simp only []
  repeat' split
  all_goals simp only [e1, e2] at *
  all_goals (constructor <;> omega)

/-! ### the DST window -/

theorem approxYear_lo (u : Int) : 86400 * Spec.daysBeforeYear (Spec.approxYear u - 1) ≤ u := by
  unfold Spec.daysBeforeYear Spec.approxYear
  omega

theorem approxYear_hi (u : Int) : u < 86400 * Spec.daysBeforeYear (Spec.approxYear u + 1 + 1) := by
  unfold Spec.daysBeforeYear Spec.approxYear
  omega

theorem any_window (y0 : Int) (p : Int → Bool) :
    ((List.range 7).map (fun (i : Nat) => y0 - 3 + Int.ofNat i)).any p = true ↔
      ∃ y, y0 - 3 ≤ y ∧ y ≤ y0 + 3 ∧ p y = true := by
  simp only [List.any_eq_true, List.mem_map, List.mem_range, Int.ofNat_eq_natCast]
  constructor
  · rintro ⟨y, ⟨i, hi, rfl⟩, hp⟩
    exact ⟨_, by omega, by omega, hp⟩
  · rintro ⟨y, h1, h2, hp⟩
    exact ⟨y, ⟨(y - (y0 - 3)).toNat, by omega, by omega⟩, hp⟩

/-- the seven-year window of `isDstB` loses nothing -/
theorem isDstB_iff (a : AlternateTime) (ha : RuleOK a) (u : Int) : Spec.isDstB a u = true ↔ Spec.IsDst a u := by
  have hs := ha.1
  have hlo := approxYear_lo u
  have hhi := approxYear_hi u
  have hfp := far_past a hs (Spec.approxYear u - 1) u hlo
  have hff := far_future a hs (Spec.approxYear u + 1) u hhi
  unfold Spec.isDstB Spec.IsDst
  simp only []
  generalize Spec.approxYear u = y0 at *
  by_cases hsf : Spec.startFirstB a = true
  · have hSF := (startFirst_iff_B a hs).mpr hsf
    rw [if_pos hsf, any_window]
    simp only [Bool.and_eq_true, decide_eq_true_eq]
    constructor
    · rintro ⟨y, -, -, h1, h2⟩
      exact Or.inl ⟨hSF, y, h1, h2⟩
    · rintro (⟨-, y, h1, h2⟩ | ⟨hn, -⟩)
      · refine ⟨y, ?_, ?_, h1, h2⟩
        · by_cases hc : y ≤ y0 - 1 - 2
          · have := hfp y hc; omega
          · omega
        · by_cases hc : y0 + 1 + 2 ≤ y
          · have := hff y hc; omega
          · omega
      · exact absurd hSF hn
  · have hSF : ¬ Spec.StartFirst a := fun h => hsf ((startFirst_iff_B a hs).mp h)
    rw [if_neg hsf, any_window]
    simp only [Bool.and_eq_true, decide_eq_true_eq]
    constructor
    · rintro ⟨y, -, -, h1, h2⟩
      exact Or.inr ⟨hSF, y, h1, h2⟩
    · rintro (⟨h, -⟩ | ⟨-, y, h1, h2⟩)
      · exact absurd h hSF
      · refine ⟨y, ?_, ?_, h1, h2⟩
        · by_cases hc : y + 1 ≤ y0 - 1 - 2
          · have := hfp (y + 1) hc; omega
          · omega
        · by_cases hc : y0 + 1 + 2 ≤ y
          · have := hff y hc; omega
          · omega

/-! ### the rule -/

/-- the civil year is unique -/
theorem year_unique (n y y' : Int)
    (h : Spec.daysBeforeYear y ≤ n ∧ n < Spec.daysBeforeYear (y + 1))
    (h' : Spec.daysBeforeYear y' ≤ n ∧ n < Spec.daysBeforeYear (y' + 1)) : y = y' := by
  by_cases h1 : y < y'
  · have := daysBeforeYear_mono (y + 1) y' (by omega); omega
  · by_cases h2 : y' < y
    · have := daysBeforeYear_mono (y' + 1) y (by omega); omega
    · omega

theorem fromTimespec_year (u : Int) (c : UtcDateTime) (hc : UtcDateTime.fromTimespec u 0 = .ok c) :
    c.year = Spec.yearOfDay (u / 86400) := by
  obtain ⟨h1, h2⟩ := year_window u c hc
  apply year_unique (u / 86400) _ _ _ (yearOfDay_spec _)
  constructor <;> omega

theorem guard_iff (u : Int) :
    (∃ c, UtcDateTime.fromTimespec u 0 = .ok c ∧ i32Min + 2 ≤ c.year ∧ c.year ≤ i32Max - 2) ↔
      ¬ (Spec.yearOfDay (u / 86400) < i32Min + 2 ∨ Spec.yearOfDay (u / 86400) > i32Max - 2) := by
  constructor
  · rintro ⟨c, hc, h1, h2⟩
    rw [← fromTimespec_year u c hc]
    omega
  · intro h
    obtain ⟨y1, y2⟩ := yearOfDay_spec (u / 86400)
    have m1 := daysBeforeYear_mono i32Min (Spec.yearOfDay (u / 86400)) (by omega)
    have m2 := daysBeforeYear_mono (Spec.yearOfDay (u / 86400) + 1) (i32Max + 1) (by omega)
    rw [dby_min] at m1
    rw [dby_max] at m2
    have hr : MIN_UNIX_TIME ≤ u ∧ u ≤ MAX_UNIX_TIME := by
      rw [c_min, c_max]
      constructor <;> omega
    obtain ⟨c, hc⟩ := (fromTimespec_accepted_iff u 0).mpr hr
    refine ⟨c, hc, ?_⟩
    rw [fromTimespec_year u c hc]
    omega

/-- the rule's answer is the executable spec's answer -/
theorem ruleExpect_eq (r : TransitionRule)
    (hr : match r with | .alternate a => RuleOK a | .fixed _ => True) (u : Int) :
    r.findLocalTimeType u =
      (match Spec.ruleExpect r u with
       | .type t => .ok t
       | .noAvail => .error .noAvailableLocalTimeType
       | .outOfRange => .error .outOfRange) := by
  cases r with
  | fixed t => rfl
  | alternate a =>
    have ha : RuleOK a := hr
    have hg := (alternate_guard a u).trans (guard_iff u)
    show a.findLocalTimeType u = _
    unfold Spec.ruleExpect
    simp only []
    cases hres : a.findLocalTimeType u with
    | error e =>
      have he := alternate_error a u e hres
      subst he
      have : Spec.yearOfDay (u / 86400) < i32Min + 2 ∨ Spec.yearOfDay (u / 86400) > i32Max - 2 := by
        apply Classical.not_not.mp
        intro hn
        obtain ⟨t, ht⟩ := hg.mpr hn
        rw [hres] at ht; cases ht
      rw [if_pos this]
    | ok t =>
      have hn := hg.mp ⟨t, hres⟩
      rw [if_neg hn]
      rcases alternate_correct a ha.1 ha.2.1 ha.2.2 u t hres with ⟨hd, rfl⟩ | ⟨hd, rfl⟩
      · rw [if_pos ((isDstB_iff a ha u).mpr hd)]
      · rw [if_neg (fun h => hd ((isDstB_iff a ha u).mp h))]

/-! ### the zone -/

theorem zoneRule_of (z : TimeZone) (hr : ZoneRuleOK z) (r : TransitionRule) (he : z.extraRule = some r) :
    match (generalizing := false) r with | .alternate a => RuleOK a | .fixed _ => True := by
  unfold ZoneRuleOK at hr
  rw [he] at hr
  cases r with
  | fixed t => trivial
  | alternate a => exact hr

theorem toCount_inner (ls : List LeapSecond) (hr : Spec.LeapInRange ls) (u : Int) (hu : Inner u) :
    ∃ k, unixTimeToUnixLeapTime ls u = .ok k := by
  cases h : unixTimeToUnixLeapTime ls u with
  | ok k => exact ⟨k, rfl⟩
  | error e =>
    exfalso
    have := (toCount_error_only_overflow ls hr u e h).2
    unfold Inner at hu
    omega

/-- the zone's answer is the executable spec's answer -/
theorem zoneExpect_eq (z : TimeZone) (hz : ZoneOK z) (hl : Spec.LeapInRange z.leapSeconds) (hr : ZoneRuleOK z)
    (u : Int) (hu : Inner u) :
    z.findLocalTimeType u =
      (match Spec.zoneExpect z u with
       | .type t => .ok t
       | .noAvail => .error .noAvailableLocalTimeType
       | .outOfRange => .error .outOfRange) := by
  cases hlast : z.transitions.getLast? with
  | none =>
    rw [no_transitions z u (List.getLast?_eq_none_iff.mp hlast)]
    unfold Spec.zoneExpect
    rw [hlast]
    cases he : z.extraRule with
    | none => rfl
    | some r => exact ruleExpect_eq r (zoneRule_of z hr r he) u
  | some last =>
    obtain ⟨L, hL⟩ := toCount_inner _ hl u hu
    rw [table_lookup z hz.1 u L last hlast hL]
    unfold Spec.zoneExpect
    rw [hlast]
    simp only [toCountSpec_eq _ hz.2 hl u L hL]
    split
    · cases he : z.extraRule with
      | none => rfl
      | some r => exact ruleExpect_eq r (zoneRule_of z hr r he) u
    · rfl

end TzVerif.Proofs
