/-
Helper lemmas for C14 (zoned date-times). INTERFACE used by Properties/C14.lean.
-/
import TzVerif.Model.Find
import TzVerif.Spec.Calendar
import TzVerif.Proofs.Calendar

namespace TzVerif.Proofs
open TzVerif.Model TzVerif.Gen

/-- The invariant of every zoned date-time: the fields are a real date and time (second 60 allowed)
    whose second count is (Unix time + UTC offset). Because `Spec.seconds` is linear, second 60
    stands for the first second of the next minute. -/
def Inv (d : DateTime) : Prop :=
  Spec.ValidDate d.year d.month d.monthDay ∧ Spec.ValidTime d.hour d.minute d.second ∧
  Spec.seconds d.year d.month d.monthDay d.hour d.minute d.second = d.unixTime + d.localTimeType.utOffset

/-- what `DateTime::new` must answer -/
def dtNewExpected (y mo d h mi s ns : Int) (l : LocalTimeType) : Except TzError DateTime :=
  if ¬ (1 ≤ mo ∧ mo ≤ 12) then .error (.dateTime .invalidMonth)
  else if ¬ (1 ≤ d ∧ d ≤ 31) then .error (.dateTime .invalidMonthDay)
  else if h > 23 then .error (.dateTime .invalidHour)
  else if mi > 59 then .error (.dateTime .invalidMinute)
  else if s > 60 then .error (.dateTime .invalidSecond)
  else if ns ≥ 1000000000 then .error (.dateTime .invalidNanoseconds)
  else if d > Spec.monthLen y mo then .error (.dateTime .invalidMonthDay)
  else if MIN_UNIX_TIME ≤ Spec.seconds y mo d h mi s - l.utOffset ∧ Spec.seconds y mo d h mi s - l.utOffset ≤ MAX_UNIX_TIME then
    .ok { year := y, month := mo, monthDay := d, hour := h, minute := mi, second := s, localTimeType := l,
          unixTime := Spec.seconds y mo d h mi s - l.utOffset, nanoseconds := ns }
  else .error .outOfRange

theorem dtNew_eq_expected (y mo d h mi s ns : Int) (l : LocalTimeType) :
    DateTime.new y mo d h mi s ns l = dtNewExpected y mo d h mi s ns l := by
  unfold DateTime.new dtNewExpected
  rw [checkInputs_eq]
  by_cases h1 : ¬ (1 ≤ mo ∧ mo ≤ 12)
  · rw [if_pos h1, if_pos h1]
  rw [if_neg h1, if_neg h1]
  by_cases h2 : ¬ (1 ≤ d ∧ d ≤ 31)
  · rw [if_pos h2, if_pos h2]
  rw [if_neg h2, if_neg h2]
  by_cases h3 : h > 23
  · rw [if_pos h3, if_pos h3]
  rw [if_neg h3, if_neg h3]
  by_cases h4 : mi > 59
  · rw [if_pos h4, if_pos h4]
  rw [if_neg h4, if_neg h4]
  by_cases h5 : s > 60
  · rw [if_pos h5, if_pos h5]
  rw [if_neg h5, if_neg h5]
  by_cases h6 : ns ≥ 1000000000
  · rw [if_pos h6, if_pos h6]
  rw [if_neg h6, if_neg h6]
  by_cases h7 : d > Spec.monthLen y mo
  · rw [if_pos h7, if_pos h7]
  rw [if_neg h7, if_neg h7]
  have hm : 1 ≤ mo ∧ mo ≤ 12 := Classical.not_not.mp h1
  dsimp only
  rw [unixTime_eq_seconds y mo d h mi s hm]
  unfold checkUnixTime
  by_cases h8 : MIN_UNIX_TIME ≤ Spec.seconds y mo d h mi s - l.utOffset ∧ Spec.seconds y mo d h mi s - l.utOffset ≤ MAX_UNIX_TIME
  · rw [if_pos h8, if_pos h8]
  · rw [if_neg h8, if_neg h8]

theorem dtNew_inv (y mo d h mi s ns : Int) (l : LocalTimeType) (x : DateTime) (hh : 0 ≤ h) (hmi : 0 ≤ mi) (hs : 0 ≤ s)
    (hx : DateTime.new y mo d h mi s ns l = .ok x) :
    Inv x ∧ x.nanoseconds = ns ∧ x.localTimeType = l ∧ MIN_UNIX_TIME ≤ x.unixTime ∧ x.unixTime ≤ MAX_UNIX_TIME ∧
    x.year = y ∧ x.month = mo ∧ x.monthDay = d ∧ x.hour = h ∧ x.minute = mi ∧ x.second = s := by
  rw [dtNew_eq_expected] at hx
  unfold dtNewExpected at hx
  have := monthLen_le y mo
  repeat' split at hx
  all_goals try contradiction
  injection hx with hx
  subst hx
  unfold Inv Spec.ValidDate Spec.ValidTime
  dsimp only
  refine ⟨⟨by omega, by omega, by omega⟩, rfl, rfl, by omega, by omega, rfl, rfl, rfl, rfl, rfl, rfl⟩

theorem fromTimespecAndLocal_inv (u ns : Int) (l : LocalTimeType) (x : DateTime)
    (hx : DateTime.fromTimespecAndLocal u ns l = .ok x) :
    Inv x ∧ x.unixTime = u ∧ x.nanoseconds = ns ∧ x.localTimeType = l ∧ x.second ≤ 59 ∧
    MIN_UNIX_TIME ≤ u + l.utOffset ∧ u + l.utOffset ≤ MAX_UNIX_TIME := by
  unfold DateTime.fromTimespecAndLocal at hx
  dsimp only at hx
  split at hx
  · cases hx
  · split at hx
    · cases hx
    · rename_i c hc
      injection hx with hx
      subst hx
      obtain ⟨hv, h1, h2, h3, h4, h5, h6, hs, hn, -, -⟩ := fromTimespec_fields _ _ c hc
      have hb := (fromTimespec_accepted_iff (u + l.utOffset) ns).1 ⟨c, hc⟩
      unfold Inv Spec.ValidTime
      dsimp only
      exact ⟨⟨hv, ⟨h1, h2, h3, h4, h5, by omega⟩, hs⟩, rfl, hn, rfl, h6, hb.1, hb.2⟩

theorem fromTimespecAndLocal_accepts (u ns : Int) (l : LocalTimeType)
    (h : MIN_UNIX_TIME ≤ u + l.utOffset ∧ u + l.utOffset ≤ MAX_UNIX_TIME) :
    ∃ x, DateTime.fromTimespecAndLocal u ns l = .ok x := by
  obtain ⟨c, hc⟩ := (fromTimespec_accepted_iff (u + l.utOffset) ns).2 h
  unfold DateTime.fromTimespecAndLocal
  dsimp only
  have hr : i64Min ≤ u + l.utOffset ∧ u + l.utOffset ≤ i64Max := by
    rw [c_min, c_max] at h
    rw [c_i64min, c_i64max]
    omega
  rw [if_neg (not_not_intro hr), hc]
  exact ⟨_, rfl⟩

theorem fromTimespec_inv (u ns : Int) (z : TimeZone) (x : DateTime) (hx : DateTime.fromTimespec u ns z = .ok x) :
    Inv x ∧ x.unixTime = u ∧ x.nanoseconds = ns := by
  unfold DateTime.fromTimespec at hx
  split at hx
  · cases hx
  · obtain ⟨h1, h2, h3, -⟩ := fromTimespecAndLocal_inv _ _ _ _ hx
    exact ⟨h1, h2, h3⟩

theorem project_inv (d : DateTime) (z : TimeZone) (x : DateTime) (hx : d.project z = .ok x) :
    Inv x ∧ x.unixTime = d.unixTime ∧ x.nanoseconds = d.nanoseconds ∧ d.beq x = true ∧ d.cmp x = 0 := by
  unfold DateTime.project at hx
  obtain ⟨h1, h2, h3⟩ := fromTimespec_inv _ _ _ _ hx
  refine ⟨h1, h2, h3, ?_, ?_⟩
  · unfold DateTime.beq
    rw [h2, h3]
    simp
  · unfold DateTime.cmp
    rw [h2, h3]
    simp

theorem totalSplit_range (n s r : Int) (h : totalNanosecondsToTimespec n = .ok (s, r)) :
    0 ≤ r ∧ r < 1000000000 ∧ s * 1000000000 + r = n := by
  unfold totalNanosecondsToTimespec tryIntoI64 at h
  rw [c_nps] at h
  split at h
  · rename_i s' hs'
    split at hs'
    · injection hs' with hs'
      injection h with h
      injection h with ha hb
      subst hs' ha hb
      omega
    · cases hs'
  · cases h

theorem fromTotal_inv (n : Int) (z : TimeZone) (x : DateTime) (hx : DateTime.fromTotalNanoseconds n z = .ok x) :
    Inv x ∧ x.unixTime * 1000000000 + x.nanoseconds = n ∧ 0 ≤ x.nanoseconds ∧ x.nanoseconds < 1000000000 := by
  unfold DateTime.fromTotalNanoseconds at hx
  split at hx
  · rename_i s r hsr
    obtain ⟨h1, h2, h3⟩ := fromTimespec_inv _ _ _ _ hx
    obtain ⟨a, b, c⟩ := totalSplit_range n s r hsr
    rw [h2, h3]
    exact ⟨h1, c, a, b⟩
  · cases hx

theorem fromTotalLocal_inv (n : Int) (l : LocalTimeType) (x : DateTime)
    (hx : DateTime.fromTotalNanosecondsAndLocal n l = .ok x) :
    Inv x ∧ x.unixTime * 1000000000 + x.nanoseconds = n ∧ 0 ≤ x.nanoseconds ∧ x.nanoseconds < 1000000000 ∧ x.localTimeType = l := by
  unfold DateTime.fromTotalNanosecondsAndLocal at hx
  split at hx
  · rename_i s r hsr
    obtain ⟨h1, h2, h3, h4, -⟩ := fromTimespecAndLocal_inv _ _ _ _ hx
    obtain ⟨a, b, c⟩ := totalSplit_range n s r hsr
    rw [h2, h3]
    exact ⟨h1, c, a, b, h4⟩
  · cases hx

/-! ### loop invariants of the search -/

theorem mem_append_singleton {P : Found → Prop} {acc : List Found} {x : Found}
    (hacc : ∀ f ∈ acc, P f) (hx : P x) : ∀ f ∈ acc ++ [x], P f := by
  intro f hf
  rcases List.mem_append.1 hf with h | h
  · exact hacc f h
  · rw [List.mem_singleton.1 h]; exact hx

theorem findTransitionsLoop_inv (P : Found → Prop) (z : TimeZone) (mk : LocalTimeType → Int → DateTime)
    (ns utc : Int) (hasRule : Bool)
    (hmk : ∀ idx ut ult, getTime z utc idx = .ok (ut, ult) → checkUnixTime ut = .ok () →
      P (.normal (mk (z.localTimeTypes.getD idx default) ut)))
    (hsk : ∀ t l1 l2 b a, DateTime.fromTimespecAndLocal t ns l1 = .ok b →
      DateTime.fromTimespecAndLocal t ns l2 = .ok a → P (.skipped b a)) :
    ∀ (trs : List Transition) (prevTime : Int) (prevIdx : Nat) (acc rs : List Found),
      (∀ f ∈ acc, P f) →
      findTransitionsLoop z mk ns utc hasRule trs prevTime prevIdx acc = .ok rs → ∀ f ∈ rs, P f := by
  intro trs
  induction trs with
  | nil =>
    intro prevTime prevIdx acc rs hacc h
    unfold findTransitionsLoop at h
    injection h with h
    subst h
    exact hacc
  | cons tr rest ih =>
    intro prevTime prevIdx acc rs hacc h
    unfold findTransitionsLoop at h
    dsimp only at h
    split at h
    · cases h
    · rename_i utB ultB hgB
      split at h
      · split at h
        · cases h
        · rename_i hchk
          exact ih _ _ _ _ (mem_append_singleton hacc (hmk _ _ _ hgB hchk)) h
      · split at h
        · split at h
          · cases h
          · split at h
            · split at h
              · cases h
              · split at h
                · cases h
                · split at h
                  · cases h
                  · rename_i b hb _ a ha
                    exact ih _ _ _ _ (mem_append_singleton hacc (hsk _ _ _ _ _ hb ha)) h
            · exact ih _ _ _ _ hacc h
        · exact ih _ _ _ _ hacc h

theorem findRuleLoop_inv (P : Found → Prop) (mk : LocalTimeType → Int → DateTime) (ns : Int)
    (Q : RuleStep → Prop)
    (hmk : ∀ st, Q st → P (.normal (mk st.before st.utBefore)))
    (hsk : ∀ t l1 l2 b a, DateTime.fromTimespecAndLocal t ns l1 = .ok b →
      DateTime.fromTimespecAndLocal t ns l2 = .ok a → P (.skipped b a)) :
    ∀ (l : List (Int × RuleStep)) (prev : Int) (acc rs : List Found),
      (∀ x ∈ l, Q x.2) → (∀ f ∈ acc, P f) →
      findRuleLoop mk ns l prev acc = .ok rs → ∀ f ∈ rs, P f := by
  intro l
  induction l with
  | nil =>
    intro prev acc rs _ hacc h
    unfold findRuleLoop at h
    injection h with h
    subst h
    exact hacc
  | cons x rest ih =>
    intro prev acc rs hl hacc h
    obtain ⟨t, st⟩ := x
    have hq : Q st := hl (t, st) (List.mem_cons_self ..)
    have hl' : ∀ x ∈ rest, Q x.2 := fun x hx => hl x (List.mem_cons_of_mem _ hx)
    unfold findRuleLoop at h
    split at h
    · exact ih _ _ _ hl' (mem_append_singleton hacc (hmk st hq)) h
    · split at h
      · split at h
        · cases h
        · split at h
          · cases h
          · rename_i b hb _ a ha
            exact ih _ _ _ hl' (mem_append_singleton hacc (hsk _ _ _ _ _ hb ha)) h
      · exact ih _ _ _ hl' hacc h

theorem mem_dropUntil (prev : Int) (l : List (Int × RuleStep)) :
    ∀ x ∈ dropUntil prev l, x ∈ l := by
  induction l with
  | nil => intro x hx; unfold dropUntil at hx; exact hx
  | cons a rest ih =>
    intro x hx
    obtain ⟨t, st⟩ := a
    unfold dropUntil at hx
    split at hx
    · exact hx
    · exact List.mem_cons_of_mem _ (ih x hx)

/-- the property claimed for every entry returned by the search -/
def EntryOK (y mo d h mi s ns : Int) (f : Found) : Prop :=
  match f with
  | .normal x => Inv x ∧ x.nanoseconds = ns ∧ MIN_UNIX_TIME ≤ x.unixTime ∧ x.unixTime ≤ MAX_UNIX_TIME ∧
      x.year = y ∧ x.month = mo ∧ x.monthDay = d ∧ x.hour = h ∧ x.minute = mi ∧ x.second = s
  | .skipped b a => Inv b ∧ Inv a ∧ b.unixTime = a.unixTime ∧ b.nanoseconds = ns ∧ a.nanoseconds = ns

theorem checkInputs_ok (y mo d h mi s ns : Int) (u : Unit) (hc : checkDateTimeInputs y mo d h mi s ns = .ok u) :
    1 ≤ mo ∧ mo ≤ 12 ∧ 1 ≤ d ∧ d ≤ Spec.monthLen y mo ∧ h ≤ 23 ∧ mi ≤ 59 ∧ s ≤ 60 := by
  rw [checkInputs_eq] at hc
  repeat' split at hc
  all_goals try contradiction
  omega

theorem checkUnixTime_ok (t : Int) (u : Unit) (hc : checkUnixTime t = .ok u) :
    MIN_UNIX_TIME ≤ t ∧ t ≤ MAX_UNIX_TIME := by
  unfold checkUnixTime at hc
  split at hc
  · assumption
  · cases hc

theorem getTime_ok (z : TimeZone) (utc : Int) (idx : Nat) (ut ult : Int) (hg : getTime z utc idx = .ok (ut, ult)) :
    ut = utc - (z.localTimeTypes.getD idx default).utOffset := by
  unfold getTime at hg
  dsimp only at hg
  split at hg
  · cases hg
  · injection hg with hg
    injection hg with h1 h2
    exact h1.symm

theorem entryOK_mk (y mo d h mi s ns : Int) (hh : 0 ≤ h) (hmi : 0 ≤ mi) (hs : 0 ≤ s) (u : Unit)
    (hc : checkDateTimeInputs y mo d h mi s ns = .ok u) (ltt : LocalTimeType) (ut : Int)
    (hut : ut = unixTime y mo d h mi s - ltt.utOffset) (hr : MIN_UNIX_TIME ≤ ut ∧ ut ≤ MAX_UNIX_TIME) :
    EntryOK y mo d h mi s ns (.normal (mkDateTime y mo d h mi s ns ltt ut)) := by
  obtain ⟨a1, a2, a3, a4, a5, a6, a7⟩ := checkInputs_ok _ _ _ _ _ _ _ _ hc
  rw [unixTime_eq_seconds y mo d h mi s ⟨a1, a2⟩] at hut
  unfold EntryOK mkDateTime Inv Spec.ValidDate Spec.ValidTime
  dsimp only
  refine ⟨⟨⟨a1, a2, a3, a4⟩, ⟨hh, a5, hmi, a6, hs, a7⟩, by omega⟩, rfl, hr.1, hr.2, rfl, rfl, rfl, rfl, rfl, rfl⟩

theorem entryOK_skipped (y mo d h mi s ns : Int) (t : Int) (l1 l2 : LocalTimeType) (b a : DateTime)
    (hb : DateTime.fromTimespecAndLocal t ns l1 = .ok b) (ha : DateTime.fromTimespecAndLocal t ns l2 = .ok a) :
    EntryOK y mo d h mi s ns (.skipped b a) := by
  obtain ⟨b1, b2, b3, -⟩ := fromTimespecAndLocal_inv _ _ _ _ hb
  obtain ⟨a1, a2, a3, -⟩ := fromTimespecAndLocal_inv _ _ _ _ ha
  unfold EntryOK
  exact ⟨b1, a1, by rw [b2, a2], b3, a3⟩

theorem steps_mem (c : Prop) [Decidable c] (tS tE x : RuleStep)
    (hx : x ∈ (if c then [tS, tE, tS, tE, tS, tE, tS] else [tE, tS, tE, tS, tE, tS, tE])) :
    x = tS ∨ x = tE := by
  split at hx <;> simp only [List.mem_cons, List.not_mem_nil, or_false] at hx <;>
    rcases hx with h | h | h | h | h | h | h <;> simp [h]

/-- every entry returned by the search, gap entries included -/
theorem find_entries_inv (y mo d h mi s ns : Int) (z : TimeZone) (rs : List Found) (hh : 0 ≤ h) (hmi : 0 ≤ mi) (hs : 0 ≤ s)
    (hr : findDateTime y mo d h mi s ns z = .ok rs) :
    ∀ f ∈ rs, match f with
      | .normal x => Inv x ∧ x.nanoseconds = ns ∧ MIN_UNIX_TIME ≤ x.unixTime ∧ x.unixTime ≤ MAX_UNIX_TIME ∧
          x.year = y ∧ x.month = mo ∧ x.monthDay = d ∧ x.hour = h ∧ x.minute = mi ∧ x.second = s
      | .skipped b a => Inv b ∧ Inv a ∧ b.unixTime = a.unixTime ∧ b.nanoseconds = ns ∧ a.nanoseconds = ns := by
  suffices hP : ∀ f ∈ rs, EntryOK y mo d h mi s ns f by
    intro f hf
    have := hP f hf
    cases f <;> exact this
  unfold findDateTime at hr
  split at hr
  · split at hr
    · cases hr
    · rename_i x hx
      injection hr with hr
      subst hr
      intro f hf
      rw [List.mem_singleton.1 hf]
      obtain ⟨h1, h2, -, h3⟩ := dtNew_inv _ _ _ _ _ _ _ _ _ hh hmi hs hx
      exact ⟨h1, h2, h3⟩
  · dsimp only at hr
    split at hr
    · cases hr
    · rename_i hc
      have hmk : ∀ (ltt : LocalTimeType) (ut : Int), ut = unixTime y mo d h mi s - ltt.utOffset →
          ∀ u : Unit, checkUnixTime ut = .ok u →
          EntryOK y mo d h mi s ns (.normal (mkDateTime y mo d h mi s ns ltt ut)) :=
        fun ltt ut hut u hcu => entryOK_mk y mo d h mi s ns hh hmi hs _ hc ltt ut hut (checkUnixTime_ok _ _ hcu)
      have hsk := entryOK_skipped y mo d h mi s ns
      split at hr
      · cases hr
      · rename_i acc hloop
        have hacc : ∀ f ∈ acc, EntryOK y mo d h mi s ns f :=
          findTransitionsLoop_inv (EntryOK y mo d h mi s ns) z _ ns _ _
            (fun idx ut ult hg hcu => hmk _ _ (getTime_ok _ _ _ _ _ hg) _ hcu) hsk _ _ _ [] acc
            (fun f hf => absurd hf List.not_mem_nil) hloop
        split at hr
        · injection hr with hr
          subst hr
          exact hacc
        · split at hr
          · cases hr
          · injection hr with hr
            subst hr
            exact hacc
          · split at hr
            · cases hr
            · rename_i hcu
              injection hr with hr
              subst hr
              exact mem_append_singleton hacc (hmk _ _ rfl _ hcu)
        · rename_i a _
          split at hr
          · cases hr
          · rename_i hcS
            split at hr
            · cases hr
            · rename_i hcD
              split at hr
              · cases hr
              · split at hr
                · cases hr
                · refine findRuleLoop_inv (EntryOK y mo d h mi s ns) _ ns
                    (fun st => (st.before = a.std ∧ st.utBefore = unixTime y mo d h mi s - a.std.utOffset) ∨
                      (st.before = a.dst ∧ st.utBefore = unixTime y mo d h mi s - a.dst.utOffset))
                    ?_ hsk _ _ acc rs ?_ hacc hr
                  · intro st hst
                    rcases hst with ⟨e1, e2⟩ | ⟨e1, e2⟩
                    · rw [e1, e2]; exact hmk _ _ rfl _ hcS
                    · rw [e1, e2]; exact hmk _ _ rfl _ hcD
                  · intro x hx
                    have hx2 := (List.of_mem_zip (mem_dropUntil _ _ x hx)).2
                    rcases steps_mem _ _ _ _ hx2 with e | e
                    · rw [e]; exact Or.inl ⟨rfl, rfl⟩
                    · rw [e]; exact Or.inr ⟨rfl, rfl⟩

theorem beq_iff (a b : DateTime) : a.beq b = true ↔ (a.unixTime = b.unixTime ∧ a.nanoseconds = b.nanoseconds) := by
  unfold DateTime.beq
  simp only [Bool.and_eq_true, beq_iff_eq]

theorem cmp_spec (a b : DateTime) :
    (a.cmp b = -1 ↔ (a.unixTime < b.unixTime ∨ (a.unixTime = b.unixTime ∧ a.nanoseconds < b.nanoseconds))) ∧
    (a.cmp b = 0 ↔ (a.unixTime = b.unixTime ∧ a.nanoseconds = b.nanoseconds)) ∧
    (a.cmp b = 1 ↔ (a.unixTime > b.unixTime ∨ (a.unixTime = b.unixTime ∧ a.nanoseconds > b.nanoseconds))) := by
  unfold DateTime.cmp
  refine ⟨?_, ?_, ?_⟩ <;> (repeat' split) <;> omega

end TzVerif.Proofs
