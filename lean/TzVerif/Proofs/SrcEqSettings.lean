/-
The translated source equals the model: src/timezone/mod.rs `TimeZoneSettings::{read_tz_file, parse_posix_tz, parse_local}`
(C20). The translation threads the log of the paths handed to the injected file-reading function; the model returns
the list of paths requested next to the result. `fsOf` reads the model's virtual file system off the injected function.
-/
import TzVerif.SrcBase
import TzVerif.Model.TzFile
import TzVerif.Proofs.SrcEqTzFile
import TzVerif.Proofs.SrcEqTzFileAux
import TzVerif.Proofs.SrcEqTzString

namespace TzVerif.Proofs.SrcEq
open TzVerif TzVerif.Model

/-- the virtual file system the injected function is: readable paths and their content -/
def fsOf (s : Src.TimeZoneSettings) : Bytes → Option Bytes := fun p => Src.res_ok (s.readFileFn p)

/-- `Result<Vec<u8>, Error>` of a lookup whose only failure is the I/O error -/
def ioResult : Option Bytes → Except Error Bytes
  | some b => .ok b
  | none => .error .io

theorem find_map_io_go (s : Src.TimeZoneSettings) (tz : Bytes) (ds : List Bytes) (io acc : List Bytes) :
    Src.find_map_io (fun folder io =>
        (Src.res_ok (Src.res_map_err (fun _ => Error.io) (s.readFileFn (folder ++ [47] ++ tz))), io ++ [folder ++ [47] ++ tz])) ds (io ++ acc)
      = ((readTzFile.go (fsOf s) tz ds acc).2, io ++ (readTzFile.go (fsOf s) tz ds acc).1) := by
  induction ds generalizing acc with
  | nil => simp [Src.find_map_io, readTzFile.go]
  | cons d ds ih =>
    simp only [Src.find_map_io, readTzFile.go, fsOf]
    cases h : s.readFileFn (d ++ [47] ++ tz) with
    | ok b => simp [Src.res_ok, Src.res_map_err, List.append_assoc]
    | error e =>
      simp only [Src.res_ok, Src.res_map_err]
      have := ih (acc ++ [d ++ [47] ++ tz])
      simp only [List.append_assoc] at this ⊢
      exact this

theorem read_tz_file_eq (s : Src.TimeZoneSettings) (tz : Bytes) (io : List Bytes) :
    Src.TimeZoneSettings.read_tz_file s tz io =
      (ioResult (readTzFile s.directories (fsOf s) tz).2, io ++ (readTzFile s.directories (fsOf s) tz).1) := by
  unfold Src.TimeZoneSettings.read_tz_file readTzFile
  by_cases h : (tz.head? == some 47) = true
  · simp only [h, if_true, Src.call_io, fsOf]
    cases s.readFileFn tz <;> simp [Src.res_map_err, Src.res_ok, ioResult]
  · simp only [h, if_false, Bool.false_eq_true, Src.call_io]
    have := find_map_io_go s tz s.directories io []
    simp only [List.append_nil] at this
    rw [this]
    cases (readTzFile.go (fsOf s) tz s.directories []).2 <;> simp [Src.ok_or_else, ioResult]

/-- the first scalar of well-formed UTF-8 is ':' exactly when its first byte is 58 -/
theorem chars_next_colon (rest : Bytes) : Src.str_chars_next (58 :: rest) = (some 58, rest) := by
  simp [Src.str_chars_next]

theorem chars_next_not_colon (tz : Bytes) (h : validUtf8 tz = true) (hc : tz.head? ≠ some 58) :
    (Src.str_chars_next tz).1 ≠ some 58 := by
  rcases tz with _ | ⟨b0, rest⟩
  · simp [Src.str_chars_next]
  · simp only [List.head?_cons, ne_eq, Option.some.injEq] at hc
    unfold validUtf8 at h
    unfold Src.str_chars_next
    by_cases h1 : b0 < 128
    · simp [h1, hc]
    · simp only [h1, if_false] at h
      have h1' : ¬ b0 < 0x80 := h1
      simp only [h1', if_false]
      by_cases h2 : (194 ≤ b0 && b0 ≤ 223) = true
      · simp only [h2, if_true] at h
        have : b0 < 0xE0 := by simp at h2; omega
        simp only [this, if_true, ne_eq, Option.some.injEq]
        simp at h2; omega
      · simp only [h2, if_false, Bool.false_eq_true] at h
        by_cases h3 : (224 ≤ b0 && b0 ≤ 239) = true
        · simp only [h3, if_true] at h
          have g1 : ¬ b0 < 0xE0 := by simp at h3; omega
          have g2 : b0 < 0xF0 := by simp at h3; omega
          simp only [g1, g2, if_true, if_false, ne_eq, Option.some.injEq]
          rcases rest with _ | ⟨b1, _ | ⟨b2, rest⟩⟩
          · simp at h
          · simp at h
          · simp only [List.headD_cons, List.drop_succ_cons, List.drop_zero] at *
            simp at h h3
            by_cases h0 : b0 = 224
            · subst h0; simp at h; omega
            · have : b0 ≥ 225 := by omega
              omega
        · simp only [h3, if_false, Bool.false_eq_true] at h
          by_cases h4 : (240 ≤ b0 && b0 ≤ 244) = true
          · simp only [h4, if_true] at h
            have g1 : ¬ b0 < 0xE0 := by simp at h4; omega
            have g2 : ¬ b0 < 0xF0 := by simp at h4; omega
            simp only [g1, g2, if_false, ne_eq, Option.some.injEq]
            rcases rest with _ | ⟨b1, _ | ⟨b2, _ | ⟨b3, rest⟩⟩⟩
            · simp at h
            · simp at h
            · simp at h
            · simp only [List.headD_cons, List.drop_succ_cons, List.drop_zero] at *
              simp at h h4
              by_cases h0 : b0 = 240
              · subst h0; simp at h; omega
              · have : b0 ≥ 241 := by omega
                omega
          · simp [h4] at h

theorem settings_parse_posix_tz_eq (s : Src.TimeZoneSettings) (tz : Bytes) (io : List Bytes) (h : validUtf8 tz = true) :
    Src.TimeZoneSettings.parse_posix_tz s tz io =
      ((resolveTz s.directories (fsOf s) tz).2, io ++ (resolveTz s.directories (fsOf s) tz).1) := by
  have htrim : ∀ f, Src.str_trim_matches (fun c => Src.char_is_ascii_whitespace c) f = trimAsciiWhitespace f := fun _ => rfl
  unfold Src.TimeZoneSettings.parse_posix_tz resolveTz
  by_cases he : tz.isEmpty = true
  · simp [he]
  · simp only [he, if_false, Bool.false_eq_true]
    have hl2 : localtimeBytes = [108, 111, 99, 97, 108, 116, 105, 109, 101] := rfl
    have hp : etcLocaltimeBytes = [47, 101, 116, 99, 47, 108, 111, 99, 97, 108, 116, 105, 109, 101] := rfl
    by_cases hl : tz = [108, 111, 99, 97, 108, 116, 105, 109, 101]
    · subst hl
      simp only [hl2, hp, decide_true, if_true, Src.call_io, parse_tz_file_eq, fsOf]
      cases s.readFileFn [47, 101, 116, 99, 47, 108, 111, 99, 97, 108, 116, 105, 109, 101] with
      | error e => simp [Src.res_map_err, Src.res_ok]
      | ok b =>
        simp only [Src.res_map_err, Src.res_ok]
        cases parseTzFile b <;> simp [liftTz]
    · simp only [hl, hl2, decide_false, if_false, Bool.false_eq_true]
      rcases tz with _ | ⟨b0, rest⟩
      · simp at he
      · by_cases hb : b0 = 58
        · subst hb
          simp only [chars_next_colon, beq_self_eq_true, if_true, read_tz_file_eq, parse_tz_file_eq]
          rcases hr : readTzFile s.directories (fsOf s) rest with ⟨paths, o⟩
          cases o with
          | none => simp [ioResult]
          | some b => simp only [ioResult]; cases parseTzFile b <;> simp [liftTz]
        · have hne := chars_next_not_colon (b0 :: rest) h (by simp [hb])
          have hf : ((Src.str_chars_next (b0 :: rest)).1 == some 58) = false := by simpa using hne
          simp only [hf, if_false, Bool.false_eq_true, read_tz_file_eq, parse_tz_file_eq, htrim, parse_posix_tz_eq, zone_new_eq']
          rcases hr : readTzFile s.directories (fsOf s) (b0 :: rest) with ⟨paths, o⟩
          cases o with
          | some b => simp only [ioResult]; cases parseTzFile b <;> simp [liftTz, hb]
          | none =>
            simp only [ioResult]
            cases parsePosixTz (trimAsciiWhitespace (b0 :: rest)) false with
            | error e => simp [hb]
            | ok rule =>
              cases rule with
              | fixed t => simp only []; cases TimeZone.new [] [t] [] (some (.fixed t)) <;> simp [liftTz, hb]
              | alternate a => simp only []; cases TimeZone.new [] [a.std, a.dst] [] (some (.alternate a)) <;> simp [liftTz, hb]

theorem parse_local_eq (s : Src.TimeZoneSettings) (io : List Bytes) :
    Src.TimeZoneSettings.parse_local s io =
      ((resolveTz s.directories (fsOf s) localtimeBytes).2, io ++ (resolveTz s.directories (fsOf s) localtimeBytes).1) := by
  unfold Src.TimeZoneSettings.parse_local
  have : ([108, 111, 99, 97, 108, 116, 105, 109, 101] : Bytes) = localtimeBytes := rfl
  rw [this, settings_parse_posix_tz_eq s localtimeBytes io (by decide)]
  cases (resolveTz s.directories (fsOf s) localtimeBytes).2 <;> rfl

end TzVerif.Proofs.SrcEq
