/-
Helper lemmas for SrcEqTzFile.lean: the constructor's checks agree with the model for every list of leap
records (no range hypothesis on the corrections), chunking, the loops of `DataBlocks::parse`.
-/
import TzVerif.SrcBase
import TzVerif.Model.TzFile
import TzVerif.Proofs.SrcEqTzString
import TzVerif.Proofs.SrcEqZone

namespace TzVerif.Proofs.SrcEq
open TzVerif TzVerif.Model TzVerif.Gen

/-! ### `TimeZoneRef::new` without the range hypothesis -/

/-- the test `saturating_abs(c) == 1` does not see the difference between the unbounded and the typed value -/
theorem sat_i32_natAbs_eq_one (c : Int) :
    decide (Src.sat_i32 ((Int.natAbs c : Nat) : Int) = 1) = (satAbsI32 c == 1) := by
  by_cases h : -2147483648 ≤ c ∧ c ≤ 2147483647
  · rw [sat_i32_natAbs c h]; rfl
  · have e : (satAbsI32 c == 1) = decide (satAbsI32 c = 1) := rfl
    rw [e]
    apply decide_eq_decide.mpr
    unfold Src.sat_i32 Src.satS satAbsI32 absI i32Min i32Max
    rw [show ((2:Int)^(32-1)) = 2147483648 from by decide]
    split
    · omega
    · split
      · split
        · omega
        · split <;> omega
      · omega

theorem check_inputs_eq' (z : TimeZone) : Src.TimeZoneRef.check_inputs z = z.checkInputs := by
  unfold Src.TimeZoneRef.check_inputs TimeZone.checkInputs
  dsimp only
  by_cases h0 : z.localTimeTypes.length = 0
  · have h0' : (z.localTimeTypes.length : Int) = 0 := by omega
    rw [if_pos h0, if_pos (by simp only [decide_eq_true_eq]; exact h0')]
  · have h0' : ¬ (z.localTimeTypes.length : Int) = 0 := by omega
    rw [if_neg h0, if_neg (by simp only [decide_eq_true_eq]; exact h0')]
    generalize hr1 : Src.loopR (Int.toNat ((z.transitions.length : Int) + 1)) _ _ = r1
    have e1 : r1 = loopOfCheck z.transitions.length (checkTransitions z.localTimeTypes.length z.transitions) :=
      hr1.symm.trans (transitions_loop z.transitions z.localTimeTypes.length _ (fun i => rfl) z.transitions.length 0
        (Int.toNat ((z.transitions.length : Int) + 1)) (by omega) (by omega) (by omega))
    subst e1
    rcases checkTransitions z.localTimeTypes.length z.transitions with e | ⟨⟨⟩⟩
    · rfl
    · dsimp only [loopOfCheck]
      refine ite_bnot_congr _ _ _ _ _ ?_ ?_
      · rcases hL : z.leapSeconds with _ | ⟨l, t⟩
        · rfl
        · have e0 : Src.idx (l :: t) 0 = l := rfl
          rw [e0, sat_i32_natAbs_eq_one]
          rfl
      · generalize hr2 : Src.loopR (Int.toNat ((z.leapSeconds.length : Int) + 1)) _ _ = r2
        have e2 : r2 = loopOfCheck z.leapSeconds.length (checkLeapPairs z.leapSeconds) :=
          hr2.symm.trans (leap_pairs_loop z.leapSeconds _ (fun i => by
            rw [sat_i64_sub, sat_i32_sub, sat_i32_natAbs _ (satSubI32_range _ _)]
            exact pairs_body_eq _ _ _ i _) z.leapSeconds.length 0
            (Int.toNat ((z.leapSeconds.length : Int) + 1)) (by omega) (by omega) (by omega))
        subst e2
        rcases checkLeapPairs z.leapSeconds with e | ⟨⟨⟩⟩
        · rfl
        · dsimp only [loopOfCheck]
          clear hr1 hr2
          cases z.extraRule with
          | none => cases z.transitions.getLast? <;> rfl
          | some rule =>
            cases z.transitions.getLast? with
            | none => rfl
            | some last =>
              dsimp only
              rw [unix_leap_time_to_unix_time_eq]
              cases unixLeapTimeToUnixTime z.leapSeconds last.unixLeapTime with
              | error e => rfl
              | ok ut =>
                dsimp only
                rw [transition_rule_find_local_time_type_eq]
                cases rule.findLocalTimeType ut with
                | error e => rfl
                | ok rt =>
                  dsimp only
                  rw [idx_nat, ltt_beq_eq]
                  cases (z.localTimeTypes.getD last.localTimeTypeIndex default).equal rt <;> rfl

theorem zone_new_eq' (ts : List Transition) (tys : List LocalTimeType) (ls : List LeapSecond) (r : Option TransitionRule) :
    Src.TimeZoneRef.new ts tys ls r = TimeZone.new ts tys ls r := by
  unfold Src.TimeZoneRef.new TimeZone.new Src.TimeZoneRef.new_unchecked
  dsimp only
  rw [check_inputs_eq']
  cases TimeZone.checkInputs { transitions := ts, localTimeTypes := tys, leapSeconds := ls, extraRule := r } <;> rfl


/-! ### chunks -/

theorem chunks_nat_eq (n : Nat) (b : Bytes) : Src.chunksExactNat n b = chunksExact n b := by
  induction hk : b.length using Nat.strongRecOn generalizing b with
  | _ k ih =>
    rw [Src.chunksExactNat, chunksExact]
    by_cases h : n = 0 ∨ b.length < n
    · rw [dif_pos h, dif_pos h]
    · rw [dif_neg h, dif_neg h, ih (b.drop n).length (by rw [List.length_drop]; omega) _ rfl]

theorem chunks_exact_eq (n : Nat) (b : Bytes) : Src.chunks_exact (n : Int) b = chunksExact n b := by
  unfold Src.chunks_exact
  rw [Int.toNat_natCast, chunks_nat_eq]

theorem chunks_length (n : Nat) (b : Bytes) : ∀ c ∈ chunksExact n b, c.length = n := by
  induction hk : b.length using Nat.strongRecOn generalizing b with
  | _ k ih =>
    intro c hc
    rw [chunksExact] at hc
    by_cases h : n = 0 ∨ b.length < n
    · rw [dif_pos h] at hc; cases hc
    · rw [dif_neg h] at hc
      rcases List.mem_cons.mp hc with rfl | hc
      · rw [List.length_take]; omega
      · exact ih (b.drop n).length (by rw [List.length_drop]; omega) _ rfl c hc

theorem unwrap_first_chunk (n : Nat) (c : Bytes) (h : c.length = n) : Src.unwrap (Src.first_chunk (n : Int) c) = c := by
  unfold Src.first_chunk Src.unwrap
  rw [Int.toNat_natCast, if_pos (by omega), Option.getD_some, ← h, List.take_length]

theorem unwrap_first_chunk_take (n : Nat) (c : Bytes) (h : n ≤ c.length) : Src.unwrap (Src.first_chunk (n : Int) c) = c.take n := by
  unfold Src.first_chunk Src.unwrap
  rw [Int.toNat_natCast, if_pos h, Option.getD_some]

theorem unwrap_split_first_chunk (n : Nat) (c : Bytes) (h : n ≤ c.length) :
    Src.unwrap (Src.split_first_chunk (n : Int) c) = (c.take n, c.drop n) := by
  unfold Src.split_first_chunk Src.unwrap
  rw [Int.toNat_natCast, if_pos h, Option.getD_some]

/-! ### the loops of `DataBlocks::parse` -/

/-- a `for` loop that pushes one value per element -/
theorem forIn_push {α β : Type} (g : α → β) (l : List α) (f : List β → α → Src.Step (List β) Empty)
    (hf : ∀ x ∈ l, ∀ s, f s x = .next (s ++ [g x])) (s : List β) : Src.forIn l f s = s ++ l.map g := by
  induction l generalizing s with
  | nil => simp [Src.forIn]
  | cons x xs ih =>
    unfold Src.forIn
    rw [hf x List.mem_cons_self s]
    dsimp only
    rw [ih (fun y hy => hf y (List.mem_cons_of_mem _ hy))]
    simp

/-- the loop over the 6-byte local time type records -/
theorem ltt_loop (des : Bytes) (cc : Nat) (l : List Bytes)
    (f : List LocalTimeType → Bytes → Src.Step (List LocalTimeType) (Except TzError TimeZone))
    (hf : ∀ x ∈ l, ∀ s, f s x = match parseLocalTimeType des cc x with
      | .ok t => .next (s ++ [t])
      | .error e => .ret (.error e)) (s : List LocalTimeType) :
    Src.forInR l f s = match parseLocalTimeTypes des cc l with
      | .ok ts => .inl (s ++ ts)
      | .error e => .inr (.error e) := by
  induction l generalizing s with
  | nil => simp [Src.forInR, parseLocalTimeTypes]
  | cons x xs ih =>
    unfold Src.forInR parseLocalTimeTypes
    rw [hf x List.mem_cons_self s]
    cases parseLocalTimeType des cc x with
    | error e => rfl
    | ok t =>
      dsimp only
      rw [ih (fun y hy => hf y (List.mem_cons_of_mem _ hy))]
      cases parseLocalTimeTypes des cc xs with
      | error e => rfl
      | ok ts => simp

/-- the loop over the indicator pairs -/
theorem indicator_loop (E : Except TzError TimeZone) (f : Unit → Nat × Nat → Src.Step Unit (Except TzError TimeZone))
    (hf : ∀ s u, f () (s, u) =
      if (!((s == 0 && u == 0) || (s == 1 && u == 0) || (s == 1 && u == 1))) then .ret E else .next ())
    (n : Nat) (sw ul : Bytes) :
    Src.forInR (List.zip (Src.paddedTake n sw 0) (Src.paddedTake n ul 0)) f () =
      if indicatorPairsOk n sw ul then .inl () else .inr E := by
  induction n generalizing sw ul with
  | zero => simp [Src.paddedTake, Src.forInR, indicatorPairsOk]
  | succ n ih =>
    have key : ∀ (s u : Nat) (sw' ul' : Bytes),
        Src.forInR ((s, u) :: List.zip (Src.paddedTake n sw' 0) (Src.paddedTake n ul' 0)) f () =
        if (((s == 0 && u == 0) || (s == 1 && u == 0) || (s == 1 && u == 1)) && indicatorPairsOk n sw' ul') then .inl () else .inr E := by
      intro s u sw' ul'
      unfold Src.forInR
      rw [hf]
      cases ((s == 0 && u == 0) || (s == 1 && u == 0) || (s == 1 && u == 1))
      · rfl
      · simp only [Bool.not_true, Bool.false_eq_true, if_false, Bool.true_and]
        exact ih sw' ul'
    cases sw with
    | nil =>
      cases ul with
      | nil => exact key 0 0 [] []
      | cons u ul => exact key 0 u [] ul
    | cons s sw =>
      cases ul with
      | nil => exact key s 0 sw []
      | cons u ul => exact key s u sw ul

/-! ### the designation lookup -/

theorem position_span (p f : Nat → Bool) (hpf : ∀ x, p x = !f x) (l : Bytes) :
    match Src.position p l with
    | none => (spanWhile f l).2 = []
    | some i => 0 ≤ i ∧ (spanWhile f l).1 = l.take i.toNat ∧ (spanWhile f l).2 ≠ [] := by
  induction l with
  | nil => simp [Src.position, Src.positionFrom, spanWhile]
  | cons x xs ih =>
    unfold Src.position Src.positionFrom spanWhile
    rw [hpf x]
    cases hx : f x with
    | false => simp
    | true =>
      simp only [Bool.not_true, Bool.false_eq_true, if_false, if_true]
      rw [tz_positionFrom_shift]
      unfold Src.position at ih
      cases hp : Src.positionFrom p 0 xs with
      | none =>
        rw [hp] at ih
        simpa using ih
      | some i =>
        rw [hp] at ih
        obtain ⟨h0, h1, h2⟩ := ih
        simp only [Option.map_some]
        refine ⟨by omega, ?_, h2⟩
        have e : (i + (0 + 1)).toNat = i.toNat + 1 := by omega
        rw [e, List.take_succ_cons, ← h1]

theorem footer_eq (footer : Option Bytes) (b : Bool) :
    Src.opt_transpose (Option.bind footer (fun f => Src.res_transpose (parseFooter f b))) =
    (match footer with | none => .ok none | some f => parseFooter f b) := by
  cases footer with
  | none => rfl
  | some f =>
    simp only [Option.bind_some]
    cases parseFooter f b with
    | error e => rfl
    | ok o => cases o <;> rfl

end TzVerif.Proofs.SrcEq
