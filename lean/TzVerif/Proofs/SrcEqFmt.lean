/-
The translated source equals the model: src/datetime/mod.rs `format_date_time` (C18), the body of both `Display`
implementations. `core::fmt` is modelled (trusted, DESIGN §13): `write!(f, "{x:0W}")` appends `Model.pad W x`,
`{x}` appends `Model.showInt x` (a `char` is appended as is), and cannot fail.
-/
import TzVerif.SrcBase
import TzVerif.Model.DateTime

namespace TzVerif.Proofs.SrcEq
open TzVerif TzVerif.Model TzVerif.Gen

theorem format_date_time_eq (y mo d h mi s ns off : Int) :
    Src.format_date_time [] y mo d h mi s ns off = .ok (formatDateTime y mo d h mi s ns off) := by
  unfold Src.format_date_time formatDateTime
  have habs : (Int.natAbs off : Int) = if off < 0 then -off else off := by
    split <;> omega
  by_cases h0 : off = 0
  · simp [h0]
  · by_cases hneg : off < 0
    · simp [h0, hneg, habs]
    · simp [h0, hneg, habs]

end TzVerif.Proofs.SrcEq
