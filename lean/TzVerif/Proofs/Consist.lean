/-
C11: the constructor's consistency check. Top-level assembly (proved here from the three case files).
-/
import TzVerif.Model.Rule
import TzVerif.Spec.Rule
import TzVerif.Proofs.RuleEval
import TzVerif.Proofs.ConsistKinds
import TzVerif.Proofs.ConsistJulian
import TzVerif.Proofs.ConsistMwd
import TzVerif.Proofs.ConsistNew

namespace TzVerif.Proofs
open TzVerif.Model TzVerif.Gen

def mkAlt (std dst : LocalTimeType) (ds : RuleDay) (st : Int) (de : RuleDay) (et : Int) : AlternateTime :=
  { std := std, dst := dst, dstStart := ds, dstStartTime := st, dstEnd := de, dstEndTime := et }

/-- the 200-line check decides the finite (28-year) form of the three clauses -/
theorem check_eq_B (std dst : LocalTimeType) (ds : RuleDay) (st : Int) (de : RuleDay) (et : Int)
    (hs : RuleShape (mkAlt std dst ds st de et)) :
    checkDstTransitionRulesConsistency std dst ds st de et = Spec.consistentB (mkAlt std dst ds st de et) := by
  match ds, de with
  | .julian1 _, .julian1 _ => exact check_eq_B_julian std dst _ st _ et hs trivial trivial
  | .julian1 _, .julian0 _ => exact check_eq_B_julian std dst _ st _ et hs trivial trivial
  | .julian0 _, .julian1 _ => exact check_eq_B_julian std dst _ st _ et hs trivial trivial
  | .julian0 _, .julian0 _ => exact check_eq_B_julian std dst _ st _ et hs trivial trivial
  | .julian1 _, .mwd _ _ _ => exact check_eq_B_julian_mwd std dst _ st _ et hs trivial
  | .julian0 _, .mwd _ _ _ => exact check_eq_B_julian_mwd std dst _ st _ et hs trivial
  | .mwd _ _ _, .julian1 _ => exact check_eq_B_mwd_julian std dst _ st _ et hs trivial
  | .mwd _ _ _, .julian0 _ => exact check_eq_B_mwd_julian std dst _ st _ et hs trivial
  | .mwd _ _ _, .mwd _ _ _ => exact check_eq_B_mwd_mwd std dst _ _ _ st _ _ _ et hs

/-- … and the finite form is the statement over ALL years -/
theorem check_iff_consistent (std dst : LocalTimeType) (ds : RuleDay) (st : Int) (de : RuleDay) (et : Int)
    (hs : RuleShape (mkAlt std dst ds st de et)) :
    checkDstTransitionRulesConsistency std dst ds st de et = true ↔ Spec.Consistent (mkAlt std dst ds st de et) := by
  rw [check_eq_B std dst ds st de et hs]
  exact (consistent_iff_B _ hs).symm

theorem new_ok_iff (std dst : LocalTimeType) (ds : RuleDay) (st : Int) (de : RuleDay) (et : Int) (a : AlternateTime)
    (hds : ValidRuleDay ds) (hde : ValidRuleDay de) :
    AlternateTime.new std dst ds st de et = .ok a ↔
      (a = mkAlt std dst ds st de et ∧
       -90000 < std.utOffset ∧ std.utOffset < 93600 ∧ -90000 < dst.utOffset ∧ dst.utOffset < 93600 ∧
       -604800 < st ∧ st < 604800 ∧ -604800 < et ∧ et < 604800 ∧
       Spec.Consistent (mkAlt std dst ds st de et)) := by
  have shape : (-90000 < std.utOffset ∧ std.utOffset < 93600) → (-90000 < dst.utOffset ∧ dst.utOffset < 93600) →
      (-604800 < st ∧ st < 604800 ∧ -604800 < et ∧ et < 604800) → RuleShape (mkAlt std dst ds st de et) :=
    fun p1 p2 p3 => ⟨hds, hde, p1.1, p1.2, p2.1, p2.2, p3.1, p3.2.1, p3.2.2.1, p3.2.2.2⟩
  rcases new_cases std dst ds st de et with ⟨n1, e⟩ | ⟨p1, n2, e⟩ | ⟨p1, p2, n3, e⟩ | ⟨p1, p2, p3, c, e⟩ | ⟨p1, p2, p3, c, e⟩
  · rw [e]
    constructor
    · intro h; cases h
    · rintro ⟨_, a1, a2, _⟩; exact absurd ⟨a1, a2⟩ n1
  · rw [e]
    constructor
    · intro h; cases h
    · rintro ⟨_, _, _, a1, a2, _⟩; exact absurd ⟨a1, a2⟩ n2
  · rw [e]
    constructor
    · intro h; cases h
    · rintro ⟨_, _, _, _, _, a1, a2, a3, a4, _⟩; exact absurd ⟨a1, a2, a3, a4⟩ n3
  · rw [e]
    constructor
    · intro h; cases h
    · rintro ⟨_, _, _, _, _, _, _, _, _, hc⟩
      have := (check_iff_consistent std dst ds st de et (shape p1 p2 p3)).mpr hc
      rw [c] at this; cases this
  · rw [e]
    have hc := (check_iff_consistent std dst ds st de et (shape p1 p2 p3)).mp c
    constructor
    · intro h
      injection h with h
      exact ⟨h.symm, p1.1, p1.2, p2.1, p2.2, p3.1, p3.2.1, p3.2.2.1, p3.2.2.2, hc⟩
    · rintro ⟨ha, _⟩
      rw [ha]; rfl

theorem new_error_cases (std dst : LocalTimeType) (ds : RuleDay) (st : Int) (de : RuleDay) (et : Int) (e : TransitionRuleError)
    (hds : ValidRuleDay ds) (hde : ValidRuleDay de)
    (h : AlternateTime.new std dst ds st de et = .error e) :
    (e = .invalidStdUtcOffset ∧ ¬ (-90000 < std.utOffset ∧ std.utOffset < 93600)) ∨
    (e = .invalidDstUtcOffset ∧ (-90000 < std.utOffset ∧ std.utOffset < 93600) ∧ ¬ (-90000 < dst.utOffset ∧ dst.utOffset < 93600)) ∨
    (e = .invalidDstStartEndTime ∧ (-90000 < std.utOffset ∧ std.utOffset < 93600) ∧ (-90000 < dst.utOffset ∧ dst.utOffset < 93600) ∧
       ¬ (-604800 < st ∧ st < 604800 ∧ -604800 < et ∧ et < 604800)) ∨
    (e = .inconsistentRule ∧ (-90000 < std.utOffset ∧ std.utOffset < 93600) ∧ (-90000 < dst.utOffset ∧ dst.utOffset < 93600) ∧
       (-604800 < st ∧ st < 604800 ∧ -604800 < et ∧ et < 604800) ∧ ¬ Spec.Consistent (mkAlt std dst ds st de et)) := by
  rcases new_cases std dst ds st de et with ⟨n1, e'⟩ | ⟨p1, n2, e'⟩ | ⟨p1, p2, n3, e'⟩ | ⟨p1, p2, p3, c, e'⟩ | ⟨p1, p2, p3, c, e'⟩
  · rw [e'] at h; injection h with h
    exact Or.inl ⟨h.symm, n1⟩
  · rw [e'] at h; injection h with h
    exact Or.inr (Or.inl ⟨h.symm, p1, n2⟩)
  · rw [e'] at h; injection h with h
    exact Or.inr (Or.inr (Or.inl ⟨h.symm, p1, p2, n3⟩))
  · rw [e'] at h; injection h with h
    refine Or.inr (Or.inr (Or.inr ⟨h.symm, p1, p2, p3, ?_⟩))
    intro hc
    have := (check_iff_consistent std dst ds st de et
      ⟨hds, hde, p1.1, p1.2, p2.1, p2.2, p3.1, p3.2.1, p3.2.2.1, p3.2.2.2⟩).mpr hc
    rw [c] at this; cases this
  · rw [e'] at h; cases h

end TzVerif.Proofs
