/-
Data-block decoding helper lemmas for C08 (TZif round trip).
-/
import TzVerif.Proofs.TzifBlocks

namespace TzVerif.Proofs.TzifDecode
open TzVerif.Model TzVerif.Spec TzVerif.Proofs.TzifBE TzVerif.Proofs.TzifBlocks

theorem chunksExact_nil (k : Nat) : chunksExact k [] = [] := by
  rw [chunksExact]; simp

theorem chunksExact_flatMap {α : Type} (k : Nat) (hk : 0 < k) (f : α → Bytes) (xs : List α)
    (hf : ∀ x ∈ xs, (f x).length = k) : chunksExact k (xs.flatMap f) = xs.map f := by
  induction xs with
  | nil => simp [chunksExact_nil]
  | cons x xs ih =>
    have hx := hf x (by simp)
    rw [List.flatMap_cons, chunksExact, dif_neg (by simp only [List.length_append]; omega)]
    rw [List.take_left' hx, List.drop_left' hx, ih (fun y hy => hf y (by simp [hy]))]
    rfl

theorem flatMap_length {α : Type} (k : Nat) (f : α → Bytes) (xs : List α)
    (hf : ∀ x ∈ xs, (f x).length = k) : (xs.flatMap f).length = xs.length * k := by
  induction xs with
  | nil => simp
  | cons x xs ih =>
    rw [List.flatMap_cons, List.length_append, hf x (by simp), ih (fun y hy => hf y (by simp [hy]))]
    simp only [List.length_cons, Nat.add_mul]; omega

theorem spanWhile_eq (f : Nat → Bool) (l : Bytes) : spanWhile f l = (l.takeWhile f, l.dropWhile f) := by
  induction l with
  | nil => rfl
  | cons b bs ih =>
    unfold spanWhile
    by_cases h : f b
    · simp [h, ih]
    · simp [h]

theorem dropWhile_ne_nil_of_mem (l : Bytes) (h : 0 ∈ l) : l.dropWhile (· != 0) ≠ [] := by
  induction l with
  | nil => simp at h
  | cons b bs ih =>
    by_cases hb : b = 0
    · subst hb; simp
    · have : 0 ∈ bs := by
        rcases List.mem_cons.mp h with h | h
        · exact absurd h.symm hb
        · exact h
      simp [hb, ih this]

theorem len4 (l : Bytes) (h : l.length = 4) : ∃ a b c d, l = [a, b, c, d] := by
  match l, h with
  | [a, b, c, d], _ => exact ⟨a, b, c, d, rfl⟩

theorem LocalTimeType_new_ok {o : Int} {d : Bool} {n : Option (List Nat)} {t : LocalTimeType}
    (h : LocalTimeType.new o d n = .ok t) : t = { utOffset := o, isDst := d, name := n } := by
  unfold LocalTimeType.new at h
  split at h
  · cases h
  split at h
  · cases h; rfl
  · rename_i m
    split at h
    · cases h
    · rename_i m' hm
      cases h
      unfold TzAsciiStr.new at hm
      dsimp only at hm
      split at hm
      · cases hm
      split at hm
      · cases hm
      cases hm; rfl

theorem parseLocalTimeType_enc (des : Bytes) (t : LocalTimeType) (idx : Nat) (hidx : idx < des.length)
    (h0 : 0 ∈ des.drop idx)
    (hname : t.name = if cstrAt des idx = [] then none else some (cstrAt des idx))
    (hoff : i32Min ≤ t.utOffset ∧ t.utOffset ≤ i32Max)
    (hnew : ∃ t', LocalTimeType.new t.utOffset t.isDst t.name = .ok t') :
    parseLocalTimeType des des.length (encodeType t idx) = .ok t := by
  obtain ⟨t', ht'⟩ := hnew
  have hb : beSigned (beBytes 4 t.utOffset) = t.utOffset := by
    apply beSigned_beBytes 4 _ (by decide)
    simp only [i32Min, i32Max] at hoff
    have : ((2 : Int) ^ (8 * 4 - 1)) = 2147483648 := by decide
    rw [this]; omega
  obtain ⟨a, b, c, d, habcd⟩ := len4 _ (beBytes_length 4 t.utOffset)
  unfold parseLocalTimeType encodeType
  rw [habcd] at hb ⊢
  simp only [List.cons_append, List.nil_append, List.take_succ_cons, List.take_zero, List.getD_cons_succ, List.getD_cons_zero]
  have hd1 : ¬ ((if t.isDst = true then 1 else 0) ≠ 0 ∧ (if t.isDst = true then 1 else 0) ≠ 1) := by
    cases t.isDst <;> simp
  have hd2 : ((if t.isDst = true then 1 else 0) == 1) = t.isDst := by
    cases t.isDst <;> simp
  rw [if_neg hd1, if_neg (by omega), spanWhile_eq, hd2, hb]
  simp only []
  have hne : ¬ ((List.dropWhile (fun x => x != 0) (List.drop idx des)).isEmpty = true) := by
    rw [List.isEmpty_iff]; exact dropWhile_ne_nil_of_mem _ h0
  rw [if_neg hne]
  have hnm : (if (List.takeWhile (fun x => x != 0) (List.drop idx des)).isEmpty = true then none
      else some (List.takeWhile (fun x => x != 0) (List.drop idx des))) = t.name := by
    rw [hname]; unfold cstrAt
    simp only [List.isEmpty_iff]
  rw [hnm, ht']
  simp only []
  rw [LocalTimeType_new_ok ht']


/-- what the layout says about one (type, designation index) pair -/
def TypeOK (des : Bytes) (t : LocalTimeType) (idx : Nat) : Prop :=
  idx < des.length ∧ 0 ∈ des.drop idx ∧
  t.name = (if cstrAt des idx = [] then none else some (cstrAt des idx)) ∧
  (i32Min ≤ t.utOffset ∧ t.utOffset ≤ i32Max) ∧
  ∃ t', LocalTimeType.new t.utOffset t.isDst t.name = .ok t'

theorem parseLocalTimeTypes_enc (des : Bytes) (ps : List (LocalTimeType × Nat))
    (h : ∀ p ∈ ps, TypeOK des p.1 p.2) :
    parseLocalTimeTypes des des.length (ps.map (fun p => encodeType p.1 p.2)) = .ok (ps.map Prod.fst) := by
  induction ps with
  | nil => rfl
  | cons p ps ih =>
    obtain ⟨h1, h2, h3, h4, h5⟩ := h p (by simp)
    simp only [List.map_cons, parseLocalTimeTypes]
    rw [parseLocalTimeType_enc des p.1 p.2 h1 h2 h3 h4 h5]
    simp only []
    rw [ih (fun q hq => h q (by simp [hq]))]

theorem encodeType_length (t : LocalTimeType) (idx : Nat) : (encodeType t idx).length = 6 := by
  simp [encodeType, beBytes_length]

theorem tail_getD (l : Bytes) (i : Nat) : l.tail.getD i 0 = l.getD (i + 1) 0 := by
  cases l <;> simp

theorem headD_getD (l : Bytes) : l.headD 0 = l.getD 0 0 := by
  cases l <;> simp

theorem indicatorPairsOk_of (n : Nat) : ∀ (sw ul : Bytes),
    (∀ i, i < n → let s := sw.getD i 0; let u := ul.getD i 0
      (s = 0 ∧ u = 0) ∨ (s = 1 ∧ u = 0) ∨ (s = 1 ∧ u = 1)) → indicatorPairsOk n sw ul = true := by
  induction n with
  | zero => intro sw ul _; rfl
  | succ n ih =>
    intro sw ul h
    unfold indicatorPairsOk
    have h0 := h 0 (by omega)
    have ht := ih sw.tail ul.tail (by
      intro i hi
      have := h (i + 1) (by omega)
      simpa only [tail_getD] using this)
    simp only [headD_getD, ht, Bool.and_true]
    simp only [Bool.or_eq_true, Bool.and_eq_true, beq_iff_eq]
    simpa only [or_assoc] using h0


/-! ### the encoded block, cut in header and seven sections -/

def hdrOf (ver : Nat) (z : TimeZone) (l : Layout) : Header :=
  { version := ver, utLocalCount := l.isut.length, stdWallCount := l.isstd.length, leapCount := z.leapSeconds.length,
    transitionCount := z.transitions.length, typeCount := z.localTimeTypes.length, charCount := l.designations.length }

def blocksOf (ts : Nat) (z : TimeZone) (l : Layout) : DataBlocks :=
  { transitionTimes := z.transitions.flatMap (fun t => beBytes ts t.unixLeapTime),
    transitionTypes := z.transitions.map (fun t => t.localTimeTypeIndex),
    localTimeTypes := (z.localTimeTypes.zip l.index).flatMap (fun p => encodeType p.1 p.2),
    designations := l.designations,
    leapSeconds := z.leapSeconds.flatMap (fun x => beBytes ts x.unixLeapTime ++ beBytes 4 x.correction),
    stdWalls := l.isstd, utLocals := l.isut }

def hdrBytes (z : TimeZone) (l : Layout) : Bytes :=
  [84, 90, 105, 102] ++ ([l.versionByte] ++ (l.reserved ++ (be32u l.isut.length ++ (be32u l.isstd.length ++
    (be32u z.leapSeconds.length ++ (be32u z.transitions.length ++ (be32u z.localTimeTypes.length ++
    be32u l.designations.length)))))))

def dataOf (ts : Nat) (z : TimeZone) (l : Layout) : Bytes :=
  (blocksOf ts z l).transitionTimes ++ ((blocksOf ts z l).transitionTypes ++ ((blocksOf ts z l).localTimeTypes ++
    ((blocksOf ts z l).designations ++ ((blocksOf ts z l).leapSeconds ++ ((blocksOf ts z l).stdWalls ++
    (blocksOf ts z l).utLocals)))))

theorem encodeBlock_eq (ts : Nat) (z : TimeZone) (l : Layout) : encodeBlock ts z l = hdrBytes z l ++ dataOf ts z l := by
  simp only [encodeBlock, hdrBytes, dataOf, blocksOf, List.append_assoc, List.cons_append, List.nil_append]

theorem hdrBytes_length (z : TimeZone) (l : Layout) (hl : LayoutOK z l) : (hdrBytes z l).length = 44 := by
  simp only [hdrBytes, List.length_append, be32u_length, hl.1, List.length_cons, List.length_nil]

theorem parseHeader_hdrBytes (z : TimeZone) (l : Layout) (hl : LayoutOK z l) (ver : Nat)
    (hvb : (l.versionByte = 0 ∧ ver = 1) ∨ (l.versionByte = 50 ∧ ver = 2) ∨ (l.versionByte = 51 ∧ ver = 3))
    (rest : Bytes) : parseHeader (hdrBytes z l ++ rest) = .ok (hdrOf ver z l, rest) := by
  obtain ⟨hres, _, hne, hty, htr, hlp, hdne, hdl, _, _, _, hstd, hut, _⟩ := hl
  have e : hdrBytes z l ++ rest = [84, 90, 105, 102] ++ ([l.versionByte] ++ (l.reserved ++ (be32u l.isut.length ++
      (be32u l.isstd.length ++ (be32u z.leapSeconds.length ++ (be32u z.transitions.length ++
      (be32u z.localTimeTypes.length ++ (be32u l.designations.length ++ rest)))))))) := by
    simp only [hdrBytes, List.append_assoc]
  rw [e]
  have hty0 : z.localTimeTypes.length ≠ 0 := by
    intro h; exact hne (List.length_eq_zero_iff.mp h)
  have hd0 : l.designations.length ≠ 0 := by
    intro h; exact hdne (List.length_eq_zero_iff.mp h)
  have hu : l.isut.length = 0 ∨ l.isut.length = z.localTimeTypes.length := by
    rcases hut with h | h
    · left; rw [h]; rfl
    · right; exact h
  have hs : l.isstd.length = 0 ∨ l.isstd.length = z.localTimeTypes.length := by
    rcases hstd with h | h
    · left; rw [h]; rfl
    · right; exact h
  exact parseHeader_enc l.versionByte ver l.reserved rest _ _ _ _ _ _ hres hvb (by omega) (by omega) hlp htr hty hdl
    hty0 hd0 hu hs

theorem beBytes_append_length (ts : Nat) (a b : Int) : (beBytes ts a ++ beBytes 4 b).length = ts + 4 := by
  simp [beBytes_length]

theorem zip_length_eq (z : TimeZone) (l : Layout) (hl : LayoutOK z l) :
    (z.localTimeTypes.zip l.index).length = z.localTimeTypes.length := by
  have := hl.2.2.2.2.2.2.2.2.2.1
  simp [List.length_zip, this]

theorem readDataBlocks_dataOf (ts : Nat) (z : TimeZone) (l : Layout) (hl : LayoutOK z l) (ver : Nat) (rest : Bytes) :
    readDataBlocks ts (dataOf ts z l ++ rest) (hdrOf ver z l) = .ok (blocksOf ts z l, rest) := by
  have e : dataOf ts z l ++ rest = (blocksOf ts z l).transitionTimes ++ ((blocksOf ts z l).transitionTypes ++
      ((blocksOf ts z l).localTimeTypes ++ ((blocksOf ts z l).designations ++ ((blocksOf ts z l).leapSeconds ++
      ((blocksOf ts z l).stdWalls ++ ((blocksOf ts z l).utLocals ++ rest)))))) := by
    simp only [dataOf, List.append_assoc]
  rw [e]
  apply readDataBlocks_enc
  · exact flatMap_length ts _ _ (fun x _ => beBytes_length ts _)
  · simp [blocksOf, hdrOf]
  · show ((z.localTimeTypes.zip l.index).flatMap _).length = z.localTimeTypes.length * 6
    rw [flatMap_length 6 _ _ (fun p _ => encodeType_length p.1 p.2), zip_length_eq z l hl]
  · rfl
  · exact flatMap_length (ts + 4) _ _ (fun x _ => beBytes_append_length ts _ _)
  · rfl
  · rfl


/-! ### DataBlocks.parse on the encoded sections -/

theorem typesOK_of_layout (z : TimeZone) (l : Layout) (hl : LayoutOK z l)
    (hn : ∀ t ∈ z.localTimeTypes, ∃ t', LocalTimeType.new t.utOffset t.isDst t.name = .ok t') :
    ∀ p ∈ z.localTimeTypes.zip l.index, TypeOK l.designations p.1 p.2 := by
  obtain ⟨hres, hresb, hne, hty, htr, hlp, hdne, hdl, hdb, hidx, htypes, hstd, hut, hpairs, htri, hoff, hcorr⟩ := hl
  intro p hp
  obtain ⟨i, hi, rfl⟩ := List.mem_iff_getElem.mp hp
  have hi1 : i < z.localTimeTypes.length := by
    simp only [List.length_zip] at hi; omega
  have hi2 : i < l.index.length := by omega
  rw [List.getElem_zip]
  obtain ⟨a, _, c, d⟩ := htypes i hi1
  simp only [List.getD_eq_getElem?_getD, List.getElem?_eq_getElem hi2, List.getElem?_eq_getElem hi1,
    Option.getD_some] at a c d
  exact ⟨a, c, d, hoff _ (List.getElem_mem _), hn _ (List.getElem_mem _)⟩

theorem transitions_rebuild (ts : Nat) (xs : List Transition)
    (h : ∀ t ∈ xs, beSigned (beBytes ts t.unixLeapTime) = t.unixLeapTime) :
    ((((xs.map (fun t => beBytes ts t.unixLeapTime)).map beSigned).zip (xs.map (fun t => t.localTimeTypeIndex))).map
      (fun (t, i) => ({ unixLeapTime := t, localTimeTypeIndex := i } : Transition))) = xs := by
  induction xs with
  | nil => rfl
  | cons x xs ih =>
    simp only [List.map_cons, List.zip_cons_cons]
    rw [ih (fun t ht => h t (by simp [ht])), h x (by simp)]

theorem leaps_rebuild (ts : Nat) (xs : List LeapSecond)
    (h : ∀ x ∈ xs, beSigned (beBytes ts x.unixLeapTime) = x.unixLeapTime ∧ beSigned (beBytes 4 x.correction) = x.correction) :
    ((xs.map (fun x => beBytes ts x.unixLeapTime ++ beBytes 4 x.correction)).map
      (fun c => ({ unixLeapTime := beSigned (c.take ts), correction := beSigned ((c.drop ts).take 4) } : LeapSecond))) = xs := by
  induction xs with
  | nil => rfl
  | cons x xs ih =>
    simp only [List.map_cons]
    rw [ih (fun t ht => h t (by simp [ht]))]
    rw [List.take_left' (beBytes_length ts _), List.drop_left' (beBytes_length ts _)]
    have : (beBytes 4 x.correction).take 4 = beBytes 4 x.correction := by
      apply List.take_of_length_le; rw [beBytes_length]; exact Nat.le_refl _
    rw [this, (h x (by simp)).1, (h x (by simp)).2]

theorem parse_blocksOf (ts : Nat) (hts : 0 < ts) (z : TimeZone) (l : Layout) (hl : LayoutOK z l)
    (ht : TimesFit (8 * ts) z)
    (hn : ∀ t ∈ z.localTimeTypes, ∃ t', LocalTimeType.new t.utOffset t.isDst t.name = .ok t')
    (ver : Nat) (footer : Option Bytes) :
    (blocksOf ts z l).parse ts (hdrOf ver z l) footer =
      match (match footer with
             | none => (Except.ok none : Except TzError (Option TransitionRule))
             | some f => parseFooter f (ver == 3)) with
      | .error e => .error e
      | .ok rule => TimeZone.new z.transitions z.localTimeTypes z.leapSeconds rule := by
  have hty := typesOK_of_layout z l hl hn
  obtain ⟨hres, hresb, hne, htyl, htr, hlp, hdne, hdl, hdb, hidx, htypes, hstd, hut, hpairs, htri, hoff, hcorr⟩ := hl
  have hA := transitions_rebuild ts z.transitions
    (fun t h => beSigned_beBytes ts _ hts (ht.1 t h))
  have hC := leaps_rebuild ts z.leapSeconds (fun x h => ⟨beSigned_beBytes ts _ hts (ht.2 x h), by
    apply beSigned_beBytes 4 _ (by decide)
    have := hcorr x h
    simp only [i32Min, i32Max] at this
    have e : ((2 : Int) ^ (8 * 4 - 1)) = 2147483648 := by decide
    rw [e]; omega⟩)
  have hB : parseLocalTimeTypes l.designations l.designations.length
      (chunksExact 6 ((z.localTimeTypes.zip l.index).flatMap (fun p => encodeType p.1 p.2))) = .ok z.localTimeTypes := by
    rw [chunksExact_flatMap 6 (by decide) _ _ (fun p _ => encodeType_length p.1 p.2)]
    rw [parseLocalTimeTypes_enc _ _ hty, List.map_fst_zip (by omega)]
  have hD : indicatorPairsOk z.localTimeTypes.length l.isstd l.isut = true := indicatorPairsOk_of _ _ _ hpairs
  unfold DataBlocks.parse
  simp only [blocksOf, hdrOf]
  rw [chunksExact_flatMap ts hts _ _ (fun x _ => beBytes_length ts _)]
  rw [chunksExact_flatMap (ts + 4) (by omega) _ _ (fun x _ => beBytes_append_length ts _ _)]
  rw [hA, hB, hC]
  simp only [hD, Bool.not_true, Bool.false_eq_true, if_false]
  rfl

end TzVerif.Proofs.TzifDecode
