/-
C05 / C06: the local-time search on zones without a DST rule (table only, table + fixed rule, fixed
rule only, single type). INTERFACE used by Properties/C05.lean and Properties/C06.lean.
-/
import TzVerif.Model.Find
import TzVerif.Spec.Zone
import TzVerif.Proofs.Leap
import TzVerif.Proofs.Table
import TzVerif.Proofs.Zoned
import TzVerif.Proofs.SearchLoop

namespace TzVerif.Proofs
open TzVerif.Model TzVerif.Gen

/-- hypotheses on the zone: what the constructor guarantees and the search relies on -/
def ZoneOK (z : TimeZone) : Prop := Spec.StrictlyIncreasing z.transitions ∧ Spec.LeapWF z.leapSeconds

def NoDstRule (z : TimeZone) : Prop :=
  match z.extraRule with
  | some (.alternate _) => False
  | _ => True

/-- type in force before / after table transition `i` -/
def typeBefore (z : TimeZone) (i : Nat) : LocalTimeType :=
  z.localTimeTypes.getD (if i = 0 then 0 else (z.transitions.getD (i - 1) default).localTimeTypeIndex) default

def typeAfter (z : TimeZone) (i : Nat) : LocalTimeType :=
  z.localTimeTypes.getD (z.transitions.getD i default).localTimeTypeIndex default

/-- UTC instant at which table transition `i` takes effect -/
def instantOf (z : TimeZone) (i : Nat) : Int := Spec.toUtc z.leapSeconds (z.transitions.getD i default).unixLeapTime

/-- table transitions that take effect: all but a last one that no rule follows -/
def Effective (z : TimeZone) (i : Nat) : Prop :=
  i < z.transitions.length ∧ (i + 1 < z.transitions.length ∨ z.extraRule.isSome = true)

/-- local second count `c` falls in the gap opened by transition `i`: T + a ≤ c < T + b -/
def GapAt (z : TimeZone) (i : Nat) (c : Int) : Prop :=
  instantOf z i + (typeBefore z i).utOffset ≤ c ∧ c < instantOf z i + (typeAfter z i).utOffset

def normalsOf (rs : List Found) : List DateTime :=
  rs.filterMap (fun f => match f with | .normal d => some d | .skipped _ _ => none)

def instantOfFound : Found → Int
  | .normal d => d.unixTime
  | .skipped b _ => b.unixTime

/-! ### Helper lemmas -/

/-- count of table transition `j` -/
def timeOf (z : TimeZone) (j : Nat) : Int := (z.transitions.getD j default).unixLeapTime

/-- the loop's `prevTime` at step `j` -/
def prevT (z : TimeZone) (j : Nat) : Int := if j = 0 then i64Min else timeOf z (j - 1)

theorem getD_eq_getElem' {α : Type} (l : List α) (j : Nat) (d : α) (hj : j < l.length) : l.getD j d = l[j] := by
  simp [List.getD_eq_getElem?_getD, hj]

theorem timeOf_lt (z : TimeZone) (hs : Spec.StrictlyIncreasing z.transitions) (i j : Nat) (hij : i < j)
    (hj : j < z.transitions.length) : timeOf z i < timeOf z j := by
  unfold timeOf
  rw [getD_eq_getElem' _ i _ (by omega), getD_eq_getElem' _ j _ hj]
  exact List.pairwise_iff_getElem.mp (strictlyIncreasing_pairwise _ hs) i j (by omega) hj hij

theorem timeOf_le (z : TimeZone) (hs : Spec.StrictlyIncreasing z.transitions) (i j : Nat) (hij : i ≤ j)
    (hj : j < z.transitions.length) : timeOf z i ≤ timeOf z j := by
  rcases Nat.lt_or_eq_of_le hij with h | h
  · exact Int.le_of_lt (timeOf_lt z hs i j h hj)
  · subst h; exact Int.le_refl _

/-- the table part of the search: one (possibly empty) list of entries per transition, in order -/
theorem table_char (z : TimeZone) (mk : LocalTimeType → Int → DateTime) (ns utc : Int) (out : List Found)
    (h : findTransitionsLoop z mk ns utc z.extraRule.isSome z.transitions i64Min 0 [] = .ok out) :
    ∃ lss : List (List Found), lss.length = z.transitions.length ∧ out = lss.flatten ∧
      ∀ j, j < z.transitions.length → StepSpec z.leapSeconds mk ns utc (typeBefore z j) (typeAfter z j)
        (prevT z j) (timeOf z j) (Effective z j) (lss.getD j []) := by
  obtain ⟨lss, hlen, hout, hall⟩ := loop_char z mk ns utc _ _ _ _ _ _ h
  refine ⟨lss, hlen, by simpa using hout, ?_⟩
  intro j hj
  refine StepSpec.congr_eff ?_ (hall j hj)
  unfold Effective
  exact ⟨fun h => ⟨hj, h⟩, fun h => h.2⟩

theorem lookup_in_interval (z : TimeZone) (hs : Spec.StrictlyIncreasing z.transitions) (j : Nat)
    (hj : j < z.transitions.length) (u L : Int) (hL : unixTimeToUnixLeapTime z.leapSeconds u = .ok L)
    (hlo : j = 0 ∨ timeOf z (j - 1) ≤ L) (hhi : L < timeOf z j) :
    z.findLocalTimeType u = .ok (typeBefore z j) := by
  have hne : z.transitions ≠ [] := by
    intro h; rw [h] at hj; exact Nat.not_lt_zero _ hj
  have hl : z.transitions.getLast? = some (z.transitions.getLast hne) := List.getLast?_eq_some_getLast hne
  have hlast : (z.transitions.getLast hne).unixLeapTime = timeOf z (z.transitions.length - 1) := by
    unfold timeOf
    rw [List.getLast_eq_getElem, getD_eq_getElem' _ _ _ (by omega)]
  have hle := timeOf_le z hs j (z.transitions.length - 1) (by omega) (by omega)
  rw [table_lookup z hs u L _ hl hL, if_neg (by omega)]
  congr 2
  unfold Spec.typeIndexAt Spec.lastAtOrBefore
  rw [filter_eq_take z.transitions _ j (by omega)]
  · rw [List.getLast?_take]
    by_cases h0 : j = 0
    · simp [h0]
    · have hj1 : j - 1 < z.transitions.length := by omega
      simp [h0, List.getElem?_eq_getElem hj1]
  · intro i hi hij
    have h1 := timeOf_le z hs i (j - 1) (by omega) (by omega)
    unfold timeOf at h1 hlo
    rw [getD_eq_getElem' _ i _ hi] at h1
    simp only [decide_eq_true_eq]
    rcases hlo with h0 | hlo
    · omega
    · omega
  · intro i hi hij
    have h1 := timeOf_le z hs j i hij hi
    unfold timeOf at h1 hhi
    rw [getD_eq_getElem' _ i _ hi] at h1
    simp only [decide_eq_false_iff_not]
    omega

/-- the search on a zone without DST rule, taken apart -/
theorem find_char (y mo d h mi s ns : Int) (z : TimeZone) (rs : List Found) (hr : NoDstRule z)
    (hf : findDateTime y mo d h mi s ns z = .ok rs) :
    (z.transitions = [] ∧ z.extraRule = none ∧
      ∃ x, DateTime.new y mo d h mi s ns (z.localTimeTypes.getD 0 default) = .ok x ∧ rs = [.normal x]) ∨
    (¬(z.transitions = [] ∧ z.extraRule = none) ∧ (1 ≤ mo ∧ mo ≤ 12) ∧
      ∃ out, findTransitionsLoop z (mkDateTime y mo d h mi s ns) ns (Spec.seconds y mo d h mi s)
          z.extraRule.isSome z.transitions i64Min 0 [] = .ok out ∧
        ((z.extraRule = none ∧ rs = out) ∨
         ∃ r, z.extraRule = some (.fixed r) ∧
           ((∃ last tl, z.transitions.getLast? = some last ∧
               unixLeapTimeToUnixTime z.leapSeconds last.unixLeapTime = .ok tl ∧
               ¬(Spec.seconds y mo d h mi s - r.utOffset ≥ tl) ∧ rs = out) ∨
            ((z.transitions = [] ∨ ∃ last tl, z.transitions.getLast? = some last ∧
                unixLeapTimeToUnixTime z.leapSeconds last.unixLeapTime = .ok tl ∧
                Spec.seconds y mo d h mi s - r.utOffset ≥ tl) ∧
              checkUnixTime (Spec.seconds y mo d h mi s - r.utOffset) = .ok () ∧
              rs = out ++ [.normal (mkDateTime y mo d h mi s ns r (Spec.seconds y mo d h mi s - r.utOffset))])))) := by
  unfold findDateTime at hf
  split at hf
  · rename_i hcond
    left
    obtain ⟨h1, h2⟩ := hcond
    split at hf
    · cases hf
    · rename_i x hx
      injection hf with hf
      exact ⟨List.isEmpty_iff.mp h1, Option.isNone_iff_eq_none.mp h2, x, hx, hf.symm⟩
  · rename_i hcond
    right
    have hcond' : ¬(z.transitions = [] ∧ z.extraRule = none) := by
      intro ⟨h1, h2⟩
      exact hcond ⟨List.isEmpty_iff.mpr h1, Option.isNone_iff_eq_none.mpr h2⟩
    refine ⟨hcond', ?_⟩
    dsimp only at hf
    split at hf
    · cases hf
    · rename_i hc
      obtain ⟨a1, a2, -⟩ := checkInputs_ok _ _ _ _ _ _ _ _ hc
      refine ⟨⟨a1, a2⟩, ?_⟩
      rw [unixTime_eq_seconds y mo d h mi s ⟨a1, a2⟩] at hf
      split at hf
      · cases hf
      · rename_i out hloop
        refine ⟨out, hloop, ?_⟩
        split at hf
        · rename_i hnone
          injection hf with hf
          exact Or.inl ⟨hnone, hf.symm⟩
        · rename_i r hfix
          right
          refine ⟨r, hfix, ?_⟩
          cases hlast : z.transitions.getLast? with
          | none =>
            rw [hlast] at hf
            dsimp only at hf
            right
            cases hcu : checkUnixTime (Spec.seconds y mo d h mi s - r.utOffset) with
            | error e => rw [hcu] at hf; cases hf
            | ok v =>
              rw [hcu] at hf
              injection hf with hf
              exact ⟨Or.inl (List.getLast?_eq_none_iff.mp hlast), rfl, hf.symm⟩
          | some last =>
            rw [hlast] at hf
            dsimp only at hf
            cases htl : unixLeapTimeToUnixTime z.leapSeconds last.unixLeapTime with
            | error e => rw [htl] at hf; cases hf
            | ok tl =>
              rw [htl] at hf
              dsimp only at hf
              by_cases hge : Spec.seconds y mo d h mi s - r.utOffset ≥ tl
              · rw [decide_eq_true hge] at hf
                dsimp only at hf
                right
                cases hcu : checkUnixTime (Spec.seconds y mo d h mi s - r.utOffset) with
                | error e => rw [hcu] at hf; cases hf
                | ok v =>
                  rw [hcu] at hf
                  injection hf with hf
                  exact ⟨Or.inr ⟨last, tl, rfl, htl, hge⟩, rfl, hf.symm⟩
              · rw [decide_eq_false hge] at hf
                dsimp only at hf
                injection hf with hf
                exact Or.inl ⟨last, tl, rfl, htl, hge, hf.symm⟩
        · rename_i a ha
          unfold NoDstRule at hr
          rw [ha] at hr
          exact hr.elim

theorem exists_interval (z : TimeZone) (hs : Spec.StrictlyIncreasing z.transitions) (L : Int)
    (hn : 0 < z.transitions.length) (hL : L < timeOf z (z.transitions.length - 1)) :
    ∃ j, j < z.transitions.length ∧ (j = 0 ∨ timeOf z (j - 1) ≤ L) ∧ L < timeOf z j := by
  obtain ⟨hc, hlo, hhi⟩ := upper_spec (z.transitions.map (·.unixLeapTime)) L (sortedLt_of_strictlyIncreasing _ hs)
  generalize (binarySearch (z.transitions.map (·.unixLeapTime)) L).upper = c at hc hlo hhi
  rw [List.length_map] at hc hhi
  have conv : ∀ j, j < z.transitions.length → (z.transitions.map (·.unixLeapTime)).getD j 0 = timeOf z j := by
    intro j hj
    unfold timeOf
    rw [getD_map_time _ j hj, getD_eq_getElem' _ j _ hj]
  have hcn : c < z.transitions.length := by
    rcases Nat.lt_or_ge c z.transitions.length with h | h
    · exact h
    · have := hlo (z.transitions.length - 1) (by omega)
      rw [conv _ (by omega)] at this
      omega
  refine ⟨c, hcn, ?_, ?_⟩
  · by_cases h0 : c = 0
    · exact Or.inl h0
    · right
      have := hlo (c - 1) (by omega)
      rwa [conv _ (by omega)] at this
  · have := hhi c (Nat.le_refl _) hcn
    rwa [conv _ hcn] at this

theorem mem_flatten_getD {α : Type} (lss : List (List α)) (f : α) :
    f ∈ lss.flatten ↔ ∃ j, j < lss.length ∧ f ∈ lss.getD j [] := by
  rw [List.mem_flatten]
  constructor
  · intro ⟨l, hl, hf⟩
    obtain ⟨j, hj, rfl⟩ := List.mem_iff_getElem.mp hl
    exact ⟨j, hj, by rw [getD_eq_getElem' _ j _ hj]; exact hf⟩
  · intro ⟨j, hj, hf⟩
    rw [getD_eq_getElem' _ j _ hj] at hf
    exact ⟨_, List.getElem_mem hj, hf⟩

theorem prevT_le_iff (z : TimeZone) (j : Nat) (k : Int) (h : prevT z j ≤ k) : j = 0 ∨ timeOf z (j - 1) ≤ k := by
  unfold prevT at h
  by_cases h0 : j = 0
  · exact Or.inl h0
  · rw [if_neg h0] at h
    exact Or.inr h

/-- valid entries of the table part are sound -/
theorem table_sound (y mo d h mi s ns utc : Int) (z : TimeZone) (hz : ZoneOK z) (out : List Found)
    (hloop : findTransitionsLoop z (mkDateTime y mo d h mi s ns) ns utc z.extraRule.isSome z.transitions i64Min 0 [] = .ok out)
    (x : DateTime) (hx : Found.normal x ∈ out) :
    z.findLocalTimeType x.unixTime = .ok x.localTimeType ∧ x.unixTime + x.localTimeType.utOffset = utc := by
  obtain ⟨lss, hlen, rfl, hall⟩ := table_char z _ ns utc out hloop
  obtain ⟨j, hj, hm⟩ := (mem_flatten_getD _ _).mp hx
  rw [hlen] at hj
  obtain ⟨rfl, -, kB, hk, h1, h2⟩ := (hall j hj).normal_mem x hm
  simp only [mkDateTime]
  exact ⟨lookup_in_interval z hz.1 j hj _ kB hk (prevT_le_iff z j kB h1) h2, by omega⟩

/-- every instant of the table part showing the local time is found -/
theorem table_complete (y mo d h mi s ns utc : Int) (z : TimeZone) (hz : ZoneOK z) (out : List Found)
    (hloop : findTransitionsLoop z (mkDateTime y mo d h mi s ns) ns utc z.extraRule.isSome z.transitions i64Min 0 [] = .ok out)
    (u L : Int) (t : LocalTimeType) (hu : i64Min ≤ u) (hL : unixTimeToUnixLeapTime z.leapSeconds u = .ok L)
    (hn : 0 < z.transitions.length) (hlt : L < timeOf z (z.transitions.length - 1))
    (hl : z.findLocalTimeType u = .ok t) (hc : u + t.utOffset = utc) :
    ∃ x, Found.normal x ∈ out ∧ x.unixTime = u ∧ x.localTimeType = t := by
  obtain ⟨lss, hlen, rfl, hall⟩ := table_char z _ ns utc out hloop
  obtain ⟨j, hj, hlo, hhi⟩ := exists_interval z hz.1 L hn hlt
  have ht := lookup_in_interval z hz.1 j hj u L hL hlo hhi
  rw [hl] at ht
  injection ht with ht
  subst ht
  have hu' : utc - (typeBefore z j).utOffset = u := by omega
  have hp : prevT z j ≤ L := by
    unfold prevT
    rcases hlo with h0 | hlo
    · rw [if_pos h0]
      have := (galois _ hz.2 u L i64Min hL).mpr (by
        rw [toUtc_of_nonpos _ hz.2 _ (by decide)]; exact hu)
      exact this
    · by_cases h0 : j = 0
      · subst h0
        rw [if_pos rfl]
        exact (galois _ hz.2 u L i64Min hL).mpr (by
          rw [toUtc_of_nonpos _ hz.2 _ (by decide)]; exact hu)
      · rw [if_neg h0]; exact hlo
  have := (hall j hj).normal_of L (by rw [hu']; exact hL) hp hhi
  rw [hu'] at this
  exact ⟨_, (mem_flatten_getD _ _).mpr ⟨j, by rw [hlen]; exact hj, this⟩, rfl, rfl⟩

theorem dtNew_fields (y mo d h mi s ns : Int) (l : LocalTimeType) (x : DateTime)
    (hx : DateTime.new y mo d h mi s ns l = .ok x) :
    x.unixTime = Spec.seconds y mo d h mi s - l.utOffset ∧ x.localTimeType = l := by
  rw [dtNew_eq_expected] at hx
  unfold dtNewExpected at hx
  repeat' split at hx
  all_goals try contradiction
  injection hx with hx
  subst hx
  exact ⟨rfl, rfl⟩

theorem last_eq (z : TimeZone) (last : Transition) (hl : z.transitions.getLast? = some last) :
    0 < z.transitions.length ∧ last.unixLeapTime = timeOf z (z.transitions.length - 1) := by
  have hne : z.transitions ≠ [] := by
    intro h; rw [h] at hl; cases hl
  have hpos : 0 < z.transitions.length := List.length_pos_iff.mpr hne
  rw [List.getLast?_eq_some_getLast hne] at hl
  injection hl with hl
  subst hl
  refine ⟨hpos, ?_⟩
  unfold timeOf
  rw [List.getLast_eq_getElem, getD_eq_getElem' _ _ _ (by omega)]

/-- the entry pushed for a trailing fixed rule is sound -/
theorem fixed_sound (z : TimeZone) (hz : ZoneOK z) (r : LocalTimeType) (hfix : z.extraRule = some (.fixed r)) (u : Int)
    (hcond : z.transitions = [] ∨ ∃ last tl, z.transitions.getLast? = some last ∧
      unixLeapTimeToUnixTime z.leapSeconds last.unixLeapTime = .ok tl ∧ u ≥ tl)
    (hcu : checkUnixTime u = .ok ()) : z.findLocalTimeType u = .ok r := by
  rcases hcond with h0 | ⟨last, tl, hl, htl, hge⟩
  · rw [no_transitions z u h0, hfix]
    rfl
  · obtain ⟨L, hL⟩ := toCount_ok _ hz.2 u (checkUnixTime_ok _ _ hcu).2
    have := toUtc_eq_of_ok _ hz.2 _ _ htl
    subst this
    have hLge := (galois _ hz.2 u L last.unixLeapTime hL).mpr hge
    rw [table_lookup z hz.1 u L last hl hL, if_pos hLge, hfix]
    rfl

theorem table_gaps_sound (mk : LocalTimeType → Int → DateTime) (ns utc : Int) (z : TimeZone) (hz : ZoneOK z)
    (out : List Found)
    (hloop : findTransitionsLoop z mk ns utc z.extraRule.isSome z.transitions i64Min 0 [] = .ok out)
    (b a : DateTime) (hx : Found.skipped b a ∈ out) :
    ∃ i, Effective z i ∧ GapAt z i utc ∧
      DateTime.fromTimespecAndLocal (instantOf z i) ns (typeBefore z i) = .ok b ∧
      DateTime.fromTimespecAndLocal (instantOf z i) ns (typeAfter z i) = .ok a := by
  obtain ⟨lss, hlen, rfl, hall⟩ := table_char z _ ns utc out hloop
  obtain ⟨j, hj, hm⟩ := (mem_flatten_getD _ _).mp hx
  rw [hlen] at hj
  rcases (hall j hj).shape hz.2 with ⟨h1, -⟩ | ⟨x, h1, -⟩ | ⟨b', a', h1, he, g1, g2, hb, ha⟩
  · rw [h1] at hm; cases hm
  · rw [h1] at hm; simp at hm
  · rw [h1] at hm
    simp only [List.mem_singleton, Found.skipped.injEq] at hm
    obtain ⟨rfl, rfl⟩ := hm
    exact ⟨j, he, ⟨g1, g2⟩, hb, ha⟩

theorem table_gaps_complete (mk : LocalTimeType → Int → DateTime) (ns utc : Int) (z : TimeZone) (hz : ZoneOK z)
    (out : List Found)
    (hloop : findTransitionsLoop z mk ns utc z.extraRule.isSome z.transitions i64Min 0 [] = .ok out)
    (i : Nat) (he : Effective z i) (hg : GapAt z i utc) :
    ∃ b a, Found.skipped b a ∈ out ∧ b.unixTime = instantOf z i ∧ b.localTimeType = typeBefore z i ∧
      a.localTimeType = typeAfter z i := by
  obtain ⟨lss, hlen, rfl, hall⟩ := table_char z _ ns utc out hloop
  have hi : i < z.transitions.length := he.1
  rcases (hall i hi).shape hz.2 with ⟨-, h2⟩ | ⟨x, -, h2⟩ | ⟨b, a, h1, -, -, -, hb, ha⟩
  · exact absurd ⟨he, hg.1, hg.2⟩ h2
  · exact absurd hg.1 h2
  · obtain ⟨-, b1, -, b2, -⟩ := fromTimespecAndLocal_inv _ _ _ _ hb
    obtain ⟨-, -, -, a2, -⟩ := fromTimespecAndLocal_inv _ _ _ _ ha
    refine ⟨b, a, (mem_flatten_getD _ _).mpr ⟨i, by rw [hlen]; exact hi, ?_⟩, b1, b2, a2⟩
    rw [h1]; exact List.mem_singleton.mpr rfl

/-- order between two entries: ascending, and strictly so after a valid entry -/
def Before (a b : Found) : Prop :=
  instantOfFound a ≤ instantOfFound b ∧ ∀ x, a = .normal x → instantOfFound a < instantOfFound b

theorem step_bounds {ls : List LeapSecond} {ns utc : Int} {ltB ltA : LocalTimeType} {pT T : Int} {eff : Prop}
    {l : List Found} (y mo d h mi s : Int) (hwf : Spec.LeapWF ls)
    (hs : StepSpec ls (mkDateTime y mo d h mi s ns) ns utc ltB ltA pT T eff l) (f : Found) (hf : f ∈ l) :
    (pT ≤ T → Spec.toUtc ls pT ≤ instantOfFound f) ∧ instantOfFound f ≤ Spec.toUtc ls T ∧
    (∀ x, f = .normal x → instantOfFound f < Spec.toUtc ls T) := by
  cases f with
  | normal x =>
    obtain ⟨rfl, -, kB, hk, h1, h2⟩ := hs.normal_mem x hf
    simp only [instantOfFound, mkDateTime]
    have g1 := (galois ls hwf _ kB pT hk).mp h1
    have g2 := (galois_lt ls hwf _ kB T hk).mp h2
    exact ⟨fun _ => g1, by omega, fun _ _ => g2⟩
  | skipped b a =>
    obtain ⟨-, kB, kA, tut, -, -, -, -, ht, hb, -⟩ := hs.skipped_mem b a hf
    have := toUtc_eq_of_ok ls hwf T tut ht
    subst this
    obtain ⟨-, b1, -⟩ := fromTimespecAndLocal_inv _ _ _ _ hb
    simp only [instantOfFound, b1]
    exact ⟨fun hp => toUtc_mono ls hwf _ _ hp, Int.le_refl _, fun x hx => by cases hx⟩

theorem table_order (y mo d h mi s ns utc : Int) (z : TimeZone) (hz : ZoneOK z) (out : List Found)
    (hloop : findTransitionsLoop z (mkDateTime y mo d h mi s ns) ns utc z.extraRule.isSome z.transitions i64Min 0 [] = .ok out) :
    List.Pairwise Before out ∧
    ∀ f ∈ out, ∃ j, j < z.transitions.length ∧ instantOfFound f ≤ instantOf z j ∧
      ∀ x, f = .normal x → instantOfFound f < instantOf z j := by
  obtain ⟨lss, hlen, rfl, hall⟩ := table_char z _ ns utc out hloop
  constructor
  · rw [List.pairwise_flatten]
    constructor
    · intro l hl
      obtain ⟨j, hj, rfl⟩ := List.mem_iff_getElem.mp hl
      have hj' : j < z.transitions.length := by omega
      have hsh := (hall j hj').shape hz.2
      rw [getD_eq_getElem' _ j _ hj] at hsh
      rcases hsh with ⟨h1, -⟩ | ⟨x, h1, -⟩ | ⟨b, a, h1, -⟩ <;> rw [h1] <;> simp
    · rw [List.pairwise_iff_getElem]
      intro i j hi hj hij f hf g hg
      have hi' : i < z.transitions.length := by omega
      have hj' : j < z.transitions.length := by omega
      have hsi := hall i hi'
      have hsj := hall j hj'
      rw [getD_eq_getElem' _ i _ hi] at hsi
      rw [getD_eq_getElem' _ j _ hj] at hsj
      obtain ⟨-, f2, f3⟩ := step_bounds y mo d h mi s hz.2 hsi f hf
      obtain ⟨g1, -, -⟩ := step_bounds y mo d h mi s hz.2 hsj g hg
      have hp : prevT z j = timeOf z (j - 1) := by
        unfold prevT; rw [if_neg (by omega)]
      rw [hp] at g1
      have g1' := g1 (timeOf_le z hz.1 (j - 1) j (by omega) hj')
      have hm := toUtc_mono _ hz.2 _ _ (timeOf_le z hz.1 i (j - 1) (by omega) (by omega))
      exact ⟨by omega, fun x hx => by have := f3 x hx; omega⟩
  · intro f hf
    obtain ⟨j, hj, hm⟩ := (mem_flatten_getD _ _).mp hf
    rw [hlen] at hj
    obtain ⟨-, f2, f3⟩ := step_bounds y mo d h mi s hz.2 (hall j hj) f hm
    exact ⟨j, hj, f2, f3⟩

/-- the whole result list is ordered -/
theorem find_order (y mo d h mi s ns : Int) (z : TimeZone) (rs : List Found) (hz : ZoneOK z) (hr : NoDstRule z)
    (hf : findDateTime y mo d h mi s ns z = .ok rs) : List.Pairwise Before rs := by
  rcases find_char y mo d h mi s ns z rs hr hf with ⟨-, -, x', -, rfl⟩ | ⟨-, -, out, hloop, hcase⟩
  · exact List.pairwise_singleton _ _
  · obtain ⟨hp, hb⟩ := table_order y mo d h mi s ns _ z hz out hloop
    rcases hcase with ⟨-, rfl⟩ | ⟨r, hfix, ⟨_, _, _, _, _, rfl⟩ | ⟨hcond, -, rfl⟩⟩
    · exact hp
    · exact hp
    · rw [List.pairwise_append]
      refine ⟨hp, List.pairwise_singleton _ _, ?_⟩
      intro f hfm g hg
      rw [List.mem_singleton] at hg
      subst hg
      obtain ⟨j, hj, f2, f3⟩ := hb f hfm
      rcases hcond with h0 | ⟨last, tl, hl, htl, hge⟩
      · rw [h0] at hj; exact absurd hj (Nat.not_lt_zero _)
      · obtain ⟨hpos, hlt⟩ := last_eq z last hl
        have := toUtc_eq_of_ok _ hz.2 _ _ htl
        subst this
        have hm : instantOf z j ≤ Spec.toUtc z.leapSeconds last.unixLeapTime := by
          rw [hlt]
          exact toUtc_mono _ hz.2 _ _ (timeOf_le z hz.1 j _ (by omega) (by omega))
        simp only [Before, instantOfFound, mkDateTime] at f2 f3 ⊢
        exact ⟨by omega, fun x hx => by have := f3 x hx; omega⟩

/-- every valid result is an instant at which the zone's clock shows the searched local time -/
theorem search_sound (y mo d h mi s ns : Int) (z : TimeZone) (rs : List Found) (hz : ZoneOK z) (hr : NoDstRule z)
    (hf : findDateTime y mo d h mi s ns z = .ok rs) (x : DateTime) (hx : Found.normal x ∈ rs) :
    z.findLocalTimeType x.unixTime = .ok x.localTimeType ∧
    x.unixTime + x.localTimeType.utOffset = Spec.seconds y mo d h mi s := by
  rcases find_char y mo d h mi s ns z rs hr hf with ⟨h0, hnone, x', hx', rfl⟩ | ⟨-, -, out, hloop, hcase⟩
  · rw [List.mem_singleton] at hx
    injection hx with hx
    subst hx
    obtain ⟨e1, e2⟩ := dtNew_fields _ _ _ _ _ _ _ _ _ hx'
    rw [e1, e2, no_transitions z _ h0, hnone]
    exact ⟨rfl, by omega⟩
  · rcases hcase with ⟨-, rfl⟩ | ⟨r, hfix, ⟨_, _, _, _, _, rfl⟩ | ⟨hcond, hcu, rfl⟩⟩
    · exact table_sound y mo d h mi s ns _ z hz _ hloop x hx
    · exact table_sound y mo d h mi s ns _ z hz _ hloop x hx
    · rcases List.mem_append.mp hx with hx | hx
      · exact table_sound y mo d h mi s ns _ z hz _ hloop x hx
      · rw [List.mem_singleton] at hx
        injection hx with hx
        subst hx
        simp only [mkDateTime]
        exact ⟨fixed_sound z hz r hfix _ hcond hcu, by omega⟩

/-- no such instant (of the i64 range) is missing -/
theorem search_complete (y mo d h mi s ns : Int) (z : TimeZone) (rs : List Found) (hz : ZoneOK z) (hr : NoDstRule z)
    (hf : findDateTime y mo d h mi s ns z = .ok rs) (u : Int) (t : LocalTimeType)
    (hu : i64Min ≤ u ∧ u ≤ i64Max)
    (hl : z.findLocalTimeType u = .ok t) (hc : u + t.utOffset = Spec.seconds y mo d h mi s) :
    ∃ x, Found.normal x ∈ rs ∧ x.unixTime = u ∧ x.localTimeType = t := by
  rcases find_char y mo d h mi s ns z rs hr hf with ⟨h0, hnone, x', hx', rfl⟩ | ⟨hne, -, out, hloop, hcase⟩
  · obtain ⟨e1, e2⟩ := dtNew_fields _ _ _ _ _ _ _ _ _ hx'
    rw [no_transitions z _ h0, hnone] at hl
    injection hl with hl
    subst hl
    exact ⟨x', List.mem_singleton.mpr rfl, by omega, e2⟩
  · cases hlast : z.transitions.getLast? with
    | none =>
      have h0 : z.transitions = [] := List.getLast?_eq_none_iff.mp hlast
      rw [no_transitions z _ h0] at hl
      rcases hcase with ⟨hnone, -⟩ | ⟨r, hfix, ⟨last, _, hl', _⟩ | ⟨hcond, hcu, rfl⟩⟩
      · exact absurd ⟨h0, hnone⟩ hne
      · rw [hlast] at hl'; cases hl'
      · rw [hfix] at hl
        injection hl with hl
        subst hl
        refine ⟨_, List.mem_append_right _ (List.mem_singleton.mpr rfl), ?_, rfl⟩
        simp only [mkDateTime]
        omega
    | some last =>
      obtain ⟨hpos, hlt⟩ := last_eq z last hlast
      cases hL : unixTimeToUnixLeapTime z.leapSeconds u with
      | error e => rw [conversion_error z u e last hlast hL] at hl; cases hl
      | ok L =>
        rw [table_lookup z hz.1 u L last hlast hL] at hl
        by_cases hge : L ≥ last.unixLeapTime
        · rw [if_pos hge] at hl
          rcases hcase with ⟨hnone, -⟩ | ⟨r, hfix, hcase⟩
          · rw [hnone] at hl; cases hl
          · rw [hfix] at hl
            injection hl with hl
            subst hl
            have hu' : Spec.seconds y mo d h mi s - r.utOffset = u := by omega
            rcases hcase with ⟨last', tl, hl', htl, hnge, -⟩ | ⟨-, -, rfl⟩
            · rw [hlast] at hl'
              injection hl' with hl'
              subst hl'
              have := toUtc_eq_of_ok _ hz.2 _ _ htl
              subst this
              have := (galois _ hz.2 u L last.unixLeapTime hL).mp hge
              omega
            · refine ⟨_, List.mem_append_right _ (List.mem_singleton.mpr rfl), ?_, rfl⟩
              simp only [mkDateTime]
              exact hu'
        · rw [if_neg hge] at hl
          have hl2 : z.findLocalTimeType u = .ok t := by
            rw [table_lookup z hz.1 u L last hlast hL, if_neg hge]; exact hl
          obtain ⟨x, hx, e1, e2⟩ := table_complete y mo d h mi s ns _ z hz out hloop u L t hu.1 hL hpos
            (by omega) hl2 hc
          refine ⟨x, ?_, e1, e2⟩
          rcases hcase with ⟨-, rfl⟩ | ⟨r, hfix, ⟨_, _, _, _, _, rfl⟩ | ⟨-, -, rfl⟩⟩
          · exact hx
          · exact hx
          · exact List.mem_append_left _ hx

/-- valid results are strictly increasing in time (hence no duplicates) -/
theorem search_normals_strict (y mo d h mi s ns : Int) (z : TimeZone) (rs : List Found) (hz : ZoneOK z) (hr : NoDstRule z)
    (hf : findDateTime y mo d h mi s ns z = .ok rs) :
    List.Pairwise (fun a b => a.unixTime < b.unixTime) (normalsOf rs) := by
  unfold normalsOf
  rw [List.pairwise_filterMap]
  refine (find_order y mo d h mi s ns z rs hz hr hf).imp ?_
  intro a b hab x hx x' hx'
  cases a with
  | skipped _ _ => cases hx
  | normal xa =>
    cases b with
    | skipped _ _ => cases hx'
    | normal xb =>
      injection hx with hx
      injection hx' with hx'
      subst hx hx'
      exact hab.2 _ rfl

/-- all results are in ascending order of instant -/
theorem search_ascending (y mo d h mi s ns : Int) (z : TimeZone) (rs : List Found) (hz : ZoneOK z) (hr : NoDstRule z)
    (hf : findDateTime y mo d h mi s ns z = .ok rs) :
    List.Pairwise (fun a b => instantOfFound a ≤ instantOfFound b) rs :=
  (find_order y mo d h mi s ns z rs hz hr hf).imp (fun hab => hab.1)

/-- a reported gap is a real one: the entry is the transition instant on the clock before and after -/
theorem gaps_sound (y mo d h mi s ns : Int) (z : TimeZone) (rs : List Found) (hz : ZoneOK z) (hr : NoDstRule z)
    (hf : findDateTime y mo d h mi s ns z = .ok rs) (b a : DateTime) (hx : Found.skipped b a ∈ rs) :
    ∃ i, Effective z i ∧ GapAt z i (Spec.seconds y mo d h mi s) ∧
      DateTime.fromTimespecAndLocal (instantOf z i) ns (typeBefore z i) = .ok b ∧
      DateTime.fromTimespecAndLocal (instantOf z i) ns (typeAfter z i) = .ok a := by
  rcases find_char y mo d h mi s ns z rs hr hf with ⟨-, -, x', -, rfl⟩ | ⟨-, -, out, hloop, hcase⟩
  · simp at hx
  · have hout : Found.skipped b a ∈ out := by
      rcases hcase with ⟨-, rfl⟩ | ⟨r, hfix, ⟨_, _, _, _, _, rfl⟩ | ⟨-, -, rfl⟩⟩
      · exact hx
      · exact hx
      · rcases List.mem_append.mp hx with hx | hx
        · exact hx
        · simp at hx
    exact table_gaps_sound _ ns _ z hz out hloop b a hout

/-- every gap containing the searched local time is reported -/
theorem gaps_complete (y mo d h mi s ns : Int) (z : TimeZone) (rs : List Found) (hz : ZoneOK z) (hr : NoDstRule z)
    (hf : findDateTime y mo d h mi s ns z = .ok rs) (i : Nat) (he : Effective z i)
    (hg : GapAt z i (Spec.seconds y mo d h mi s)) :
    ∃ b a, Found.skipped b a ∈ rs ∧ b.unixTime = instantOf z i ∧ b.localTimeType = typeBefore z i ∧ a.localTimeType = typeAfter z i := by
  rcases find_char y mo d h mi s ns z rs hr hf with ⟨h0, -, x', -, rfl⟩ | ⟨-, -, out, hloop, hcase⟩
  · have := he.1
    rw [h0] at this
    exact absurd this (Nat.not_lt_zero _)
  · obtain ⟨b, a, hm, h1, h2, h3⟩ := table_gaps_complete _ ns _ z hz out hloop i he hg
    refine ⟨b, a, ?_, h1, h2, h3⟩
    rcases hcase with ⟨-, rfl⟩ | ⟨r, hfix, ⟨_, _, _, _, _, rfl⟩ | ⟨-, -, rfl⟩⟩
    · exact hm
    · exact hm
    · exact List.mem_append_left _ hm

/-- indices of the effective table transitions whose gap contains `c` -/
def gapIndices (z : TimeZone) (c : Int) : List Nat :=
  (List.range z.transitions.length).filter (fun i =>
    (decide (i + 1 < z.transitions.length) || z.extraRule.isSome) &&
    decide (instantOf z i + (typeBefore z i).utOffset ≤ c) && decide (c < instantOf z i + (typeAfter z i).utOffset))

def isSkipped : Found → Bool
  | .skipped _ _ => true
  | .normal _ => false

theorem count_flatten {α : Type} (p : α → Bool) : ∀ (lss : List (List α)) (q : Nat → Bool),
    (∀ j, j < lss.length → ((lss.getD j []).filter p).length = if q j then 1 else 0) →
    (lss.flatten.filter p).length = ((List.range lss.length).filter q).length := by
  intro lss
  induction lss with
  | nil => intro q _; rfl
  | cons l lss ih =>
    intro q hq
    have h0 := hq 0 (by simp)
    simp only [List.getD_cons_zero] at h0
    have ih' := ih (q ∘ Nat.succ) (fun j hj => by
      have := hq (j + 1) (by simpa using hj)
      simpa using this)
    rw [List.flatten_cons, List.filter_append, List.length_append, h0, ih', List.length_cons,
      List.range_succ_eq_map, List.filter_cons, List.filter_map]
    cases hq0 : q 0
    · simp
    · simp only [if_true, List.length_cons, List.length_map]; omega

theorem table_gaps_count (mk : LocalTimeType → Int → DateTime) (ns utc : Int) (z : TimeZone) (hz : ZoneOK z)
    (out : List Found)
    (hloop : findTransitionsLoop z mk ns utc z.extraRule.isSome z.transitions i64Min 0 [] = .ok out) :
    (out.filter isSkipped).length = (gapIndices z utc).length := by
  obtain ⟨lss, hlen, rfl, hall⟩ := table_char z _ ns utc out hloop
  unfold gapIndices
  rw [← hlen]
  apply count_flatten
  intro j hj
  rw [hlen] at hj ⊢
  have hE : Effective z j ↔ (decide (j + 1 < z.transitions.length) || z.extraRule.isSome) = true := by
    unfold Effective
    simp only [Bool.or_eq_true, decide_eq_true_eq]
    exact ⟨fun h => h.2, fun h => ⟨hj, h⟩⟩
  have hI : instantOf z j = Spec.toUtc z.leapSeconds (timeOf z j) := rfl
  rcases (hall j hj).shape hz.2 with ⟨h1, h2⟩ | ⟨x, h1, h2⟩ | ⟨b, a, h1, he, g1, g2, -⟩
  · rw [h1, if_neg]
    · rfl
    · intro hq
      simp only [Bool.and_eq_true, decide_eq_true_eq] at hq
      exact h2 ⟨hE.mpr hq.1.1, by rw [← hI]; exact hq.1.2, by rw [← hI]; exact hq.2⟩
  · rw [h1, if_neg]
    · rfl
    · intro hq
      simp only [Bool.and_eq_true, decide_eq_true_eq] at hq
      exact h2 (by rw [← hI]; exact hq.1.2)
  · rw [h1, if_pos]
    · rfl
    · simp only [Bool.and_eq_true, decide_eq_true_eq]
      exact ⟨⟨hE.mp he, by rw [hI]; exact g1⟩, by rw [hI]; exact g2⟩

/-- each gap is reported once (one entry per effective transition whose gap contains the local time) -/
theorem gaps_count (y mo d h mi s ns : Int) (z : TimeZone) (rs : List Found) (hz : ZoneOK z) (hr : NoDstRule z)
    (hf : findDateTime y mo d h mi s ns z = .ok rs) :
    (rs.filter isSkipped).length = (gapIndices z (Spec.seconds y mo d h mi s)).length := by
  rcases find_char y mo d h mi s ns z rs hr hf with ⟨h0, -, x', -, rfl⟩ | ⟨-, -, out, hloop, hcase⟩
  · unfold gapIndices
    rw [h0]
    rfl
  · have := table_gaps_count _ ns _ z hz out hloop
    rcases hcase with ⟨-, rfl⟩ | ⟨r, hfix, ⟨_, _, _, _, _, rfl⟩ | ⟨-, -, rfl⟩⟩
    · exact this
    · exact this
    · rw [List.filter_append, List.length_append, this]
      simp [isSkipped]

end TzVerif.Proofs
