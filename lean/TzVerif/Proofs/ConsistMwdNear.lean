/-
C11 step 5: the table of near pairs, assembled from the twelve chunk files.
-/
import TzVerif.Proofs.ConsistMwdAsm
import TzVerif.Proofs.ConsistMwdNear01
import TzVerif.Proofs.ConsistMwdNear02
import TzVerif.Proofs.ConsistMwdNear03
import TzVerif.Proofs.ConsistMwdNear04
import TzVerif.Proofs.ConsistMwdNear05
import TzVerif.Proofs.ConsistMwdNear06
import TzVerif.Proofs.ConsistMwdNear07
import TzVerif.Proofs.ConsistMwdNear08
import TzVerif.Proofs.ConsistMwdNear09
import TzVerif.Proofs.ConsistMwdNear10
import TzVerif.Proofs.ConsistMwdNear11
import TzVerif.Proofs.ConsistMwdNear12

namespace TzVerif.Proofs.CM

theorem near_all : NearTable := by
  intro m1 h1
  simp only [r12, List.mem_cons, List.not_mem_nil, or_false] at h1
  rcases h1 with h | h | h | h | h | h | h | h | h | h | h | h <;> subst h
  · exact near_1
  · exact near_2
  · exact near_3
  · exact near_4
  · exact near_5
  · exact near_6
  · exact near_7
  · exact near_8
  · exact near_9
  · exact near_10
  · exact near_11
  · exact near_12

end TzVerif.Proofs.CM
