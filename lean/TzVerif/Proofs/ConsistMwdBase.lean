/-
C11 steps 3–5, shared infrastructure: the spec side of the consistency check as a function of
the day-of-year differences over the 28 kind years and of the single time parameter
`D = (startTime − stdOffset) − (endTime − dstOffset)`.
-/
import TzVerif.Model.Rule
import TzVerif.Spec.Rule
import TzVerif.Proofs.RuleEval

namespace TzVerif.Proofs.CM
open TzVerif.Model TzVerif.Gen

/-- day of the year (0-based, may be 365 for `n` notation) of a rule day -/
def doy (d : RuleDay) (y : Int) : Int := Spec.ruleDayNumber d y - Spec.daysBeforeYear y

/-- the time parameter -/
def tD (a : AlternateTime) : Int := (a.dstStartTime - a.std.utOffset) - (a.dstEndTime - a.dst.utOffset)

def dd1 (A B : RuleDay) (y : Int) : Int := doy A y - doy B y
def dd2 (A B : RuleDay) (y : Int) : Int := doy B y - doy A (y + 1) - Spec.yearLen y
def dd3 (A B : RuleDay) (y : Int) : Int := doy A y - doy B (y + 1) - Spec.yearLen y

theorem atom1a (a : AlternateTime) (y : Int) :
    (Spec.startInstant a y ≤ Spec.endInstant a y) ↔ 86400 * dd1 a.dstStart a.dstEnd y ≤ -(tD a) := by
  unfold Spec.startInstant Spec.endInstant dd1 doy tD; omega

theorem atom1b (a : AlternateTime) (y : Int) :
    (Spec.endInstant a y ≤ Spec.startInstant a y) ↔ -(tD a) ≤ 86400 * dd1 a.dstStart a.dstEnd y := by
  unfold Spec.startInstant Spec.endInstant dd1 doy tD; omega

theorem atom2a (a : AlternateTime) (y : Int) :
    (Spec.endInstant a y ≤ Spec.startInstant a (y + 1)) ↔ 86400 * dd2 a.dstStart a.dstEnd y ≤ tD a := by
  unfold Spec.startInstant Spec.endInstant dd2 doy tD
  rw [Spec.daysBeforeYear_succ]; omega

theorem atom2b (a : AlternateTime) (y : Int) :
    (Spec.startInstant a (y + 1) ≤ Spec.endInstant a y) ↔ tD a ≤ 86400 * dd2 a.dstStart a.dstEnd y := by
  unfold Spec.startInstant Spec.endInstant dd2 doy tD
  rw [Spec.daysBeforeYear_succ]; omega

theorem atom3a (a : AlternateTime) (y : Int) :
    (Spec.startInstant a y ≤ Spec.endInstant a (y + 1)) ↔ 86400 * dd3 a.dstStart a.dstEnd y ≤ -(tD a) := by
  unfold Spec.startInstant Spec.endInstant dd3 doy tD
  rw [Spec.daysBeforeYear_succ]; omega

theorem atom3b (a : AlternateTime) (y : Int) :
    (Spec.endInstant a (y + 1) ≤ Spec.startInstant a y) ↔ -(tD a) ≤ 86400 * dd3 a.dstStart a.dstEnd y := by
  unfold Spec.startInstant Spec.endInstant dd3 doy tD
  rw [Spec.daysBeforeYear_succ]; omega

/-- one weak-order clause over a list of day differences -/
def cl (δs : List Int) (X : Int) : Bool :=
  δs.all (fun δ => decide (86400 * δ ≤ X)) || δs.all (fun δ => decide (X ≤ 86400 * δ))

theorem consistentB_eq_cl (a : AlternateTime) :
    Spec.consistentB a =
      (cl (Spec.kindYears.map (dd1 a.dstStart a.dstEnd)) (-(tD a)) &&
       cl (Spec.kindYears.map (dd2 a.dstStart a.dstEnd)) (tD a) &&
       cl (Spec.kindYears.map (dd3 a.dstStart a.dstEnd)) (-(tD a))) := by
  unfold Spec.consistentB Spec.allYears cl
  simp only [List.all_map, atom1a, atom1b, atom2a, atom2b, atom3a, atom3b, Function.comp_def]

/-! ### min / max of a list -/

def lmax : List Int → Int
  | [] => 0
  | x :: xs => xs.foldl max x

def lmin : List Int → Int
  | [] => 0
  | x :: xs => xs.foldl min x

theorem foldl_max_spec (xs : List Int) : ∀ x : Int,
    x ≤ xs.foldl max x ∧ (∀ δ ∈ xs, δ ≤ xs.foldl max x) ∧ (xs.foldl max x = x ∨ xs.foldl max x ∈ xs) := by
  induction xs with
  | nil => intro x; simp
  | cons y ys ih =>
    intro x
    obtain ⟨h1, h2, h3⟩ := ih (max x y)
    simp only [List.foldl_cons, List.mem_cons]
    refine ⟨by omega, ?_, ?_⟩
    · intro δ hδ
      rcases hδ with rfl | hδ
      · omega
      · exact h2 δ hδ
    · rcases h3 with h3 | h3
      · rw [h3]; rcases Int.le_total x y with h | h
        · right; left; omega
        · left; omega
      · right; right; exact h3

theorem foldl_min_spec (xs : List Int) : ∀ x : Int,
    xs.foldl min x ≤ x ∧ (∀ δ ∈ xs, xs.foldl min x ≤ δ) ∧ (xs.foldl min x = x ∨ xs.foldl min x ∈ xs) := by
  induction xs with
  | nil => intro x; simp
  | cons y ys ih =>
    intro x
    obtain ⟨h1, h2, h3⟩ := ih (min x y)
    simp only [List.foldl_cons, List.mem_cons]
    refine ⟨by omega, ?_, ?_⟩
    · intro δ hδ
      rcases hδ with rfl | hδ
      · omega
      · exact h2 δ hδ
    · rcases h3 with h3 | h3
      · rw [h3]; rcases Int.le_total x y with h | h
        · left; omega
        · right; left; omega
      · right; right; exact h3

theorem lmax_spec (l : List Int) (h : l ≠ []) : (∀ δ ∈ l, δ ≤ lmax l) ∧ lmax l ∈ l := by
  cases l with
  | nil => exact absurd rfl h
  | cons x xs =>
    obtain ⟨h1, h2, h3⟩ := foldl_max_spec xs x
    refine ⟨?_, ?_⟩
    · intro δ hδ
      rcases List.mem_cons.mp hδ with rfl | hδ
      · exact h1
      · exact h2 δ hδ
    · rcases h3 with h3 | h3
      · exact List.mem_cons.mpr (Or.inl h3)
      · exact List.mem_cons.mpr (Or.inr h3)

theorem lmin_spec (l : List Int) (h : l ≠ []) : (∀ δ ∈ l, lmin l ≤ δ) ∧ lmin l ∈ l := by
  cases l with
  | nil => exact absurd rfl h
  | cons x xs =>
    obtain ⟨h1, h2, h3⟩ := foldl_min_spec xs x
    refine ⟨?_, ?_⟩
    · intro δ hδ
      rcases List.mem_cons.mp hδ with rfl | hδ
      · exact h1
      · exact h2 δ hδ
    · rcases h3 with h3 | h3
      · exact List.mem_cons.mpr (Or.inl h3)
      · exact List.mem_cons.mpr (Or.inr h3)

theorem kindYears_ne (f : Int → Int) : Spec.kindYears.map f ≠ [] := by
  simp [Spec.kindYears]

/-! ### Year sets by (leapness of `y`, leapness of `y + 1`) and extremes over them -/

def ysNN : List Int := [2001, 2002, 2005, 2006, 2009, 2010, 2013, 2014, 2017, 2018, 2021, 2022, 2025, 2026]
def ysNL : List Int := [2003, 2007, 2011, 2015, 2019, 2023, 2027]
def ysLN : List Int := [2004, 2008, 2012, 2016, 2020, 2024, 2028]

theorem kindYears_eq : Spec.kindYears =
    [2001, 2002, 2003, 2004, 2005, 2006, 2007, 2008, 2009, 2010, 2011, 2012, 2013, 2014,
     2015, 2016, 2017, 2018, 2019, 2020, 2021, 2022, 2023, 2024, 2025, 2026, 2027, 2028] := by decide

theorem mem_kindYears (y : Int) : y ∈ Spec.kindYears ↔ (y ∈ ysNN ∨ y ∈ ysNL ∨ y ∈ ysLN) := by
  rw [kindYears_eq]
  simp only [ysNN, ysNL, ysLN, List.mem_cons, List.not_mem_nil, or_false]
  omega

theorem leap_NN : ∀ y ∈ ysNN, Spec.isLeap y = false ∧ Spec.isLeap (y + 1) = false := by decide
theorem leap_NL : ∀ y ∈ ysNL, Spec.isLeap y = false ∧ Spec.isLeap (y + 1) = true := by decide
theorem leap_LN : ∀ y ∈ ysLN, Spec.isLeap y = true ∧ Spec.isLeap (y + 1) = false := by decide

/-- `f` ranges within `[lo, hi]` on `S` and attains both ends -/
def Ext (S : List Int) (f : Int → Int) (lo hi : Int) : Prop :=
  (∀ y ∈ S, lo ≤ f y ∧ f y ≤ hi) ∧ (∃ y ∈ S, f y = lo) ∧ (∃ y ∈ S, f y = hi)

def extB (S : List Int) (f : Int → Int) (lo hi : Int) : Bool :=
  S.all (fun y => decide (lo ≤ f y) && decide (f y ≤ hi)) && S.any (fun y => f y == lo) && S.any (fun y => f y == hi)

theorem ext_of_extB {S : List Int} {f : Int → Int} {lo hi : Int} (h : extB S f lo hi = true) : Ext S f lo hi := by
  unfold extB at h
  simp only [Bool.and_eq_true, List.all_eq_true, List.any_eq_true, decide_eq_true_eq, beq_iff_eq] at h
  exact ⟨h.1.1, h.1.2, h.2⟩

theorem Ext.congr {S : List Int} {f g : Int → Int} {lo hi : Int} (h : Ext S f lo hi) (e : ∀ y ∈ S, g y = f y) :
    Ext S g lo hi := by
  obtain ⟨h1, ⟨y1, hy1, e1⟩, ⟨y2, hy2, e2⟩⟩ := h
  refine ⟨fun y hy => by rw [e y hy]; exact h1 y hy, ⟨y1, hy1, by rw [e y1 hy1]; exact e1⟩, ⟨y2, hy2, by rw [e y2 hy2]; exact e2⟩⟩

theorem Ext.add_const {S : List Int} {f g : Int → Int} {lo hi : Int} (h : Ext S f lo hi) (c : Int)
    (e : ∀ y ∈ S, g y = f y + c) : Ext S g (lo + c) (hi + c) := by
  obtain ⟨h1, ⟨y1, hy1, e1⟩, ⟨y2, hy2, e2⟩⟩ := h
  refine ⟨fun y hy => ?_, ⟨y1, hy1, ?_⟩, ⟨y2, hy2, ?_⟩⟩
  · have := h1 y hy; have := e y hy; omega
  · have := e y1 hy1; omega
  · have := e y2 hy2; omega

theorem Ext.const_sub {S : List Int} {f g : Int → Int} {lo hi : Int} (h : Ext S f lo hi) (c : Int)
    (e : ∀ y ∈ S, g y = c - f y) : Ext S g (c - hi) (c - lo) := by
  obtain ⟨h1, ⟨y1, hy1, e1⟩, ⟨y2, hy2, e2⟩⟩ := h
  refine ⟨fun y hy => ?_, ⟨y2, hy2, ?_⟩, ⟨y1, hy1, ?_⟩⟩
  · have := h1 y hy; have := e y hy; omega
  · have := e y2 hy2; omega
  · have := e y1 hy1; omega

theorem Ext.all_le {S : List Int} {f : Int → Int} {lo hi : Int} (h : Ext S f lo hi) (X : Int) :
    (∀ y ∈ S, 86400 * f y ≤ X) ↔ 86400 * hi ≤ X := by
  obtain ⟨h1, _, ⟨y2, hy2, e2⟩⟩ := h
  constructor
  · intro a; have := a y2 hy2; rw [e2] at this; exact this
  · intro a y hy; have := h1 y hy; omega

theorem Ext.all_ge {S : List Int} {f : Int → Int} {lo hi : Int} (h : Ext S f lo hi) (X : Int) :
    (∀ y ∈ S, X ≤ 86400 * f y) ↔ X ≤ 86400 * lo := by
  obtain ⟨h1, ⟨y1, hy1, e1⟩, _⟩ := h
  constructor
  · intro a; have := a y1 hy1; rw [e1] at this; exact this
  · intro a y hy; have := h1 y hy; omega

/-- a clause over the kind years from the extremes over the three year sets -/
theorem cl_of_ext (f : Int → Int) (X : Int) {l1 h1 l2 h2 l3 h3 : Int}
    (e1 : Ext ysNN f l1 h1) (e2 : Ext ysNL f l2 h2) (e3 : Ext ysLN f l3 h3) :
    cl (Spec.kindYears.map f) X =
      ((decide (86400 * h1 ≤ X) && decide (86400 * h2 ≤ X) && decide (86400 * h3 ≤ X)) ||
       (decide (X ≤ 86400 * l1) && decide (X ≤ 86400 * l2) && decide (X ≤ 86400 * l3))) := by
  unfold cl
  rw [Bool.eq_iff_iff]
  simp only [List.all_map, Function.comp_def, Bool.or_eq_true, Bool.and_eq_true, List.all_eq_true, decide_eq_true_eq,
    mem_kindYears]
  rw [← e1.all_le X, ← e2.all_le X, ← e3.all_le X, ← e1.all_ge X, ← e2.all_ge X, ← e3.all_ge X]
  constructor
  · rintro (a | a)
    · left; exact ⟨⟨fun y hy => a y (Or.inl hy), fun y hy => a y (Or.inr (Or.inl hy))⟩, fun y hy => a y (Or.inr (Or.inr hy))⟩
    · right; exact ⟨⟨fun y hy => a y (Or.inl hy), fun y hy => a y (Or.inr (Or.inl hy))⟩, fun y hy => a y (Or.inr (Or.inr hy))⟩
  · rintro (⟨⟨a1, a2⟩, a3⟩ | ⟨⟨a1, a2⟩, a3⟩)
    · left; rintro y (hy | hy | hy)
      · exact a1 y hy
      · exact a2 y hy
      · exact a3 y hy
    · right; rintro y (hy | hy | hy)
      · exact a1 y hy
      · exact a2 y hy
      · exact a3 y hy

theorem cl_neg (f : Int → Int) (X : Int) :
    cl (Spec.kindYears.map (fun y => -(f y))) X = cl (Spec.kindYears.map f) (-X) := by
  unfold cl
  rw [Bool.or_comm]
  congr 1
  · simp only [List.all_map, Function.comp_def]
    apply List.all_congr rfl; intro y; apply decide_eq_decide.mpr; omega
  · simp only [List.all_map, Function.comp_def]
    apply List.all_congr rfl; intro y; apply decide_eq_decide.mpr; omega

end TzVerif.Proofs.CM
