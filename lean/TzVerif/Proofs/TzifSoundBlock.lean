/-
Decode soundness of one TZif block (header + data block): the consumed bytes are `encodeBlock` of the
zone the decoder builds, for a layout read off the bytes.
-/
import TzVerif.Proofs.TzifSoundStruct

namespace TzVerif.Proofs.TzifSoundBlock
open TzVerif.Model TzVerif.Spec TzVerif.Proofs.TzifBE TzVerif.Proofs.TzifBlocks TzVerif.Proofs.TzifDecode
open TzVerif.Proofs.TzifSoundBE TzVerif.Proofs.TzifSoundStruct

/-! ### transitions -/

theorem mkTransitions_times : ∀ (a : List Int) (b : Bytes), a.length ≤ b.length →
    (mkTransitions a b).map (fun t => t.unixLeapTime) = a
  | [], _, _ => by simp [mkTransitions]
  | _ :: _, [], h => by simp at h
  | x :: a, y :: b, h => by
    have ih := mkTransitions_times a b (by simpa using h)
    simp only [mkTransitions, List.zip_cons_cons, List.map_cons] at ih ⊢
    rw [ih]

theorem mkTransitions_idx : ∀ (a : List Int) (b : Bytes), b.length ≤ a.length →
    (mkTransitions a b).map (fun t => t.localTimeTypeIndex) = b
  | [], [], _ => by simp [mkTransitions]
  | [], _ :: _, h => by simp at h
  | _ :: _, [], _ => by simp [mkTransitions]
  | x :: a, y :: b, h => by
    have ih := mkTransitions_idx a b (by simpa using h)
    simp only [mkTransitions, List.zip_cons_cons, List.map_cons] at ih ⊢
    rw [ih]

theorem mkTransitions_length (a : List Int) (b : Bytes) (h : a.length = b.length) :
    (mkTransitions a b).length = b.length := by
  simp [mkTransitions, List.length_zip, h]

theorem mkTransitions_mem {a : List Int} {b : Bytes} {t : Transition} (h : t ∈ mkTransitions a b) :
    t.unixLeapTime ∈ a ∧ t.localTimeTypeIndex ∈ b := by
  unfold mkTransitions at h
  obtain ⟨⟨x, y⟩, hp, rfl⟩ := List.mem_map.mp h
  exact List.of_mem_zip hp

/-! ### type records -/

theorem len6 (l : Bytes) (h : l.length = 6) : ∃ a b c d e f, l = [a, b, c, d, e, f] := by
  match l, h with
  | [a, b, c, d, e, f], _ => exact ⟨a, b, c, d, e, f, rfl⟩

theorem pow31 : ((2 : Int) ^ (8 * 4 - 1)) = 2147483648 := by decide

theorem beSigned4_i32 (b : Bytes) (hl : b.length = 4) (hb : ∀ x ∈ b, x < 256) :
    i32Min ≤ beSigned b ∧ beSigned b ≤ i32Max := by
  have := beSigned_range b (by omega) hb
  rw [hl, pow31] at this
  simp only [i32Min, i32Max]
  omega

theorem encodeType_sound (des : Bytes) (cc : Nat) (d : Bytes) (t : LocalTimeType) (hl : d.length = 6)
    (hb : ∀ y ∈ d, y < 256) (h : parseLocalTimeType des cc d = .ok t) : encodeType t (d.getD 5 0) = d := by
  obtain ⟨r1, _, _, r4, r5, _⟩ := reject_bad_type_record des cc d t h
  obtain ⟨a, b, c, e, f, g, rfl⟩ := len6 d hl
  unfold encodeType
  rw [r5, r4]
  simp only [List.getD_cons_succ, List.getD_cons_zero, List.take_succ_cons, List.take_zero] at r1 ⊢
  have := beBytes_beSigned' [a, b, c, e] (fun y hy => hb y (by simp at hy ⊢; omega))
  rw [show ([a, b, c, e] : Bytes).length = 4 from rfl] at this
  rw [this]
  rcases r1 with rfl | rfl <;> rfl

def TypeFact (des : Bytes) (t : LocalTimeType) (idx : Nat) : Prop :=
  idx < des.length ∧ idx < 256 ∧ 0 ∈ des.drop idx ∧
  t.name = (if cstrAt des idx = [] then none else some (cstrAt des idx)) ∧
  (i32Min ≤ t.utOffset ∧ t.utOffset ≤ i32Max)

theorem typeFact_of (des : Bytes) (d : Bytes) (t : LocalTimeType) (hl : d.length = 6)
    (hb : ∀ y ∈ d, y < 256) (h : parseLocalTimeType des des.length d = .ok t) : TypeFact des t (d.getD 5 0) := by
  obtain ⟨_, r2, r3, _, r5, r6⟩ := reject_bad_type_record des des.length d t h
  refine ⟨r2, ?_, r3, r6, ?_⟩
  · obtain ⟨a, b, c, e, f, g, rfl⟩ := len6 d hl
    simp only [List.getD_cons_succ, List.getD_cons_zero]
    exact hb g (by simp)
  · rw [r5]
    apply beSigned4_i32
    · rw [List.length_take]; omega
    · exact fun y hy => hb y (List.mem_of_mem_take hy)

def idxOf (ds : List Bytes) : List Nat := ds.map (fun d => d.getD 5 0)

theorem types_sound (des : Bytes) : ∀ (ds : List Bytes) (tys : List LocalTimeType),
    parseLocalTimeTypes des des.length ds = .ok tys → (∀ d ∈ ds, d.length = 6 ∧ ∀ y ∈ d, y < 256) →
    tys.length = ds.length ∧
    (tys.zip (idxOf ds)).flatMap (fun p => encodeType p.1 p.2) = ds.flatten ∧
    ∀ p ∈ tys.zip (idxOf ds), TypeFact des p.1 p.2 := by
  intro ds
  induction ds with
  | nil =>
    intro tys h _
    simp only [parseLocalTimeTypes, Except.ok.injEq] at h
    subst h
    simp [idxOf]
  | cons d ds ih =>
    intro tys h hds
    unfold parseLocalTimeTypes at h
    split at h
    · contradiction
    · rename_i t ht
      split at h
      · contradiction
      · rename_i ts' hts'
        simp only [Except.ok.injEq] at h
        subst h
        obtain ⟨hd6, hdb⟩ := hds d (by simp)
        obtain ⟨i1, i2, i3⟩ := ih ts' hts' (fun e he => hds e (by simp [he]))
        refine ⟨by simp [i1], ?_, ?_⟩
        · simp only [idxOf, List.map_cons, List.zip_cons_cons, List.flatMap_cons, List.flatten_cons]
          rw [encodeType_sound des _ d t hd6 hdb ht]
          congr 1
        · intro p hp
          simp only [idxOf, List.map_cons, List.zip_cons_cons, List.mem_cons] at hp
          rcases hp with rfl | hp
          · exact typeFact_of des d t hd6 hdb ht
          · exact i3 p hp

/-! ### leap records -/

theorem leap_chunk (ts : Nat) (ch : Bytes) (hl : ch.length = ts + 4) (hb : ∀ y ∈ ch, y < 256) :
    beBytes ts (mkLeap ts ch).unixLeapTime ++ beBytes 4 (mkLeap ts ch).correction = ch := by
  unfold mkLeap
  dsimp only
  have h1 : (ch.take ts).length = ts := by rw [List.length_take]; omega
  have h2 : (ch.drop ts).take 4 = ch.drop ts := by
    apply List.take_of_length_le; rw [List.length_drop]; omega
  have h3 : (ch.drop ts).length = 4 := by rw [List.length_drop]; omega
  rw [h2]
  have e1 := beBytes_beSigned' (ch.take ts) (fun y hy => hb y (List.mem_of_mem_take hy))
  have e2 := beBytes_beSigned' (ch.drop ts) (fun y hy => hb y (List.mem_of_mem_drop hy))
  rw [h1] at e1
  rw [h3] at e2
  rw [e1, e2, List.take_append_drop]

theorem leap_chunk_range (ts : Nat) (hts : 0 < ts) (ch : Bytes) (hl : ch.length = ts + 4) (hb : ∀ y ∈ ch, y < 256) :
    (-(2 ^ (8 * ts - 1) : Int) ≤ (mkLeap ts ch).unixLeapTime ∧ (mkLeap ts ch).unixLeapTime < 2 ^ (8 * ts - 1)) ∧
    (i32Min ≤ (mkLeap ts ch).correction ∧ (mkLeap ts ch).correction ≤ i32Max) := by
  unfold mkLeap
  dsimp only
  have h1 : (ch.take ts).length = ts := by rw [List.length_take]; omega
  have h3 : ((ch.drop ts).take 4).length = 4 := by rw [List.length_take, List.length_drop]; omega
  constructor
  · have := beSigned_range (ch.take ts) (by omega) (fun y hy => hb y (List.mem_of_mem_take hy))
    rw [h1] at this
    exact this
  · exact beSigned4_i32 _ h3 (fun y hy => hb y (List.mem_of_mem_drop (List.mem_of_mem_take hy)))

/-! ### the block -/

theorem getD_eq_getElem_nat (l : List Nat) (i : Nat) (h : i < l.length) : l.getD i 0 = l[i] := by
  simp [List.getD_eq_getElem?_getD, List.getElem?_eq_getElem h]

theorem block_sound (ts : Nat) (hts : 0 < ts) (c : Bytes) (hb : ∀ x ∈ c, x < 256) (hd : Header) (rest : Bytes)
    (blocks : DataBlocks) (tail : Bytes) (footer : Option Bytes)
    (pf : Bytes → Bool → Except TzError (Option TransitionRule)) (z : TimeZone)
    (hp : parseHeader c = .ok (hd, rest)) (hr : readDataBlocks ts rest hd = .ok (blocks, tail))
    (hz : blocks.parse ts hd footer pf = .ok z) :
    ∃ l : Layout, LayoutOK z l ∧ VerOK l.versionByte hd.version ∧ TimesFit (8 * ts) z ∧
      c = encodeBlock ts z l ++ tail := by
  obtain ⟨vb, res, hres, hresb, hver, hcnt, hc⟩ := parseHeader_struct hb hp
  obtain ⟨hrest, l1, l2, l3, l4, l5, l6, l7⟩ := readDataBlocks_struct hr
  obtain ⟨pT, pI, pTr, pL, _⟩ := parse_struct hz
  obtain ⟨k1, k2, k3, k4, k5, k6, k7, k8, k9, k10⟩ := hcnt
  -- bytes
  have hbrest : ∀ x ∈ rest, x < 256 := by
    intro x hx; apply hb; rw [hc]; unfold hdrEnc; simp [hx]
  have hb1 : ∀ x ∈ blocks.transitionTimes, x < 256 := by
    intro x hx; apply hbrest; rw [hrest]; simp [hx]
  have hb2 : ∀ x ∈ blocks.transitionTypes, x < 256 := by
    intro x hx; apply hbrest; rw [hrest]; simp [hx]
  have hb3 : ∀ x ∈ blocks.localTimeTypes, x < 256 := by
    intro x hx; apply hbrest; rw [hrest]; simp [hx]
  have hb4 : ∀ x ∈ blocks.designations, x < 256 := by
    intro x hx; apply hbrest; rw [hrest]; simp [hx]
  have hb5 : ∀ x ∈ blocks.leapSeconds, x < 256 := by
    intro x hx; apply hbrest; rw [hrest]; simp [hx]
  -- chunks
  obtain ⟨cT1, cT2, cT3⟩ := chunks_spec ts hts _ _ l1
  have cT4 := chunks_bytes ts hts _ _ l1 hb1
  obtain ⟨c61, c62, c63⟩ := chunks_spec 6 (by omega) _ _ l3
  have c64 := chunks_bytes 6 (by omega) _ _ l3 hb3
  obtain ⟨cL1, cL2, cL3⟩ := chunks_spec (ts + 4) (by omega) _ _ l5
  have cL4 := chunks_bytes (ts + 4) (by omega) _ _ l5 hb5
  -- types
  rw [← l4] at pT
  obtain ⟨t1, t2, t3⟩ := types_sound blocks.designations _ _ pT (fun d hd' => ⟨c63 d hd', c64 d hd'⟩)
  have eTy : z.localTimeTypes.length = hd.typeCount := by rw [t1, c62]
  have eIdx : (idxOf (chunksExact 6 blocks.localTimeTypes)).length = hd.typeCount := by
    simp [idxOf, c62]
  -- transitions
  have eTimes : ((chunksExact ts blocks.transitionTimes).map beSigned).length = blocks.transitionTypes.length := by
    rw [List.length_map, cT2, l2]
  have eTr : z.transitions.length = hd.transitionCount := by
    rw [pTr, mkTransitions_length _ _ eTimes, l2]
  have eLp : z.leapSeconds.length = hd.leapCount := by
    rw [pL, List.length_map, cL2]
  have sec1 : z.transitions.flatMap (fun t => beBytes ts t.unixLeapTime) = blocks.transitionTimes := by
    have : z.transitions.flatMap (fun t => beBytes ts t.unixLeapTime) =
        (z.transitions.map (fun t => t.unixLeapTime)).flatMap (beBytes ts) := by
      rw [List.flatMap_map]
    rw [this, pTr, mkTransitions_times _ _ (by omega), List.flatMap_map]
    rw [flatMap_eq_flatten_of _ _ (fun ch hch => by
      have := beBytes_beSigned' ch (cT4 ch hch)
      rw [cT3 ch hch] at this
      exact this)]
    exact cT1
  have sec2 : z.transitions.map (fun t => t.localTimeTypeIndex) = blocks.transitionTypes := by
    rw [pTr, mkTransitions_idx _ _ (by omega)]
  have sec3 : (z.localTimeTypes.zip (idxOf (chunksExact 6 blocks.localTimeTypes))).flatMap
      (fun p => encodeType p.1 p.2) = blocks.localTimeTypes := by
    rw [t2, c61]
  have sec5 : z.leapSeconds.flatMap (fun x => beBytes ts x.unixLeapTime ++ beBytes 4 x.correction) =
      blocks.leapSeconds := by
    rw [pL, List.flatMap_map]
    rw [flatMap_eq_flatten_of _ _ (fun ch hch => leap_chunk ts ch (cL3 ch hch) (cL4 ch hch))]
    exact cL1
  refine ⟨{ versionByte := vb, reserved := res, designations := blocks.designations,
            index := idxOf (chunksExact 6 blocks.localTimeTypes), isstd := blocks.stdWalls,
            isut := blocks.utLocals }, ?_, hver, ?_, ?_⟩
  · -- LayoutOK
    unfold LayoutOK
    dsimp only
    refine ⟨hres, hresb, ?_, by omega, by omega, by omega, ?_, by omega, hb4, by omega, ?_, ?_, ?_, ?_, ?_, ?_, ?_⟩
    · intro h; rw [h] at eTy; simp at eTy; omega
    · intro h; rw [h] at l4; simp at l4; omega
    · intro i hi
      have hi2 : i < (idxOf (chunksExact 6 blocks.localTimeTypes)).length := by omega
      have hiz : i < (z.localTimeTypes.zip (idxOf (chunksExact 6 blocks.localTimeTypes))).length := by
        rw [List.length_zip]; omega
      have hmem := t3 _ (List.getElem_mem hiz)
      rw [List.getElem_zip] at hmem
      rw [getD_eq_getElem_nat _ _ hi2]
      have e : z.localTimeTypes.getD i default = z.localTimeTypes[i] := by
        simp [List.getD_eq_getElem?_getD, List.getElem?_eq_getElem hi]
      rw [e]
      obtain ⟨f1, f2, f3, f4, _⟩ := hmem
      exact ⟨f1, f2, f3, f4⟩
    · rcases k10 with h | h
      · left; exact List.length_eq_zero_iff.mp (by omega)
      · right; omega
    · rcases k9 with h | h
      · left; exact List.length_eq_zero_iff.mp (by omega)
      · right; omega
    · intro i hi
      exact (indicator_pairs_iff _ _ _).mp pI i (by omega)
    · intro t ht
      rw [pTr] at ht
      exact hb2 _ (mkTransitions_mem ht).2
    · intro t ht
      obtain ⟨i, hi, rfl⟩ := List.mem_iff_getElem.mp ht
      have hiz : i < (z.localTimeTypes.zip (idxOf (chunksExact 6 blocks.localTimeTypes))).length := by
        rw [List.length_zip]; omega
      have hmem := t3 _ (List.getElem_mem hiz)
      rw [List.getElem_zip] at hmem
      exact hmem.2.2.2.2
    · intro x hx
      rw [pL] at hx
      obtain ⟨ch, hch, rfl⟩ := List.mem_map.mp hx
      exact (leap_chunk_range ts hts ch (cL3 ch hch) (cL4 ch hch)).2
  · -- TimesFit
    constructor
    · intro t ht
      rw [pTr] at ht
      obtain ⟨ch, hch, he⟩ := List.mem_map.mp (mkTransitions_mem ht).1
      rw [← he]
      have := beSigned_range ch (by rw [cT3 ch hch]; exact hts) (cT4 ch hch)
      rw [cT3 ch hch] at this
      exact this
    · intro x hx
      rw [pL] at hx
      obtain ⟨ch, hch, rfl⟩ := List.mem_map.mp hx
      exact (leap_chunk_range ts hts ch (cL3 ch hch) (cL4 ch hch)).1
  · -- the bytes
    rw [hc, hrest]
    unfold hdrEnc encodeBlock
    dsimp only
    rw [l7, l6, eLp, eTr, eTy, l4, sec1, sec2, sec3, sec5]
    simp only [List.append_assoc, List.cons_append, List.nil_append]

end TzVerif.Proofs.TzifSoundBlock
