/-
Basic helper lemmas for the calendar proofs: truncated division, constants, leap-year rule,
day count of the code vs. the spec, constructor checks.
-/
import TzVerif.Model.DateTime
import TzVerif.Spec.Calendar

namespace TzVerif.Proofs
open TzVerif.Model TzVerif.Gen

/-! ### truncated vs floor division -/

theorem tdiv_nonneg (a k : Int) (ha : 0 ≤ a) : a.tdiv k = a / k :=
  Int.tdiv_eq_ediv_of_nonneg ha

theorem tdiv_nonpos (a k : Int) (ha : a ≤ 0) : a.tdiv k = -((-a) / k) := by
  have : a = -(-a) := by omega
  rw [this, Int.neg_tdiv, Int.tdiv_eq_ediv_of_nonneg (by omega)]; simp

theorem tmod_eq (a k : Int) : a.tmod k = a - k * a.tdiv k := by
  have := Int.tmod_add_mul_tdiv a k; omega

theorem tmod_nonneg (a k : Int) (ha : 0 ≤ a) : a.tmod k = a % k :=
  Int.tmod_eq_emod_of_nonneg ha

/-! ### constants -/

theorem c_spd : SECONDS_PER_DAY = 86400 := by decide
theorem c_sph : SECONDS_PER_HOUR = 3600 := by decide
theorem c_spm : SECONDS_PER_MINUTE = 60 := by decide
theorem c_mph : MINUTES_PER_HOUR = 60 := by decide
theorem c_hpd : HOURS_PER_DAY = 24 := by decide
theorem c_dpw : DAYS_PER_WEEK = 7 := by decide
theorem c_mpy : MONTHS_PER_YEAR = 12 := by decide
theorem c_dpy : DAYS_PER_NORMAL_YEAR = 365 := by decide
theorem c_d4 : DAYS_PER_4_YEARS = 1461 := by decide
theorem c_d100 : DAYS_PER_100_YEARS = 36524 := by decide
theorem c_d400 : DAYS_PER_400_YEARS = 146097 := by decide
theorem c_off : UNIX_OFFSET_SECS = 951868800 := by decide
theorem c_oy : OFFSET_YEAR = 2000 := by decide
theorem c_nps : NANOSECONDS_PER_SECOND = 1000000000 := by decide
theorem c_min : MIN_UNIX_TIME = -67768100567971200 := by decide
theorem c_max : MAX_UNIX_TIME = 67767976233532799 := by decide
theorem c_i32min : i32Min = -2147483648 := by decide
theorem c_i32max : i32Max = 2147483647 := by decide
theorem c_i64min : i64Min = -9223372036854775808 := by decide
theorem c_i64max : i64Max = 9223372036854775807 := by decide

/-! ### leap years -/

theorem tmod_eq_zero_iff (y k : Int) : y.tmod k = 0 ↔ y % k = 0 := by
  by_cases h : 0 ≤ y
  · rw [tmod_nonneg y k h]
  · rw [tmod_eq, tdiv_nonpos y k (by omega)]
    constructor
    · intro e
      have : y = k * (-(-y / k)) := by omega
      rw [this]; exact Int.mul_emod_right _ _
    · intro e
      have h1 : (-y) % k = 0 := by
        have := Int.emod_emod_of_dvd y (Int.dvd_refl k)
        have hd : k ∣ y := Int.dvd_of_emod_eq_zero e
        exact Int.emod_eq_zero_of_dvd (Int.dvd_neg.mpr hd)
      have := Int.mul_ediv_add_emod (-y) k
      have e2 : k * -(-y / k) = -(k * (-y / k)) := by rw [Int.mul_neg]
      omega

theorem isLeapYear_eq (y : Int) : isLeapYear y = Spec.isLeap y := by
  unfold isLeapYear Spec.isLeap
  rw [Bool.eq_iff_iff]
  simp only [Bool.and_eq_true, Bool.or_eq_true, beq_iff_eq, bne_iff_ne, ne_eq,
    tmod_eq_zero_iff y 400, tmod_eq_zero_iff y 4, tmod_eq_zero_iff y 100]
  omega

theorem isLeap_iff (y : Int) :
    Spec.isLeap y = true ↔ (y % 4 = 0 ∧ (y % 100 ≠ 0 ∨ y % 400 = 0)) := by
  unfold Spec.isLeap
  simp only [Bool.and_eq_true, Bool.or_eq_true, beq_iff_eq, bne_iff_ne, ne_eq]


/-! ### day count -/

/-- days before month `m` in a normal year -/
def cumN (m : Int) : Int :=
  if m = 1 then 0 else if m = 2 then 31 else if m = 3 then 59 else if m = 4 then 90
  else if m = 5 then 120 else if m = 6 then 151 else if m = 7 then 181 else if m = 8 then 212
  else if m = 9 then 243 else if m = 10 then 273 else if m = 11 then 304 else if m = 12 then 334 else 365

theorem tbl_cumul (m : Int) (hm : 1 ≤ m ∧ m ≤ 12) :
    tbl CUMUL_DAYS_IN_MONTHS_NORMAL_YEAR (m - 1) = cumN m := by
  have : m = 1 ∨ m = 2 ∨ m = 3 ∨ m = 4 ∨ m = 5 ∨ m = 6 ∨ m = 7 ∨ m = 8 ∨ m = 9 ∨ m = 10 ∨ m = 11 ∨ m = 12 := by omega
  rcases this with h | h | h | h | h | h | h | h | h | h | h | h <;> subst h <;> decide

theorem tbl_dim (m : Int) (hm : 1 ≤ m ∧ m ≤ 12) :
    tbl DAYS_IN_MONTHS_NORMAL_YEAR (m - 1) =
      (if m = 1 then 31 else if m = 2 then 28 else if m = 3 then 31
       else if m = 4 then 30 else if m = 5 then 31 else if m = 6 then 30 else if m = 7 then 31
       else if m = 8 then 31 else if m = 9 then 30 else if m = 10 then 31 else if m = 11 then 30
       else if m = 12 then 31 else 0) := by
  have : m = 1 ∨ m = 2 ∨ m = 3 ∨ m = 4 ∨ m = 5 ∨ m = 6 ∨ m = 7 ∨ m = 8 ∨ m = 9 ∨ m = 10 ∨ m = 11 ∨ m = 12 := by omega
  rcases this with h | h | h | h | h | h | h | h | h | h | h | h <;> subst h <;> decide

theorem daysBeforeMonth_eq (y m : Int) :
    Spec.daysBeforeMonth y m = cumN m + (if 3 ≤ m ∧ Spec.isLeap y = true then 1 else 0) := by
  unfold Spec.daysBeforeMonth cumN
  simp only [ge_iff_le, Bool.and_eq_true, decide_eq_true_eq]

theorem leap_indicator (y : Int) :
    ((if y % 4 = 0 then 1 else 0) - (if y % 100 = 0 then 1 else 0) + (if y % 400 = 0 then 1 else 0) : Int)
      = (if Spec.isLeap y = true then 1 else 0) := by
  have h100 : y % 100 = 0 → y % 4 = 0 := by omega
  have h400 : y % 400 = 0 → y % 100 = 0 := by omega
  simp only [isLeap_iff]
  by_cases p4 : y % 4 = 0 <;> by_cases p100 : y % 100 = 0 <;> by_cases p400 : y % 400 = 0 <;>
    simp_all

theorem daysBeforeYear_alt (y : Int) :
    Spec.daysBeforeYear y =
      365 * (y - 1970) + (y / 4 - y / 100 + y / 400) - 477 - (if Spec.isLeap y = true then 1 else 0) := by
  unfold Spec.daysBeforeYear
  rw [← leap_indicator]
  have a4 : (y - 1) / 4 = y / 4 - (if y % 4 = 0 then 1 else 0) := by omega
  have a100 : (y - 1) / 100 = y / 100 - (if y % 100 = 0 then 1 else 0) := by omega
  have a400 : (y - 1) / 400 = y / 400 - (if y % 400 = 0 then 1 else 0) := by omega
  rw [a4, a100, a400]
  generalize (if y % 4 = 0 then (1:Int) else 0) = i4
  generalize (if y % 100 = 0 then (1:Int) else 0) = i100
  generalize (if y % 400 = 0 then (1:Int) else 0) = i400
  omega

theorem daysSinceUnixEpoch_eq' (y m d : Int) (hm : 1 ≤ m ∧ m ≤ 12) :
    daysSinceUnixEpoch y m d = Spec.dayNumber y m d := by
  unfold daysSinceUnixEpoch Spec.dayNumber
  rw [tbl_cumul m hm, isLeapYear_eq, daysBeforeMonth_eq, daysBeforeYear_alt]
  generalize cumN m = c
  simp only [Bool.and_eq_true, decide_eq_true_eq]
  by_cases hy : y ≥ 1970
  · simp only [hy, if_true]
    have b4 : (y - 1968) / 4 = y / 4 - 492 := by omega
    have b100 : (y - 1900) / 100 = y / 100 - 19 := by omega
    have b400 : (y - 1600) / 400 = y / 400 - 4 := by omega
    rw [tdiv_nonneg _ _ (by omega : 0 ≤ y - 1968), tdiv_nonneg _ _ (by omega : 0 ≤ y - 1900),
      tdiv_nonneg _ _ (by omega : 0 ≤ y - 1600), b4, b100, b400]
    generalize y / 4 = q4
    generalize y / 100 = q100
    generalize y / 400 = q400
    by_cases hl : Spec.isLeap y = true
    · simp only [hl, true_and, and_true, if_true]
      omega
    · simp only [hl, Bool.false_eq_true, false_and, and_false, if_false]
      omega
  · simp only [hy, if_false]
    have d4 : -(y - 1972) / 4 = 493 - y / 4 - (if y % 4 = 0 then 0 else 1) := by omega
    have d100 : -(y - 2000) / 100 = 20 - y / 100 - (if y % 100 = 0 then 0 else 1) := by omega
    have d400 : -(y - 2000) / 400 = 5 - y / 400 - (if y % 400 = 0 then 0 else 1) := by omega
    rw [tdiv_nonpos _ 4 (by omega : y - 1972 ≤ 0), tdiv_nonpos _ 100 (by omega : y - 2000 ≤ 0),
      tdiv_nonpos _ 400 (by omega : y - 2000 ≤ 0), d4, d100, d400]
    have li := leap_indicator y
    have e4 : (if y % 4 = 0 then (0:Int) else 1) = 1 - (if y % 4 = 0 then 1 else 0) := by split <;> rfl
    have e100 : (if y % 100 = 0 then (0:Int) else 1) = 1 - (if y % 100 = 0 then 1 else 0) := by split <;> rfl
    have e400 : (if y % 400 = 0 then (0:Int) else 1) = 1 - (if y % 400 = 0 then 1 else 0) := by split <;> rfl
    rw [e4, e100, e400]
    generalize (if y % 4 = 0 then (1:Int) else 0) = i4 at li ⊢
    generalize (if y % 100 = 0 then (1:Int) else 0) = i100 at li ⊢
    generalize (if y % 400 = 0 then (1:Int) else 0) = i400 at li ⊢
    generalize y / 4 = q4
    generalize y / 100 = q100
    generalize y / 400 = q400
    by_cases hl : Spec.isLeap y = true
    · simp only [hl, true_and, and_true, if_true] at li ⊢
      omega
    · simp only [hl, Bool.false_eq_true, false_and, and_false, if_false] at li ⊢
      omega


theorem unixTime_eq_seconds' (y m d h mi s : Int) (hm : 1 ≤ m ∧ m ≤ 12) :
    unixTime y m d h mi s = Spec.seconds y m d h mi s := by
  unfold unixTime Spec.seconds
  rw [daysSinceUnixEpoch_eq' y m d hm, c_hpd, c_mph, c_spm]
  generalize Spec.dayNumber y m d = n
  omega

/-! ### constructor checks -/

theorem monthLen_eq (y m : Int) (hm : 1 ≤ m ∧ m ≤ 12) :
    Spec.monthLen y m =
      (if m = 2 then tbl DAYS_IN_MONTHS_NORMAL_YEAR (m - 1) + (if isLeapYear y = true then 1 else 0)
       else tbl DAYS_IN_MONTHS_NORMAL_YEAR (m - 1)) := by
  rw [tbl_dim m hm, isLeapYear_eq]
  unfold Spec.monthLen
  have : m = 1 ∨ m = 2 ∨ m = 3 ∨ m = 4 ∨ m = 5 ∨ m = 6 ∨ m = 7 ∨ m = 8 ∨ m = 9 ∨ m = 10 ∨ m = 11 ∨ m = 12 := by omega
  rcases this with h | h | h | h | h | h | h | h | h | h | h | h <;> subst h <;> simp <;> split <;> rfl

theorem checkInputs_eq (y mo d h mi s ns : Int) :
    checkDateTimeInputs y mo d h mi s ns =
      (if ¬ (1 ≤ mo ∧ mo ≤ 12) then .error .invalidMonth
       else if ¬ (1 ≤ d ∧ d ≤ 31) then .error .invalidMonthDay
       else if h > 23 then .error .invalidHour
       else if mi > 59 then .error .invalidMinute
       else if s > 60 then .error .invalidSecond
       else if ns ≥ 1000000000 then .error .invalidNanoseconds
       else if d > Spec.monthLen y mo then .error .invalidMonthDay
       else .ok ()) := by
  unfold checkDateTimeInputs
  by_cases hmo : 1 ≤ mo ∧ mo ≤ 12
  · rw [monthLen_eq y mo hmo]
    by_cases hd : 1 ≤ d ∧ d ≤ 31
    · simp [hmo, hd, c_nps]
    · have : ¬ (1 ≤ d) ∨ ¬ (d ≤ 31) := by omega
      rcases this with h1 | h1 <;> simp [hmo, h1]
  · have : ¬ (1 ≤ mo) ∨ ¬ (mo ≤ 12) := by omega
    rcases this with h1 | h1 <;> simp [h1]

end TzVerif.Proofs
