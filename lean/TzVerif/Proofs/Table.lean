/-
Helper lemmas for C03 (binary search, table lookup). INTERFACE used by Properties/C03.lean.
-/
import TzVerif.Model.TimeZone
import TzVerif.Spec.Zone

namespace TzVerif.Proofs
open TzVerif.Model

/-- strictly increasing list of integers -/
def SortedLt (l : List Int) : Prop := ∀ i j, i < j → j < l.length → l.getD i 0 < l.getD j 0

def BSPost (l : List Int) (x : Int) (r : BS) : Prop :=
  match r with
  | .found i => i < l.length ∧ l.getD i 0 = x
  | .notFound i => i ≤ l.length ∧ (∀ j, j < i → l.getD j 0 < x) ∧ (∀ j, i ≤ j → j < l.length → x < l.getD j 0)

theorem binarySearchLoop_spec (l : List Int) (x : Int) (hs : SortedLt l) (left right : Nat)
    (h1 : left ≤ right) (h2 : right ≤ l.length)
    (hlo : ∀ j, j < left → l.getD j 0 < x)
    (hhi : ∀ j, right ≤ j → j < l.length → x < l.getD j 0) :
    BSPost l x (binarySearchLoop l x left right) := by
  fun_induction binarySearchLoop l x left right with
  | case1 left right hlt mid v hv ih =>
    apply ih (by omega) h2
    · intro j hj
      by_cases hjm : j = mid
      · subst hjm; exact hv
      · have := hs j mid (by omega) (by omega)
        show l.getD j 0 < x
        have hv' : l.getD mid 0 < x := hv
        omega
    · exact hhi
  | case2 left right hlt mid v hv hv2 ih =>
    apply ih (by omega) (by omega) hlo
    intro j hj hjl
    have hv' : l.getD mid 0 > x := hv2
    by_cases hjm : j = mid
    · subst hjm; exact hv'
    · have := hs mid j (by omega) hjl
      omega
  | case3 left right hlt mid v hv hv2 =>
    have hv' : ¬ l.getD mid 0 < x := hv
    have hv2' : ¬ l.getD mid 0 > x := hv2
    exact ⟨by omega, by omega⟩
  | case4 left right hlt =>
    have : left = right := by omega
    subst this
    exact ⟨h2, hlo, hhi⟩

theorem binarySearch_spec (l : List Int) (x : Int) (hs : SortedLt l) :
    match binarySearch l x with
    | .found i => i < l.length ∧ l.getD i 0 = x
    | .notFound i => i ≤ l.length ∧ (∀ j, j < i → l.getD j 0 < x) ∧ (∀ j, i ≤ j → j < l.length → x < l.getD j 0) := by
  have := binarySearchLoop_spec l x hs 0 l.length (Nat.zero_le _) (Nat.le_refl _)
    (fun j hj => absurd hj (Nat.not_lt_zero _)) (fun j h1 h2 => by omega)
  exact this


theorem upper_spec (l : List Int) (x : Int) (hs : SortedLt l) :
    (binarySearch l x).upper ≤ l.length ∧
    (∀ j, j < (binarySearch l x).upper → l.getD j 0 ≤ x) ∧
    (∀ j, (binarySearch l x).upper ≤ j → j < l.length → x < l.getD j 0) := by
  have h := binarySearch_spec l x hs
  cases hb : binarySearch l x with
  | found i =>
    rw [hb] at h
    obtain ⟨h1, h2⟩ := h
    refine ⟨h1, ?_, ?_⟩
    · intro j hj
      have hj' : j < i + 1 := hj
      by_cases hji : j = i
      · subst hji; omega
      · have := hs j i (by omega) h1
        omega
    · intro j hj hjl
      have hj' : i + 1 ≤ j := hj
      have := hs i j (by omega) hjl
      omega
  | notFound i =>
    rw [hb] at h
    obtain ⟨h1, h2, h3⟩ := h
    refine ⟨h1, ?_, h3⟩
    intro j hj
    exact Int.le_of_lt (h2 j hj)

theorem strictlyIncreasing_pairwise (ts : List Transition) (h : Spec.StrictlyIncreasing ts) :
    ts.Pairwise (fun a b => a.unixLeapTime < b.unixLeapTime) := by
  induction ts with
  | nil => exact List.Pairwise.nil
  | cons a rest ih =>
    cases rest with
    | nil => simp
    | cons b rest =>
      obtain ⟨hab, hr⟩ := h
      have ihr := ih hr
      refine List.Pairwise.cons ?_ ihr
      intro c hc
      rcases List.mem_cons.mp hc with rfl | hc
      · exact hab
      · have := (List.pairwise_cons.mp ihr).1 c hc
        omega

theorem getD_map_time (ts : List Transition) (j : Nat) (hj : j < ts.length) :
    (ts.map (·.unixLeapTime)).getD j 0 = ts[j].unixLeapTime := by
  simp [List.getD_eq_getElem?_getD, hj]

theorem sortedLt_of_strictlyIncreasing (ts : List Transition) (h : Spec.StrictlyIncreasing ts) :
    SortedLt (ts.map (·.unixLeapTime)) := by
  intro i j hij hj
  rw [List.length_map] at hj
  rw [getD_map_time ts i (by omega), getD_map_time ts j hj]
  exact List.pairwise_iff_getElem.mp (strictlyIncreasing_pairwise ts h) i j (by omega) hj hij

theorem filter_eq_take {α : Type} (ts : List α) (p : α → Bool) (c : Nat) (hc : c ≤ ts.length)
    (h1 : ∀ j (hj : j < ts.length), j < c → p ts[j] = true)
    (h2 : ∀ j (hj : j < ts.length), c ≤ j → p ts[j] = false) :
    ts.filter p = ts.take c := by
  conv => lhs; rw [← List.take_append_drop c ts]
  rw [List.filter_append]
  have e1 : (ts.take c).filter p = ts.take c := by
    rw [List.filter_eq_self]
    intro a ha
    obtain ⟨j, hj, rfl⟩ := List.mem_iff_getElem.mp ha
    rw [List.length_take] at hj
    rw [List.getElem_take]
    exact h1 j (by omega) (by omega)
  have e2 : (ts.drop c).filter p = [] := by
    rw [List.filter_eq_nil_iff]
    intro a ha
    obtain ⟨j, hj, rfl⟩ := List.mem_iff_getElem.mp ha
    rw [List.length_drop] at hj
    rw [List.getElem_drop]
    simp [h2 (c + j) (by omega) (by omega)]
  rw [e1, e2, List.append_nil]

theorem lastAtOrBefore_eq (ts : List Transition) (h : Spec.StrictlyIncreasing ts) (L : Int) :
    Spec.lastAtOrBefore ts L =
      if (binarySearch (ts.map (·.unixLeapTime)) L).upper = 0 then none
      else ts[(binarySearch (ts.map (·.unixLeapTime)) L).upper - 1]? := by
  obtain ⟨hc, hlo, hhi⟩ := upper_spec (ts.map (·.unixLeapTime)) L (sortedLt_of_strictlyIncreasing ts h)
  generalize (binarySearch (ts.map (·.unixLeapTime)) L).upper = c at hc hlo hhi
  rw [List.length_map] at hc hhi
  unfold Spec.lastAtOrBefore
  rw [filter_eq_take ts _ c hc]
  · rw [List.getLast?_eq_getElem?, List.length_take]
    split
    · next h0 => subst h0; simp
    · next h0 =>
      rw [List.getElem?_take_of_lt (by omega)]
      congr 1
      omega
  · intro j hj hjc
    have := hlo j hjc
    rw [getD_map_time ts j hj] at this
    simpa using this
  · intro j hj hjc
    have := hhi j hjc hj
    rw [getD_map_time ts j hj] at this
    simp only [decide_eq_false_iff_not]
    omega

theorem table_lookup (z : TimeZone) (hs : Spec.StrictlyIncreasing z.transitions) (u L : Int) (last : Transition)
    (hl : z.transitions.getLast? = some last) (hL : unixTimeToUnixLeapTime z.leapSeconds u = .ok L) :
    z.findLocalTimeType u =
      (if L ≥ last.unixLeapTime then
        (match z.extraRule with
         | some r => r.findLocalTimeType u
         | none => .error .noAvailableLocalTimeType)
       else .ok (z.localTimeTypes.getD (Spec.typeIndexAt z.transitions L) default)) := by
  unfold TimeZone.findLocalTimeType
  rw [hl]
  simp only [hL]
  split
  · rfl
  · congr 2
    unfold Spec.typeIndexAt
    rw [lastAtOrBefore_eq z.transitions hs L]
    obtain ⟨hc, -, -⟩ := upper_spec (z.transitions.map (·.unixLeapTime)) L (sortedLt_of_strictlyIncreasing _ hs)
    generalize (binarySearch (z.transitions.map (·.unixLeapTime)) L).upper = c at hc
    rw [List.length_map] at hc
    by_cases h0 : c = 0
    · subst h0; simp
    · have hlt : c - 1 < z.transitions.length := by omega
      rw [if_pos (by omega), if_neg h0, List.getElem?_eq_getElem hlt]
      simp [List.getD_eq_getElem?_getD, hlt]

theorem no_transitions (z : TimeZone) (u : Int) (h : z.transitions = []) :
    z.findLocalTimeType u =
      (match z.extraRule with
       | some r => r.findLocalTimeType u
       | none => .ok (z.localTimeTypes.getD 0 default)) := by
  unfold TimeZone.findLocalTimeType
  rw [h]
  rfl

theorem conversion_error (z : TimeZone) (u : Int) (e : TzError) (last : Transition)
    (hl : z.transitions.getLast? = some last) (hL : unixTimeToUnixLeapTime z.leapSeconds u = .error e) :
    z.findLocalTimeType u = .error e := by
  unfold TimeZone.findLocalTimeType
  rw [hl]
  simp only [hL]


theorem utc_fromTimespec_nanoseconds (t ns : Int) (c : UtcDateTime)
    (h : UtcDateTime.fromTimespec t ns = .ok c) : c.nanoseconds = ns := by
  unfold UtcDateTime.fromTimespec at h
  simp only at h
  split at h
  · cases h
  · split at h
    · cases h
    · injection h with h
      subst h
      rfl

theorem fromTimespecAndLocal_spec (u ns : Int) (ltt : LocalTimeType) (d : DateTime)
    (h : DateTime.fromTimespecAndLocal u ns ltt = .ok d) :
    d.unixTime = u ∧ d.nanoseconds = ns ∧ d.localTimeType = ltt ∧
    UtcDateTime.fromTimespec (u + ltt.utOffset) ns =
      .ok { year := d.year, month := d.month, monthDay := d.monthDay, hour := d.hour, minute := d.minute,
            second := d.second, nanoseconds := d.nanoseconds } := by
  unfold DateTime.fromTimespecAndLocal at h
  simp only at h
  split at h
  · cases h
  · cases hc : UtcDateTime.fromTimespec (u + ltt.utOffset) ns with
    | error e => rw [hc] at h; cases h
    | ok c =>
      rw [hc] at h
      injection h with h
      subst h
      exact ⟨rfl, utc_fromTimespec_nanoseconds _ _ _ hc, rfl, rfl⟩

theorem fromTimespec_zone (u ns : Int) (z : TimeZone) (d : DateTime) (h : DateTime.fromTimespec u ns z = .ok d) :
    d.unixTime = u ∧ d.nanoseconds = ns ∧ z.findLocalTimeType u = .ok d.localTimeType ∧
    UtcDateTime.fromTimespec (u + d.localTimeType.utOffset) ns =
      .ok { year := d.year, month := d.month, monthDay := d.monthDay, hour := d.hour, minute := d.minute,
            second := d.second, nanoseconds := d.nanoseconds } := by
  unfold DateTime.fromTimespec at h
  cases hf : z.findLocalTimeType u with
  | error e => rw [hf] at h; cases h
  | ok ltt =>
    rw [hf] at h
    obtain ⟨h1, h2, h3, h4⟩ := fromTimespecAndLocal_spec u ns ltt d h
    rw [h3]
    exact ⟨h1, h2, rfl, h4⟩

end TzVerif.Proofs
