/-
Helper lemmas for C03 (binary search, table lookup). INTERFACE used by Properties/C03.lean.
-/
import TzVerif.Model.TimeZone
import TzVerif.Spec.Zone

namespace TzVerif.Proofs
open TzVerif.Model

/-- strictly increasing list of integers -/
def SortedLt (l : List Int) : Prop := ∀ i j, i < j → j < l.length → l.getD i 0 < l.getD j 0

theorem binarySearch_spec (l : List Int) (x : Int) (hs : SortedLt l) :
    match binarySearch l x with
    | .found i => i < l.length ∧ l.getD i 0 = x
    | .notFound i => i ≤ l.length ∧ (∀ j, j < i → l.getD j 0 < x) ∧ (∀ j, i ≤ j → j < l.length → x < l.getD j 0) := by
  sorry

theorem table_lookup (z : TimeZone) (hs : Spec.StrictlyIncreasing z.transitions) (u L : Int) (last : Transition)
    (hl : z.transitions.getLast? = some last) (hL : unixTimeToUnixLeapTime z.leapSeconds u = .ok L) :
    z.findLocalTimeType u =
      (if L ≥ last.unixLeapTime then
        (match z.extraRule with
         | some r => r.findLocalTimeType u
         | none => .error .noAvailableLocalTimeType)
       else .ok (z.localTimeTypes.getD (Spec.typeIndexAt z.transitions L) default)) := by
  sorry

theorem no_transitions (z : TimeZone) (u : Int) (h : z.transitions = []) :
    z.findLocalTimeType u =
      (match z.extraRule with
       | some r => r.findLocalTimeType u
       | none => .ok (z.localTimeTypes.getD 0 default)) := by
  sorry

theorem conversion_error (z : TimeZone) (u : Int) (e : TzError) (last : Transition)
    (hl : z.transitions.getLast? = some last) (hL : unixTimeToUnixLeapTime z.leapSeconds u = .error e) :
    z.findLocalTimeType u = .error e := by
  sorry

theorem fromTimespec_zone (u ns : Int) (z : TimeZone) (d : DateTime) (h : DateTime.fromTimespec u ns z = .ok d) :
    d.unixTime = u ∧ d.nanoseconds = ns ∧ z.findLocalTimeType u = .ok d.localTimeType ∧
    UtcDateTime.fromTimespec (u + d.localTimeType.utOffset) ns =
      .ok { year := d.year, month := d.month, monthDay := d.monthDay, hour := d.hour, minute := d.minute,
            second := d.second, nanoseconds := d.nanoseconds } := by
  sorry

end TzVerif.Proofs
