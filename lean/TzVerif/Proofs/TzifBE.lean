/-
Big-endian helper lemmas for C08 (TZif round trip).
-/
import TzVerif.Model.TzFile
import TzVerif.Spec.Tzif

namespace TzVerif.Proofs.TzifBE
open TzVerif.Model

def digits (n u : Nat) : List Nat := (List.range n).map (fun i => u / 256 ^ (n - 1 - i) % 256)

theorem digits_succ (n u : Nat) : digits (n + 1) u = digits n (u / 256) ++ [u % 256] := by
  unfold digits
  rw [List.range_succ, List.map_append]
  congr 1
  · apply List.map_congr_left
    intro i hi
    have hi' : i < n := List.mem_range.mp hi
    have e : n + 1 - 1 - i = (n - 1 - i) + 1 := by omega
    rw [e, Nat.pow_succ, Nat.div_div_eq_div_mul, Nat.mul_comm]
  · simp

theorem foldl_digits (n : Nat) : ∀ u, u < 256 ^ n → (digits n u).foldl (fun acc x => acc * 256 + x) 0 = u := by
  induction n with
  | zero => intro u hu; simp [digits] at *; omega
  | succ n ih =>
    intro u hu
    rw [digits_succ, List.foldl_append]
    have : u / 256 < 256 ^ n := by
      rw [Nat.pow_succ] at hu
      exact Nat.div_lt_of_lt_mul (by rw [Nat.mul_comm]; exact hu)
    rw [ih _ this]
    simp only [List.foldl_cons, List.foldl_nil]
    omega

theorem pow8 (n : Nat) : (2 : Nat) ^ (8 * n) = 256 ^ n := by
  rw [Nat.pow_mul]

theorem beBytes_eq (n : Nat) (v : Int) : Spec.beBytes n v = digits n (v % (2 ^ (8 * n) : Int)).toNat := rfl

theorem beBytes_length (n : Nat) (v : Int) : (Spec.beBytes n v).length = n := by
  simp [Spec.beBytes]

theorem beBytes_lt (n : Nat) (v : Int) : ∀ b ∈ Spec.beBytes n v, b < 256 := by
  intro b hb
  simp only [Spec.beBytes, List.mem_map] at hb
  obtain ⟨i, _, rfl⟩ := hb
  exact Nat.mod_lt _ (by decide)

theorem be32_beBytes (n : Nat) (v : Int) : be32 (Spec.beBytes n v) = (v % (2 ^ (8 * n) : Int)).toNat := by
  rw [beBytes_eq]
  unfold be32
  apply foldl_digits
  have hpos : (0 : Int) < 2 ^ (8 * n) := Int.pow_pos (by decide)
  have h1 := Int.emod_lt_of_pos v hpos
  have h0 := Int.emod_nonneg v (Int.ne_of_gt hpos)
  rw [← pow8]
  have : ((v % (2 ^ (8 * n) : Int)).toNat : Int) < ((2 ^ (8 * n) : Nat) : Int) := by
    rw [Int.toNat_of_nonneg h0]; push_cast; exact h1
  exact Int.ofNat_lt.mp this

theorem beSigned_beBytes (n : Nat) (v : Int) (hn : 0 < n) (hv : -(2 ^ (8 * n - 1) : Int) ≤ v ∧ v < 2 ^ (8 * n - 1)) :
    beSigned (Spec.beBytes n v) = v := by
  unfold beSigned
  simp only [beBytes_length, be32_beBytes]
  have hpos : (0 : Int) < 2 ^ (8 * n) := Int.pow_pos (by decide)
  have h0 := Int.emod_nonneg v (Int.ne_of_gt hpos)
  rw [Int.toNat_of_nonneg h0]
  have e : (2 : Int) ^ (8 * n) = 2 * 2 ^ (8 * n - 1) := by
    have : 8 * n = (8 * n - 1) + 1 := by omega
    rw [this, Int.pow_succ]; simp; omega
  generalize (2 : Int) ^ (8 * n - 1) = P at *
  rw [e]
  by_cases hneg : 0 ≤ v
  · rw [Int.emod_eq_of_lt hneg (by omega)]
    split <;> omega
  · have : v % (2 * P) = v + 2 * P := by
      rw [← Int.add_emod_right v (2 * P)]
      exact Int.emod_eq_of_lt (by omega) (by omega)
    rw [this]
    split <;> omega

theorem be32_be32u (v : Nat) (hv : v < 2 ^ 32) : be32 (Spec.be32u v) = v := by
  unfold Spec.be32u
  rw [be32_beBytes]
  omega

theorem be32u_length (v : Nat) : (Spec.be32u v).length = 4 := beBytes_length 4 _

end TzVerif.Proofs.TzifBE
