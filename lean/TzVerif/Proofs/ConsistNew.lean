/-
C11: unfolding of the guards of `AlternateTime.new` (helper for Consist.lean).
-/
import TzVerif.Model.Rule

namespace TzVerif.Proofs
open TzVerif.Model TzVerif.Gen

theorem guard_std (x : Int) :
    (guardOffsetLowHours * SECONDS_PER_HOUR < x && x < guardOffsetHighHours * SECONDS_PER_HOUR) = true ↔
      (-90000 < x ∧ x < 93600) := by
  simp only [Bool.and_eq_true, decide_eq_true_eq]
  have e1 : guardOffsetLowHours * SECONDS_PER_HOUR = -90000 := by decide
  have e2 : guardOffsetHighHours * SECONDS_PER_HOUR = 93600 := by decide
  rw [e1, e2]

theorem guard_dst (x : Int) :
    (guardDstOffsetLowHours * SECONDS_PER_HOUR < x && x < guardDstOffsetHighHours * SECONDS_PER_HOUR) = true ↔
      (-90000 < x ∧ x < 93600) := by
  simp only [Bool.and_eq_true, decide_eq_true_eq]
  have e1 : guardDstOffsetLowHours * SECONDS_PER_HOUR = -90000 := by decide
  have e2 : guardDstOffsetHighHours * SECONDS_PER_HOUR = 93600 := by decide
  rw [e1, e2]

theorem guard_time (s e : Int) :
    (absI s < SECONDS_PER_WEEK && absI e < SECONDS_PER_WEEK) = true ↔
      (-604800 < s ∧ s < 604800 ∧ -604800 < e ∧ e < 604800) := by
  simp only [Bool.and_eq_true, decide_eq_true_eq]
  have e1 : SECONDS_PER_WEEK = 604800 := by decide
  rw [e1]
  unfold absI
  constructor
  · rintro ⟨h1, h2⟩
    split at h1 <;> split at h2 <;> omega
  · rintro ⟨h1, h2, h3, h4⟩
    constructor <;> split <;> omega

/-- `AlternateTime.new` with its guards stated as propositions -/
theorem new_cases (std dst : LocalTimeType) (ds : RuleDay) (st : Int) (de : RuleDay) (et : Int) :
    (¬ (-90000 < std.utOffset ∧ std.utOffset < 93600) ∧
      AlternateTime.new std dst ds st de et = .error .invalidStdUtcOffset) ∨
    ((-90000 < std.utOffset ∧ std.utOffset < 93600) ∧ ¬ (-90000 < dst.utOffset ∧ dst.utOffset < 93600) ∧
      AlternateTime.new std dst ds st de et = .error .invalidDstUtcOffset) ∨
    ((-90000 < std.utOffset ∧ std.utOffset < 93600) ∧ (-90000 < dst.utOffset ∧ dst.utOffset < 93600) ∧
      ¬ (-604800 < st ∧ st < 604800 ∧ -604800 < et ∧ et < 604800) ∧
      AlternateTime.new std dst ds st de et = .error .invalidDstStartEndTime) ∨
    ((-90000 < std.utOffset ∧ std.utOffset < 93600) ∧ (-90000 < dst.utOffset ∧ dst.utOffset < 93600) ∧
      (-604800 < st ∧ st < 604800 ∧ -604800 < et ∧ et < 604800) ∧
      checkDstTransitionRulesConsistency std dst ds st de et = false ∧
      AlternateTime.new std dst ds st de et = .error .inconsistentRule) ∨
    ((-90000 < std.utOffset ∧ std.utOffset < 93600) ∧ (-90000 < dst.utOffset ∧ dst.utOffset < 93600) ∧
      (-604800 < st ∧ st < 604800 ∧ -604800 < et ∧ et < 604800) ∧
      checkDstTransitionRulesConsistency std dst ds st de et = true ∧
      AlternateTime.new std dst ds st de et =
        .ok { std := std, dst := dst, dstStart := ds, dstStartTime := st, dstEnd := de, dstEndTime := et }) := by
  unfold AlternateTime.new
  cases h1 : (guardOffsetLowHours * SECONDS_PER_HOUR < std.utOffset && std.utOffset < guardOffsetHighHours * SECONDS_PER_HOUR)
  · left
    refine ⟨?_, by simp⟩
    rw [← guard_std, h1]; simp
  · right
    have p1 := (guard_std _).mp h1
    cases h2 : (guardDstOffsetLowHours * SECONDS_PER_HOUR < dst.utOffset && dst.utOffset < guardDstOffsetHighHours * SECONDS_PER_HOUR)
    · left
      refine ⟨p1, ?_, by simp⟩
      rw [← guard_dst, h2]; simp
    · right
      have p2 := (guard_dst _).mp h2
      cases h3 : (absI st < SECONDS_PER_WEEK && absI et < SECONDS_PER_WEEK)
      · left
        refine ⟨p1, p2, ?_, by simp⟩
        rw [← guard_time, h3]; simp
      · right
        have p3 := (guard_time _ _).mp h3
        cases h4 : checkDstTransitionRulesConsistency std dst ds st de et
        · left
          exact ⟨p1, p2, p3, rfl, by simp⟩
        · right
          exact ⟨p1, p2, p3, rfl, by simp⟩

end TzVerif.Proofs
