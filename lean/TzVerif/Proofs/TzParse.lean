/-
C09 part 2: the code's parser (model) equals reference reader + denotation + the library's constructors. INTERFACE.
-/
import TzVerif.Model.TzFile
import TzVerif.Spec.TzGrammar
import TzVerif.Proofs.TzParseTop
import TzVerif.Proofs.TzParseAscii

namespace TzVerif.Proofs
open TzVerif.Model

/-- forget the error kind -/
def okOf {ε α} : Except ε α → Option α
  | .ok a => some a
  | .error _ => none

theorem parsePosixTz_eq_reference (ext : Bool) (b : Bytes) :
    okOf (parsePosixTz b ext) = (Spec.readTz ext b).bind (fun t => (Spec.denoteParts ext t).bind Spec.build) := by
  rcases hm : parsePosixTz b ext with e | r
  · -- the model refuses: the reference cannot produce a rule
    rcases hR : (Spec.readTz ext b).bind (fun t => (Spec.denoteParts ext t).bind Spec.build) with _ | r
    · rfl
    · exfalso
      simp only [Option.bind_eq_some_iff] at hR
      obtain ⟨t, h1, p, h2, h3⟩ := hR
      rw [TzParseNT.parse_of_ref ext b t p r h1 h2 h3] at hm
      cases hm
  · obtain ⟨t, p, h1, h2, h3⟩ := TzParseNT.parse_ok_imp ext b r hm
    simp only [okOf, h1, h2, h3, Option.bind_some]

/-- every accepted description is pure ASCII (so UTF-8 validation cannot change accept/reject) -/
theorem accepted_is_ascii (ext : Bool) (b : Bytes) (r : TransitionRule) (h : parsePosixTz b ext = .ok r) :
    ∀ c ∈ b, c < 128 := by
  obtain ⟨t, p, h1, h2, _⟩ := TzParseNT.parse_ok_imp ext b r h
  exact TzParseNT.readTz_ascii h1 h2

/-- the footer of a version-2/3 file: NL, description stripped of ASCII whitespace, NL -/
theorem parseFooter_ok_iff (footer : Bytes) (ext : Bool) (r : Option TransitionRule) :
    parseFooter footer ext = .ok r ↔
      (validUtf8 footer = true ∧ footer.length ≥ 2 ∧ footer.head? = some 10 ∧ footer.getLast? = some 10 ∧
       (trimAsciiWhitespace footer).head? ≠ some 58 ∧ 0 ∉ trimAsciiWhitespace footer ∧
       ((trimAsciiWhitespace footer = [] ∧ r = none) ∨
        (trimAsciiWhitespace footer ≠ [] ∧ ∃ x, r = some x ∧ parsePosixTz (trimAsciiWhitespace footer) ext = .ok x))) := by
  unfold parseFooter
  simp only []
  generalize trimAsciiWhitespace footer = tz
  by_cases h1 : validUtf8 footer = true
  case neg => simp [h1]
  by_cases h2 : footer.length ≥ 2
  case neg => simp [h1, h2]
  by_cases h3 : footer.head? = some 10
  case neg => simp [h1, h2, h3]
  by_cases h4 : footer.getLast? = some 10
  case neg => simp [h1, h2, h3, h4]
  by_cases h5 : tz.head? = some 58
  case pos => simp [h1, h2, h3, h4, h5]
  by_cases h6 : 0 ∈ tz
  case pos => simp [h1, h2, h3, h4, h5, h6]
  rcases tz with _ | ⟨c, tz⟩
  · simp [h1, h2, h3, h4]
    constructor <;> intro h <;> exact h.symm
  · have h5' : ¬ c = 58 := by simpa using h5
    rcases hp : parsePosixTz (c :: tz) ext with e | x
    · simp [h1, h2, h3, h4, h5', h6]
    · simp [h1, h2, h3, h4, h5', h6]
      exact eq_comm

end TzVerif.Proofs
