/-
C09 part 2: the code's parser (model) equals reference reader + denotation + the library's constructors. INTERFACE.
-/
import TzVerif.Model.TzFile
import TzVerif.Spec.TzGrammar

namespace TzVerif.Proofs
open TzVerif.Model

/-- forget the error kind -/
def okOf {ε α} : Except ε α → Option α
  | .ok a => some a
  | .error _ => none

theorem parsePosixTz_eq_reference (ext : Bool) (b : Bytes) :
    okOf (parsePosixTz b ext) = (Spec.readTz ext b).bind (fun t => (Spec.denoteParts ext t).bind Spec.build) := by
  sorry

/-- every accepted description is pure ASCII (so UTF-8 validation cannot change accept/reject) -/
theorem accepted_is_ascii (ext : Bool) (b : Bytes) (r : TransitionRule) (h : parsePosixTz b ext = .ok r) :
    ∀ c ∈ b, c < 128 := by
  sorry

/-- the footer of a version-2/3 file: NL, description stripped of ASCII whitespace, NL -/
theorem parseFooter_ok_iff (footer : Bytes) (ext : Bool) (r : Option TransitionRule) :
    parseFooter footer ext = .ok r ↔
      (validUtf8 footer = true ∧ footer.length ≥ 2 ∧ footer.head? = some 10 ∧ footer.getLast? = some 10 ∧
       (trimAsciiWhitespace footer).head? ≠ some 58 ∧ 0 ∉ trimAsciiWhitespace footer ∧
       ((trimAsciiWhitespace footer = [] ∧ r = none) ∨
        (trimAsciiWhitespace footer ≠ [] ∧ ∃ x, r = some x ∧ parsePosixTz (trimAsciiWhitespace footer) ext = .ok x))) := by
  sorry

end TzVerif.Proofs
