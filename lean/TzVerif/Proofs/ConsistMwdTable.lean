/-
C11 steps 3–5: the literal day-of-year table `tab` is checked against the scanning spec
`Spec.nthWeekdayOfMonth` (through `tabOf`) by kernel evaluation: 420 notations × 29 years.
-/
import TzVerif.Proofs.ConsistMwdTab

namespace TzVerif.Proofs.CM
open TzVerif.Model TzVerif.Gen

set_option maxRecDepth 100000

theorem tab_ok_1 : ∀ w ∈ r5, ∀ d ∈ r7, tabOf (.mwd 1 w d) = tab 1 w d := by decide +kernel
theorem tab_ok_2 : ∀ w ∈ r5, ∀ d ∈ r7, tabOf (.mwd 2 w d) = tab 2 w d := by decide +kernel
theorem tab_ok_3 : ∀ w ∈ r5, ∀ d ∈ r7, tabOf (.mwd 3 w d) = tab 3 w d := by decide +kernel
theorem tab_ok_4 : ∀ w ∈ r5, ∀ d ∈ r7, tabOf (.mwd 4 w d) = tab 4 w d := by decide +kernel
theorem tab_ok_5 : ∀ w ∈ r5, ∀ d ∈ r7, tabOf (.mwd 5 w d) = tab 5 w d := by decide +kernel
theorem tab_ok_6 : ∀ w ∈ r5, ∀ d ∈ r7, tabOf (.mwd 6 w d) = tab 6 w d := by decide +kernel
theorem tab_ok_7 : ∀ w ∈ r5, ∀ d ∈ r7, tabOf (.mwd 7 w d) = tab 7 w d := by decide +kernel
theorem tab_ok_8 : ∀ w ∈ r5, ∀ d ∈ r7, tabOf (.mwd 8 w d) = tab 8 w d := by decide +kernel
theorem tab_ok_9 : ∀ w ∈ r5, ∀ d ∈ r7, tabOf (.mwd 9 w d) = tab 9 w d := by decide +kernel
theorem tab_ok_10 : ∀ w ∈ r5, ∀ d ∈ r7, tabOf (.mwd 10 w d) = tab 10 w d := by decide +kernel
theorem tab_ok_11 : ∀ w ∈ r5, ∀ d ∈ r7, tabOf (.mwd 11 w d) = tab 11 w d := by decide +kernel
theorem tab_ok_12 : ∀ w ∈ r5, ∀ d ∈ r7, tabOf (.mwd 12 w d) = tab 12 w d := by decide +kernel

theorem tab_ok (m w d : Int) (hm1 : 1 ≤ m) (hm2 : m ≤ 12) (hw1 : 1 ≤ w) (hw2 : w ≤ 5) (hd1 : 0 ≤ d) (hd2 : d ≤ 6) :
    tabOf (.mwd m w d) = tab m w d := by
  have hw := mem_r5 w hw1 hw2
  have hd := mem_r7 d hd1 hd2
  have : m = 1 ∨ m = 2 ∨ m = 3 ∨ m = 4 ∨ m = 5 ∨ m = 6 ∨ m = 7 ∨ m = 8 ∨ m = 9 ∨ m = 10 ∨ m = 11 ∨ m = 12 := by omega
  rcases this with h | h | h | h | h | h | h | h | h | h | h | h <;> subst h
  · exact tab_ok_1 w hw d hd
  · exact tab_ok_2 w hw d hd
  · exact tab_ok_3 w hw d hd
  · exact tab_ok_4 w hw d hd
  · exact tab_ok_5 w hw d hd
  · exact tab_ok_6 w hw d hd
  · exact tab_ok_7 w hw d hd
  · exact tab_ok_8 w hw d hd
  · exact tab_ok_9 w hw d hd
  · exact tab_ok_10 w hw d hd
  · exact tab_ok_11 w hw d hd
  · exact tab_ok_12 w hw d hd

end TzVerif.Proofs.CM
