/-
C11 step 5: both days in month-week-day notation. Assembly of the finite checks into the
statement "code = spec", given the table of near pairs.
-/
import TzVerif.Proofs.ConsistMwdPair
import TzVerif.Proofs.ConsistMwdTable

namespace TzVerif.Proofs.CM
open TzVerif.Model TzVerif.Gen

set_option maxRecDepth 100000
set_option linter.unusedSimpArgs false

/-! ### code side -/

theorem checkTwo_eq (m1 w1 d1 tS m2 w2 d2 tE : Int) :
    checkTwoMonthWeekDays m1 w1 d1 tS m2 w2 d2 tE = codeD (ivCode (codeSpan m1 w1 d1 m2 w2 d2)) (tS - tE) := by
  have c1 : SECONDS_PER_DAY = 86400 := by decide
  have c2 : MONTHS_PER_YEAR = 12 := by decide
  have fwd : ∀ o : Option (Int × Int),
      (match o with
        | none => true
        | some (dmin, dmax) => decide (tS ≤ dmin * SECONDS_PER_DAY + tE) || decide (dmax * SECONDS_PER_DAY + tE ≤ tS)) =
      codeD (ivCode (o.map (fun p => (true, p.1, p.2)))) (tS - tE) := by
    intro o
    cases o with
    | none => rfl
    | some p =>
      obtain ⟨dmin, dmax⟩ := p
      simp only [Option.map, ivCode, codeD, openB, c1]
      rw [Bool.eq_iff_iff]; simp only [Bool.or_eq_true, decide_eq_true_eq]; omega
  have bwd : ∀ o : Option (Int × Int),
      (match o with
        | none => true
        | some (dmin, dmax) => decide (tE ≤ dmin * SECONDS_PER_DAY + tS) || decide (dmax * SECONDS_PER_DAY + tS ≤ tE)) =
      codeD (ivCode (o.map (fun p => (false, p.1, p.2)))) (tS - tE) := by
    intro o
    cases o with
    | none => rfl
    | some p =>
      obtain ⟨dmin, dmax⟩ := p
      simp only [Option.map, ivCode, codeD, openB, c1]
      rw [Bool.eq_iff_iff]; simp only [Bool.or_eq_true, decide_eq_true_eq]; omega
  unfold checkTwoMonthWeekDays codeSpan
  simp only [c2]
  by_cases h0 : (m2 - m1) % 12 = 0
  · by_cases hw : w1 ≤ w2
    · simp only [h0, hw, if_true]; exact fwd _
    · simp only [h0, hw, if_true, if_false]; exact bwd _
  · by_cases h1 : (m2 - m1) % 12 = 1
    · simp only [h0, h1, if_true, if_false]; exact fwd _
    · by_cases h11 : (m2 - m1) % 12 = 11
      · have h11' : (m2 - m1) % 12 = 12 - 1 := by omega
        simp only [h0, h1, h11, h11', if_true, if_false]; exact bwd _
      · have h11' : ¬ (m2 - m1) % 12 = 12 - 1 := by omega
        simp only [h0, h1, h11, h11', if_false]; rfl

/-! ### spec side -/

theorem cl_eq_mm (δs : List Int) (h : δs ≠ []) (X : Int) :
    cl δs X = (decide (86400 * lmax δs ≤ X) || decide (X ≤ 86400 * lmin δs)) := by
  obtain ⟨hx1, hx2⟩ := lmax_spec δs h
  obtain ⟨hn1, hn2⟩ := lmin_spec δs h
  unfold cl
  rw [Bool.eq_iff_iff]
  simp only [Bool.or_eq_true, List.all_eq_true, decide_eq_true_eq]
  constructor
  · rintro (h1 | h1)
    · left; exact h1 _ hx2
    · right; exact h1 _ hn2
  · rintro (h1 | h1)
    · left; intro δ hδ; have := hx1 δ hδ; omega
    · right; intro δ hδ; have := hn1 δ hδ; omega

theorem cl_far (L : List Int) (X : Int) (h1 : -1396800 < X) (h2 : X < 1396800)
    (h : (∀ δ ∈ L, δ ≤ -17) ∨ (∀ δ ∈ L, 17 ≤ δ)) : cl L X = true := by
  unfold cl
  simp only [Bool.or_eq_true, List.all_eq_true, decide_eq_true_eq]
  rcases h with h | h
  · left; intro δ hδ; have := h δ hδ; omega
  · right; intro δ hδ; have := h δ hδ; omega

/-- clause `k` as a function of `D` -/
def clK (k : Nat) (L : List Int) (D : Int) : Bool := if k = 2 then cl L D else cl L (-D)

theorem clK_eq (k : Nat) (L : List Int) (h : L ≠ []) (D : Int) :
    clK k L D = openB (ivK k L).1 (ivK k L).2 D := by
  unfold clK ivK openB
  by_cases hk : k = 2
  · simp only [hk, if_true]; rw [cl_eq_mm L h, Bool.or_comm]
  · simp only [hk, if_false]; rw [cl_eq_mm L h]
    rw [Bool.eq_iff_iff]; simp only [Bool.or_eq_true, decide_eq_true_eq]; omega

theorem dlist1 (A B : RuleDay) : Spec.kindYears.map (dd1 A B) = d1s lensLit (tabOf A) (tabOf B) := by
  rw [← lensLit_eq, kindYears_eq]; rfl
theorem dlist2 (A B : RuleDay) : Spec.kindYears.map (dd2 A B) = d2s lensLit (tabOf A) (tabOf B) := by
  rw [← lensLit_eq, kindYears_eq]; rfl
theorem dlist3 (A B : RuleDay) : Spec.kindYears.map (dd3 A B) = d3s lensLit (tabOf A) (tabOf B) := by
  rw [← lensLit_eq, kindYears_eq]; rfl

/-! ### month-level bounds and far clauses -/

theorem succ_mem29 : ∀ y ∈ Spec.kindYears, y ∈ years29 ∧ y + 1 ∈ years29 := by decide

theorem doy_bounds (m w d : Int) (hm1 : 1 ≤ m) (hm2 : m ≤ 12) (hw1 : 1 ≤ w) (hw2 : w ≤ 5) (hd1 : 0 ≤ d) (hd2 : d ≤ 6) :
    ∀ y ∈ years29, bLo m ≤ doy (.mwd m w d) y ∧ doy (.mwd m w d) y ≤ bHi m := by
  have h := tab_bounds m (mem_r12 m hm1 hm2) w (mem_r5 w hw1 hw2) d (mem_r7 d hd1 hd2)
  rw [← tab_ok m w d hm1 hm2 hw1 hw2 hd1 hd2] at h
  unfold tabOf at h
  simp only [List.all_map, List.all_eq_true, Function.comp_def, Bool.and_eq_true, decide_eq_true_eq] at h
  exact h

theorem yearLen_cases (y : Int) : Spec.yearLen y = 365 ∨ Spec.yearLen y = 366 := by
  unfold Spec.yearLen; split <;> simp

/-- the bounds a pair of notations satisfies on the kind years -/
def Bounded (A B : RuleDay) (lo1 hi1 lo2 hi2 : Int) : Prop :=
  ∀ y ∈ Spec.kindYears, (lo1 ≤ doy A y ∧ doy A y ≤ hi1) ∧ (lo1 ≤ doy A (y + 1) ∧ doy A (y + 1) ≤ hi1) ∧
    (lo2 ≤ doy B y ∧ doy B y ≤ hi2) ∧ (lo2 ≤ doy B (y + 1) ∧ doy B (y + 1) ≤ hi2)

theorem far1_list (A B : RuleDay) (lo1 hi1 lo2 hi2 : Int) (hb : Bounded A B lo1 hi1 lo2 hi2)
    (h : hi1 - lo2 ≤ -17 ∨ 17 ≤ lo1 - hi2) :
    (∀ δ ∈ Spec.kindYears.map (dd1 A B), δ ≤ -17) ∨ (∀ δ ∈ Spec.kindYears.map (dd1 A B), 17 ≤ δ) := by
  rcases h with h | h
  · left; intro δ hδ
    obtain ⟨y, hy, rfl⟩ := List.mem_map.mp hδ
    have := hb y hy; unfold dd1; omega
  · right; intro δ hδ
    obtain ⟨y, hy, rfl⟩ := List.mem_map.mp hδ
    have := hb y hy; unfold dd1; omega

theorem far2_list (A B : RuleDay) (lo1 hi1 lo2 hi2 : Int) (hb : Bounded A B lo1 hi1 lo2 hi2)
    (h : hi2 - lo1 - 365 ≤ -17 ∨ 17 ≤ lo2 - hi1 - 366) :
    (∀ δ ∈ Spec.kindYears.map (dd2 A B), δ ≤ -17) ∨ (∀ δ ∈ Spec.kindYears.map (dd2 A B), 17 ≤ δ) := by
  rcases h with h | h
  · left; intro δ hδ
    obtain ⟨y, hy, rfl⟩ := List.mem_map.mp hδ
    have := hb y hy; have := yearLen_cases y; unfold dd2; omega
  · right; intro δ hδ
    obtain ⟨y, hy, rfl⟩ := List.mem_map.mp hδ
    have := hb y hy; have := yearLen_cases y; unfold dd2; omega

theorem far3_list (A B : RuleDay) (lo1 hi1 lo2 hi2 : Int) (hb : Bounded A B lo1 hi1 lo2 hi2)
    (h : hi1 - lo2 - 365 ≤ -17 ∨ 17 ≤ lo1 - hi2 - 366) :
    (∀ δ ∈ Spec.kindYears.map (dd3 A B), δ ≤ -17) ∨ (∀ δ ∈ Spec.kindYears.map (dd3 A B), 17 ≤ δ) := by
  rcases h with h | h
  · left; intro δ hδ
    obtain ⟨y, hy, rfl⟩ := List.mem_map.mp hδ
    have := hb y hy; have := yearLen_cases y; unfold dd3; omega
  · right; intro δ hδ
    obtain ⟨y, hy, rfl⟩ := List.mem_map.mp hδ
    have := hb y hy; have := yearLen_cases y; unfold dd3; omega

/-! ### assembly -/

/-- the table of near pairs (proved by kernel evaluation in the chunk files) -/
def NearTable : Prop :=
  ∀ m1 ∈ r12, ∀ m2 ∈ nearMonths m1, ∀ w1 ∈ r5, ∀ d1 ∈ r7, ∀ w2 ∈ r5, ∀ d2 ∈ r7, nearOK m1 w1 d1 m2 w2 d2 = true

theorem mm_core (near_all : NearTable)
    (m1 w1 d1 m2 w2 d2 : Int)
    (hm1 : 1 ≤ m1) (hm1' : m1 ≤ 12) (hw1 : 1 ≤ w1) (hw1' : w1 ≤ 5) (hd1 : 0 ≤ d1) (hd1' : d1 ≤ 6)
    (hm2 : 1 ≤ m2) (hm2' : m2 ≤ 12) (hw2 : 1 ≤ w2) (hw2' : w2 ≤ 5) (hd2 : 0 ≤ d2) (hd2' : d2 ≤ 6)
    (tS tE : Int) (hD1 : -1396800 < tS - tE) (hD2 : tS - tE < 1396800) :
    checkTwoMonthWeekDays m1 w1 d1 tS m2 w2 d2 tE =
      (cl (Spec.kindYears.map (dd1 (.mwd m1 w1 d1) (.mwd m2 w2 d2))) (-(tS - tE)) &&
       cl (Spec.kindYears.map (dd2 (.mwd m1 w1 d1) (.mwd m2 w2 d2))) (tS - tE) &&
       cl (Spec.kindYears.map (dd3 (.mwd m1 w1 d1) (.mwd m2 w2 d2))) (-(tS - tE))) := by
  rw [checkTwo_eq]
  have hb : Bounded (.mwd m1 w1 d1) (.mwd m2 w2 d2) (bLo m1) (bHi m1) (bLo m2) (bHi m2) := by
    intro y hy
    obtain ⟨y1, y2⟩ := succ_mem29 y hy
    have bA := doy_bounds m1 w1 d1 hm1 hm1' hw1 hw1' hd1 hd1'
    have bB := doy_bounds m2 w2 d2 hm2 hm2' hw2 hw2' hd2 hd2'
    exact ⟨bA y y1, bA _ y2, bB y y1, bB _ y2⟩
  have hfar := farCheck_all m1 (mem_r12 m1 hm1 hm1') m2 (mem_r12 m2 hm2 hm2')
  unfold farCheck far1 far2 far3 at hfar
  simp only [Bool.and_eq_true, Bool.or_eq_true, beq_iff_eq, decide_eq_true_eq] at hfar
  obtain ⟨⟨hf1, hf2⟩, hf3⟩ := hfar
  have hX1 : -1396800 < -(tS - tE) := by omega
  have hX2 : -(tS - tE) < 1396800 := by omega
  -- far clauses are true
  have F1 : nearK m1 m2 ≠ 1 → cl (Spec.kindYears.map (dd1 (.mwd m1 w1 d1) (.mwd m2 w2 d2))) (-(tS - tE)) = true :=
    fun hk => cl_far _ _ hX1 hX2 (far1_list _ _ _ _ _ _ hb (hf1.resolve_left hk))
  have F2 : nearK m1 m2 ≠ 2 → cl (Spec.kindYears.map (dd2 (.mwd m1 w1 d1) (.mwd m2 w2 d2))) (tS - tE) = true :=
    fun hk => cl_far _ _ hD1 hD2 (far2_list _ _ _ _ _ _ hb (hf2.resolve_left hk))
  have F3 : nearK m1 m2 ≠ 3 → cl (Spec.kindYears.map (dd3 (.mwd m1 w1 d1) (.mwd m2 w2 d2))) (-(tS - tE)) = true :=
    fun hk => cl_far _ _ hX1 hX2 (far3_list _ _ _ _ _ _ hb (hf3.resolve_left hk))
  have tA := tab_ok m1 w1 d1 hm1 hm1' hw1 hw1' hd1 hd1'
  have tB := tab_ok m2 w2 d2 hm2 hm2' hw2 hw2' hd2 hd2'
  by_cases k0 : nearK m1 m2 = 0
  · -- no near clause: the code returns `true`
    have hcs : codeSpan m1 w1 d1 m2 w2 d2 = none := by
      unfold nearK at k0
      unfold codeSpan
      by_cases h0 : (m2 - m1) % 12 = 0
      · simp [h0] at k0
      · by_cases h1 : (m2 - m1) % 12 = 1
        · exfalso; revert k0; simp only [h0, h1, if_true, if_false]
          by_cases hm : m1 = 12 <;> simp [hm]
        · by_cases h11 : (m2 - m1) % 12 = 11
          · exfalso; revert k0; simp only [h0, h1, h11, if_true, if_false]
            by_cases hm : m1 = 1 <;> simp [hm]
          · simp only [h0, h1, h11, if_false]
    rw [hcs, F1 (by omega), F2 (by omega), F3 (by omega)]; rfl
  · -- the near clause is decided by the table
    have hm2n : m2 ∈ nearMonths m1 := by
      unfold nearK at k0
      unfold nearMonths
      simp only [List.mem_cons, List.not_mem_nil, or_false]
      by_cases h0 : (m2 - m1) % 12 = 0
      · left; omega
      · by_cases h1 : (m2 - m1) % 12 = 1
        · right; left; split <;> omega
        · by_cases h11 : (m2 - m1) % 12 = 11
          · right; right; split <;> omega
          · simp [h0, h1, h11] at k0
    have hn := near_all m1 (mem_r12 m1 hm1 hm1') m2 hm2n w1 (mem_r5 w1 hw1 hw1') d1 (mem_r7 d1 hd1 hd1')
      w2 (mem_r5 w2 hw2 hw2') d2 (mem_r7 d2 hd2 hd2')
    unfold nearOK at hn
    simp only [] at hn
    rw [← tA, ← tB] at hn
    have key : ∀ (k : Nat) (L : List Int), L ≠ [] → nearK m1 m2 = k →
        dK k (tabOf (.mwd m1 w1 d1)) (tabOf (.mwd m2 w2 d2)) = L →
        clK k L (tS - tE) = codeD (ivCode (codeSpan m1 w1 d1 m2 w2 d2)) (tS - tE) := by
      intro k L hL hk hd
      rw [hk, hd] at hn
      rw [clK_eq k L hL]
      cases hc : ivCode (codeSpan m1 w1 d1 m2 w2 d2) with
      | none =>
        rw [hc] at hn
        simp only [codeD]
        exact openB_of_emptyW _ _ _ hn hD1 hD2
      | some p =>
        obtain ⟨lo, hi⟩ := p
        rw [hc] at hn
        simp only [codeD]
        exact openB_of_sameW _ _ _ _ _ hn hD1 hD2
    have k123 : nearK m1 m2 = 1 ∨ nearK m1 m2 = 2 ∨ nearK m1 m2 = 3 := by
      unfold nearK at k0 ⊢
      simp only []
      split
      · left; rfl
      · split
        · split
          · right; right; rfl
          · left; rfl
        · split
          · split
            · right; left; rfl
            · left; rfl
          · rename_i h0 h1 h11; simp [h0, h1, h11] at k0
    rcases k123 with hk | hk | hk
    · have := key 1 _ (kindYears_ne _) hk (by simp only [dK, if_true]; exact (dlist1 _ _).symm)
      rw [F2 (by omega), F3 (by omega), ← this]; simp [clK]
    · have := key 2 _ (kindYears_ne _) hk (by simp only [dK]; exact (dlist2 _ _).symm)
      rw [F1 (by omega), F3 (by omega), ← this]; simp [clK]
    · have := key 3 _ (kindYears_ne _) hk (by simp only [dK]; exact (dlist3 _ _).symm)
      rw [F1 (by omega), F2 (by omega), ← this]; simp [clK]

end TzVerif.Proofs.CM
