/-
C11 steps 3–4: the core comparison "month-week-day notation against Julian notation".
-/
import TzVerif.Proofs.ConsistMwdRange
import TzVerif.Proofs.ConsistMwdTable

namespace TzVerif.Proofs.CM
open TzVerif.Model TzVerif.Gen

/-- the six extreme facts of a month-week-day notation -/
theorem mwd_ext (m w d : Int) (hm1 : 1 ≤ m) (hm2 : m ≤ 12) (hw1 : 1 ≤ w) (hw2 : w ≤ 5) (hd1 : 0 ≤ d) (hd2 : d ≤ 6) :
    Ext ysNN (fun y => doy (.mwd m w d) y) (loR m w false) (hiR m w false) ∧
    Ext ysNL (fun y => doy (.mwd m w d) y) (loR m w false) (hiR m w false) ∧
    Ext ysLN (fun y => doy (.mwd m w d) y) (loR m w true) (hiR m w true) ∧
    Ext ysNN (fun y => doy (.mwd m w d) (y + 1)) (loR m w false) (hiR m w false) ∧
    Ext ysNL (fun y => doy (.mwd m w d) (y + 1)) (loR m w true) (hiR m w true) ∧
    Ext ysLN (fun y => doy (.mwd m w d) (y + 1)) (loR m w false) (hiR m w false) := by
  have hF := rangeFacts_tab m (mem_r12 m hm1 hm2) w (mem_r5 w hw1 hw2) d (mem_r7 d hd1 hd2)
  rw [← tab_ok m w d hm1 hm2 hw1 hw2 hd1 hd2] at hF
  unfold rangeFacts at hF
  simp only [Bool.and_eq_true] at hF
  obtain ⟨⟨⟨⟨⟨f1, f2⟩, f3⟩, f4⟩, f5⟩, f6⟩ := hF
  have t := doy_eq_tl (.mwd m w d)
  refine ⟨?_, ?_, ?_, ?_, ?_, ?_⟩
  · exact (ext_of_extB f1).congr (fun y hy => t y (mem29_NN y hy).1)
  · exact (ext_of_extB f2).congr (fun y hy => t y (mem29_NL y hy).1)
  · exact (ext_of_extB f3).congr (fun y hy => t y (mem29_LN y hy).1)
  · exact (ext_of_extB f4).congr (fun y hy => t (y + 1) (mem29_NN y hy).2)
  · exact (ext_of_extB f5).congr (fun y hy => t (y + 1) (mem29_NL y hy).2)
  · exact (ext_of_extB f6).congr (fun y hy => t (y + 1) (mem29_LN y hy).2)

theorem core_mj (m w d : Int) (hm1 : 1 ≤ m) (hm2 : m ≤ 12) (hw1 : 1 ≤ w) (hw2 : w ≤ 5) (hd1 : 0 ≤ d) (hd2 : d ≤ 6)
    (J : RuleDay) (hJ : IsJul J) (tM tJ : Int) :
    checkMonthWeekDayAndJulianDay (mwdCheckInfos m w tM) (jinfos J tJ) =
      (cl (Spec.kindYears.map (dd1 (.mwd m w d) J)) (-(tM - tJ)) &&
       cl (Spec.kindYears.map (dd2 (.mwd m w d) J)) (tM - tJ) &&
       cl (Spec.kindYears.map (dd3 (.mwd m w d) J)) (-(tM - tJ))) := by
  obtain ⟨a1, a2, a3, b1, b2, b3⟩ := mwd_ext m w d hm1 hm2 hw1 hw2 hd1 hd2
  obtain ⟨s1, s2, s3, s4, s5, s6⟩ := range_shape m (mem_r12 m hm1 hm2) w (mem_r5 w hw1 hw2)
  obtain ⟨j1, j2⟩ := jdoy_shape J
  have yl : ∀ y, Spec.yearLen y = if Spec.isLeap y then 366 else 365 := fun y => rfl
  -- clause 1
  have c1NN : Ext ysNN (dd1 (.mwd m w d) J) (loR m w false + -(jdoy J false)) (hiR m w false + -(jdoy J false)) :=
    a1.add_const _ (fun y hy => by simp only [dd1, doy_julian J hJ, (leap_NN y hy).1]; omega)
  have c1NL : Ext ysNL (dd1 (.mwd m w d) J) (loR m w false + -(jdoy J false)) (hiR m w false + -(jdoy J false)) :=
    a2.add_const _ (fun y hy => by simp only [dd1, doy_julian J hJ, (leap_NL y hy).1]; omega)
  have c1LN : Ext ysLN (dd1 (.mwd m w d) J) (loR m w true + -(jdoy J true)) (hiR m w true + -(jdoy J true)) :=
    a3.add_const _ (fun y hy => by simp only [dd1, doy_julian J hJ, (leap_LN y hy).1]; omega)
  -- clause 2
  have c2NN : Ext ysNN (dd2 (.mwd m w d) J) (jdoy J false - 365 - hiR m w false) (jdoy J false - 365 - loR m w false) :=
    b1.const_sub _ (fun y hy => by
      simp only [dd2, doy_julian J hJ, yl, (leap_NN y hy).1, Bool.false_eq_true, if_false]; omega)
  have c2NL : Ext ysNL (dd2 (.mwd m w d) J) (jdoy J false - 365 - hiR m w true) (jdoy J false - 365 - loR m w true) :=
    b2.const_sub _ (fun y hy => by
      simp only [dd2, doy_julian J hJ, yl, (leap_NL y hy).1, Bool.false_eq_true, if_false]; omega)
  have c2LN : Ext ysLN (dd2 (.mwd m w d) J) (jdoy J true - 366 - hiR m w false) (jdoy J true - 366 - loR m w false) :=
    b3.const_sub _ (fun y hy => by
      simp only [dd2, doy_julian J hJ, yl, (leap_LN y hy).1, if_true]; omega)
  -- clause 3
  have c3NN : Ext ysNN (dd3 (.mwd m w d) J) (loR m w false + (-(jdoy J false) - 365)) (hiR m w false + (-(jdoy J false) - 365)) :=
    a1.add_const _ (fun y hy => by
      simp only [dd3, doy_julian J hJ, yl, (leap_NN y hy).1, (leap_NN y hy).2, Bool.false_eq_true, if_false]; omega)
  have c3NL : Ext ysNL (dd3 (.mwd m w d) J) (loR m w false + (-(jdoy J true) - 365)) (hiR m w false + (-(jdoy J true) - 365)) :=
    a2.add_const _ (fun y hy => by
      simp only [dd3, doy_julian J hJ, yl, (leap_NL y hy).1, (leap_NL y hy).2, Bool.false_eq_true, if_false]; omega)
  have c3LN : Ext ysLN (dd3 (.mwd m w d) J) (loR m w true + (-(jdoy J false) - 366)) (hiR m w true + (-(jdoy J false) - 366)) :=
    a3.add_const _ (fun y hy => by
      simp only [dd3, doy_julian J hJ, yl, (leap_LN y hy).1, (leap_LN y hy).2, if_true]; omega)
  rw [cl_of_ext _ _ c1NN c1NL c1LN, cl_of_ext _ _ c2NN c2NL c2LN, cl_of_ext _ _ c3NN c3NL c3LN]
  rw [mwdCheckInfos_eq, jinfos_eq J hJ]
  unfold checkMonthWeekDayAndJulianDay
  simp only []
  generalize loR m w false = L0 at *
  generalize loR m w true = L1 at *
  generalize hiR m w false = H0 at *
  generalize hiR m w true = H1 at *
  generalize jdoy J false = J0 at *
  generalize jdoy J true = J1 at *
  clear a1 a2 a3 b1 b2 b3 c1NN c1NL c1LN c2NN c2NL c2LN c3NN c3NL c3LN yl
  split <;> (try split) <;> (try split) <;> (try split) <;>
    (rw [Bool.eq_iff_iff];
     simp only [Bool.and_eq_true, Bool.or_eq_true, decide_eq_true_eq, Bool.false_eq_true, true_iff, false_iff,
       not_and, not_or, Int.not_le] at *;
     omega)

end TzVerif.Proofs.CM
