/-
C08, converse direction: whatever the decoder accepts IS an encoding (by the independent writer) of the
zone it returns — so nothing outside the writer's parameter space is accepted. INTERFACE.
-/
import TzVerif.Model.TzFile
import TzVerif.Spec.Tzif
import TzVerif.Proofs.TzifRoundTrip
import TzVerif.Proofs.TzifReject

namespace TzVerif.Proofs
open TzVerif.Model

theorem beBytes_beSigned (n : Nat) (b : Bytes) (hn : 0 < n) (hl : b.length = n) (hb : ∀ x ∈ b, x < 256) :
    Spec.beBytes n (beSigned b) = b := by
  sorry

theorem be32u_be32 (b : Bytes) (hl : b.length = 4) (hb : ∀ x ∈ b, x < 256) : Spec.be32u (be32 b) = b := by
  sorry

/-- version 1 -/
theorem decode_sound_v1 (b : Bytes) (hb : ∀ x ∈ b, x < 256) (z : TimeZone) (h : parseTzFile b = .ok z)
    (hv : b.getD 4 0 = 0) :
    ∃ l : Spec.Layout, Spec.LayoutOK z l ∧ l.versionByte = 0 ∧ Spec.TimesFit 32 z ∧ z.extraRule = none ∧
      b = Spec.encodeV1 z l := by
  sorry

/-- versions 2 and 3 -/
theorem decode_sound_v2 (b : Bytes) (hb : ∀ x ∈ b, x < 256) (z : TimeZone) (h : parseTzFile b = .ok z)
    (hv : b.getD 4 0 ≠ 0) :
    ∃ (v1 : Bytes) (l : Spec.Layout) (footerText : Bytes),
      Spec.V1BlockOK v1 ∧ Spec.LayoutOK z l ∧ (l.versionByte = 0 ∨ l.versionByte = 50 ∨ l.versionByte = 51) ∧
      Spec.TimesFit 64 z ∧ b = Spec.encodeV2 v1 z l footerText ∧
      parseFooter ([10] ++ footerText ++ [10]) (l.versionByte == 51) = .ok z.extraRule := by
  sorry

end TzVerif.Proofs
