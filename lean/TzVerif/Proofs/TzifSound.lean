/-
C08, converse direction: whatever the decoder accepts IS an encoding (by the independent writer) of the
zone it returns — so nothing outside the writer's parameter space is accepted. INTERFACE.
-/
import TzVerif.Model.TzFile
import TzVerif.Spec.Tzif
import TzVerif.Proofs.TzifRoundTrip
import TzVerif.Proofs.TzifReject
import TzVerif.Proofs.TzifSoundBlock

namespace TzVerif.Proofs
open TzVerif.Model

namespace TzifSoundAux
open TzVerif.Spec TzVerif.Proofs.TzifBE TzVerif.Proofs.TzifBlocks TzVerif.Proofs.TzifDecode
open TzVerif.Proofs.TzifSoundBE TzVerif.Proofs.TzifSoundStruct TzVerif.Proofs.TzifSoundBlock

/-- the version byte of an accepted header is the fifth byte of the input -/
theorem version_byte {c : Bytes} {h : Header} {rest : Bytes} (hb : ∀ x ∈ c, x < 256)
    (hp : parseHeader c = .ok (h, rest)) : VerOK (c.getD 4 0) h.version := by
  obtain ⟨vb, res, _, _, hver, _, hc⟩ := parseHeader_struct hb hp
  have : c.getD 4 0 = vb := by rw [hc]; rfl
  rw [this]; exact hver

/-- an accepted footer is NL · text · NL -/
theorem footer_shape {f : Bytes} {ext : Bool} {r : Option TransitionRule} (h : parseFooter f ext = .ok r) :
    ∃ ft, f = [10] ++ ft ++ [10] := by
  unfold parseFooter at h
  split at h
  · contradiction
  split at h
  · contradiction
  rename_i hcond
  simp only [ge_iff_le, Bool.not_eq_true', Bool.not_eq_false, Bool.and_eq_true, decide_eq_true_eq,
    beq_iff_eq] at hcond
  obtain ⟨⟨hlen, hhead⟩, hlast⟩ := hcond
  match f, hlen, hhead, hlast with
  | a :: b :: t, _, hhead, hlast =>
    simp only [List.head?_cons, Option.some.injEq] at hhead
    subst hhead
    rw [List.getLast?_cons_cons, List.getLast?_eq_some_getLast (List.cons_ne_nil b t)] at hlast
    simp only [Option.some.injEq] at hlast
    refine ⟨(b :: t).dropLast, ?_⟩
    have := List.dropLast_concat_getLast (List.cons_ne_nil b t)
    rw [hlast] at this
    rw [List.append_assoc, this]
    rfl

/-- prefix restriction: the header and the 32-bit block, cut out of the input, parse with nothing left -/
theorem v1_block {c : Bytes} {h : Header} {rest : Bytes} {b1 : DataBlocks} {rest1 : Bytes} (hb : ∀ x ∈ c, x < 256)
    (hp : parseHeader c = .ok (h, rest)) (hr : readDataBlocks 4 rest h = .ok (b1, rest1)) (hv : h.version ≠ 1) :
    ∃ v1, V1BlockOK v1 ∧ c = v1 ++ rest1 := by
  obtain ⟨vb, res, hres, _, hver, hcnt, hc⟩ := parseHeader_struct hb hp
  obtain ⟨hrest, l1, l2, l3, l4, l5, l6, l7⟩ := readDataBlocks_struct hr
  obtain ⟨k1, k2, k3, k4, k5, k6, k7, k8, k9, k10⟩ := hcnt
  let X : Bytes := b1.transitionTimes ++ (b1.transitionTypes ++ (b1.localTimeTypes ++ (b1.designations ++
    (b1.leapSeconds ++ (b1.stdWalls ++ (b1.utLocals ++ []))))))
  refine ⟨hdrEnc vb res h X, ⟨h, X, b1, ?_, hv, ?_⟩, ?_⟩
  · exact parseHeader_enc vb h.version res X _ _ _ _ _ _ hres hver k1 k2 k3 k4 k5 k6 k7 k8 k9 k10
  · exact readDataBlocks_enc 4 h _ _ _ _ _ _ _ [] l1 l2 l3 l4 l5 l6 l7
  · rw [hc, hrest]
    simp only [X, hdrEnc, List.append_assoc, List.cons_append, List.nil_append, List.append_nil]

end TzifSoundAux

theorem beBytes_beSigned (n : Nat) (b : Bytes) (hn : 0 < n) (hl : b.length = n) (hb : ∀ x ∈ b, x < 256) :
    Spec.beBytes n (beSigned b) = b := by
  subst hl
  exact TzifSoundBE.beBytes_beSigned' b hb

theorem be32u_be32 (b : Bytes) (hl : b.length = 4) (hb : ∀ x ∈ b, x < 256) : Spec.be32u (be32 b) = b :=
  TzifSoundStruct.be32u_be32' b hl hb

open TzifSoundAux TzVerif.Proofs.TzifSoundStruct TzVerif.Proofs.TzifSoundBlock in
/-- version 1 -/
theorem decode_sound_v1 (b : Bytes) (hb : ∀ x ∈ b, x < 256) (z : TimeZone) (h : parseTzFile b = .ok z)
    (hv : b.getD 4 0 = 0) :
    ∃ l : Spec.Layout, Spec.LayoutOK z l ∧ l.versionByte = 0 ∧ Spec.TimesFit 32 z ∧ z.extraRule = none ∧
      b = Spec.encodeV1 z l := by
  unfold parseTzFile parseTzFileWith at h
  split at h
  · contradiction
  rename_i hd rest hh
  have hvb := version_byte hb hh
  rw [hv] at hvb
  have hv1 : hd.version = 1 := by
    rcases hvb with ⟨_, h1⟩ | ⟨h0, _⟩ | ⟨h0, _⟩
    · exact h1
    · omega
    · omega
  rw [if_pos hv1] at h
  split at h
  · contradiction
  rename_i blocks c hr
  split at h
  · contradiction
  rename_i hc
  have : c = [] := by simpa using hc
  subst this
  obtain ⟨l, lok, lver, ltf, leq⟩ := block_sound 4 (by decide) b hb hd rest blocks [] none parseFooter z hh hr h
  refine ⟨l, lok, ?_, ltf, (parse_struct h).2.2.2.2, ?_⟩
  · rw [hv1] at lver
    rcases lver with ⟨h0, _⟩ | ⟨_, h1⟩ | ⟨_, h1⟩
    · exact h0
    · omega
    · omega
  · rw [List.append_nil] at leq
    exact leq

open TzifSoundAux TzVerif.Proofs.TzifSoundStruct TzVerif.Proofs.TzifSoundBlock in
/-- versions 2 and 3 -/
theorem decode_sound_v2 (b : Bytes) (hb : ∀ x ∈ b, x < 256) (z : TimeZone) (h : parseTzFile b = .ok z)
    (hv : b.getD 4 0 ≠ 0) :
    ∃ (v1 : Bytes) (l : Spec.Layout) (footerText : Bytes),
      Spec.V1BlockOK v1 ∧ Spec.LayoutOK z l ∧ (l.versionByte = 0 ∨ l.versionByte = 50 ∨ l.versionByte = 51) ∧
      Spec.TimesFit 64 z ∧ b = Spec.encodeV2 v1 z l footerText ∧
      parseFooter ([10] ++ footerText ++ [10]) (l.versionByte == 51) = .ok z.extraRule := by
  unfold parseTzFile parseTzFileWith at h
  split at h
  · contradiction
  rename_i hd rest hh
  have hvb := version_byte hb hh
  have hv1 : hd.version ≠ 1 := by
    rcases hvb with ⟨h0, _⟩ | ⟨_, h1⟩ | ⟨_, h1⟩
    · exact absurd h0 hv
    · omega
    · omega
  rw [if_neg hv1] at h
  split at h
  · contradiction
  rename_i b1 rest1 hr1
  split at h
  · contradiction
  rename_i hd2 rest2 hh2
  split at h
  · contradiction
  rename_i blocks footer hr2
  obtain ⟨v1, v1ok, hbv⟩ := v1_block hb hh hr1 hv1
  have hb1 : ∀ x ∈ rest1, x < 256 := by
    intro x hx; apply hb; rw [hbv]; simp [hx]
  obtain ⟨l, lok, lver, ltf, leq⟩ :=
    block_sound 8 (by decide) rest1 hb1 hd2 rest2 blocks footer (some footer) parseFooter z hh2 hr2 h
  have hfoot : parseFooter footer (hd2.version == 3) = .ok z.extraRule := (parse_struct h).2.2.2.2
  obtain ⟨ft, hft⟩ := footer_shape hfoot
  have hext : (hd2.version == 3) = (l.versionByte == 51) := by
    rcases lver with ⟨h0, h1⟩ | ⟨h0, h1⟩ | ⟨h0, h1⟩ <;> rw [h0, h1] <;> rfl
  refine ⟨v1, l, ft, v1ok, lok, ?_, ltf, ?_, ?_⟩
  · rcases lver with ⟨h0, _⟩ | ⟨h0, _⟩ | ⟨h0, _⟩
    · exact Or.inl h0
    · exact Or.inr (Or.inl h0)
    · exact Or.inr (Or.inr h0)
  · rw [hbv, leq, hft]
    simp only [Spec.encodeV2, List.append_assoc]
  · rw [← hext, ← hft]
    exact hfoot

end TzVerif.Proofs
