/-
Helper lemmas for C01 / C02 / C14 (calendar arithmetic). STATEMENTS BELOW ARE THE INTERFACE used by
`Properties/C01.lean` and `Properties/C02.lean`; proofs to be supplied.
-/
import TzVerif.Model.DateTime
import TzVerif.Spec.Calendar

namespace TzVerif.Proofs
open TzVerif.Model TzVerif.Gen

theorem daysSinceUnixEpoch_eq (y m d : Int) (hm : 1 ≤ m ∧ m ≤ 12) :
    daysSinceUnixEpoch y m d = Spec.dayNumber y m d := by
  sorry

theorem unixTime_eq_seconds (y m d h mi s : Int) (hm : 1 ≤ m ∧ m ≤ 12) :
    unixTime y m d h mi s = Spec.seconds y m d h mi s := by
  sorry

theorem unixTime_leap_second (y m d h mi : Int) (hm : 1 ≤ m ∧ m ≤ 12) :
    unixTime y m d h mi 60 = unixTime y m d h (mi + 1) 0 ∧
    unixTime y m d 23 59 60 = 86400 * (Spec.dayNumber y m d + 1) := by
  sorry

theorem fromTimespec_fields (t ns : Int) (c : UtcDateTime) (h : UtcDateTime.fromTimespec t ns = .ok c) :
    Spec.ValidDate c.year c.month c.monthDay ∧
    0 ≤ c.hour ∧ c.hour ≤ 23 ∧ 0 ≤ c.minute ∧ c.minute ≤ 59 ∧ 0 ≤ c.second ∧ c.second ≤ 59 ∧
    Spec.seconds c.year c.month c.monthDay c.hour c.minute c.second = t ∧
    c.nanoseconds = ns ∧ i32Min ≤ c.year ∧ c.year ≤ i32Max := by
  sorry

theorem fromTimespec_accepted_iff (t ns : Int) :
    (∃ c, UtcDateTime.fromTimespec t ns = .ok c) ↔ (MIN_UNIX_TIME ≤ t ∧ t ≤ MAX_UNIX_TIME) := by
  sorry

theorem fromTimespec_refused (t ns : Int) (h : ¬ (MIN_UNIX_TIME ≤ t ∧ t ≤ MAX_UNIX_TIME)) :
    UtcDateTime.fromTimespec t ns = .error .outOfRange := by
  sorry

theorem seconds_injective (y m d h mi s y' m' d' h' mi' s' : Int)
    (hd : Spec.ValidDate y m d) (hd' : Spec.ValidDate y' m' d')
    (ht : 0 ≤ h ∧ h ≤ 23 ∧ 0 ≤ mi ∧ mi ≤ 59 ∧ 0 ≤ s ∧ s ≤ 59)
    (ht' : 0 ≤ h' ∧ h' ≤ 23 ∧ 0 ≤ mi' ∧ mi' ≤ 59 ∧ 0 ≤ s' ∧ s' ≤ 59)
    (e : Spec.seconds y m d h mi s = Spec.seconds y' m' d' h' mi' s') :
    y = y' ∧ m = m' ∧ d = d' ∧ h = h' ∧ mi = mi' ∧ s = s' := by
  sorry

theorem fromTimespec_weekDay (t ns : Int) (c : UtcDateTime) (h : UtcDateTime.fromTimespec t ns = .ok c) :
    weekDay c.year c.month c.monthDay = Spec.weekdayOfDay (t / 86400) ∧
    0 ≤ weekDay c.year c.month c.monthDay ∧ weekDay c.year c.month c.monthDay ≤ 6 := by
  sorry

theorem fromTimespec_yearDay (t ns : Int) (c : UtcDateTime) (h : UtcDateTime.fromTimespec t ns = .ok c) :
    yearDay c.year c.month c.monthDay = t / 86400 - Spec.daysBeforeYear c.year ∧
    0 ≤ yearDay c.year c.month c.monthDay ∧ yearDay c.year c.month c.monthDay < Spec.yearLen c.year := by
  sorry

theorem utcNew_eq_expected (y mo d h mi s ns : Int) :
    UtcDateTime.new y mo d h mi s ns =
      (if y = i32Max ∧ mo = 12 ∧ d = 31 ∧ h = 23 ∧ mi = 59 ∧ s = 60 then .error .outOfRange
       else if ¬ (1 ≤ mo ∧ mo ≤ 12) then .error (.dateTime .invalidMonth)
       else if ¬ (1 ≤ d ∧ d ≤ 31) then .error (.dateTime .invalidMonthDay)
       else if h > 23 then .error (.dateTime .invalidHour)
       else if mi > 59 then .error (.dateTime .invalidMinute)
       else if s > 60 then .error (.dateTime .invalidSecond)
       else if ns ≥ 1000000000 then .error (.dateTime .invalidNanoseconds)
       else if d > Spec.monthLen y mo then .error (.dateTime .invalidMonthDay)
       else .ok { year := y, month := mo, monthDay := d, hour := h, minute := mi, second := s, nanoseconds := ns }) := by
  sorry

theorem utcNew_accepts_iff (y mo d h mi s ns : Int) (hh : 0 ≤ h) (hmi : 0 ≤ mi) (hs : 0 ≤ s) :
    (∃ c, UtcDateTime.new y mo d h mi s ns = .ok c) ↔
      (Spec.ValidDate y mo d ∧ Spec.ValidTime h mi s ∧ ns < 1000000000 ∧
       ¬ (y = i32Max ∧ mo = 12 ∧ d = 31 ∧ h = 23 ∧ mi = 59 ∧ s = 60)) := by
  sorry

theorem fromTimespec_unixTime (y m d h mi s ns : Int) (hy : i32Min ≤ y ∧ y ≤ i32Max)
    (hd : Spec.ValidDate y m d) (ht : 0 ≤ h ∧ h ≤ 23 ∧ 0 ≤ mi ∧ mi ≤ 59 ∧ 0 ≤ s ∧ s ≤ 59) :
    UtcDateTime.fromTimespec (unixTime y m d h mi s) ns =
      .ok { year := y, month := m, monthDay := d, hour := h, minute := mi, second := s, nanoseconds := ns } := by
  sorry

theorem unixTime_fromTimespec (t ns : Int) (c : UtcDateTime) (h : UtcDateTime.fromTimespec t ns = .ok c) :
    c.unixTime = t := by
  sorry

theorem unixTime_lex_iff (y m d h mi s y' m' d' h' mi' s' : Int)
    (hd : Spec.ValidDate y m d) (hd' : Spec.ValidDate y' m' d')
    (ht : 0 ≤ h ∧ h ≤ 23 ∧ 0 ≤ mi ∧ mi ≤ 59 ∧ 0 ≤ s ∧ s ≤ 59)
    (ht' : 0 ≤ h' ∧ h' ≤ 23 ∧ 0 ≤ mi' ∧ mi' ≤ 59 ∧ 0 ≤ s' ∧ s' ≤ 59) :
    Spec.lexLt [y, m, d, h, mi, s] [y', m', d', h', mi', s'] ↔
      unixTime y m d h mi s < unixTime y' m' d' h' mi' s' := by
  sorry

end TzVerif.Proofs
