/-
Helper lemmas for C01 / C02 / C14 (calendar arithmetic). STATEMENTS BELOW ARE THE INTERFACE used by
`Properties/C01.lean` and `Properties/C02.lean`; proofs to be supplied.
-/
import TzVerif.Model.DateTime
import TzVerif.Spec.Calendar
import TzVerif.Proofs.CalBasic
import TzVerif.Proofs.CalMono
import TzVerif.Proofs.CalFrom

namespace TzVerif.Proofs
open TzVerif.Model TzVerif.Gen

theorem daysSinceUnixEpoch_eq (y m d : Int) (hm : 1 ≤ m ∧ m ≤ 12) :
    daysSinceUnixEpoch y m d = Spec.dayNumber y m d := by
  exact daysSinceUnixEpoch_eq' y m d hm

theorem unixTime_eq_seconds (y m d h mi s : Int) (hm : 1 ≤ m ∧ m ≤ 12) :
    unixTime y m d h mi s = Spec.seconds y m d h mi s := by
  exact unixTime_eq_seconds' y m d h mi s hm

theorem unixTime_leap_second (y m d h mi : Int) (hm : 1 ≤ m ∧ m ≤ 12) :
    unixTime y m d h mi 60 = unixTime y m d h (mi + 1) 0 ∧
    unixTime y m d 23 59 60 = 86400 * (Spec.dayNumber y m d + 1) := by
  rw [unixTime_eq_seconds' y m d h mi 60 hm, unixTime_eq_seconds' y m d h (mi + 1) 0 hm,
    unixTime_eq_seconds' y m d 23 59 60 hm]
  unfold Spec.seconds
  generalize Spec.dayNumber y m d = n
  omega

theorem fromTimespec_fields (t ns : Int) (c : UtcDateTime) (h : UtcDateTime.fromTimespec t ns = .ok c) :
    Spec.ValidDate c.year c.month c.monthDay ∧
    0 ≤ c.hour ∧ c.hour ≤ 23 ∧ 0 ≤ c.minute ∧ c.minute ≤ 59 ∧ 0 ≤ c.second ∧ c.second ≤ 59 ∧
    Spec.seconds c.year c.month c.monthDay c.hour c.minute c.second = t ∧
    c.nanoseconds = ns ∧ i32Min ≤ c.year ∧ c.year ≤ i32Max := by
  rcases fromTimespec_cases t ns with ⟨_, _, y, m, d, hv, hdn, hy1, hy2, heq⟩ | ⟨_, heq⟩
  · rw [heq] at h
    cases h
    dsimp only
    refine ⟨hv, by omega, by omega, by omega, by omega, by omega, by omega, ?_, rfl, hy1, hy2⟩
    unfold Spec.seconds
    rw [hdn]; omega
  · rw [heq] at h; cases h

theorem fromTimespec_accepted_iff (t ns : Int) :
    (∃ c, UtcDateTime.fromTimespec t ns = .ok c) ↔ (MIN_UNIX_TIME ≤ t ∧ t ≤ MAX_UNIX_TIME) := by
  rcases fromTimespec_cases t ns with ⟨h1, h2, y, m, d, _, _, _, _, heq⟩ | ⟨hn, heq⟩
  · exact ⟨fun _ => ⟨h1, h2⟩, fun _ => ⟨_, heq⟩⟩
  · constructor
    · rintro ⟨c, hc⟩; rw [heq] at hc; cases hc
    · intro hc; exact absurd hc hn

theorem fromTimespec_refused (t ns : Int) (h : ¬ (MIN_UNIX_TIME ≤ t ∧ t ≤ MAX_UNIX_TIME)) :
    UtcDateTime.fromTimespec t ns = .error .outOfRange := by
  rcases fromTimespec_cases t ns with ⟨h1, h2, _⟩ | ⟨_, heq⟩
  · exact absurd ⟨h1, h2⟩ h
  · exact heq

theorem seconds_injective (y m d h mi s y' m' d' h' mi' s' : Int)
    (hd : Spec.ValidDate y m d) (hd' : Spec.ValidDate y' m' d')
    (ht : 0 ≤ h ∧ h ≤ 23 ∧ 0 ≤ mi ∧ mi ≤ 59 ∧ 0 ≤ s ∧ s ≤ 59)
    (ht' : 0 ≤ h' ∧ h' ≤ 23 ∧ 0 ≤ mi' ∧ mi' ≤ 59 ∧ 0 ≤ s' ∧ s' ≤ 59)
    (e : Spec.seconds y m d h mi s = Spec.seconds y' m' d' h' mi' s') :
    y = y' ∧ m = m' ∧ d = d' ∧ h = h' ∧ mi = mi' ∧ s = s' := by
  unfold Spec.seconds at e
  have hn : Spec.dayNumber y m d = Spec.dayNumber y' m' d' := by omega
  obtain ⟨e1, e2, e3⟩ := dayNumber_injective y m d y' m' d' hd hd' hn
  rw [hn] at e
  refine ⟨e1, e2, e3, by omega, by omega, by omega⟩

theorem fromTimespec_weekDay (t ns : Int) (c : UtcDateTime) (h : UtcDateTime.fromTimespec t ns = .ok c) :
    weekDay c.year c.month c.monthDay = Spec.weekdayOfDay (t / 86400) ∧
    0 ≤ weekDay c.year c.month c.monthDay ∧ weekDay c.year c.month c.monthDay ≤ 6 := by
  obtain ⟨hv, h1, h2, h3, h4, h5, h6, hs, -, -, -⟩ := fromTimespec_fields t ns c h
  unfold Spec.seconds at hs
  have hdn : Spec.dayNumber c.year c.month c.monthDay = t / 86400 := by omega
  unfold weekDay Spec.weekdayOfDay
  rw [daysSinceUnixEpoch_eq' _ _ _ ⟨hv.1, hv.2.1⟩, hdn, c_dpw]
  omega

theorem fromTimespec_yearDay (t ns : Int) (c : UtcDateTime) (h : UtcDateTime.fromTimespec t ns = .ok c) :
    yearDay c.year c.month c.monthDay = t / 86400 - Spec.daysBeforeYear c.year ∧
    0 ≤ yearDay c.year c.month c.monthDay ∧ yearDay c.year c.month c.monthDay < Spec.yearLen c.year := by
  obtain ⟨hv, h1, h2, h3, h4, h5, h6, hs, -, -, -⟩ := fromTimespec_fields t ns c h
  unfold Spec.seconds at hs
  have hdn : Spec.dayNumber c.year c.month c.monthDay = t / 86400 := by omega
  have hb := dayInYear_bounds _ _ _ hv
  have hyd : yearDay c.year c.month c.monthDay =
      Spec.daysBeforeMonth c.year c.month + (c.monthDay - 1) := by
    unfold yearDay
    rw [tbl_cumul _ ⟨hv.1, hv.2.1⟩, isLeapYear_eq, daysBeforeMonth_eq]
    simp only [ge_iff_le, Bool.and_eq_true, decide_eq_true_eq]
    omega
  rw [hyd]
  unfold Spec.dayNumber at hdn
  omega

theorem utcNew_eq_expected (y mo d h mi s ns : Int) :
    UtcDateTime.new y mo d h mi s ns =
      (if y = i32Max ∧ mo = 12 ∧ d = 31 ∧ h = 23 ∧ mi = 59 ∧ s = 60 then .error .outOfRange
       else if ¬ (1 ≤ mo ∧ mo ≤ 12) then .error (.dateTime .invalidMonth)
       else if ¬ (1 ≤ d ∧ d ≤ 31) then .error (.dateTime .invalidMonthDay)
       else if h > 23 then .error (.dateTime .invalidHour)
       else if mi > 59 then .error (.dateTime .invalidMinute)
       else if s > 60 then .error (.dateTime .invalidSecond)
       else if ns ≥ 1000000000 then .error (.dateTime .invalidNanoseconds)
       else if d > Spec.monthLen y mo then .error (.dateTime .invalidMonthDay)
       else .ok { year := y, month := mo, monthDay := d, hour := h, minute := mi, second := s, nanoseconds := ns }) := by
  unfold UtcDateTime.new
  rw [checkInputs_eq]
  by_cases h0 : y = i32Max ∧ mo = 12 ∧ d = 31 ∧ h = 23 ∧ mi = 59 ∧ s = 60
  · simp only [h0, and_self, if_true]
  rw [if_neg h0, if_neg h0]
  by_cases h1 : ¬ (1 ≤ mo ∧ mo ≤ 12)
  · rw [if_pos h1, if_pos h1]
  rw [if_neg h1, if_neg h1]
  by_cases h2 : ¬ (1 ≤ d ∧ d ≤ 31)
  · rw [if_pos h2, if_pos h2]
  rw [if_neg h2, if_neg h2]
  by_cases h3 : h > 23
  · rw [if_pos h3, if_pos h3]
  rw [if_neg h3, if_neg h3]
  by_cases h4 : mi > 59
  · rw [if_pos h4, if_pos h4]
  rw [if_neg h4, if_neg h4]
  by_cases h5 : s > 60
  · rw [if_pos h5, if_pos h5]
  rw [if_neg h5, if_neg h5]
  by_cases h6 : ns ≥ 1000000000
  · rw [if_pos h6, if_pos h6]
  rw [if_neg h6, if_neg h6]
  by_cases h7 : d > Spec.monthLen y mo
  · rw [if_pos h7, if_pos h7]
  rw [if_neg h7, if_neg h7]

theorem utcNew_accepts_iff (y mo d h mi s ns : Int) (hh : 0 ≤ h) (hmi : 0 ≤ mi) (hs : 0 ≤ s) :
    (∃ c, UtcDateTime.new y mo d h mi s ns = .ok c) ↔
      (Spec.ValidDate y mo d ∧ Spec.ValidTime h mi s ∧ ns < 1000000000 ∧
       ¬ (y = i32Max ∧ mo = 12 ∧ d = 31 ∧ h = 23 ∧ mi = 59 ∧ s = 60)) := by
  rw [utcNew_eq_expected]
  unfold Spec.ValidDate Spec.ValidTime
  have := monthLen_le y mo
  constructor
  · rintro ⟨c, hc⟩
    repeat' split at hc
    all_goals try contradiction
    refine ⟨by omega, by omega, by omega, by assumption⟩
  · rintro ⟨h1, h2, h3, h4⟩
    rw [if_neg h4, if_neg (by omega), if_neg (by omega), if_neg (by omega), if_neg (by omega),
      if_neg (by omega), if_neg (by omega), if_neg (by omega)]
    exact ⟨_, rfl⟩

theorem fromTimespec_unixTime (y m d h mi s ns : Int) (hy : i32Min ≤ y ∧ y ≤ i32Max)
    (hd : Spec.ValidDate y m d) (ht : 0 ≤ h ∧ h ≤ 23 ∧ 0 ≤ mi ∧ mi ≤ 59 ∧ 0 ≤ s ∧ s ≤ 59) :
    UtcDateTime.fromTimespec (unixTime y m d h mi s) ns =
      .ok { year := y, month := m, monthDay := d, hour := h, minute := mi, second := s, nanoseconds := ns } := by
  obtain ⟨hv1, hv2, hv3, hv4⟩ := hd
  rw [unixTime_eq_seconds' y m d h mi s ⟨hv1, hv2⟩]
  have hd : Spec.ValidDate y m d := ⟨hv1, hv2, hv3, hv4⟩
  rcases fromTimespec_cases (Spec.seconds y m d h mi s) ns with
    ⟨_, _, y', m', d', hv', hdn, _, _, heq⟩ | ⟨hn, _⟩
  · rw [heq]
    have hsec : Spec.seconds y' m' d' ((Spec.seconds y m d h mi s % 86400) / 3600)
        (((Spec.seconds y m d h mi s % 86400) / 60) % 60) ((Spec.seconds y m d h mi s % 86400) % 60)
        = Spec.seconds y m d h mi s := by
      generalize Spec.seconds y m d h mi s = T at hdn ⊢
      unfold Spec.seconds
      rw [hdn]; omega
    obtain ⟨e1, e2, e3, e4, e5, e6⟩ := seconds_injective _ _ _ _ _ _ _ _ _ _ _ _ hv' hd
      (by omega) ht hsec
    rw [e1, e2, e3, e4, e5, e6]
  · exfalso
    apply hn
    have a := (year_le_iff y m d i32Min hd).1
    have b := (year_le_iff y m d i32Max hd).2
    rw [dby_min] at a
    rw [dby_max] at b
    have a' := a.mp hy.1
    have b' := b.mp hy.2
    rw [c_min, c_max]
    unfold Spec.seconds
    omega

theorem unixTime_fromTimespec (t ns : Int) (c : UtcDateTime) (h : UtcDateTime.fromTimespec t ns = .ok c) :
    c.unixTime = t := by
  obtain ⟨hv, -, -, -, -, -, -, hs, -, -, -⟩ := fromTimespec_fields t ns c h
  unfold UtcDateTime.unixTime
  rw [unixTime_eq_seconds' _ _ _ _ _ _ ⟨hv.1, hv.2.1⟩, hs]

theorem unixTime_lex_iff (y m d h mi s y' m' d' h' mi' s' : Int)
    (hd : Spec.ValidDate y m d) (hd' : Spec.ValidDate y' m' d')
    (ht : 0 ≤ h ∧ h ≤ 23 ∧ 0 ≤ mi ∧ mi ≤ 59 ∧ 0 ≤ s ∧ s ≤ 59)
    (ht' : 0 ≤ h' ∧ h' ≤ 23 ∧ 0 ≤ mi' ∧ mi' ≤ 59 ∧ 0 ≤ s' ∧ s' ≤ 59) :
    Spec.lexLt [y, m, d, h, mi, s] [y', m', d', h', mi', s'] ↔
      unixTime y m d h mi s < unixTime y' m' d' h' mi' s' := by
  rw [unixTime_eq_seconds' y m d h mi s ⟨hd.1, hd.2.1⟩, unixTime_eq_seconds' y' m' d' h' mi' s' ⟨hd'.1, hd'.2.1⟩]
  unfold Spec.seconds
  simp only [Spec.lexLt, or_false, and_false]
  constructor
  · intro hl
    by_cases hdate : y < y' ∨ (y = y' ∧ (m < m' ∨ (m = m' ∧ d < d')))
    · have := dayNumber_lt_of_lex y m d y' m' d' hd hd' hdate
      omega
    · have e1 : y = y' := by omega
      have e2 : m = m' := by omega
      have e3 : d = d' := by omega
      subst e1 e2 e3
      omega
  · intro hl
    by_cases hdate : y < y' ∨ (y = y' ∧ (m < m' ∨ (m = m' ∧ d < d')))
    · omega
    · by_cases hdate' : y' < y ∨ (y' = y ∧ (m' < m ∨ (m' = m ∧ d' < d)))
      · have := dayNumber_lt_of_lex y' m' d' y m d hd' hd hdate'
        omega
      · have e1 : y = y' := by omega
        have e2 : m = m' := by omega
        have e3 : d = d' := by omega
        subst e1 e2 e3
        omega

end TzVerif.Proofs
