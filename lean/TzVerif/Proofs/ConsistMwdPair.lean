/-
C11 step 5: both days in month-week-day notation. Definitions of the finite checks:
month-level bounds (far clauses) and the exact span of the one near clause against the code's
`(diff_days_min, diff_days_max)`.
-/
import TzVerif.Proofs.ConsistMwdTab

namespace TzVerif.Proofs.CM
open TzVerif.Model TzVerif.Gen

set_option maxRecDepth 100000

/-! ### code side -/

/-- `none`: the check returns `true`; `some (b, dmin, dmax)`: `b` = "the start day is the one sorted first" -/
def codeSpan (m1 w1 d1 m2 w2 d2 : Int) : Option (Bool × Int × Int) :=
  let rem := (m2 - m1) % 12
  if rem = 0 then
    if w1 ≤ w2 then (mwdDiffDays m1 w1 d1 m2 w2 d2).map (fun p => (true, p.1, p.2))
    else (mwdDiffDays m2 w2 d2 m1 w1 d1).map (fun p => (false, p.1, p.2))
  else if rem = 1 then (mwdDiffDays m1 w1 d1 m2 w2 d2).map (fun p => (true, p.1, p.2))
  else if rem = 11 then (mwdDiffDays m2 w2 d2 m1 w1 d1).map (fun p => (false, p.1, p.2))
  else none

/-- `D` is not strictly inside `(86400 lo, 86400 hi)` -/
def openB (lo hi D : Int) : Bool := decide (D ≤ 86400 * lo) || decide (86400 * hi ≤ D)

/-- the interval (in terms of `D = tS − tE`) excluded by the code -/
def ivCode : Option (Bool × Int × Int) → Option (Int × Int)
  | none => none
  | some (true, dmin, dmax) => some (dmin, dmax)
  | some (false, dmin, dmax) => some (-dmax, -dmin)

def codeD (cs : Option (Int × Int)) (D : Int) : Bool :=
  match cs with
  | none => true
  | some (lo, hi) => openB lo hi D

/-! ### window equivalence of excluded intervals (|D| < 1396800 < 17 days) -/

def emptyW (lo hi : Int) : Bool := decide (min hi 17 ≤ max lo (-17))

def sameW (lo hi lo' hi' : Int) : Bool :=
  (emptyW lo hi && emptyW lo' hi') || (max lo (-17) == max lo' (-17) && min hi 17 == min hi' 17)

theorem openB_of_emptyW (lo hi D : Int) (h : emptyW lo hi = true) (h1 : -1396800 < D) (h2 : D < 1396800) :
    openB lo hi D = true := by
  unfold emptyW at h
  unfold openB
  simp only [decide_eq_true_eq, Bool.or_eq_true] at *
  omega

theorem openB_of_sameW (lo hi lo' hi' D : Int) (h : sameW lo hi lo' hi' = true) (h1 : -1396800 < D) (h2 : D < 1396800) :
    openB lo hi D = openB lo' hi' D := by
  unfold sameW at h
  simp only [Bool.or_eq_true, Bool.and_eq_true, beq_iff_eq] at h
  rcases h with ⟨e1, e2⟩ | ⟨e1, e2⟩
  · rw [openB_of_emptyW _ _ _ e1 h1 h2, openB_of_emptyW _ _ _ e2 h1 h2]
  · unfold openB
    rw [Bool.eq_iff_iff]
    simp only [decide_eq_true_eq, Bool.or_eq_true]
    omega

/-! ### day differences from tables -/

def lensLit : List Int :=
  [365, 365, 365, 366, 365, 365, 365, 366, 365, 365, 365, 366, 365, 365, 365, 366, 365, 365, 365, 366,
   365, 365, 365, 366, 365, 365, 365, 366]

theorem lensLit_eq : Spec.kindYears.map Spec.yearLen = lensLit := by decide

def d1s : List Int → List Int → List Int → List Int
  | _ :: ls, a :: as, b :: bs => (a - b) :: d1s ls as bs
  | _, _, _ => []
def d2s : List Int → List Int → List Int → List Int
  | l :: ls, _ :: a' :: as, b :: bs => (b - a' - l) :: d2s ls (a' :: as) bs
  | _, _, _ => []
def d3s : List Int → List Int → List Int → List Int
  | l :: ls, a :: as, _ :: b' :: bs => (a - b' - l) :: d3s ls as (b' :: bs)
  | _, _, _ => []

/-- which clause can be near for the two months: 1, 2, 3, or 0 for none -/
def nearK (m1 m2 : Int) : Nat :=
  let rem := (m2 - m1) % 12
  if rem = 0 then 1
  else if rem = 1 then (if m1 = 12 then 3 else 1)
  else if rem = 11 then (if m1 = 1 then 2 else 1)
  else 0

def dK (k : Nat) (TA TB : List Int) : List Int :=
  if k = 1 then d1s lensLit TA TB else if k = 2 then d2s lensLit TA TB else d3s lensLit TA TB

/-- excluded interval of clause `k` in terms of `D` (clauses 1 and 3 are about `-D`) -/
def ivK (k : Nat) (L : List Int) : Int × Int :=
  if k = 2 then (lmin L, lmax L) else (-(lmax L), -(lmin L))

def nearOK (m1 w1 d1 m2 w2 d2 : Int) : Bool :=
  let k := nearK m1 m2
  let iv := ivK k (dK k (tab m1 w1 d1) (tab m2 w2 d2))
  match ivCode (codeSpan m1 w1 d1 m2 w2 d2) with
  | none => emptyW iv.1 iv.2
  | some (lo, hi) => sameW iv.1 iv.2 lo hi

def nearMonths (m : Int) : List Int := [m, if m = 12 then 1 else m + 1, if m = 1 then 12 else m - 1]

/-! ### month-level bounds -/

def bLo (m : Int) : Int := tbl CUMUL_DAYS_IN_MONTHS_NORMAL_YEAR (m - 1)
def bHi (m : Int) : Int :=
  tbl CUMUL_DAYS_IN_MONTHS_LEAP_YEAR (m - 1) + tbl DAYS_IN_MONTHS_NORMAL_YEAR (m - 1) + (if m = 2 then 1 else 0) - 1

def far1 (m1 m2 : Int) : Bool := decide (bHi m1 - bLo m2 ≤ -17) || decide (17 ≤ bLo m1 - bHi m2)
def far2 (m1 m2 : Int) : Bool := decide (bHi m2 - bLo m1 - 365 ≤ -17) || decide (17 ≤ bLo m2 - bHi m1 - 366)
def far3 (m1 m2 : Int) : Bool := decide (bHi m1 - bLo m2 - 365 ≤ -17) || decide (17 ≤ bLo m1 - bHi m2 - 366)

def farCheck (m1 m2 : Int) : Bool :=
  (nearK m1 m2 == 1 || far1 m1 m2) && (nearK m1 m2 == 2 || far2 m1 m2) && (nearK m1 m2 == 3 || far3 m1 m2)

theorem farCheck_all : ∀ m1 ∈ r12, ∀ m2 ∈ r12, farCheck m1 m2 = true := by decide +kernel

theorem tab_bounds : ∀ m ∈ r12, ∀ w ∈ r5, ∀ d ∈ r7,
    (tab m w d).all (fun t => decide (bLo m ≤ t) && decide (t ≤ bHi m)) = true := by decide +kernel

end TzVerif.Proofs.CM
