/-
C05 / C06: the local-time search on zones WITH a DST rule (rule only, or table + rule), for accepted
rules whose yearly instants interleave and never tie in reverse order (every IANA rule).
INTERFACE used by Properties/C05.lean and Properties/C06.lean.

Two hypotheses were added to the statements as first written (each placed last, only where needed):
* `hnn : 0 ≤ h ∧ 0 ≤ mi ∧ 0 ≤ s` (the Rust argument types are unsigned; the model's are `Int`): without
  it the searched second count need not lie in the civil year `y` and the three-year window misses it.
* `hy : i32Min + 3 ≤ y ∧ y ≤ i32Max - 3` on `rule_search_sound` only: in the outermost guarded years the
  search (guard on the year *field*) returns instants whose UTC year is outside the lookup's guard.
-/
import TzVerif.Model.Find
import TzVerif.Spec.Zone
import TzVerif.Spec.Rule
import TzVerif.Proofs.Search
import TzVerif.Proofs.RuleEval
import TzVerif.Proofs.SearchRuleLoop
import TzVerif.Proofs.SearchRuleWindow

namespace TzVerif.Proofs
open TzVerif.Model TzVerif.Gen

/-- the hypotheses of C04 on the rule -/
def RuleOK (a : AlternateTime) : Prop := RuleShape a ∧ Spec.Interleaves a ∧ Spec.TieFree a

/-- UTC instant from which the rule governs: the last table transition, or −∞ (`i64Min`) without table -/
def ruleFrom (z : TimeZone) : Int :=
  match z.transitions.getLast? with
  | some last => Spec.toUtc z.leapSeconds last.unixLeapTime
  | none => i64Min

/-- the local second count `c` falls in the gap opened by the rule instant `T` (clock jumps from `before` to `after`) -/
def RuleGap (T : Int) (before after : LocalTimeType) (c : Int) : Prop :=
  T + before.utOffset ≤ c ∧ c < T + after.utOffset

/-! ### the search on a zone with a DST rule, taken apart -/

theorem find_char_rule (y mo d h mi s ns : Int) (z : TimeZone) (a : AlternateTime) (rs : List Found)
    (hz : ZoneOK z) (hr : z.extraRule = some (.alternate a)) (hs : RuleShape a)
    (hf : findDateTime y mo d h mi s ns z = .ok rs) :
    (1 ≤ mo ∧ mo ≤ 12 ∧ 1 ≤ d ∧ d ≤ Spec.monthLen y mo ∧ h ≤ 23 ∧ mi ≤ 59 ∧ s ≤ 60) ∧
    (i32Min + 2 ≤ y ∧ y ≤ i32Max - 2) ∧
    checkUnixTime (Spec.seconds y mo d h mi s - a.std.utOffset) = .ok () ∧
    checkUnixTime (Spec.seconds y mo d h mi s - a.dst.utOffset) = .ok () ∧
    ∃ out, findTransitionsLoop z (mkDateTime y mo d h mi s ns) ns (Spec.seconds y mo d h mi s)
        z.extraRule.isSome z.transitions i64Min 0 [] = .ok out ∧
      findRuleLoop (mkDateTime y mo d h mi s ns) ns
        (dropUntil (ruleFrom z) (rawList a y (Spec.seconds y mo d h mi s))) (ruleFrom z) out = .ok rs := by
  unfold findDateTime at hf
  split at hf
  · rename_i hcond
    rw [hr] at hcond
    exact absurd hcond.2 (by simp)
  · dsimp only at hf
    split at hf
    · cases hf
    · rename_i hc
      have hv := checkInputs_ok _ _ _ _ _ _ _ _ hc
      refine ⟨hv, ?_⟩
      rw [unixTime_eq_seconds y mo d h mi s ⟨hv.1, hv.2.1⟩] at hf
      split at hf
      · cases hf
      · rename_i out hloop
        split at hf
        · rename_i hnone; rw [hr] at hnone; cases hnone
        · rename_i r hfix; rw [hr] at hfix; cases hfix
        · rename_i a' ha'
          rw [hr] at ha'
          injection ha' with ha'
          injection ha' with ha'
          subst ha'
          split at hf
          · cases hf
          · rename_i hcS
            split at hf
            · cases hf
            · rename_i hcD
              split at hf
              · cases hf
              · rename_i hguard
                have g1 : guardFindYearMarginLow = 2 := rfl
                have g2 : guardFindYearMarginHigh = 2 := rfl
                rw [g1, g2] at hguard
                simp only [Bool.not_eq_true, Bool.not_eq_false', Bool.and_eq_true, decide_eq_true_eq] at hguard
                refine ⟨hguard, hcS, hcD, out, hloop, ?_⟩
                simp only [unixTime_start a hs, unixTime_end a hs] at hf
                cases hl : z.transitions.getLast? with
                | none =>
                  rw [hl] at hf
                  dsimp only at hf
                  have : ruleFrom z = i64Min := by unfold ruleFrom; rw [hl]
                  rw [this]
                  exact hf
                | some last =>
                  rw [hl] at hf
                  dsimp only at hf
                  cases ht : unixLeapTimeToUnixTime z.leapSeconds last.unixLeapTime with
                  | error e => rw [ht] at hf; cases hf
                  | ok p =>
                    rw [ht] at hf
                    dsimp only at hf
                    have : ruleFrom z = p := by
                      unfold ruleFrom; rw [hl]
                      exact (toUtc_eq_of_ok _ hz.2 _ _ ht).symm
                    rw [this]
                    exact hf
/-! ### decisions of the rule loop on the two possible windows -/

theorem ev_normal_typed (a : AlternateTime) (hs : RuleShape a) (y c prev u : Int) (lt : LocalTimeType)
    (L : List (Int × RuleStep))
    (hL : (L = listA a y c ∧ ChainA a y) ∨ (L = listB a y c ∧ ChainB a y))
    (hwS : InWin y (c - a.std.utOffset)) (hwD : InWin y (c - a.dst.utOffset))
    (hev : EvD prev L prev (.normal lt u)) :
    prev ≤ u ∧ ((lt = a.std ∧ u = c - a.std.utOffset ∧ ¬ Spec.IsDst a u) ∨
                (lt = a.dst ∧ u = c - a.dst.utOffset ∧ Spec.IsDst a u)) := by
  rcases hL with ⟨rfl, hc⟩ | ⟨rfl, hc⟩
  · have kS := isDst_window_A a hs y _ hc hwS
    have kD := isDst_window_A a hs y _ hc hwD
    obtain ⟨-, c1, c2, c3, c4, c5, c6⟩ := hc
    simp only [listA, EvD, StepEv, stepStart, stepEnd, or_false] at hev
    rcases hev with ⟨hlt, ⟨h1, h2⟩, rfl, rfl⟩ | ⟨hlt, ⟨h1, h2⟩, rfl, rfl⟩ | ⟨hlt, ⟨h1, h2⟩, rfl, rfl⟩ |
      ⟨hlt, ⟨h1, h2⟩, rfl, rfl⟩ | ⟨hlt, ⟨h1, h2⟩, rfl, rfl⟩ | ⟨hlt, ⟨h1, h2⟩, rfl, rfl⟩ | ⟨hlt, ⟨h1, h2⟩, rfl, rfl⟩
    · exact ⟨by omega, Or.inl ⟨rfl, rfl, by rw [kS]; omega⟩⟩
    · exact ⟨by omega, Or.inr ⟨rfl, rfl, by rw [kD]; omega⟩⟩
    · exact ⟨by omega, Or.inl ⟨rfl, rfl, by rw [kS]; omega⟩⟩
    · exact ⟨by omega, Or.inr ⟨rfl, rfl, by rw [kD]; omega⟩⟩
    · exact ⟨by omega, Or.inl ⟨rfl, rfl, by rw [kS]; omega⟩⟩
    · exact ⟨by omega, Or.inr ⟨rfl, rfl, by rw [kD]; omega⟩⟩
    · exact ⟨by omega, Or.inl ⟨rfl, rfl, by rw [kS]; omega⟩⟩
  · have kS := isDst_window_B a hs y _ hc hwS
    have kD := isDst_window_B a hs y _ hc hwD
    obtain ⟨-, c1, c2, c3, c4, c5, c6⟩ := hc
    simp only [listB, EvD, StepEv, stepStart, stepEnd, or_false] at hev
    rcases hev with ⟨hlt, ⟨h1, h2⟩, rfl, rfl⟩ | ⟨hlt, ⟨h1, h2⟩, rfl, rfl⟩ | ⟨hlt, ⟨h1, h2⟩, rfl, rfl⟩ |
      ⟨hlt, ⟨h1, h2⟩, rfl, rfl⟩ | ⟨hlt, ⟨h1, h2⟩, rfl, rfl⟩ | ⟨hlt, ⟨h1, h2⟩, rfl, rfl⟩ | ⟨hlt, ⟨h1, h2⟩, rfl, rfl⟩
    · exact ⟨by omega, Or.inr ⟨rfl, rfl, by rw [kD]; omega⟩⟩
    · exact ⟨by omega, Or.inl ⟨rfl, rfl, by rw [kS]; omega⟩⟩
    · exact ⟨by omega, Or.inr ⟨rfl, rfl, by rw [kD]; omega⟩⟩
    · exact ⟨by omega, Or.inl ⟨rfl, rfl, by rw [kS]; omega⟩⟩
    · exact ⟨by omega, Or.inr ⟨rfl, rfl, by rw [kD]; omega⟩⟩
    · exact ⟨by omega, Or.inl ⟨rfl, rfl, by rw [kS]; omega⟩⟩
    · exact ⟨by omega, Or.inr ⟨rfl, rfl, by rw [kD]; omega⟩⟩

theorem ev_normal_complete (a : AlternateTime) (hs : RuleShape a) (y c prev u : Int) (t : LocalTimeType)
    (L : List (Int × RuleStep))
    (hL : (L = listA a y c ∧ ChainA a y) ∨ (L = listB a y c ∧ ChainB a y))
    (hw : InWin y u) (hp : prev ≤ u) (hmax : u < i64Max)
    (ht : (Spec.IsDst a u ∧ t = a.dst ∧ u = c - a.dst.utOffset) ∨
          (¬ Spec.IsDst a u ∧ t = a.std ∧ u = c - a.std.utOffset)) :
    EvD prev L prev (.normal t u) := by
  rcases hL with ⟨rfl, hc⟩ | ⟨rfl, hc⟩
  · have k := isDst_window_A a hs y _ hc hw
    obtain ⟨-, c1, c2, c3, c4, c5, c6⟩ := hc
    simp only [listA, EvD, StepEv, stepStart, stepEnd, or_false]
    rcases ht with ⟨hd, rfl, hu⟩ | ⟨hd, rfl, hu⟩
    · rw [k] at hd
      rcases hd with hd | hd | hd
      · exact Or.inr (Or.inl ⟨by omega, ⟨by omega, by omega⟩, rfl, hu⟩)
      · exact Or.inr (Or.inr (Or.inr (Or.inl ⟨by omega, ⟨by omega, by omega⟩, rfl, hu⟩)))
      · exact Or.inr (Or.inr (Or.inr (Or.inr (Or.inr (Or.inl ⟨by omega, ⟨by omega, by omega⟩, rfl, hu⟩)))))
    · rw [k] at hd
      have : u < Spec.startInstant a (y - 1) ∨ (Spec.endInstant a (y - 1) ≤ u ∧ u < Spec.startInstant a y) ∨
          (Spec.endInstant a y ≤ u ∧ u < Spec.startInstant a (y + 1)) ∨ Spec.endInstant a (y + 1) ≤ u := by omega
      rcases this with hd | hd | hd | hd
      · exact Or.inl ⟨by omega, ⟨by omega, by omega⟩, rfl, hu⟩
      · exact Or.inr (Or.inr (Or.inl ⟨by omega, ⟨by omega, by omega⟩, rfl, hu⟩))
      · exact Or.inr (Or.inr (Or.inr (Or.inr (Or.inl ⟨by omega, ⟨by omega, by omega⟩, rfl, hu⟩))))
      · exact Or.inr (Or.inr (Or.inr (Or.inr (Or.inr (Or.inr ⟨by omega, ⟨by omega, by omega⟩, rfl, hu⟩)))))
  · have k := isDst_window_B a hs y _ hc hw
    obtain ⟨-, c1, c2, c3, c4, c5, c6⟩ := hc
    simp only [listB, EvD, StepEv, stepStart, stepEnd, or_false]
    rcases ht with ⟨hd, rfl, hu⟩ | ⟨hd, rfl, hu⟩
    · rw [k] at hd
      rcases hd with hd | hd | hd | hd
      · exact Or.inl ⟨by omega, ⟨by omega, by omega⟩, rfl, hu⟩
      · exact Or.inr (Or.inr (Or.inl ⟨by omega, ⟨by omega, by omega⟩, rfl, hu⟩))
      · exact Or.inr (Or.inr (Or.inr (Or.inr (Or.inl ⟨by omega, ⟨by omega, by omega⟩, rfl, hu⟩))))
      · exact Or.inr (Or.inr (Or.inr (Or.inr (Or.inr (Or.inr ⟨by omega, ⟨by omega, by omega⟩, rfl, hu⟩)))))
    · rw [k] at hd
      have : (Spec.endInstant a (y - 1) ≤ u ∧ u < Spec.startInstant a (y - 1)) ∨
          (Spec.endInstant a y ≤ u ∧ u < Spec.startInstant a y) ∨
          (Spec.endInstant a (y + 1) ≤ u ∧ u < Spec.startInstant a (y + 1)) := by omega
      rcases this with hd | hd | hd
      · exact Or.inr (Or.inl ⟨by omega, ⟨by omega, by omega⟩, rfl, hu⟩)
      · exact Or.inr (Or.inr (Or.inr (Or.inl ⟨by omega, ⟨by omega, by omega⟩, rfl, hu⟩)))
      · exact Or.inr (Or.inr (Or.inr (Or.inr (Or.inr (Or.inl ⟨by omega, ⟨by omega, by omega⟩, rfl, hu⟩)))))

theorem ev_gap_sound (a : AlternateTime) (y c prev T : Int) (bf af : LocalTimeType)
    (L : List (Int × RuleStep))
    (hL : (L = listA a y c ∧ ChainA a y) ∨ (L = listB a y c ∧ ChainB a y))
    (hmS : c - a.std.utOffset < i64Max) (hmD : c - a.dst.utOffset < i64Max)
    (hev : EvD prev L prev (.gap T bf af)) :
    prev < T ∧ ((∃ y', T = Spec.startInstant a y' ∧ bf = a.std ∧ af = a.dst ∧ RuleGap T a.std a.dst c) ∨
                (∃ y', T = Spec.endInstant a y' ∧ bf = a.dst ∧ af = a.std ∧ RuleGap T a.dst a.std c)) := by
  unfold RuleGap
  rcases hL with ⟨rfl, hc⟩ | ⟨rfl, hc⟩
  · simp only [listA, EvD, StepEv, stepStart, stepEnd, or_false] at hev
    rcases hev with ⟨hlt, -, ⟨h1, h2⟩, rfl, rfl, rfl⟩ | ⟨hlt, -, ⟨h1, h2⟩, rfl, rfl, rfl⟩ |
      ⟨hlt, -, ⟨h1, h2⟩, rfl, rfl, rfl⟩ | ⟨hlt, -, ⟨h1, h2⟩, rfl, rfl, rfl⟩ | ⟨hlt, -, ⟨h1, h2⟩, rfl, rfl, rfl⟩ |
      ⟨hlt, -, ⟨h1, h2⟩, rfl, rfl, rfl⟩ | ⟨hlt, -, ⟨h1, h2⟩, rfl, rfl, rfl⟩
    · exact ⟨hlt, Or.inl ⟨_, rfl, rfl, rfl, by omega, by omega⟩⟩
    · exact ⟨hlt, Or.inr ⟨_, rfl, rfl, rfl, by omega, by omega⟩⟩
    · exact ⟨hlt, Or.inl ⟨_, rfl, rfl, rfl, by omega, by omega⟩⟩
    · exact ⟨hlt, Or.inr ⟨_, rfl, rfl, rfl, by omega, by omega⟩⟩
    · exact ⟨hlt, Or.inl ⟨_, rfl, rfl, rfl, by omega, by omega⟩⟩
    · exact ⟨hlt, Or.inr ⟨_, rfl, rfl, rfl, by omega, by omega⟩⟩
    · omega
  · simp only [listB, EvD, StepEv, stepStart, stepEnd, or_false] at hev
    rcases hev with ⟨hlt, -, ⟨h1, h2⟩, rfl, rfl, rfl⟩ | ⟨hlt, -, ⟨h1, h2⟩, rfl, rfl, rfl⟩ |
      ⟨hlt, -, ⟨h1, h2⟩, rfl, rfl, rfl⟩ | ⟨hlt, -, ⟨h1, h2⟩, rfl, rfl, rfl⟩ | ⟨hlt, -, ⟨h1, h2⟩, rfl, rfl, rfl⟩ |
      ⟨hlt, -, ⟨h1, h2⟩, rfl, rfl, rfl⟩ | ⟨hlt, -, ⟨h1, h2⟩, rfl, rfl, rfl⟩
    · exact ⟨hlt, Or.inr ⟨_, rfl, rfl, rfl, by omega, by omega⟩⟩
    · exact ⟨hlt, Or.inl ⟨_, rfl, rfl, rfl, by omega, by omega⟩⟩
    · exact ⟨hlt, Or.inr ⟨_, rfl, rfl, rfl, by omega, by omega⟩⟩
    · exact ⟨hlt, Or.inl ⟨_, rfl, rfl, rfl, by omega, by omega⟩⟩
    · exact ⟨hlt, Or.inr ⟨_, rfl, rfl, rfl, by omega, by omega⟩⟩
    · exact ⟨hlt, Or.inl ⟨_, rfl, rfl, rfl, by omega, by omega⟩⟩
    · omega

theorem gap_year (a : AlternateTime) (hs : RuleShape a) (y T y' : Int) (hw : InWin y T)
    (hT : T = Spec.startInstant a y' ∨ T = Spec.endInstant a y') : y' = y - 1 ∨ y' = y ∨ y' = y + 1 := by
  obtain ⟨hfp, hff⟩ := win_far a hs y T hw
  by_cases q1 : y' ≤ y - 2
  · have := hfp y' q1; omega
  · by_cases q2 : y + 2 ≤ y'
    · have := hff y' q2; omega
    · omega

theorem ev_gap_complete_start (a : AlternateTime) (hs : RuleShape a) (y c prev y' : Int)
    (L : List (Int × RuleStep))
    (hL : (L = listA a y c ∧ ChainA a y) ∨ (L = listB a y c ∧ ChainB a y))
    (hcy : 86400 * Spec.daysBeforeYear y ≤ c ∧ c ≤ 86400 * Spec.daysBeforeYear (y + 1))
    (hp : prev < Spec.startInstant a y') (hg : RuleGap (Spec.startInstant a y') a.std a.dst c) :
    EvD prev L prev (.gap (Spec.startInstant a y') a.std a.dst) := by
  have hs' := hs
  obtain ⟨-, -, o1, o2, o3, o4, -⟩ := hs'
  unfold RuleGap at hg
  have hw : InWin y (Spec.startInstant a y') := by unfold InWin; omega
  have hy := gap_year a hs y _ y' hw (Or.inl rfl)
  rcases hL with ⟨rfl, hc⟩ | ⟨rfl, hc⟩
  · simp only [listA, EvD, StepEv, stepStart, stepEnd, or_false]
    rcases hy with rfl | rfl | rfl
    · exact Or.inl ⟨hp, by omega, ⟨by omega, by omega⟩, by trivial, by trivial, by trivial⟩
    · exact Or.inr (Or.inr (Or.inl ⟨hp, by omega, ⟨by omega, by omega⟩, by trivial, by trivial, by trivial⟩))
    · exact Or.inr (Or.inr (Or.inr (Or.inr (Or.inl ⟨hp, by omega, ⟨by omega, by omega⟩, by trivial, by trivial, by trivial⟩))))
  · simp only [listB, EvD, StepEv, stepStart, stepEnd, or_false]
    rcases hy with rfl | rfl | rfl
    · exact Or.inr (Or.inl ⟨hp, by omega, ⟨by omega, by omega⟩, by trivial, by trivial, by trivial⟩)
    · exact Or.inr (Or.inr (Or.inr (Or.inl ⟨hp, by omega, ⟨by omega, by omega⟩, by trivial, by trivial, by trivial⟩)))
    · exact Or.inr (Or.inr (Or.inr (Or.inr (Or.inr (Or.inl ⟨hp, by omega, ⟨by omega, by omega⟩, by trivial, by trivial, by trivial⟩)))))

theorem ev_gap_complete_end (a : AlternateTime) (hs : RuleShape a) (y c prev y' : Int)
    (L : List (Int × RuleStep))
    (hL : (L = listA a y c ∧ ChainA a y) ∨ (L = listB a y c ∧ ChainB a y))
    (hcy : 86400 * Spec.daysBeforeYear y ≤ c ∧ c ≤ 86400 * Spec.daysBeforeYear (y + 1))
    (hp : prev < Spec.endInstant a y') (hg : RuleGap (Spec.endInstant a y') a.dst a.std c) :
    EvD prev L prev (.gap (Spec.endInstant a y') a.dst a.std) := by
  have hs' := hs
  obtain ⟨-, -, o1, o2, o3, o4, -⟩ := hs'
  unfold RuleGap at hg
  have hw : InWin y (Spec.endInstant a y') := by unfold InWin; omega
  have hy := gap_year a hs y _ y' hw (Or.inr rfl)
  rcases hL with ⟨rfl, hc⟩ | ⟨rfl, hc⟩
  · simp only [listA, EvD, StepEv, stepStart, stepEnd, or_false]
    rcases hy with rfl | rfl | rfl
    · exact Or.inr (Or.inl ⟨hp, by omega, ⟨by omega, by omega⟩, by trivial, by trivial, by trivial⟩)
    · exact Or.inr (Or.inr (Or.inr (Or.inl ⟨hp, by omega, ⟨by omega, by omega⟩, by trivial, by trivial, by trivial⟩)))
    · exact Or.inr (Or.inr (Or.inr (Or.inr (Or.inr (Or.inl ⟨hp, by omega, ⟨by omega, by omega⟩, by trivial, by trivial, by trivial⟩)))))
  · simp only [listB, EvD, StepEv, stepStart, stepEnd, or_false]
    rcases hy with rfl | rfl | rfl
    · exact Or.inl ⟨hp, by omega, ⟨by omega, by omega⟩, by trivial, by trivial, by trivial⟩
    · exact Or.inr (Or.inr (Or.inl ⟨hp, by omega, ⟨by omega, by omega⟩, by trivial, by trivial, by trivial⟩))
    · exact Or.inr (Or.inr (Or.inr (Or.inr (Or.inl ⟨hp, by omega, ⟨by omega, by omega⟩, by trivial, by trivial, by trivial⟩))))

/-! ### the whole search -/

/-- the result is the table part followed by the realisations of the rule loop's decisions -/
theorem rule_char (y mo d h mi s ns : Int) (z : TimeZone) (a : AlternateTime) (rs : List Found)
    (hz : ZoneOK z) (hr : z.extraRule = some (.alternate a)) (ha : RuleOK a)
    (hf : findDateTime y mo d h mi s ns z = .ok rs) :
    (1 ≤ mo ∧ mo ≤ 12 ∧ 1 ≤ d ∧ d ≤ Spec.monthLen y mo ∧ h ≤ 23 ∧ mi ≤ 59 ∧ s ≤ 60) ∧
    (i32Min + 2 ≤ y ∧ y ≤ i32Max - 2) ∧
    checkUnixTime (Spec.seconds y mo d h mi s - a.std.utOffset) = .ok () ∧
    checkUnixTime (Spec.seconds y mo d h mi s - a.dst.utOffset) = .ok () ∧
    ∃ out outR L,
      findTransitionsLoop z (mkDateTime y mo d h mi s ns) ns (Spec.seconds y mo d h mi s)
        z.extraRule.isSome z.transitions i64Min 0 [] = .ok out ∧
      rs = out ++ outR ∧
      ((L = listA a y (Spec.seconds y mo d h mi s) ∧ ChainA a y) ∨
       (L = listB a y (Spec.seconds y mo d h mi s) ∧ ChainB a y)) ∧
      (∀ f ∈ outR, ∃ e, EvD (ruleFrom z) L (ruleFrom z) e ∧ Realises (mkDateTime y mo d h mi s ns) ns e f) ∧
      (∀ e, EvD (ruleFrom z) L (ruleFrom z) e → ∃ f ∈ outR, Realises (mkDateTime y mo d h mi s ns) ns e f) ∧
      List.Pairwise Before outR ∧ ∀ f ∈ outR, ruleFrom z ≤ instantOfFound f := by
  obtain ⟨hs, hi, ht⟩ := ha
  obtain ⟨hv, hg, hcS, hcD, out, hloop, hrl⟩ := find_char_rule y mo d h mi s ns z a rs hz hr hs hf
  refine ⟨hv, hg, hcS, hcD, ?_⟩
  have hcases := rawList_cases a hs hi ht y (Spec.seconds y mo d h mi s) hg.2
  have hsorted : List.Pairwise (fun x y => x.1 ≤ y.1) (rawList a y (Spec.seconds y mo d h mi s)) := by
    rcases hcases with ⟨e, hc⟩ | ⟨e, hc⟩
    · rw [e]; exact listA_sorted a y _ hc
    · rw [e]; exact listB_sorted a y _ hc
  obtain ⟨outR, hout, h1, h2, h3⟩ := rloop_char (mkDateTime y mo d h mi s ns) ns (fun _ _ => rfl) _ _ _ _ hrl
  obtain ⟨d1, d2⟩ := dropUntil_sorted (ruleFrom z) _ hsorted
  obtain ⟨h3a, h3b⟩ := h3 d1 d2
  refine ⟨out, outR, rawList a y (Spec.seconds y mo d h mi s), hloop, hout, hcases, ?_, ?_, h3a, h3b⟩
  · intro f hf
    obtain ⟨e, he, hr⟩ := h1 f hf
    exact ⟨e, (dropUntil_ev _ e _ _ (Int.le_refl _) hsorted).mp he, hr⟩
  · intro e he
    exact h2 e ((dropUntil_ev _ e _ _ (Int.le_refl _) hsorted).mpr he)

/-- from `ruleFrom z` on the lookup is the rule's -/
theorem lookup_rule_era (z : TimeZone) (a : AlternateTime) (hz : ZoneOK z) (hr : z.extraRule = some (.alternate a))
    (u : Int) (hmax : u ≤ MAX_UNIX_TIME) (hp : ruleFrom z ≤ u) :
    z.findLocalTimeType u = a.findLocalTimeType u := by
  cases hl : z.transitions.getLast? with
  | none =>
    rw [no_transitions z u (List.getLast?_eq_none_iff.mp hl), hr]
    rfl
  | some last =>
    obtain ⟨L, hL⟩ := toCount_ok _ hz.2 u hmax
    have hrf : ruleFrom z = Spec.toUtc z.leapSeconds last.unixLeapTime := by unfold ruleFrom; rw [hl]
    rw [hrf] at hp
    have hge := (galois _ hz.2 u L last.unixLeapTime hL).mpr hp
    rw [table_lookup z hz.1 u L last hl hL, if_pos hge, hr]
    rfl

theorem rule_search_sound (y mo d h mi s ns : Int) (z : TimeZone) (a : AlternateTime) (rs : List Found)
    (hz : ZoneOK z) (hr : z.extraRule = some (.alternate a)) (ha : RuleOK a)
    (hf : findDateTime y mo d h mi s ns z = .ok rs) (x : DateTime) (hx : Found.normal x ∈ rs)
    (hnn : 0 ≤ h ∧ 0 ≤ mi ∧ 0 ≤ s) (hy : i32Min + 3 ≤ y ∧ y ≤ i32Max - 3) :
    z.findLocalTimeType x.unixTime = .ok x.localTimeType ∧
    x.unixTime + x.localTimeType.utOffset = Spec.seconds y mo d h mi s := by
  obtain ⟨hv, hg, hcS, hcD, out, outR, L, hloop, rfl, hL, h1, -, -, -⟩ := rule_char y mo d h mi s ns z a rs hz hr ha hf
  rcases List.mem_append.mp hx with hx | hx
  · exact table_sound y mo d h mi s ns _ z hz _ hloop x hx
  · obtain ⟨e, he, hre⟩ := h1 _ hx
    obtain ⟨hs, hi, ht⟩ := ha
    have hs' := hs
    obtain ⟨-, -, o1, o2, o3, o4, -⟩ := hs'
    have hcy := seconds_in_year y mo d h mi s hv hnn
    have hwS := cand_window y _ a.std.utOffset hcy ⟨by omega, o2⟩
    have hwD := cand_window y _ a.dst.utOffset hcy ⟨by omega, o4⟩
    cases e with
    | gap T bf af =>
      obtain ⟨b, a', -, -, hh⟩ := hre
      cases hh
    | normal lt u =>
      have hxe : Found.normal x = Found.normal (mkDateTime y mo d h mi s ns lt u) := hre
      injection hxe with hxe
      subst hxe
      simp only [mkDateTime]
      obtain ⟨hp, htyped⟩ := ev_normal_typed a hs y _ _ u lt L hL hwS hwD he
      have hrange : MIN_UNIX_TIME ≤ u ∧ u ≤ MAX_UNIX_TIME ∧ InWin y u := by
        rcases htyped with ⟨-, rfl, -⟩ | ⟨-, rfl, -⟩
        · have := checkUnixTime_ok _ _ hcS; exact ⟨this.1, this.2, hwS⟩
        · have := checkUnixTime_ok _ _ hcD; exact ⟨this.1, this.2, hwD⟩
      obtain ⟨t, hlk⟩ := rule_lookup_ok a y u hrange.2.2 hy ⟨hrange.1, hrange.2.1⟩
      rw [lookup_rule_era z a hz hr u hrange.2.1 hp, hlk]
      have hcorr := alternate_correct a hs hi ht u t hlk
      rcases htyped with ⟨rfl, hu, hnd⟩ | ⟨rfl, hu, hd⟩
      · rcases hcorr with ⟨hd, -⟩ | ⟨-, rfl⟩
        · exact absurd hd hnd
        · exact ⟨rfl, by omega⟩
      · rcases hcorr with ⟨-, rfl⟩ | ⟨hnd, -⟩
        · exact ⟨rfl, by omega⟩
        · exact absurd hd hnd

theorem rule_search_complete (y mo d h mi s ns : Int) (z : TimeZone) (a : AlternateTime) (rs : List Found)
    (hz : ZoneOK z) (hr : z.extraRule = some (.alternate a)) (ha : RuleOK a)
    (hf : findDateTime y mo d h mi s ns z = .ok rs) (u : Int) (t : LocalTimeType)
    (hu : i64Min ≤ u ∧ u ≤ i64Max)
    (hl : z.findLocalTimeType u = .ok t) (hc : u + t.utOffset = Spec.seconds y mo d h mi s)
    (hnn : 0 ≤ h ∧ 0 ≤ mi ∧ 0 ≤ s) :
    ∃ x, Found.normal x ∈ rs ∧ x.unixTime = u ∧ x.localTimeType = t := by
  obtain ⟨hv, hg, hcS, hcD, out, outR, L, hloop, rfl, hL, -, h2, -, -⟩ := rule_char y mo d h mi s ns z a rs hz hr ha hf
  obtain ⟨hs, hi, ht⟩ := ha
  -- the rule era
  have hrule : a.findLocalTimeType u = .ok t → ruleFrom z ≤ u →
      ∃ x, Found.normal x ∈ out ++ outR ∧ x.unixTime = u ∧ x.localTimeType = t := by
    intro hlk hp
    have hs' := hs
    obtain ⟨-, -, o1, o2, o3, o4, -⟩ := hs'
    have hcy := seconds_in_year y mo d h mi s hv hnn
    have hcorr := alternate_correct a hs hi ht u t hlk
    have hS := checkUnixTime_ok _ _ hcS
    have hD := checkUnixTime_ok _ _ hcD
    rw [c_max] at hS hD
    have hfacts : InWin y u ∧ u < i64Max := by
      rw [c_i64max]
      rcases hcorr with ⟨-, rfl⟩ | ⟨-, rfl⟩
      · have e : u = Spec.seconds y mo d h mi s - a.dst.utOffset := by omega
        rw [e]
        exact ⟨cand_window y _ _ hcy ⟨by omega, o4⟩, by omega⟩
      · have e : u = Spec.seconds y mo d h mi s - a.std.utOffset := by omega
        rw [e]
        exact ⟨cand_window y _ _ hcy ⟨by omega, o2⟩, by omega⟩
    have hev := ev_normal_complete a hs y _ (ruleFrom z) u t L hL hfacts.1 hp hfacts.2 (by
      rcases hcorr with ⟨hd, rfl⟩ | ⟨hd, rfl⟩
      · exact Or.inl ⟨hd, rfl, by omega⟩
      · exact Or.inr ⟨hd, rfl, by omega⟩)
    obtain ⟨f, hfm, hre⟩ := h2 _ hev
    have hfe : f = Found.normal (mkDateTime y mo d h mi s ns t u) := hre
    subst hfe
    exact ⟨_, List.mem_append_right _ hfm, rfl, rfl⟩
  cases hlast : z.transitions.getLast? with
  | none =>
    have h0 : z.transitions = [] := List.getLast?_eq_none_iff.mp hlast
    rw [no_transitions z _ h0, hr] at hl
    have hrf : ruleFrom z = i64Min := by unfold ruleFrom; rw [hlast]
    exact hrule hl (by rw [hrf]; exact hu.1)
  | some last =>
    obtain ⟨hpos, hlt⟩ := last_eq z last hlast
    cases hLc : unixTimeToUnixLeapTime z.leapSeconds u with
    | error e => rw [conversion_error z u e last hlast hLc] at hl; cases hl
    | ok Lc =>
      have hl0 := hl
      rw [table_lookup z hz.1 u Lc last hlast hLc] at hl
      by_cases hge : Lc ≥ last.unixLeapTime
      · rw [if_pos hge, hr] at hl
        have hrf : ruleFrom z = Spec.toUtc z.leapSeconds last.unixLeapTime := by unfold ruleFrom; rw [hlast]
        exact hrule hl (by rw [hrf]; exact (galois _ hz.2 u Lc last.unixLeapTime hLc).mp hge)
      · obtain ⟨x, hx, e1, e2⟩ := table_complete y mo d h mi s ns _ z hz out hloop u Lc t hu.1 hLc hpos
          (by omega) hl0 hc
        exact ⟨x, List.mem_append_left _ hx, e1, e2⟩

/-- the table part precedes the rule era -/
theorem table_before_rule (y mo d h mi s ns utc : Int) (z : TimeZone) (hz : ZoneOK z) (out : List Found)
    (hloop : findTransitionsLoop z (mkDateTime y mo d h mi s ns) ns utc z.extraRule.isSome z.transitions i64Min 0 [] = .ok out)
    (f : Found) (hf : f ∈ out) :
    instantOfFound f ≤ ruleFrom z ∧ ∀ x, f = .normal x → instantOfFound f < ruleFrom z := by
  obtain ⟨-, hb⟩ := table_order y mo d h mi s ns utc z hz out hloop
  obtain ⟨j, hj, f2, f3⟩ := hb f hf
  have hne : z.transitions ≠ [] := by
    intro h0; rw [h0] at hj; exact Nat.not_lt_zero _ hj
  have hlast := List.getLast?_eq_some_getLast hne
  obtain ⟨hpos, hlt⟩ := last_eq z _ hlast
  have hrf : ruleFrom z = Spec.toUtc z.leapSeconds (z.transitions.getLast hne).unixLeapTime := by
    unfold ruleFrom; rw [hlast]
  have hm : instantOf z j ≤ ruleFrom z := by
    rw [hrf, hlt]
    exact toUtc_mono _ hz.2 _ _ (timeOf_le z hz.1 j _ (by omega) (by omega))
  exact ⟨by omega, fun x hx => by have := f3 x hx; omega⟩

theorem rule_find_order (y mo d h mi s ns : Int) (z : TimeZone) (a : AlternateTime) (rs : List Found)
    (hz : ZoneOK z) (hr : z.extraRule = some (.alternate a)) (ha : RuleOK a)
    (hf : findDateTime y mo d h mi s ns z = .ok rs) : List.Pairwise Before rs := by
  obtain ⟨-, -, -, -, out, outR, L, hloop, rfl, -, -, -, hp, hb⟩ := rule_char y mo d h mi s ns z a rs hz hr ha hf
  rw [List.pairwise_append]
  refine ⟨(table_order y mo d h mi s ns _ z hz out hloop).1, hp, ?_⟩
  intro f hfm g hg
  obtain ⟨f1, f2⟩ := table_before_rule y mo d h mi s ns _ z hz out hloop f hfm
  have := hb g hg
  exact ⟨by omega, fun x hx => by have := f2 x hx; omega⟩

theorem rule_search_normals_strict (y mo d h mi s ns : Int) (z : TimeZone) (a : AlternateTime) (rs : List Found)
    (hz : ZoneOK z) (hr : z.extraRule = some (.alternate a)) (ha : RuleOK a)
    (hf : findDateTime y mo d h mi s ns z = .ok rs) :
    List.Pairwise (fun p q => p.unixTime < q.unixTime) (normalsOf rs) := by
  unfold normalsOf
  rw [List.pairwise_filterMap]
  refine (rule_find_order y mo d h mi s ns z a rs hz hr ha hf).imp ?_
  intro p q hab x hx x' hx'
  cases p with
  | skipped _ _ => cases hx
  | normal xa =>
    cases q with
    | skipped _ _ => cases hx'
    | normal xb =>
      injection hx with hx
      injection hx' with hx'
      subst hx hx'
      exact hab.2 _ rfl

theorem rule_search_ascending (y mo d h mi s ns : Int) (z : TimeZone) (a : AlternateTime) (rs : List Found)
    (hz : ZoneOK z) (hr : z.extraRule = some (.alternate a)) (ha : RuleOK a)
    (hf : findDateTime y mo d h mi s ns z = .ok rs) :
    List.Pairwise (fun p q => instantOfFound p ≤ instantOfFound q) rs :=
  (rule_find_order y mo d h mi s ns z a rs hz hr ha hf).imp (fun hab => hab.1)

/-- a reported gap is a table gap (as in `gaps_sound`) or the gap of a rule instant after the table -/
theorem rule_gaps_sound (y mo d h mi s ns : Int) (z : TimeZone) (a : AlternateTime) (rs : List Found)
    (hz : ZoneOK z) (hr : z.extraRule = some (.alternate a)) (ha : RuleOK a)
    (hf : findDateTime y mo d h mi s ns z = .ok rs) (b a' : DateTime) (hx : Found.skipped b a' ∈ rs) :
    (∃ i, Effective z i ∧ GapAt z i (Spec.seconds y mo d h mi s) ∧
        DateTime.fromTimespecAndLocal (instantOf z i) ns (typeBefore z i) = .ok b ∧
        DateTime.fromTimespecAndLocal (instantOf z i) ns (typeAfter z i) = .ok a') ∨
    (∃ y', ruleFrom z < Spec.startInstant a y' ∧ RuleGap (Spec.startInstant a y') a.std a.dst (Spec.seconds y mo d h mi s) ∧
        DateTime.fromTimespecAndLocal (Spec.startInstant a y') ns a.std = .ok b ∧
        DateTime.fromTimespecAndLocal (Spec.startInstant a y') ns a.dst = .ok a') ∨
    (∃ y', ruleFrom z < Spec.endInstant a y' ∧ RuleGap (Spec.endInstant a y') a.dst a.std (Spec.seconds y mo d h mi s) ∧
        DateTime.fromTimespecAndLocal (Spec.endInstant a y') ns a.dst = .ok b ∧
        DateTime.fromTimespecAndLocal (Spec.endInstant a y') ns a.std = .ok a') := by
  obtain ⟨hv, hg, hcS, hcD, out, outR, L, hloop, rfl, hL, h1, -, -, -⟩ := rule_char y mo d h mi s ns z a rs hz hr ha hf
  rcases List.mem_append.mp hx with hx | hx
  · exact Or.inl (table_gaps_sound _ ns _ z hz out hloop b a' hx)
  · right
    obtain ⟨e, he, hre⟩ := h1 _ hx
    cases e with
    | normal lt u =>
      have hh : Found.skipped b a' = Found.normal (mkDateTime y mo d h mi s ns lt u) := hre
      cases hh
    | gap T bf af =>
      obtain ⟨b0, a0, hb, ha0, hh⟩ := hre
      injection hh with e1 e2
      subst e1 e2
      have hS := checkUnixTime_ok _ _ hcS
      have hD := checkUnixTime_ok _ _ hcD
      rw [c_max] at hS hD
      obtain ⟨hp, hcase⟩ := ev_gap_sound a y _ (ruleFrom z) T bf af L hL (by rw [c_i64max]; omega)
        (by rw [c_i64max]; omega) he
      rcases hcase with ⟨y', rfl, rfl, rfl, hgap⟩ | ⟨y', rfl, rfl, rfl, hgap⟩
      · exact Or.inl ⟨y', hp, hgap, hb, ha0⟩
      · exact Or.inr ⟨y', hp, hgap, hb, ha0⟩

/-- every gap of a rule instant after the table that contains the searched local time is reported -/
theorem rule_gaps_complete_start (y mo d h mi s ns : Int) (z : TimeZone) (a : AlternateTime) (rs : List Found)
    (hz : ZoneOK z) (hr : z.extraRule = some (.alternate a)) (ha : RuleOK a)
    (hf : findDateTime y mo d h mi s ns z = .ok rs) (y' : Int)
    (hp : ruleFrom z < Spec.startInstant a y')
    (hg : RuleGap (Spec.startInstant a y') a.std a.dst (Spec.seconds y mo d h mi s))
    (hnn : 0 ≤ h ∧ 0 ≤ mi ∧ 0 ≤ s) :
    ∃ b a', Found.skipped b a' ∈ rs ∧ b.unixTime = Spec.startInstant a y' ∧ b.localTimeType = a.std ∧ a'.localTimeType = a.dst := by
  obtain ⟨hv, -, -, -, out, outR, L, hloop, rfl, hL, -, h2, -, -⟩ := rule_char y mo d h mi s ns z a rs hz hr ha hf
  have hcy := seconds_in_year y mo d h mi s hv hnn
  obtain ⟨f, hfm, b, a', hb, ha', rfl⟩ := h2 _ (ev_gap_complete_start a ha.1 y _ (ruleFrom z) y' L hL hcy hp hg)
  obtain ⟨b1, -, b2, -⟩ := fromTimespecAndLocal_spec _ _ _ _ hb
  obtain ⟨-, -, a2, -⟩ := fromTimespecAndLocal_spec _ _ _ _ ha'
  exact ⟨b, a', List.mem_append_right _ hfm, b1, b2, a2⟩

theorem rule_gaps_complete_end (y mo d h mi s ns : Int) (z : TimeZone) (a : AlternateTime) (rs : List Found)
    (hz : ZoneOK z) (hr : z.extraRule = some (.alternate a)) (ha : RuleOK a)
    (hf : findDateTime y mo d h mi s ns z = .ok rs) (y' : Int)
    (hp : ruleFrom z < Spec.endInstant a y')
    (hg : RuleGap (Spec.endInstant a y') a.dst a.std (Spec.seconds y mo d h mi s))
    (hnn : 0 ≤ h ∧ 0 ≤ mi ∧ 0 ≤ s) :
    ∃ b a', Found.skipped b a' ∈ rs ∧ b.unixTime = Spec.endInstant a y' ∧ b.localTimeType = a.dst ∧ a'.localTimeType = a.std := by
  obtain ⟨hv, -, -, -, out, outR, L, hloop, rfl, hL, -, h2, -, -⟩ := rule_char y mo d h mi s ns z a rs hz hr ha hf
  have hcy := seconds_in_year y mo d h mi s hv hnn
  obtain ⟨f, hfm, b, a', hb, ha', rfl⟩ := h2 _ (ev_gap_complete_end a ha.1 y _ (ruleFrom z) y' L hL hcy hp hg)
  obtain ⟨b1, -, b2, -⟩ := fromTimespecAndLocal_spec _ _ _ _ hb
  obtain ⟨-, -, a2, -⟩ := fromTimespecAndLocal_spec _ _ _ _ ha'
  exact ⟨b, a', List.mem_append_right _ hfm, b1, b2, a2⟩

/-- table gaps are still all reported when a rule follows (the last transition is effective) -/
theorem rule_table_gaps_complete (y mo d h mi s ns : Int) (z : TimeZone) (a : AlternateTime) (rs : List Found)
    (hz : ZoneOK z) (hr : z.extraRule = some (.alternate a)) (ha : RuleOK a)
    (hf : findDateTime y mo d h mi s ns z = .ok rs) (i : Nat) (he : Effective z i)
    (hg : GapAt z i (Spec.seconds y mo d h mi s)) :
    ∃ b a', Found.skipped b a' ∈ rs ∧ b.unixTime = instantOf z i ∧ b.localTimeType = typeBefore z i ∧ a'.localTimeType = typeAfter z i := by
  obtain ⟨-, -, -, -, out, hloop, hrl⟩ := find_char_rule y mo d h mi s ns z a rs hz hr ha.1 hf
  obtain ⟨outR, rfl, -⟩ := rloop_char (mkDateTime y mo d h mi s ns) ns (fun _ _ => rfl) _ _ _ _ hrl
  obtain ⟨b, a', hm, h1, h2, h3⟩ := table_gaps_complete _ ns _ z hz out hloop i he hg
  exact ⟨b, a', List.mem_append_left _ hm, h1, h2, h3⟩

end TzVerif.Proofs
