/-
The translated source (Generated/Src.lean, regenerated from /repo/src on every run by tools/rs2lean.py)
equals the hand-written model, function by function: calendar arithmetic of src/datetime/mod.rs and the
helpers of src/utils/const_fns.rs.

Each theorem is stated for ALL integer arguments where that is true, and under the range of the Rust
argument types where a cast (`as u8`, …) is only the identity in range. The property theorems
(Properties/Cxx.lean) are about the Model functions; through these equalities they are about the code.
-/
import TzVerif.SrcBase
import TzVerif.Model.DateTime
import TzVerif.Model.Rule
import TzVerif.Proofs.Calendar

namespace TzVerif.Proofs.SrcEq
open TzVerif TzVerif.Model TzVerif.Gen

/-- ranges of the Rust integer types -/
def U8 (x : Int) : Prop := 0 ≤ x ∧ x ≤ 255
def U32 (x : Int) : Prop := 0 ≤ x ∧ x ≤ 4294967295
def I32 (x : Int) : Prop := -2147483648 ≤ x ∧ x ≤ 2147483647
def I64 (x : Int) : Prop := -9223372036854775808 ≤ x ∧ x ≤ 9223372036854775807

/-! ### casts, checked operations, indexing -/

theorem wrap_u8_id (x : Int) (h : 0 ≤ x ∧ x ≤ 255) : Src.wrap_u8 x = x := by
  unfold Src.wrap_u8 Src.wrapU
  rw [show ((2:Int)^8) = 256 from by decide]; omega

theorem wrap_u16_id (x : Int) (h : 0 ≤ x ∧ x ≤ 65535) : Src.wrap_u16 x = x := by
  unfold Src.wrap_u16 Src.wrapU
  rw [show ((2:Int)^16) = 65536 from by decide]; omega

theorem wrap_u32_id (x : Int) (h : 0 ≤ x ∧ x ≤ 4294967295) : Src.wrap_u32 x = x := by
  unfold Src.wrap_u32 Src.wrapU
  rw [show ((2:Int)^32) = 4294967296 from by decide]; omega

theorem wrap_usize_id (x : Int) (h : 0 ≤ x ∧ x ≤ 18446744073709551615) : Src.wrap_usize x = x := by
  unfold Src.wrap_usize Src.wrapU
  rw [show ((2:Int)^64) = 18446744073709551616 from by decide]; omega

theorem wrap_i32_id (x : Int) (h : -2147483648 ≤ x ∧ x ≤ 2147483647) : Src.wrap_i32 x = x := by
  unfold Src.wrap_i32 Src.wrapS
  simp only [show ((2:Int)^32) = 4294967296 from by decide]
  split <;> omega

theorem wrap_i64_id (x : Int) (h : -9223372036854775808 ≤ x ∧ x ≤ 9223372036854775807) : Src.wrap_i64 x = x := by
  unfold Src.wrap_i64 Src.wrapS
  simp only [show ((2:Int)^64) = 18446744073709551616 from by decide]
  split <;> omega

theorem checked_i64_eq (x : Int) : Src.checked_i64 x = if i64Min ≤ x ∧ x ≤ i64Max then some x else none := by
  unfold Src.checked_i64 Src.inS
  rw [show ((2:Int)^(64-1)) = 9223372036854775808 from by decide]
  by_cases h : i64Min ≤ x ∧ x ≤ i64Max
  · rw [if_pos h, if_pos]
    simp only [i64Min, i64Max] at h
    simp only [decide_eq_true_eq]; omega
  · rw [if_neg h, if_neg]
    simp only [i64Min, i64Max] at h
    simp only [decide_eq_true_eq]; omega

theorem idx_eq (l : List Int) (i : Int) : Src.idx l i = tbl l i := rfl

theorem min_eq (a b : Int) : Src.min a b = minI a b := by
  unfold Src.min Src.cmp minI
  by_cases h1 : a < b
  · simp [h1]; omega
  · by_cases h2 : a = b
    · simp [h2]
    · simp [h1, h2]; omega

theorem try_into_i32_eq (v : Int) : Src.try_into_i32 v = tryIntoI32 v := by
  unfold Src.try_into_i32 tryIntoI32 i32Min i32Max
  by_cases h : -2147483648 ≤ v ∧ v ≤ 2147483647
  · simp [h, wrap_i32_id v h]
  · simp [h]

theorem try_into_i64_eq (v : Int) : Src.try_into_i64 v = tryIntoI64 v := by
  unfold Src.try_into_i64 tryIntoI64 i64Min i64Max
  by_cases h : -9223372036854775808 ≤ v ∧ v ≤ 9223372036854775807
  · simp [h, wrap_i64_id v h]
  · simp [h]

theorem is_leap_year_eq (y : Int) : Src.is_leap_year y = isLeapYear y := by
  unfold Src.is_leap_year isLeapYear
  simp [bne, BEq.beq]


theorem days_since_unix_epoch_eq (y m d : Int) : Src.days_since_unix_epoch y m d = daysSinceUnixEpoch y m d := by
  unfold Src.days_since_unix_epoch daysSinceUnixEpoch
  simp only [is_leap_year_eq, idx_eq]
  by_cases hy : y ≥ 1970 <;> by_cases hl : isLeapYear y = true <;> by_cases hm : m < 3 <;>
    simp [hy, hl, hm] <;> omega

theorem unix_time_eq (y mo d h mi s : Int) : Src.unix_time y mo d h mi s = unixTime y mo d h mi s := by
  unfold Src.unix_time unixTime
  simp only [days_since_unix_epoch_eq]

theorem week_day_eq (y m d : Int) : Src.week_day y m d = weekDay y m d := by
  unfold Src.week_day weekDay
  simp only [days_since_unix_epoch_eq, DAYS_PER_WEEK]
  apply wrap_u8_id; omega


theorem tbl_cumul_range (m : Int) (hm : 1 ≤ m ∧ m ≤ 12) :
    0 ≤ tbl CUMUL_DAYS_IN_MONTHS_NORMAL_YEAR (m - 1) ∧ tbl CUMUL_DAYS_IN_MONTHS_NORMAL_YEAR (m - 1) ≤ 334 := by
  have : m = 1 ∨ m = 2 ∨ m = 3 ∨ m = 4 ∨ m = 5 ∨ m = 6 ∨ m = 7 ∨ m = 8 ∨ m = 9 ∨ m = 10 ∨ m = 11 ∨ m = 12 := by omega
  rcases this with h | h | h | h | h | h | h | h | h | h | h | h <;> subst h <;> decide

/-- `as u16` is the identity for a day of the year: months 1..12, days of the Rust type's range -/
theorem year_day_eq (y m d : Int) (hm : 1 ≤ m ∧ m ≤ 12) (hd : 1 ≤ d ∧ d ≤ 255) : Src.year_day y m d = yearDay y m d := by
  unfold Src.year_day yearDay
  simp only [is_leap_year_eq, idx_eq]
  have hr := tbl_cumul_range m hm
  have hl : ∀ b : Bool, 0 ≤ (if b = true then (1:Int) else 0) ∧ (if b = true then (1:Int) else 0) ≤ 1 := by
    intro b; cases b <;> simp
  have e : (decide (m ≥ 3) && isLeapYear y) = (decide (m ≥ 3) && isLeapYear y) := rfl
  have hl' := hl (decide (m ≥ 3) && isLeapYear y)
  apply wrap_u16_id
  omega

theorem nanoseconds_since_unix_epoch_eq (u ns : Int) : Src.nanoseconds_since_unix_epoch u ns = nanosecondsSinceUnixEpoch u ns := rfl

theorem total_nanoseconds_to_timespec_eq (t : Int) : Src.total_nanoseconds_to_timespec t = totalNanosecondsToTimespec t := by
  unfold Src.total_nanoseconds_to_timespec totalNanosecondsToTimespec
  rw [try_into_i64_eq]
  have : Src.wrap_u32 (t % NANOSECONDS_PER_SECOND) = t % NANOSECONDS_PER_SECOND := by
    apply wrap_u32_id; simp only [NANOSECONDS_PER_SECOND]; omega
  rw [this]
  cases tryIntoI64 (t / NANOSECONDS_PER_SECOND) <;> rfl

theorem check_date_time_inputs_eq (y mo d h mi s ns : Int) :
    Src.check_date_time_inputs y mo d h mi s ns = checkDateTimeInputs y mo d h mi s ns := by
  unfold Src.check_date_time_inputs checkDateTimeInputs
  simp only [is_leap_year_eq, idx_eq, decide_eq_true_eq]

theorem check_unix_time_eq (t : Int) : Src.UtcDateTime.check_unix_time t = checkUnixTime t := by
  unfold Src.UtcDateTime.check_unix_time checkUnixTime
  simp only [Bool.and_eq_true, decide_eq_true_eq]

theorem utc_new_eq (y mo d h mi s ns : Int) : Src.UtcDateTime.new y mo d h mi s ns = UtcDateTime.new y mo d h mi s ns := by
  unfold Src.UtcDateTime.new UtcDateTime.new
  rw [check_date_time_inputs_eq]
  by_cases hc : y = i32Max ∧ mo = 12 ∧ d = 31 ∧ h = 23 ∧ mi = 59 ∧ s = 60
  · rw [if_pos hc, if_pos]
    simp only [i32Max] at hc
    simp only [Bool.and_eq_true, decide_eq_true_eq, and_assoc]; exact hc
  · rw [if_neg hc, if_neg]
    · cases checkDateTimeInputs y mo d h mi s ns <;> rfl
    · simp only [i32Max] at hc
      simp only [Bool.and_eq_true, decide_eq_true_eq, and_assoc]; exact hc


theorem loopS_monthLoop (L : List Int) (f : Int × Int → Src.Step (Int × Int) Empty)
    (hf : ∀ r m, f (r, m) =
      if decide (m < (L.length : Int)) then
        (if decide (r < Src.idx L m) then Src.Step.stop (r, m) else Src.Step.next (r - Src.idx L m, m + 1))
      else Src.Step.stop (r, m)) :
    ∀ (n k : Nat) (r : Int) (fuel : Nat), L.length - k = n → k ≤ L.length → fuel ≥ n + 1 →
      Src.loopS fuel f (r, (k : Int)) = ((monthLoop (L.drop k) k r).2, (monthLoop (L.drop k) k r).1) := by
  intro n
  induction n with
  | zero =>
    intro k r fuel hn hk hfu
    have hk' : k = L.length := by omega
    obtain ⟨fuel', rfl⟩ : ∃ f', fuel = f' + 1 := ⟨fuel - 1, by omega⟩
    have hd : L.drop k = [] := by rw [hk']; exact List.drop_length
    rw [hd]
    simp only [Src.loopS, monthLoop, hf]
    have : ¬ ((k : Int) < (L.length : Int)) := by omega
    simp [this]
  | succ n ih =>
    intro k r fuel hn hk hfu
    have hk' : k < L.length := by omega
    obtain ⟨fuel', rfl⟩ : ∃ f', fuel = f' + 1 := ⟨fuel - 1, by omega⟩
    have hd : L.drop k = L[k] :: L.drop (k + 1) := List.drop_eq_getElem_cons hk'
    have hi : Src.idx L (k : Int) = L[k] := by
      unfold Src.idx
      simp [List.getD_eq_getElem?_getD, hk']
    rw [hd]
    simp only [Src.loopS, monthLoop, hf, hi]
    have : ((k : Int) < (L.length : Int)) := by omega
    simp only [this, decide_true, if_true]
    by_cases hr : r < L[k]
    · simp [hr]
    · simp only [hr, decide_false, if_false]
      have := ih (k + 1) (r - L[k]) fuel' (by omega) (by omega) (by omega)
      rw [Int.natCast_add] at this
      exact this


/-- the cast layer of `from_timespec` on top of the model result -/
def castFields (c : UtcDateTime) : UtcDateTime :=
  { year := c.year, month := Src.wrap_u8 c.month, monthDay := Src.wrap_u8 c.monthDay, hour := Src.wrap_u8 c.hour,
    minute := Src.wrap_u8 c.minute, second := Src.wrap_u8 c.second, nanoseconds := c.nanoseconds }

theorem month_loop_eq (r : Int) (f : Int × Int → Src.Step (Int × Int) Empty)
    (hf : ∀ r m, f (r, m) =
      if decide (m < (DAY_IN_MONTHS_LEAP_YEAR_FROM_MARCH.length : Int)) then
        (if decide (r < Src.idx DAY_IN_MONTHS_LEAP_YEAR_FROM_MARCH m) then Src.Step.stop (r, m)
         else Src.Step.next (r - Src.idx DAY_IN_MONTHS_LEAP_YEAR_FROM_MARCH m, m + 1))
      else Src.Step.stop (r, m)) :
    Src.loopS (Int.toNat ((DAY_IN_MONTHS_LEAP_YEAR_FROM_MARCH.length : Int) + 1)) f (r, 0) =
      ((monthLoop DAY_IN_MONTHS_LEAP_YEAR_FROM_MARCH 0 r).2, (monthLoop DAY_IN_MONTHS_LEAP_YEAR_FROM_MARCH 0 r).1) := by
  have := loopS_monthLoop DAY_IN_MONTHS_LEAP_YEAR_FROM_MARCH f hf 12 0 r
    (Int.toNat ((DAY_IN_MONTHS_LEAP_YEAR_FROM_MARCH.length : Int) + 1)) (by decide) (by decide) (by decide)
  simpa using this

theorem pair_ite {α β : Type} (c : Prop) [Decidable c] (a a' : α) (b b' : β) :
    (if c then (a, b) else (a', b')) = (if c then a else a', if c then b else b') := by
  split <;> rfl

theorem wrap_usize_mpy : Src.wrap_usize MONTHS_PER_YEAR = MONTHS_PER_YEAR := by decide

theorem utc_from_timespec_aux (t ns : Int) : Src.UtcDateTime.from_timespec t ns =
    match UtcDateTime.fromTimespec t ns with
    | .ok c => .ok (castFields c)
    | .error e => .error e := by
  unfold Src.UtcDateTime.from_timespec UtcDateTime.fromTimespec
  rw [checked_i64_eq]
  by_cases hr : i64Min ≤ t - UNIX_OFFSET_SECS ∧ t - UNIX_OFFSET_SECS ≤ i64Max
  · simp only [if_pos hr, if_neg (not_not_intro hr)]
    simp only [min_eq, try_into_i32_eq]
    rw [month_loop_eq _ _ (fun r m => rfl)]
    simp only [pair_ite, decide_eq_true_eq, wrap_usize_mpy]
    split <;> rename_i h1 <;> rw [h1]
    rfl
  · simp only [if_neg hr, if_pos hr]


theorem castFields_id (t ns : Int) (c : UtcDateTime) (h : UtcDateTime.fromTimespec t ns = .ok c) : castFields c = c := by
  obtain ⟨⟨v1, v2, v3, v4⟩, a1, a2, a3, a4, a5, a6, -⟩ := fromTimespec_fields t ns c h
  have := monthLen_le c.year c.month
  unfold castFields
  rw [wrap_u8_id _ (by omega), wrap_u8_id _ (by omega), wrap_u8_id _ (by omega), wrap_u8_id _ (by omega),
    wrap_u8_id _ (by omega)]

/-- the whole of `UtcDateTime::from_timespec`, loop and casts included (no hypothesis: the casts are the
    identity because of what the arithmetic before them guarantees) -/
theorem utc_from_timespec_eq (t ns : Int) : Src.UtcDateTime.from_timespec t ns = UtcDateTime.fromTimespec t ns := by
  rw [utc_from_timespec_aux]
  cases h : UtcDateTime.fromTimespec t ns with
  | error e => rfl
  | ok c => simp only [castFields_id t ns c h]

theorem utc_from_total_nanoseconds_eq (t : Int) : Src.UtcDateTime.from_total_nanoseconds t = UtcDateTime.fromTotalNanoseconds t := by
  unfold Src.UtcDateTime.from_total_nanoseconds UtcDateTime.fromTotalNanoseconds
  rw [total_nanoseconds_to_timespec_eq]
  cases totalNanosecondsToTimespec t with
  | error e => rfl
  | ok p => obtain ⟨s, n⟩ := p; exact utc_from_timespec_eq s n

theorem utc_unix_time_eq (c : UtcDateTime) : Src.UtcDateTime.unix_time c = c.unixTime := by
  unfold Src.UtcDateTime.unix_time UtcDateTime.unixTime
  rw [unix_time_eq]

theorem dt_new_eq (y mo d h mi s ns : Int) (l : LocalTimeType) : Src.DateTime.new y mo d h mi s ns l = DateTime.new y mo d h mi s ns l := by
  unfold Src.DateTime.new DateTime.new
  rw [check_date_time_inputs_eq]
  cases checkDateTimeInputs y mo d h mi s ns with
  | error e => rfl
  | ok u =>
    simp only [check_unix_time_eq, unix_time_eq]
    cases checkUnixTime (unixTime y mo d h mi s - l.utOffset) <;> rfl

theorem dt_from_timespec_and_local_eq (u ns : Int) (l : LocalTimeType) :
    Src.DateTime.from_timespec_and_local u ns l = DateTime.fromTimespecAndLocal u ns l := by
  unfold Src.DateTime.from_timespec_and_local DateTime.fromTimespecAndLocal
  rw [checked_i64_eq]
  by_cases hr : i64Min ≤ u + l.utOffset ∧ u + l.utOffset ≤ i64Max
  · simp only [if_pos hr, if_neg (not_not_intro hr), utc_from_timespec_eq]
    cases UtcDateTime.fromTimespec (u + l.utOffset) ns <;> rfl
  · simp only [if_neg hr, if_pos hr]


/-- the binary search macro instantiated at `i64`: `Ok(i)` / `Err(i)` of the source are `.found i` / `.notFound i` -/
def bsOfExcept : Except Int Int → BS
  | .ok i => .found i.toNat
  | .error i => .notFound i.toNat

/-- what `binary_search_i64` does with the result of its loop -/
def bsOut : (Int × Int × Int) ⊕ Except Int Int → Except Int Int
  | .inr r => r
  | .inl (left, _, _) => .error left

theorem bs_loop (l : List Int) (x : Int) (f : Int × Int × Int → Src.Step (Int × Int × Int) (Except Int Int))
    (hf : ∀ a b s, f (a, b, s) =
      if decide (a < b) then
        (if decide (Src.copied (Src.idx l (a + Int.tdiv s 2)) < x) then
          Src.Step.next (a + Int.tdiv s 2 + 1, b, b - (a + Int.tdiv s 2 + 1))
        else if decide (Src.copied (Src.idx l (a + Int.tdiv s 2)) > x) then
          Src.Step.next (a, a + Int.tdiv s 2, a + Int.tdiv s 2 - a)
        else Src.Step.ret (Except.ok (a + Int.tdiv s 2)))
      else Src.Step.stop (a, b, s)) :
    ∀ (fuel left right : Nat) (a b s : Int), right - left + 1 ≤ fuel → a = left → b = right → s = b - a →
      bsOfExcept (bsOut (Src.loopR fuel f (a, b, s))) = binarySearchLoop l x left right := by
  intro fuel
  induction fuel with
  | zero => intro left right a b s h; omega
  | succ fuel ih =>
    intro left right a b s hfu ha hb hs
    rw [binarySearchLoop]
    simp only [Src.loopR, hf]
    by_cases hlt : left < right
    · have hab : a < b := by omega
      have hs0 : 0 ≤ s := by omega
      have hmid : a + Int.tdiv s 2 = ((left + (right - left) / 2 : Nat) : Int) := by
        rw [Int.tdiv_eq_ediv_of_nonneg hs0]; omega
      have hv : Src.copied (Src.idx l (a + Int.tdiv s 2)) = l.getD (left + (right - left) / 2) 0 := by
        rw [hmid]; unfold Src.copied Src.idx; rw [Int.toNat_natCast]; rfl
      rw [hv, hmid]
      simp only [hab, hlt, decide_true, if_true, dite_true]
      by_cases h1 : l.getD (left + (right - left) / 2) 0 < x
      · simp only [h1, decide_true, if_true]
        exact ih (left + (right - left) / 2 + 1) right _ _ _ (by omega) (by omega) hb rfl
      · simp only [h1, decide_false, if_false]
        by_cases h2 : l.getD (left + (right - left) / 2) 0 > x
        · simp only [h2, decide_true, if_true]
          exact ih left (left + (right - left) / 2) _ _ _ (by omega) ha rfl (by omega)
        · simp only [h2, decide_false, Bool.false_eq_true, if_false, bsOut, bsOfExcept, Int.toNat_natCast]
    · have hab : ¬ a < b := by omega
      rw [dif_neg hlt]
      simp only [hab, decide_false, Bool.false_eq_true, if_false, bsOut, bsOfExcept]
      rw [ha, Int.toNat_natCast]

theorem binary_search_i64_eq (l : List Int) (x : Int) : bsOfExcept (Src.binary_search_i64 l x) = binarySearch l x := by
  have h : Src.binary_search_i64 l x = bsOut (Src.loopR (Int.toNat ((l.length : Int) + 1)) _ ((0 : Int), (l.length : Int), (l.length : Int))) := rfl
  rw [h]
  unfold binarySearch
  refine bs_loop l x _ (fun a b s => ?_) _ 0 l.length _ _ _ (by omega) rfl rfl (by omega)
  dsimp only
  by_cases h0 : a < b
  · by_cases h1 : Src.copied (Src.idx l (a + Int.tdiv s 2)) < x
    · simp only [h0, h1, decide_true, if_true]
    · by_cases h2 : Src.copied (Src.idx l (a + Int.tdiv s 2)) > x
      · simp only [h0, h1, h2, decide_true, decide_false, if_true, if_false, Bool.false_eq_true]
      · simp only [h0, h1, h2, decide_true, decide_false, if_true, if_false, Bool.false_eq_true]
  · simp only [h0, decide_false, if_false, Bool.false_eq_true]

end TzVerif.Proofs.SrcEq
