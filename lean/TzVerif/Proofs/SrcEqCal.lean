/-
The translated source (Generated/Src.lean, regenerated from /repo/src on every run by tools/rs2lean.py)
equals the hand-written model, function by function: calendar arithmetic of src/datetime/mod.rs and the
helpers of src/utils/const_fns.rs.

Each theorem is stated for ALL integer arguments where that is true, and under the range of the Rust
argument types where a cast (`as u8`, …) is only the identity in range. The property theorems
(Properties/Cxx.lean) are about the Model functions; through these equalities they are about the code.
-/
import TzVerif.Generated.Src
import TzVerif.Model.DateTime
import TzVerif.Model.Rule

namespace TzVerif.Proofs.SrcEq
open TzVerif TzVerif.Model TzVerif.Gen

/-- ranges of the Rust integer types -/
def U8 (x : Int) : Prop := 0 ≤ x ∧ x ≤ 255
def U32 (x : Int) : Prop := 0 ≤ x ∧ x ≤ 4294967295
def I32 (x : Int) : Prop := -2147483648 ≤ x ∧ x ≤ 2147483647
def I64 (x : Int) : Prop := -9223372036854775808 ≤ x ∧ x ≤ 9223372036854775807

theorem min_eq (a b : Int) : Src.min a b = minI a b := by
  sorry

theorem try_into_i32_eq (v : Int) : Src.try_into_i32 v = tryIntoI32 v := by
  sorry

theorem try_into_i64_eq (v : Int) : Src.try_into_i64 v = tryIntoI64 v := by
  sorry

theorem is_leap_year_eq (y : Int) : Src.is_leap_year y = isLeapYear y := by
  sorry

theorem days_since_unix_epoch_eq (y m d : Int) : Src.days_since_unix_epoch y m d = daysSinceUnixEpoch y m d := by
  sorry

theorem unix_time_eq (y mo d h mi s : Int) : Src.unix_time y mo d h mi s = unixTime y mo d h mi s := by
  sorry

theorem week_day_eq (y m d : Int) : Src.week_day y m d = weekDay y m d := by
  sorry

/-- `as u16` is the identity for a day of the year: months 1..12, days of the Rust type's range -/
theorem year_day_eq (y m d : Int) (hm : 1 ≤ m ∧ m ≤ 12) (hd : 1 ≤ d ∧ d ≤ 255) : Src.year_day y m d = yearDay y m d := by
  sorry

theorem nanoseconds_since_unix_epoch_eq (u ns : Int) : Src.nanoseconds_since_unix_epoch u ns = nanosecondsSinceUnixEpoch u ns := by
  sorry

theorem total_nanoseconds_to_timespec_eq (t : Int) : Src.total_nanoseconds_to_timespec t = totalNanosecondsToTimespec t := by
  sorry

theorem check_date_time_inputs_eq (y mo d h mi s ns : Int) :
    Src.check_date_time_inputs y mo d h mi s ns = checkDateTimeInputs y mo d h mi s ns := by
  sorry

theorem check_unix_time_eq (t : Int) : Src.UtcDateTime.check_unix_time t = checkUnixTime t := by
  sorry

theorem utc_new_eq (y mo d h mi s ns : Int) : Src.UtcDateTime.new y mo d h mi s ns = UtcDateTime.new y mo d h mi s ns := by
  sorry

/-- the whole of `UtcDateTime::from_timespec`, loop and casts included (no hypothesis: the casts are the
    identity because of what the arithmetic before them guarantees) -/
theorem utc_from_timespec_eq (t ns : Int) : Src.UtcDateTime.from_timespec t ns = UtcDateTime.fromTimespec t ns := by
  sorry

theorem utc_from_total_nanoseconds_eq (t : Int) : Src.UtcDateTime.from_total_nanoseconds t = UtcDateTime.fromTotalNanoseconds t := by
  sorry

theorem utc_unix_time_eq (c : UtcDateTime) : Src.UtcDateTime.unix_time c = c.unixTime := by
  sorry

theorem dt_new_eq (y mo d h mi s ns : Int) (l : LocalTimeType) : Src.DateTime.new y mo d h mi s ns l = DateTime.new y mo d h mi s ns l := by
  sorry

theorem dt_from_timespec_and_local_eq (u ns : Int) (l : LocalTimeType) :
    Src.DateTime.from_timespec_and_local u ns l = DateTime.fromTimespecAndLocal u ns l := by
  sorry

/-- the binary search macro instantiated at `i64`: `Ok(i)` / `Err(i)` of the source are `.found i` / `.notFound i` -/
def bsOfExcept : Except Int Int → BS
  | .ok i => .found i.toNat
  | .error i => .notFound i.toNat

theorem binary_search_i64_eq (l : List Int) (x : Int) : bsOfExcept (Src.binary_search_i64 l x) = binarySearch l x := by
  sorry

end TzVerif.Proofs.SrcEq
