/-
Helper lemmas for C05 / C06: the table loop of the local-time search, step by step, and the facts
about the leap-second scale the search relies on. Used by Proofs/Search.lean.
-/
import TzVerif.Model.Find
import TzVerif.Spec.Zone
import TzVerif.Proofs.Leap
import TzVerif.Proofs.Table
import TzVerif.Proofs.Zoned

namespace TzVerif.Proofs
open TzVerif.Model TzVerif.Gen

/-! ### The forward conversion succeeds on every checked instant (well-formed table only) -/

theorem leapLoop_ok (u t c : Int) (ls : List LeapSecond) (h : Steps t c ls)
    (hI : c * 2419199 ≤ t + 2419199 ∧ -c * 2419199 ≤ t + 2419199) (hu : u ≤ 67767976233532799) :
    ∃ k, leapLoop u ls (u + c) = .ok k := by
  induction ls generalizing t c with
  | nil => exact ⟨_, rfl⟩
  | cons l rest ih =>
    obtain ⟨h1, h2, h3⟩ := h
    simp only [leapLoop]
    split
    · exact ⟨_, rfl⟩
    · rename_i hlt
      split
      · rename_i hov
        exfalso
        apply hov
        simp only [i64Min, i64Max]
        omega
      · split
        · exact ⟨_, rfl⟩
        · exact ih _ _ h3 (by omega)

theorem toCount_ok (ls : List LeapSecond) (hwf : Spec.LeapWF ls) (u : Int) (hu : u ≤ MAX_UNIX_TIME) :
    ∃ k, unixTimeToUnixLeapTime ls u = .ok k := by
  rw [c_max] at hu
  cases ls with
  | nil => exact ⟨_, rfl⟩
  | cons l rest =>
    obtain ⟨⟨h0, h2⟩, h3⟩ := hwf
    have hs : Steps (l.unixLeapTime - 2419199) 0 (l :: rest) :=
      ⟨by omega, by omega, steps_of_stepsOK l rest h3⟩
    have := leapLoop_ok u _ 0 _ hs (by omega) hu
    simpa [unixTimeToUnixLeapTime] using this

/-- no record lies before count `T ≤ 0`, so such counts denote themselves -/
theorem toUtc_of_nonpos (ls : List LeapSecond) (hwf : Spec.LeapWF ls) (T : Int) (hT : T ≤ 0) :
    Spec.toUtc ls T = T := by
  have hempty : ls.filter (fun l => l.unixLeapTime < T) = [] := by
    rw [List.filter_eq_nil_iff]
    intro x hx
    simp only [decide_eq_true_eq]
    cases ls with
    | nil => cases hx
    | cons l rest =>
      obtain ⟨⟨h0, _⟩, h3⟩ := hwf
      rcases List.mem_cons.mp hx with rfl | hx
      · omega
      · have := steps_mem_gt _ _ _ (steps_of_stepsOK l rest h3) x hx
        omega
  simp [Spec.toUtc, Spec.corrBefore, hempty]

/-- Galois connection, strict form -/
theorem galois_lt (ls : List LeapSecond) (hwf : Spec.LeapWF ls) (u k T : Int)
    (h : unixTimeToUnixLeapTime ls u = .ok k) : k < T ↔ u < Spec.toUtc ls T := by
  have := galois ls hwf u k T h
  omega

theorem toUtc_eq_of_ok (ls : List LeapSecond) (hwf : Spec.LeapWF ls) (T tut : Int)
    (h : unixLeapTimeToUnixTime ls T = .ok tut) : tut = Spec.toUtc ls T := by
  rw [unixLeapTimeToUnixTime_eq ls hwf] at h
  split at h
  · cases h
  · split at h
    · injection h with h; exact h.symm
    · cases h

theorem getTime_ok' (z : TimeZone) (utc : Int) (idx : Nat) (ut ult : Int) (hg : getTime z utc idx = .ok (ut, ult)) :
    ut = utc - (z.localTimeTypes.getD idx default).utOffset ∧
    unixTimeToUnixLeapTime z.leapSeconds (utc - (z.localTimeTypes.getD idx default).utOffset) = .ok ult := by
  unfold getTime at hg
  dsimp only at hg
  split at hg
  · cases hg
  · rename_i k hk
    injection hg with hg
    injection hg with h1 h2
    subst h2
    exact ⟨h1.symm, hk⟩

/-! ### One step of the table loop -/

/-- what one iteration of the loop pushes (`l`, at most one entry): `ltB`/`ltA` the types in force
    before/after the transition of count `T`, `pT` the previous transition's count, `eff` whether a gap
    may be reported here -/
def StepSpec (ls : List LeapSecond) (mk : LocalTimeType → Int → DateTime) (ns utc : Int)
    (ltB ltA : LocalTimeType) (pT T : Int) (eff : Prop) (l : List Found) : Prop :=
  ∃ kB, unixTimeToUnixLeapTime ls (utc - ltB.utOffset) = .ok kB ∧
    (((pT ≤ kB ∧ kB < T) ∧ checkUnixTime (utc - ltB.utOffset) = .ok () ∧
        l = [.normal (mk ltB (utc - ltB.utOffset))])
     ∨ (¬(pT ≤ kB ∧ kB < T) ∧ eff ∧ ∃ kA, unixTimeToUnixLeapTime ls (utc - ltA.utOffset) = .ok kA ∧
          (((kB ≥ T ∧ kA < T) ∧ ∃ tut b a, unixLeapTimeToUnixTime ls T = .ok tut ∧
              DateTime.fromTimespecAndLocal tut ns ltB = .ok b ∧
              DateTime.fromTimespecAndLocal tut ns ltA = .ok a ∧ l = [.skipped b a])
           ∨ (¬(kB ≥ T ∧ kA < T) ∧ l = [])))
     ∨ (¬(pT ≤ kB ∧ kB < T) ∧ ¬eff ∧ l = []))

theorem StepSpec.congr_eff {ls mk ns utc ltB ltA pT T} {eff eff' : Prop} {l : List Found} (h : eff ↔ eff')
    (hs : StepSpec ls mk ns utc ltB ltA pT T eff l) : StepSpec ls mk ns utc ltB ltA pT T eff' l := by
  obtain ⟨kB, hk, hd⟩ := hs
  refine ⟨kB, hk, ?_⟩
  rcases hd with hd | ⟨h1, h2, h3⟩ | ⟨h1, h2, h3⟩
  · exact Or.inl hd
  · exact Or.inr (Or.inl ⟨h1, h.mp h2, h3⟩)
  · exact Or.inr (Or.inr ⟨h1, fun e => h2 (h.mpr e), h3⟩)

theorem loop_step (z : TimeZone) (mk : LocalTimeType → Int → DateTime) (ns utc : Int) (hasRule : Bool)
    (tr : Transition) (rest : List Transition) (pT : Int) (pI : Nat) (acc out : List Found)
    (h : findTransitionsLoop z mk ns utc hasRule (tr :: rest) pT pI acc = .ok out) :
    ∃ l, StepSpec z.leapSeconds mk ns utc (z.localTimeTypes.getD pI default)
        (z.localTimeTypes.getD tr.localTimeTypeIndex default) pT tr.unixLeapTime
        ((!rest.isEmpty || hasRule) = true) l ∧
      findTransitionsLoop z mk ns utc hasRule rest tr.unixLeapTime tr.localTimeTypeIndex (acc ++ l) = .ok out := by
  unfold findTransitionsLoop at h
  dsimp only at h
  split at h
  · cases h
  · rename_i utB ultB hgB
    obtain ⟨eB, hkB⟩ := getTime_ok' _ _ _ _ _ hgB
    subst eB
    split at h
    · rename_i hn
      split at h
      · cases h
      · rename_i hchk
        exact ⟨_, ⟨ultB, hkB, Or.inl ⟨hn, hchk, rfl⟩⟩, h⟩
    · rename_i hn
      split at h
      · rename_i heff
        split at h
        · cases h
        · rename_i utA ultA hgA
          obtain ⟨-, hkA⟩ := getTime_ok' _ _ _ _ _ hgA
          split at h
          · rename_i hgap
            split at h
            · cases h
            · rename_i tut htut
              split at h
              · cases h
              · rename_i b hb
                split at h
                · cases h
                · rename_i a ha
                  exact ⟨_, ⟨ultB, hkB, Or.inr (Or.inl ⟨hn, heff, ultA, hkA,
                    Or.inl ⟨hgap, tut, b, a, htut, hb, ha, rfl⟩⟩)⟩, h⟩
          · rename_i hgap
            refine ⟨[], ⟨ultB, hkB, Or.inr (Or.inl ⟨hn, heff, ultA, hkA, Or.inr ⟨hgap, rfl⟩⟩)⟩, ?_⟩
            rw [List.append_nil]; exact h
      · rename_i heff
        refine ⟨[], ⟨ultB, hkB, Or.inr (Or.inr ⟨hn, heff, rfl⟩)⟩, ?_⟩
        rw [List.append_nil]; exact h

/-- the whole loop: the output is the accumulator followed by what each step pushes, in order -/
theorem loop_char (z : TimeZone) (mk : LocalTimeType → Int → DateTime) (ns utc : Int) (hasRule : Bool) :
    ∀ (trs : List Transition) (pT : Int) (pI : Nat) (acc out : List Found),
    findTransitionsLoop z mk ns utc hasRule trs pT pI acc = .ok out →
    ∃ lss : List (List Found), lss.length = trs.length ∧ out = acc ++ lss.flatten ∧
      ∀ k, k < trs.length → StepSpec z.leapSeconds mk ns utc
        (z.localTimeTypes.getD (if k = 0 then pI else (trs.getD (k - 1) default).localTimeTypeIndex) default)
        (z.localTimeTypes.getD (trs.getD k default).localTimeTypeIndex default)
        (if k = 0 then pT else (trs.getD (k - 1) default).unixLeapTime)
        (trs.getD k default).unixLeapTime
        (k + 1 < trs.length ∨ hasRule = true)
        (lss.getD k []) := by
  intro trs
  induction trs with
  | nil =>
    intro pT pI acc out h
    unfold findTransitionsLoop at h
    injection h with h
    exact ⟨[], rfl, by simp [h], fun k hk => absurd hk (Nat.not_lt_zero _)⟩
  | cons tr rest ih =>
    intro pT pI acc out h
    obtain ⟨l, hl, hrec⟩ := loop_step z mk ns utc hasRule tr rest pT pI acc out h
    obtain ⟨lss, hlen, hout, hall⟩ := ih _ _ _ _ hrec
    refine ⟨l :: lss, by simp [hlen], by simp [hout], ?_⟩
    intro k hk
    cases k with
    | zero =>
      simp only [List.getD_cons_zero, if_true]
      refine StepSpec.congr_eff ?_ hl
      cases rest <;> simp
    | succ k =>
      have hk' : k < rest.length := by simpa using hk
      have := hall k hk'
      simp only [List.getD_cons_succ, Nat.add_one_ne_zero, if_false, Nat.add_sub_cancel, List.length_cons]
      have hiff : (k + 1 < rest.length ∨ hasRule = true) ↔ (k + 1 + 1 < rest.length + 1 ∨ hasRule = true) := by
        constructor
        · intro h; rcases h with h | h
          · left; omega
          · right; exact h
        · intro h; rcases h with h | h
          · left; omega
          · right; exact h
      refine StepSpec.congr_eff hiff ?_
      cases k with
      | zero => simpa using this
      | succ k => simpa using this

/-! ### What a step's entries say -/

theorem StepSpec.normal_mem {ls mk ns utc ltB ltA pT T} {eff : Prop} {l : List Found}
    (hs : StepSpec ls mk ns utc ltB ltA pT T eff l) (x : DateTime) (hx : Found.normal x ∈ l) :
    x = mk ltB (utc - ltB.utOffset) ∧ checkUnixTime (utc - ltB.utOffset) = .ok () ∧
    ∃ kB, unixTimeToUnixLeapTime ls (utc - ltB.utOffset) = .ok kB ∧ pT ≤ kB ∧ kB < T := by
  obtain ⟨kB, hk, hd⟩ := hs
  rcases hd with ⟨h1, h2, h3⟩ | ⟨_, _, kA, _, h3 | h3⟩ | ⟨_, _, h3⟩
  · subst h3
    simp only [List.mem_singleton, Found.normal.injEq] at hx
    exact ⟨hx, h2, kB, hk, h1.1, h1.2⟩
  · obtain ⟨_, tut, b, a, _, _, _, h4⟩ := h3
    subst h4
    simp at hx
  · rw [h3.2] at hx; cases hx
  · rw [h3] at hx; cases hx

theorem StepSpec.skipped_mem {ls mk ns utc ltB ltA pT T} {eff : Prop} {l : List Found}
    (hs : StepSpec ls mk ns utc ltB ltA pT T eff l) (b a : DateTime) (hx : Found.skipped b a ∈ l) :
    eff ∧ ∃ kB kA tut, unixTimeToUnixLeapTime ls (utc - ltB.utOffset) = .ok kB ∧
      unixTimeToUnixLeapTime ls (utc - ltA.utOffset) = .ok kA ∧ kB ≥ T ∧ kA < T ∧
      unixLeapTimeToUnixTime ls T = .ok tut ∧
      DateTime.fromTimespecAndLocal tut ns ltB = .ok b ∧ DateTime.fromTimespecAndLocal tut ns ltA = .ok a := by
  obtain ⟨kB, hk, hd⟩ := hs
  rcases hd with ⟨h1, h2, h3⟩ | ⟨_, he, kA, hkA, h3 | h3⟩ | ⟨_, _, h3⟩
  · subst h3
    simp at hx
  · obtain ⟨hg, tut, b', a', ht, hb, ha, h4⟩ := h3
    subst h4
    simp only [List.mem_singleton, Found.skipped.injEq] at hx
    obtain ⟨rfl, rfl⟩ := hx
    exact ⟨he, kB, kA, tut, hk, hkA, hg.1, hg.2, ht, hb, ha⟩
  · rw [h3.2] at hx; cases hx
  · rw [h3] at hx; cases hx

theorem StepSpec.normal_of {ls mk ns utc ltB ltA pT T} {eff : Prop} {l : List Found}
    (hs : StepSpec ls mk ns utc ltB ltA pT T eff l) (k : Int)
    (hk : unixTimeToUnixLeapTime ls (utc - ltB.utOffset) = .ok k) (h1 : pT ≤ k) (h2 : k < T) :
    Found.normal (mk ltB (utc - ltB.utOffset)) ∈ l := by
  obtain ⟨kB, hkB, hd⟩ := hs
  rw [hk] at hkB
  injection hkB with hkB
  subst hkB
  rcases hd with ⟨_, _, h3⟩ | ⟨hn, _⟩ | ⟨hn, _⟩
  · rw [h3]; exact List.mem_singleton.mpr rfl
  · exact absurd ⟨h1, h2⟩ hn
  · exact absurd ⟨h1, h2⟩ hn

/-- the three possible outcomes of a step, in terms of the gap condition `T + a ≤ c < T + b` -/
theorem StepSpec.shape {ls mk ns utc ltB ltA pT T} {eff : Prop} {l : List Found} (hwf : Spec.LeapWF ls)
    (hs : StepSpec ls mk ns utc ltB ltA pT T eff l) :
    (l = [] ∧ ¬(eff ∧ Spec.toUtc ls T + ltB.utOffset ≤ utc ∧ utc < Spec.toUtc ls T + ltA.utOffset)) ∨
    (∃ x, l = [.normal x] ∧ ¬(Spec.toUtc ls T + ltB.utOffset ≤ utc)) ∨
    (∃ b a, l = [.skipped b a] ∧ eff ∧ Spec.toUtc ls T + ltB.utOffset ≤ utc ∧ utc < Spec.toUtc ls T + ltA.utOffset ∧
      DateTime.fromTimespecAndLocal (Spec.toUtc ls T) ns ltB = .ok b ∧
      DateTime.fromTimespecAndLocal (Spec.toUtc ls T) ns ltA = .ok a) := by
  obtain ⟨kB, hk, hd⟩ := hs
  have gB := galois ls hwf _ kB T hk
  rcases hd with ⟨h1, h2, h3⟩ | ⟨hn, he, kA, hkA, h3 | h3⟩ | ⟨_, he, h3⟩
  · right; left
    exact ⟨_, h3, by omega⟩
  · obtain ⟨hg, tut, b, a, ht, hb, ha, h4⟩ := h3
    have gA := galois ls hwf _ kA T hkA
    have := toUtc_eq_of_ok ls hwf T tut ht
    subst this
    right; right
    exact ⟨b, a, h4, he, by omega, by omega, hb, ha⟩
  · have gA := galois ls hwf _ kA T hkA
    left
    refine ⟨h3.2, ?_⟩
    intro ⟨_, g1, g2⟩
    apply h3.1
    omega
  · left
    exact ⟨h3, fun hh => he hh.1⟩

end TzVerif.Proofs
