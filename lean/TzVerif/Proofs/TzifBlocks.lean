/-
Header / data-block helper lemmas for C08 (TZif round trip).
-/
import TzVerif.Proofs.TzifBE

namespace TzVerif.Proofs.TzifBlocks
open TzVerif.Model TzVerif.Spec TzVerif.Proofs.TzifBE

/-! ### readExact -/

theorem readExact_append (a b : Bytes) (n : Nat) (h : a.length = n) : readExact (a ++ b) n = .ok (a, b) := by
  subst h; simp [readExact]

theorem readExact_ok {c : Bytes} {n : Nat} {a b : Bytes} (h : readExact c n = .ok (a, b)) :
    c = a ++ b ∧ a.length = n := by
  unfold readExact at h
  split at h
  · cases h
    refine ⟨(List.take_append_drop n c).symm, ?_⟩
    simp only [List.length_take]; omega
  · cases h

theorem readExact_append_of_ok {c : Bytes} {n : Nat} {x y : Bytes} (more : Bytes)
    (h : readExact c n = .ok (x, y)) : readExact (c ++ more) n = .ok (x, y ++ more) := by
  obtain ⟨rfl, hl⟩ := readExact_ok h
  rw [List.append_assoc]; exact readExact_append _ _ _ hl

/-! ### parseHeader -/

def verOf (v : Bytes) : Option Nat :=
  match v with
  | [0] => some 1 | [50] => some 2 | [51] => some 3 | _ => none

def headerTail (version : Nat) (c : Bytes) : Except TzFileError (Header × Bytes) :=
  match readExact c 15 with
  | .error e => .error (.parseData e)
  | .ok (_, c) =>
  match readExact c 4 with
  | .error e => .error (.parseData e)
  | .ok (b1, c) =>
  match readExact c 4 with
  | .error e => .error (.parseData e)
  | .ok (b2, c) =>
  match readExact c 4 with
  | .error e => .error (.parseData e)
  | .ok (b3, c) =>
  match readExact c 4 with
  | .error e => .error (.parseData e)
  | .ok (b4, c) =>
  match readExact c 4 with
  | .error e => .error (.parseData e)
  | .ok (b5, c) =>
  match readExact c 4 with
  | .error e => .error (.parseData e)
  | .ok (b6, c) =>
  if !(be32 b5 != 0 && be32 b6 != 0 && (be32 b1 == 0 || be32 b1 == be32 b5) && (be32 b2 == 0 || be32 b2 == be32 b5)) then
    .error .invalidHeader
  else .ok ({ version, utLocalCount := be32 b1, stdWallCount := be32 b2, leapCount := be32 b3,
              transitionCount := be32 b4, typeCount := be32 b5, charCount := be32 b6 }, c)

theorem parseHeader_eq (c : Bytes) : parseHeader c =
    match readExact c 4 with
    | .error e => .error (.parseData e)
    | .ok (magic, c) =>
    if magic ≠ [84, 90, 105, 102] then .error .invalidMagicNumber else
    match readExact c 1 with
    | .error e => .error (.parseData e)
    | .ok (v, c) =>
    match verOf v with
    | none => .error .unsupportedTzFileVersion
    | some version => headerTail version c := by
  rfl

theorem headerTail_append_ok {ver : Nat} {c : Bytes} {h : Header} {rest : Bytes} (more : Bytes)
    (hp : headerTail ver c = .ok (h, rest)) : headerTail ver (c ++ more) = .ok (h, rest ++ more) := by
  unfold headerTail at hp ⊢
  split at hp
  · cases hp
  rename_i r c3 e3
  rw [readExact_append_of_ok more e3]
  simp only []
  split at hp
  · cases hp
  rename_i b1 c4 e4
  rw [readExact_append_of_ok more e4]
  simp only []
  split at hp
  · cases hp
  rename_i b2 c5 e5
  rw [readExact_append_of_ok more e5]
  simp only []
  split at hp
  · cases hp
  rename_i b3 c6 e6
  rw [readExact_append_of_ok more e6]
  simp only []
  split at hp
  · cases hp
  rename_i b4 c7 e7
  rw [readExact_append_of_ok more e7]
  simp only []
  split at hp
  · cases hp
  rename_i b5 c8 e8
  rw [readExact_append_of_ok more e8]
  simp only []
  split at hp
  · cases hp
  rename_i b6 c9 e9
  rw [readExact_append_of_ok more e9]
  simp only []
  split at hp
  · cases hp
  rename_i hc
  rw [if_neg hc]
  cases hp
  rfl

theorem parseHeader_append_ok {c : Bytes} {h : Header} {rest : Bytes} (more : Bytes)
    (hp : parseHeader c = .ok (h, rest)) : parseHeader (c ++ more) = .ok (h, rest ++ more) := by
  rw [parseHeader_eq] at hp ⊢
  split at hp
  · cases hp
  rename_i magic c1 e1
  rw [readExact_append_of_ok more e1]
  simp only []
  split at hp
  · cases hp
  rename_i hmagic
  rw [if_neg hmagic]
  split at hp
  · cases hp
  rename_i vb c2 e2
  rw [readExact_append_of_ok more e2]
  simp only []
  split at hp
  · cases hp
  rename_i ver ever
  exact headerTail_append_ok more hp


theorem headerTail_length {ver : Nat} {c : Bytes} {h : Header} {rest : Bytes}
    (hp : headerTail ver c = .ok (h, rest)) : c.length = 39 + rest.length := by
  unfold headerTail at hp
  split at hp
  · cases hp
  rename_i r c3 e3
  split at hp
  · cases hp
  rename_i b1 c4 e4
  split at hp
  · cases hp
  rename_i b2 c5 e5
  split at hp
  · cases hp
  rename_i b3 c6 e6
  split at hp
  · cases hp
  rename_i b4 c7 e7
  split at hp
  · cases hp
  rename_i b5 c8 e8
  split at hp
  · cases hp
  rename_i b6 c9 e9
  split at hp
  · cases hp
  cases hp
  obtain ⟨rfl, h3⟩ := readExact_ok e3
  obtain ⟨rfl, h4⟩ := readExact_ok e4
  obtain ⟨rfl, h5⟩ := readExact_ok e5
  obtain ⟨rfl, h6⟩ := readExact_ok e6
  obtain ⟨rfl, h7⟩ := readExact_ok e7
  obtain ⟨rfl, h8⟩ := readExact_ok e8
  obtain ⟨rfl, h9⟩ := readExact_ok e9
  simp only [List.length_append]; omega

theorem parseHeader_length {c : Bytes} {h : Header} {rest : Bytes}
    (hp : parseHeader c = .ok (h, rest)) : c.length = 44 + rest.length := by
  rw [parseHeader_eq] at hp
  split at hp
  · cases hp
  rename_i magic c1 e1
  split at hp
  · cases hp
  split at hp
  · cases hp
  rename_i vb c2 e2
  split at hp
  · cases hp
  have := headerTail_length hp
  obtain ⟨rfl, h1⟩ := readExact_ok e1
  obtain ⟨rfl, h2⟩ := readExact_ok e2
  simp only [List.length_append] at *; omega

/-- forward form: a well-formed header in front of anything -/
theorem headerTail_enc (ver : Nat) (res rest : Bytes) (c1 c2 c3 c4 c5 c6 : Nat) (hres : res.length = 15)
    (h1 : c1 < 2 ^ 32) (h2 : c2 < 2 ^ 32) (h3 : c3 < 2 ^ 32) (h4 : c4 < 2 ^ 32) (h5 : c5 < 2 ^ 32) (h6 : c6 < 2 ^ 32)
    (hty : c5 ≠ 0) (hch : c6 ≠ 0) (hu : c1 = 0 ∨ c1 = c5) (hs : c2 = 0 ∨ c2 = c5) :
    headerTail ver (res ++ (be32u c1 ++ (be32u c2 ++ (be32u c3 ++ (be32u c4 ++ (be32u c5 ++ (be32u c6 ++ rest)))))))
      = .ok ({ version := ver, utLocalCount := c1, stdWallCount := c2, leapCount := c3,
               transitionCount := c4, typeCount := c5, charCount := c6 }, rest) := by
  unfold headerTail
  rw [readExact_append _ _ _ hres]; simp only []
  rw [readExact_append _ _ _ (be32u_length c1)]; simp only []
  rw [readExact_append _ _ _ (be32u_length c2)]; simp only []
  rw [readExact_append _ _ _ (be32u_length c3)]; simp only []
  rw [readExact_append _ _ _ (be32u_length c4)]; simp only []
  rw [readExact_append _ _ _ (be32u_length c5)]; simp only []
  rw [readExact_append _ _ _ (be32u_length c6)]; simp only []
  rw [be32_be32u c1 h1, be32_be32u c2 h2, be32_be32u c3 h3, be32_be32u c4 h4, be32_be32u c5 h5, be32_be32u c6 h6]
  rw [if_neg]
  simp only [Bool.not_eq_true', Bool.not_eq_false, Bool.and_eq_true, Bool.or_eq_true, bne_iff_ne, beq_iff_eq, ne_eq]
  exact ⟨⟨⟨hty, hch⟩, hu⟩, hs⟩

theorem parseHeader_enc (vb ver : Nat) (res rest : Bytes) (c1 c2 c3 c4 c5 c6 : Nat) (hres : res.length = 15)
    (hvb : (vb = 0 ∧ ver = 1) ∨ (vb = 50 ∧ ver = 2) ∨ (vb = 51 ∧ ver = 3))
    (h1 : c1 < 2 ^ 32) (h2 : c2 < 2 ^ 32) (h3 : c3 < 2 ^ 32) (h4 : c4 < 2 ^ 32) (h5 : c5 < 2 ^ 32) (h6 : c6 < 2 ^ 32)
    (hty : c5 ≠ 0) (hch : c6 ≠ 0) (hu : c1 = 0 ∨ c1 = c5) (hs : c2 = 0 ∨ c2 = c5) :
    parseHeader ([84, 90, 105, 102] ++ ([vb] ++ (res ++ (be32u c1 ++ (be32u c2 ++ (be32u c3 ++ (be32u c4 ++
        (be32u c5 ++ (be32u c6 ++ rest)))))))))
      = .ok ({ version := ver, utLocalCount := c1, stdWallCount := c2, leapCount := c3,
               transitionCount := c4, typeCount := c5, charCount := c6 }, rest) := by
  rw [parseHeader_eq]
  rw [readExact_append _ _ 4 rfl]; simp only []
  rw [if_neg (by simp)]
  rw [readExact_append _ _ 1 rfl]; simp only []
  have : verOf [vb] = some ver := by
    rcases hvb with ⟨rfl, rfl⟩ | ⟨rfl, rfl⟩ | ⟨rfl, rfl⟩ <;> rfl
  rw [this]; simp only []
  exact headerTail_enc ver res rest c1 c2 c3 c4 c5 c6 hres h1 h2 h3 h4 h5 h6 hty hch hu hs

/-! ### readDataBlocks -/

theorem readDataBlocks_append_ok {ts : Nat} {c : Bytes} {h : Header} {b : DataBlocks} {rest : Bytes} (more : Bytes)
    (hp : readDataBlocks ts c h = .ok (b, rest)) : readDataBlocks ts (c ++ more) h = .ok (b, rest ++ more) := by
  unfold readDataBlocks at hp ⊢
  split at hp
  · cases hp
  rename_i s1 c1 e1
  rw [readExact_append_of_ok more e1]; simp only []
  split at hp
  · cases hp
  rename_i s2 c2 e2
  rw [readExact_append_of_ok more e2]; simp only []
  split at hp
  · cases hp
  rename_i s3 c3 e3
  rw [readExact_append_of_ok more e3]; simp only []
  split at hp
  · cases hp
  rename_i s4 c4 e4
  rw [readExact_append_of_ok more e4]; simp only []
  split at hp
  · cases hp
  rename_i s5 c5 e5
  rw [readExact_append_of_ok more e5]; simp only []
  split at hp
  · cases hp
  rename_i s6 c6 e6
  rw [readExact_append_of_ok more e6]; simp only []
  split at hp
  · cases hp
  rename_i s7 c7 e7
  rw [readExact_append_of_ok more e7]; simp only []
  cases hp
  rfl

def dataSize (ts : Nat) (h : Header) : Nat :=
  h.transitionCount * ts + h.transitionCount + h.typeCount * 6 + h.charCount + h.leapCount * (ts + 4) +
    h.stdWallCount + h.utLocalCount

theorem readDataBlocks_length {ts : Nat} {c : Bytes} {h : Header} {b : DataBlocks} {rest : Bytes}
    (hp : readDataBlocks ts c h = .ok (b, rest)) : c.length = dataSize ts h + rest.length := by
  unfold readDataBlocks at hp
  split at hp
  · cases hp
  rename_i s1 c1 e1
  split at hp
  · cases hp
  rename_i s2 c2 e2
  split at hp
  · cases hp
  rename_i s3 c3 e3
  split at hp
  · cases hp
  rename_i s4 c4 e4
  split at hp
  · cases hp
  rename_i s5 c5 e5
  split at hp
  · cases hp
  rename_i s6 c6 e6
  split at hp
  · cases hp
  rename_i s7 c7 e7
  cases hp
  obtain ⟨rfl, h1⟩ := readExact_ok e1
  obtain ⟨rfl, h2⟩ := readExact_ok e2
  obtain ⟨rfl, h3⟩ := readExact_ok e3
  obtain ⟨rfl, h4⟩ := readExact_ok e4
  obtain ⟨rfl, h5⟩ := readExact_ok e5
  obtain ⟨rfl, h6⟩ := readExact_ok e6
  obtain ⟨rfl, h7⟩ := readExact_ok e7
  simp only [List.length_append, dataSize]; omega

theorem readDataBlocks_enc (ts : Nat) (h : Header) (s1 s2 s3 s4 s5 s6 s7 rest : Bytes)
    (h1 : s1.length = h.transitionCount * ts) (h2 : s2.length = h.transitionCount)
    (h3 : s3.length = h.typeCount * 6) (h4 : s4.length = h.charCount)
    (h5 : s5.length = h.leapCount * (ts + 4)) (h6 : s6.length = h.stdWallCount) (h7 : s7.length = h.utLocalCount) :
    readDataBlocks ts (s1 ++ (s2 ++ (s3 ++ (s4 ++ (s5 ++ (s6 ++ (s7 ++ rest))))))) h =
      .ok ({ transitionTimes := s1, transitionTypes := s2, localTimeTypes := s3, designations := s4,
             leapSeconds := s5, stdWalls := s6, utLocals := s7 }, rest) := by
  unfold readDataBlocks
  rw [readExact_append _ _ _ h1]; simp only []
  rw [readExact_append _ _ _ h2]; simp only []
  rw [readExact_append _ _ _ h3]; simp only []
  rw [readExact_append _ _ _ h4]; simp only []
  rw [readExact_append _ _ _ h5]; simp only []
  rw [readExact_append _ _ _ h6]; simp only []
  rw [readExact_append _ _ _ h7]

end TzVerif.Proofs.TzifBlocks
