/-
Big-endian helper lemmas for the converse of the TZif round trip (decode soundness).
-/
import TzVerif.Proofs.TzifBE

namespace TzVerif.Proofs.TzifSoundBE
open TzVerif.Model TzVerif.Proofs.TzifBE

theorem rev_ind {α : Type} {P : List α → Prop} (nil : P []) (snoc : ∀ l x, P l → P (l ++ [x])) : ∀ l, P l := by
  intro l
  have : ∀ r : List α, P r.reverse := by
    intro r
    induction r with
    | nil => exact nil
    | cons x r ih => rw [List.reverse_cons]; exact snoc _ _ ih
  simpa using this l.reverse

theorem be32_append_single (l : Bytes) (x : Nat) : be32 (l ++ [x]) = be32 l * 256 + x := by
  simp [be32, List.foldl_append]

theorem be32_lt_pow (b : Bytes) (hb : ∀ x ∈ b, x < 256) : be32 b < 256 ^ b.length := by
  induction b using rev_ind with
  | nil => simp [be32]
  | snoc l x ih =>
    have hx : x < 256 := hb x (by simp)
    have hl := ih (fun y hy => hb y (by simp [hy]))
    rw [be32_append_single, List.length_append, List.length_singleton, Nat.pow_succ]
    omega

theorem digits_be32 (b : Bytes) (hb : ∀ x ∈ b, x < 256) : digits b.length (be32 b) = b := by
  induction b using rev_ind with
  | nil => simp [digits]
  | snoc l x ih =>
    have hx : x < 256 := hb x (by simp)
    have hl := ih (fun y hy => hb y (by simp [hy]))
    rw [be32_append_single, List.length_append, List.length_singleton, digits_succ]
    have e1 : (be32 l * 256 + x) / 256 = be32 l := by omega
    have e2 : (be32 l * 256 + x) % 256 = x := by omega
    rw [e1, e2, hl]

theorem beSigned_emod (b : Bytes) (hb : ∀ x ∈ b, x < 256) :
    (beSigned b % (2 ^ (8 * b.length) : Int)).toNat = be32 b := by
  have hlt := be32_lt_pow b hb
  rw [← pow8] at hlt
  have hlt' : ((be32 b : Nat) : Int) < (2 : Int) ^ (8 * b.length) := by
    have := Int.ofNat_lt.mpr hlt
    push_cast at this
    exact this
  have h0 : (0 : Int) ≤ (be32 b : Int) := Int.natCast_nonneg _
  unfold beSigned
  dsimp only
  generalize (2 : Int) ^ (8 * b.length) = P at *
  split
  · rw [Int.sub_emod_right, Int.emod_eq_of_lt h0 hlt']
    exact Int.toNat_natCast _
  · rw [Int.emod_eq_of_lt h0 hlt']
    exact Int.toNat_natCast _

theorem beBytes_beSigned' (b : Bytes) (hb : ∀ x ∈ b, x < 256) :
    Spec.beBytes b.length (beSigned b) = b := by
  rw [beBytes_eq, beSigned_emod b hb, digits_be32 b hb]

theorem beBytes_be32 (b : Bytes) (hb : ∀ x ∈ b, x < 256) :
    Spec.beBytes b.length (be32 b : Int) = b := by
  rw [beBytes_eq]
  have hlt := be32_lt_pow b hb
  rw [← pow8] at hlt
  have hlt' : ((be32 b : Nat) : Int) < (2 : Int) ^ (8 * b.length) := by
    have := Int.ofNat_lt.mpr hlt
    push_cast at this
    exact this
  rw [Int.emod_eq_of_lt (Int.natCast_nonneg _) hlt', Int.toNat_natCast, digits_be32 b hb]

/-- the signed reading of `n > 0` bytes lies in the `8 n`-bit two's-complement range -/
theorem beSigned_range (b : Bytes) (hn : 0 < b.length) (hb : ∀ x ∈ b, x < 256) :
    -(2 ^ (8 * b.length - 1) : Int) ≤ beSigned b ∧ beSigned b < 2 ^ (8 * b.length - 1) := by
  have hlt := be32_lt_pow b hb
  rw [← pow8] at hlt
  have hlt' : ((be32 b : Nat) : Int) < (2 : Int) ^ (8 * b.length) := by
    have := Int.ofNat_lt.mpr hlt
    push_cast at this
    exact this
  have h0 : (0 : Int) ≤ (be32 b : Int) := Int.natCast_nonneg _
  have e : (2 : Int) ^ (8 * b.length) = 2 * 2 ^ (8 * b.length - 1) := by
    have : 8 * b.length = (8 * b.length - 1) + 1 := by omega
    rw [this, Int.pow_succ]; simp; omega
  unfold beSigned
  dsimp only
  rw [e] at hlt' ⊢
  generalize (2 : Int) ^ (8 * b.length - 1) = P at *
  split <;> omega

end TzVerif.Proofs.TzifSoundBE
