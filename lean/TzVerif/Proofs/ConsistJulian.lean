/-
C11 step 2: both days in Julian notation (`Jn` / `n`). INTERFACE.
-/
import TzVerif.Model.Rule
import TzVerif.Spec.Rule
import TzVerif.Proofs.RuleEval
import TzVerif.Proofs.ConsistKinds

namespace TzVerif.Proofs
open TzVerif.Model TzVerif.Gen

def IsJulian : RuleDay → Prop
  | .julian1 _ => True
  | .julian0 _ => True
  | .mwd _ _ _ => False

/-! ### A Julian rule day relative to 1 January depends only on the leapness of the year -/

/-- 0-based day of the year of a Julian notation in a normal year -/
def jN : RuleDay → Int
  | .julian1 n => n - 1
  | .julian0 n => n
  | .mwd _ _ _ => 0

/-- … and in a leap year -/
def jL : RuleDay → Int
  | .julian1 n => n - 1 + (if n ≥ 60 then 1 else 0)
  | .julian0 n => n
  | .mwd _ _ _ => 0

theorem jL_cases (d : RuleDay) : jL d = jN d ∨ jL d = jN d + 1 := by
  cases d with
  | julian1 n => unfold jL jN; simp only; split <;> omega
  | julian0 n => left; rfl
  | mwd m w wd => left; rfl

theorem relDay_julian (d : RuleDay) (h : IsJulian d) (y : Int) :
    relDay d y = if Spec.isLeap y then jL d else jN d := by
  cases d with
  | julian1 n =>
    unfold relDay Spec.ruleDayNumber jL jN
    simp only
    cases Spec.isLeap y
    · simp only [Bool.false_and, Bool.false_eq_true, if_false]; omega
    · simp only [Bool.true_and, decide_eq_true_eq, if_true]; split <;> omega
  | julian0 n =>
    unfold relDay Spec.ruleDayNumber jL jN
    simp only
    split <;> omega
  | mwd m w wd => exact absurd h id

/-- the check infos of a Julian notation -/
def infosOf (d : RuleDay) (t : Int) : JulianDayCheckInfos :=
  match d with
  | .julian1 n => julian1CheckInfos n t
  | .julian0 n => julian0CheckInfos n t
  | .mwd _ _ _ => julian0CheckInfos 0 t

/-- the infos written with the spec's day offsets -/
def infosMk (n l t : Int) : JulianDayCheckInfos :=
  { startNormal := 86400 * n + t, endNormal := 86400 * n + t - 31536000,
    startLeap := 86400 * l + t, endLeap := 86400 * l + t - 31622400 }

theorem infosOf_eq (d : RuleDay) (t : Int) : infosOf d t = infosMk (jN d) (jL d) t := by
  have c1 : SECONDS_PER_DAY = 86400 := by decide
  have c2 : SECONDS_PER_NORMAL_YEAR = 31536000 := by decide
  have c3 : SECONDS_PER_LEAP_YEAR = 31622400 := by decide
  cases d with
  | julian1 n =>
    unfold infosOf infosMk julian1CheckInfos jN jL
    simp only [c1, c2, c3, JulianDayCheckInfos.mk.injEq]
    by_cases h : n ≤ 59
    · have h' : ¬ n ≥ 60 := by omega
      simp only [h, h', if_true, if_false]; omega
    · have h' : n ≥ 60 := by omega
      simp only [h, h', if_true, if_false]; omega
  | julian0 n =>
    unfold infosOf infosMk julian0CheckInfos jN jL
    simp only [c1, c2, c3, JulianDayCheckInfos.mk.injEq]
    omega
  | mwd m w wd =>
    unfold infosOf infosMk julian0CheckInfos jN jL
    simp only [c1, c2, c3, JulianDayCheckInfos.mk.injEq]
    omega

theorem check_julian_eq (std dst : LocalTimeType) (ds : RuleDay) (st : Int) (de : RuleDay) (et : Int)
    (h1 : IsJulian ds) (h2 : IsJulian de) :
    checkDstTransitionRulesConsistency std dst ds st de et =
      checkTwoJulianDays (infosOf ds (st - std.utOffset)) (infosOf de (et - dst.utOffset)) := by
  cases ds <;> cases de <;> first | rfl | exact absurd h1 id | exact absurd h2 id

/-! ### 2001…2028 contain every (leap, next leap) combination -/

theorem allYears_leap (p : Int → Bool) (g : Bool → Bool → Bool)
    (h : ∀ y, p y = g (Spec.isLeap y) (Spec.isLeap (y + 1))) :
    Spec.allYears p = (g false false && g false true && g true false) := by
  rw [Bool.eq_iff_iff]
  unfold Spec.allYears
  simp only [List.all_eq_true, Bool.and_eq_true]
  constructor
  · intro hall
    have a1 := hall 2001 (by decide)
    have a2 := hall 2003 (by decide)
    have a3 := hall 2004 (by decide)
    rw [h] at a1 a2 a3
    exact ⟨⟨a1, a2⟩, a3⟩
  · rintro ⟨⟨a1, a2⟩, a3⟩ y hy
    have hk : ∀ y ∈ Spec.kindYears,
        (Spec.isLeap y = false ∧ Spec.isLeap (y + 1) = false) ∨
        (Spec.isLeap y = false ∧ Spec.isLeap (y + 1) = true) ∨
        (Spec.isLeap y = true ∧ Spec.isLeap (y + 1) = false) := by decide
    rw [h]
    rcases hk y hy with ⟨e1, e2⟩ | ⟨e1, e2⟩ | ⟨e1, e2⟩ <;> rw [e1, e2] <;> assumption

/-! ### The arithmetic core -/

theorem checkTwoJulianDays_core (sN sL ts eN eL te : Int)
    (hs : sL = sN ∨ sL = sN + 1) (he : eL = eN ∨ eL = eN + 1) :
    checkTwoJulianDays (infosMk sN sL ts) (infosMk eN eL te) =
      (((decide (86400 * sN + ts ≤ 86400 * eN + te) && decide (86400 * sN + ts ≤ 86400 * eN + te) &&
           decide (86400 * sL + ts ≤ 86400 * eL + te)) ||
        (decide (86400 * eN + te ≤ 86400 * sN + ts) && decide (86400 * eN + te ≤ 86400 * sN + ts) &&
           decide (86400 * eL + te ≤ 86400 * sL + ts))) &&
       ((decide (86400 * eN + te ≤ 86400 * sN + ts + 31536000) && decide (86400 * eN + te ≤ 86400 * sL + ts + 31536000) &&
           decide (86400 * eL + te ≤ 86400 * sN + ts + 31622400)) ||
        (decide (86400 * sN + ts + 31536000 ≤ 86400 * eN + te) && decide (86400 * sL + ts + 31536000 ≤ 86400 * eN + te) &&
           decide (86400 * sN + ts + 31622400 ≤ 86400 * eL + te))) &&
       ((decide (86400 * sN + ts ≤ 86400 * eN + te + 31536000) && decide (86400 * sN + ts ≤ 86400 * eL + te + 31536000) &&
           decide (86400 * sL + ts ≤ 86400 * eN + te + 31622400)) ||
        (decide (86400 * eN + te + 31536000 ≤ 86400 * sN + ts) && decide (86400 * eL + te + 31536000 ≤ 86400 * sN + ts) &&
           decide (86400 * eN + te + 31622400 ≤ 86400 * sL + ts)))) := by
  have _ := hs; have _ := he  -- used by `omega` below
  rw [Bool.eq_iff_iff]
  unfold checkTwoJulianDays infosMk
  simp only [Bool.and_eq_true, Bool.or_eq_true, decide_eq_true_eq]
  split
  · rename_i c1
    try simp only [Bool.and_eq_true, decide_eq_true_eq] at c1
    split
    · rename_i c2
      try simp only [Bool.and_eq_true, decide_eq_true_eq] at c2
      simp only [true_iff]; omega
    · rename_i c2
      try simp only [Bool.and_eq_true, decide_eq_true_eq] at c2
      split
      · rename_i c3
        try simp only [Bool.and_eq_true, decide_eq_true_eq] at c3
        simp only [true_iff]; omega
      · rename_i c3
        try simp only [Bool.and_eq_true, decide_eq_true_eq] at c3
        simp only [Bool.false_eq_true, false_iff]; omega
  · rename_i c1
    try simp only [Bool.and_eq_true, decide_eq_true_eq] at c1
    split
    · rename_i c1'
      try simp only [Bool.and_eq_true, decide_eq_true_eq] at c1'
      split
      · rename_i c2
        try simp only [Bool.and_eq_true, decide_eq_true_eq] at c2
        simp only [true_iff]; omega
      · rename_i c2
        try simp only [Bool.and_eq_true, decide_eq_true_eq] at c2
        split
        · rename_i c3
          try simp only [Bool.and_eq_true, decide_eq_true_eq] at c3
          simp only [true_iff]; omega
        · rename_i c3
          try simp only [Bool.and_eq_true, decide_eq_true_eq] at c3
          simp only [Bool.false_eq_true, false_iff]; omega
    · rename_i c1'
      try simp only [Bool.and_eq_true, decide_eq_true_eq] at c1'
      simp only [Bool.false_eq_true, false_iff]; omega

/-! ### The instants of a Julian rule, by leapness -/

/-- instant relative to 1 January 00:00 UTC, by leapness of the year -/
def relInst (d : RuleDay) (t : Int) (l : Bool) : Int := 86400 * (if l then jL d else jN d) + t

/-- length of the year in seconds, by leapness -/
def yearSecs (l : Bool) : Int := if l then 31622400 else 31536000

theorem yearSecs_eq (y : Int) : 86400 * Spec.yearLen y = yearSecs (Spec.isLeap y) := by
  unfold Spec.yearLen yearSecs; split <;> rfl

section
variable (a : AlternateTime) (h1 : IsJulian a.dstStart) (h2 : IsJulian a.dstEnd)
include h1 h2

theorem startInstant_julian (y : Int) :
    Spec.startInstant a y =
      relInst a.dstStart (a.dstStartTime - a.std.utOffset) (Spec.isLeap y) + 86400 * Spec.daysBeforeYear y := by
  have _ := h2
  unfold Spec.startInstant relInst
  rw [ruleDayNumber_eq_rel, relDay_julian _ h1]
  omega

theorem endInstant_julian (y : Int) :
    Spec.endInstant a y =
      relInst a.dstEnd (a.dstEndTime - a.dst.utOffset) (Spec.isLeap y) + 86400 * Spec.daysBeforeYear y := by
  have _ := h1
  unfold Spec.endInstant relInst
  rw [ruleDayNumber_eq_rel, relDay_julian _ h2]
  omega

theorem startInstant_julian_succ (y : Int) :
    Spec.startInstant a (y + 1) =
      relInst a.dstStart (a.dstStartTime - a.std.utOffset) (Spec.isLeap (y + 1)) + 86400 * Spec.daysBeforeYear y +
        yearSecs (Spec.isLeap y) := by
  rw [startInstant_julian a h1 h2, Spec.daysBeforeYear_succ, ← yearSecs_eq]; omega

theorem endInstant_julian_succ (y : Int) :
    Spec.endInstant a (y + 1) =
      relInst a.dstEnd (a.dstEndTime - a.dst.utOffset) (Spec.isLeap (y + 1)) + 86400 * Spec.daysBeforeYear y +
        yearSecs (Spec.isLeap y) := by
  rw [endInstant_julian a h1 h2, Spec.daysBeforeYear_succ, ← yearSecs_eq]; omega

theorem consistentB_julian :
    Spec.consistentB a =
      (let S := relInst a.dstStart (a.dstStartTime - a.std.utOffset)
       let E := relInst a.dstEnd (a.dstEndTime - a.dst.utOffset)
       let g1 : Bool → Bool → Bool := fun l _ => decide (S l ≤ E l)
       let g1' : Bool → Bool → Bool := fun l _ => decide (E l ≤ S l)
       let g2 : Bool → Bool → Bool := fun l l' => decide (E l ≤ S l' + yearSecs l)
       let g2' : Bool → Bool → Bool := fun l l' => decide (S l' + yearSecs l ≤ E l)
       let g3 : Bool → Bool → Bool := fun l l' => decide (S l ≤ E l' + yearSecs l)
       let g3' : Bool → Bool → Bool := fun l l' => decide (E l' + yearSecs l ≤ S l)
       let three : (Bool → Bool → Bool) → Bool := fun g => g false false && g false true && g true false
       (three g1 || three g1') && (three g2 || three g2') && (three g3 || three g3')) := by
  unfold Spec.consistentB
  simp only
  rw [allYears_leap (fun y => decide (Spec.startInstant a y ≤ Spec.endInstant a y))
        (fun l _ => decide (relInst a.dstStart (a.dstStartTime - a.std.utOffset) l ≤
          relInst a.dstEnd (a.dstEndTime - a.dst.utOffset) l))
        (fun y => by
          rw [decide_eq_decide, startInstant_julian a h1 h2, endInstant_julian a h1 h2]; omega),
      allYears_leap (fun y => decide (Spec.endInstant a y ≤ Spec.startInstant a y))
        (fun l _ => decide (relInst a.dstEnd (a.dstEndTime - a.dst.utOffset) l ≤
          relInst a.dstStart (a.dstStartTime - a.std.utOffset) l))
        (fun y => by
          rw [decide_eq_decide, startInstant_julian a h1 h2, endInstant_julian a h1 h2]; omega),
      allYears_leap (fun y => decide (Spec.endInstant a y ≤ Spec.startInstant a (y + 1)))
        (fun l l' => decide (relInst a.dstEnd (a.dstEndTime - a.dst.utOffset) l ≤
          relInst a.dstStart (a.dstStartTime - a.std.utOffset) l' + yearSecs l))
        (fun y => by
          rw [decide_eq_decide, startInstant_julian_succ a h1 h2, endInstant_julian a h1 h2]; omega),
      allYears_leap (fun y => decide (Spec.startInstant a (y + 1) ≤ Spec.endInstant a y))
        (fun l l' => decide (relInst a.dstStart (a.dstStartTime - a.std.utOffset) l' + yearSecs l ≤
          relInst a.dstEnd (a.dstEndTime - a.dst.utOffset) l))
        (fun y => by
          rw [decide_eq_decide, startInstant_julian_succ a h1 h2, endInstant_julian a h1 h2]; omega),
      allYears_leap (fun y => decide (Spec.startInstant a y ≤ Spec.endInstant a (y + 1)))
        (fun l l' => decide (relInst a.dstStart (a.dstStartTime - a.std.utOffset) l ≤
          relInst a.dstEnd (a.dstEndTime - a.dst.utOffset) l' + yearSecs l))
        (fun y => by
          rw [decide_eq_decide, startInstant_julian a h1 h2, endInstant_julian_succ a h1 h2]; omega),
      allYears_leap (fun y => decide (Spec.endInstant a (y + 1) ≤ Spec.startInstant a y))
        (fun l l' => decide (relInst a.dstEnd (a.dstEndTime - a.dst.utOffset) l' + yearSecs l ≤
          relInst a.dstStart (a.dstStartTime - a.std.utOffset) l))
        (fun y => by
          rw [decide_eq_decide, startInstant_julian a h1 h2, endInstant_julian_succ a h1 h2]; omega)]

end

theorem check_eq_B_julian (std dst : LocalTimeType) (ds : RuleDay) (st : Int) (de : RuleDay) (et : Int)
    (hs : RuleShape { std := std, dst := dst, dstStart := ds, dstStartTime := st, dstEnd := de, dstEndTime := et })
    (h1 : IsJulian ds) (h2 : IsJulian de) :
    checkDstTransitionRulesConsistency std dst ds st de et =
      Spec.consistentB { std := std, dst := dst, dstStart := ds, dstStartTime := st, dstEnd := de, dstEndTime := et } := by
  have _ := hs  -- validity of the day numbers is not needed: `n ≤ 59` and `n ≥ 60` are complementary
  rw [check_julian_eq _ _ _ _ _ _ h1 h2, infosOf_eq, infosOf_eq,
    checkTwoJulianDays_core _ _ _ _ _ _ (jL_cases ds) (jL_cases de),
    consistentB_julian _ h1 h2]
  simp only [relInst, yearSecs, Bool.false_eq_true, if_false, if_true]

end TzVerif.Proofs
