/-
The translated source equals the model: the two entry points of the search, src/datetime/mod.rs `DateTime::find`
(allocating) and `DateTime::find_n` (caller's buffer). Both call `find_date_time` with their own container; the
translation hands the sequence the search pushes to the container's own translated `push`, one element at a time.
-/
import TzVerif.Proofs.SrcEqFind
import TzVerif.Proofs.SrcEqList

namespace TzVerif.Proofs.SrcEq
open TzVerif TzVerif.Model

/-- `DateTime::find` returns exactly the sequence the search pushes -/
theorem find_eq (y mo d h mi s ns : Int) (z : TimeZone) :
    Src.DateTime.find y mo d h mi s ns z = findDateTime y mo d h mi s ns z := by
  unfold Src.DateTime.find
  rw [find_date_time_eq]
  cases findDateTime y mo d h mi s ns z with
  | error e => rfl
  | ok rs => simp only [list_pushes_eq, List.nil_append]

/-- `DateTime::find_n` is the model's `findN` -/
theorem find_n_eq (buf : List (Option Found)) (y mo d h mi s ns : Int) (z : TimeZone) :
    Src.DateTime.find_n buf y mo d h mi s ns z = findN buf y mo d h mi s ns z := by
  unfold Src.DateTime.find_n findN
  rw [find_date_time_eq]
  cases findDateTime y mo d h mi s ns z with
  | error e => rfl
  | ok rs => simp only [refmut_pushes_eq, refmut_new_eq]

end TzVerif.Proofs.SrcEq
