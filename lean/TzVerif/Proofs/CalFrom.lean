/-
Structure of `UtcDateTime.fromTimespec`: the civil-from-days algorithm computes the date whose spec
day number is `t / 86400`.
-/
import TzVerif.Proofs.CalMono

namespace TzVerif.Proofs
open TzVerif.Model TzVerif.Gen

/-- cumulative days before the `k`-th month counted from March -/
def cumM (k : Int) : Int :=
  if k = 0 then 0 else if k = 1 then 31 else if k = 2 then 61 else if k = 3 then 92
  else if k = 4 then 122 else if k = 5 then 153 else if k = 6 then 184 else if k = 7 then 214
  else if k = 8 then 245 else if k = 9 then 275 else if k = 10 then 306 else if k = 11 then 337 else 366

theorem monthLoop_spec (r : Int) (h0 : 0 ≤ r) (h1 : r < 366) :
    ∃ k, 0 ≤ k ∧ k ≤ 11 ∧ cumM k ≤ r ∧ r < cumM (k + 1) ∧
      monthLoop DAY_IN_MONTHS_LEAP_YEAR_FROM_MARCH 0 r = (k, r - cumM k) := by
  unfold DAY_IN_MONTHS_LEAP_YEAR_FROM_MARCH
  simp only [monthLoop]
  by_cases c0 : r < 31
  · refine ⟨0, by omega, by omega, ?_, ?_, ?_⟩ <;> simp [cumM, c0] <;> omega
  by_cases c1 : r - 31 < 30
  · refine ⟨1, by omega, by omega, ?_, ?_, ?_⟩ <;> simp [cumM, c0, c1] <;> omega
  by_cases c2 : r - 31 - 30 < 31
  · refine ⟨2, by omega, by omega, ?_, ?_, ?_⟩ <;> simp [cumM, c0, c1, c2] <;> omega
  by_cases c3 : r - 31 - 30 - 31 < 30
  · refine ⟨3, by omega, by omega, ?_, ?_, ?_⟩ <;> simp [cumM, c0, c1, c2, c3] <;> omega
  by_cases c4 : r - 31 - 30 - 31 - 30 < 31
  · refine ⟨4, by omega, by omega, ?_, ?_, ?_⟩ <;> simp [cumM, c0, c1, c2, c3, c4] <;> omega
  by_cases c5 : r - 31 - 30 - 31 - 30 - 31 < 31
  · refine ⟨5, by omega, by omega, ?_, ?_, ?_⟩ <;> simp [cumM, c0, c1, c2, c3, c4, c5] <;> omega
  by_cases c6 : r - 31 - 30 - 31 - 30 - 31 - 31 < 30
  · refine ⟨6, by omega, by omega, ?_, ?_, ?_⟩ <;> simp [cumM, c0, c1, c2, c3, c4, c5, c6] <;> omega
  by_cases c7 : r - 31 - 30 - 31 - 30 - 31 - 31 - 30 < 31
  · refine ⟨7, by omega, by omega, ?_, ?_, ?_⟩ <;> simp [cumM, c0, c1, c2, c3, c4, c5, c6, c7] <;> omega
  by_cases c8 : r - 31 - 30 - 31 - 30 - 31 - 31 - 30 - 31 < 30
  · refine ⟨8, by omega, by omega, ?_, ?_, ?_⟩ <;> simp [cumM, c0, c1, c2, c3, c4, c5, c6, c7, c8] <;> omega
  by_cases c9 : r - 31 - 30 - 31 - 30 - 31 - 31 - 30 - 31 - 30 < 31
  · refine ⟨9, by omega, by omega, ?_, ?_, ?_⟩ <;> simp [cumM, c0, c1, c2, c3, c4, c5, c6, c7, c8, c9] <;> omega
  by_cases c10 : r - 31 - 30 - 31 - 30 - 31 - 31 - 30 - 31 - 30 - 31 < 31
  · refine ⟨10, by omega, by omega, ?_, ?_, ?_⟩ <;> simp [cumM, c0, c1, c2, c3, c4, c5, c6, c7, c8, c9, c10] <;> omega
  have c11 : r - 31 - 30 - 31 - 30 - 31 - 31 - 30 - 31 - 30 - 31 - 31 < 29 := by omega
  refine ⟨11, by omega, by omega, ?_, ?_, ?_⟩ <;> simp [cumM, c0, c1, c2, c3, c4, c5, c6, c7, c8, c9, c10, c11] <;> omega

theorem minI_eq (a b : Int) : minI a b = if a ≤ b then a else b := rfl

theorem decomp (r : Int) (h0 : 0 ≤ r) (h1 : r < 146097) :
    let c100 := minI (r.tdiv 36524) 3; let r1 := r - c100 * 36524
    let c4 := minI (r1.tdiv 1461) 24;  let r2 := r1 - c4 * 1461
    let ry := minI (r2.tdiv 365) 3;    let r3 := r2 - ry * 365
    let yo := ry + c4 * 4 + c100 * 100
    0 ≤ yo ∧ yo < 400 ∧ 0 ≤ r3 ∧ r = 365 * yo + yo / 4 - yo / 100 + r3 ∧
    r3 < 365 + (if (yo+1) % 4 = 0 ∧ ((yo+1) % 100 ≠ 0 ∨ (yo+1) % 400 = 0) then 1 else 0) := by
  intro c100 r1 c4 r2 ry r3 yo
  have e1 : r.tdiv 36524 = r / 36524 := tdiv_nonneg _ _ h0
  have hc100 : 0 ≤ c100 ∧ c100 ≤ 3 := by simp only [c100, minI_eq, e1]; split <;> omega
  have hr1 : 0 ≤ r1 ∧ r1 < 36525 ∧ (c100 < 3 → r1 < 36524) := by simp only [r1, c100, minI_eq, e1]; split <;> omega
  have e2 : r1.tdiv 1461 = r1 / 1461 := tdiv_nonneg _ _ hr1.1
  have hc4 : 0 ≤ c4 ∧ c4 ≤ 24 := by simp only [c4, minI_eq, e2]; split <;> omega
  have hr2 : 0 ≤ r2 ∧ r2 < 1462 ∧ (c4 < 24 → r2 < 1461) ∧ (c4 = 24 → c100 < 3 → r2 < 1460) := by
    simp only [r2, c4, minI_eq, e2]; split <;> omega
  have e3 : r2.tdiv 365 = r2 / 365 := tdiv_nonneg _ _ hr2.1
  have hry : 0 ≤ ry ∧ ry ≤ 3 := by simp only [ry, minI_eq, e3]; split <;> omega
  have hr3 : 0 ≤ r3 ∧ r3 < 367 ∧ (ry < 3 → r3 < 365) := by simp only [r3, ry, minI_eq, e3]; split <;> omega
  have hyo : yo = ry + c4 * 4 + c100 * 100 := rfl
  have hq4 : yo / 4 = c4 + 25 * c100 := by omega
  have hq100 : yo / 100 = c100 := by omega
  refine ⟨by omega, by omega, by omega, ?_, ?_⟩
  · simp only [r3, r2, r1] at *; omega
  · split <;> (simp only [r3, r2, r1] at *; omega)

theorem floor_fix_div86400 (a : Int) :
    (if a.tmod 86400 < 0 then a.tdiv 86400 - 1 else a.tdiv 86400) = a / 86400 := by
  rw [tmod_eq]
  by_cases h : 0 ≤ a
  · rw [tdiv_nonneg a _ h]; split <;> omega
  · rw [tdiv_nonpos a _ (by omega)]; split <;> omega

theorem floor_fix_mod86400 (a : Int) :
    (if a.tmod 86400 < 0 then a.tmod 86400 + 86400 else a.tmod 86400) = a % 86400 := by
  rw [tmod_eq]
  by_cases h : 0 ≤ a
  · rw [tdiv_nonneg a _ h]; split <;> omega
  · rw [tdiv_nonpos a _ (by omega)]; split <;> omega

theorem floor_fix_div146097 (a : Int) :
    (if a.tmod 146097 < 0 then a.tdiv 146097 - 1 else a.tdiv 146097) = a / 146097 := by
  rw [tmod_eq]
  by_cases h : 0 ≤ a
  · rw [tdiv_nonneg a _ h]; split <;> omega
  · rw [tdiv_nonpos a _ (by omega)]; split <;> omega

theorem floor_fix_mod146097 (a : Int) :
    (if a.tmod 146097 < 0 then a.tmod 146097 + 146097 else a.tmod 146097) = a % 146097 := by
  rw [tmod_eq]
  by_cases h : 0 ≤ a
  · rw [tdiv_nonneg a _ h]; split <;> omega
  · rw [tdiv_nonpos a _ (by omega)]; split <;> omega

/-- the year starting on 1 March of `Y = 2000 + yo + 400 q` -/
theorem marchYear (q yo : Int) (h0 : 0 ≤ yo) (h1 : yo < 400) :
    Spec.daysBeforeYear (2000 + yo + 400 * q) + 59 + (if Spec.isLeap (2000 + yo + 400 * q) = true then 1 else 0)
      = 11017 + 146097 * q + 365 * yo + yo / 4 - yo / 100 ∧
    (Spec.isLeap (2000 + yo + 400 * q + 1) = true ↔
      ((yo + 1) % 4 = 0 ∧ ((yo + 1) % 100 ≠ 0 ∨ (yo + 1) % 400 = 0))) := by
  constructor
  · rw [daysBeforeYear_alt]
    generalize (if Spec.isLeap (2000 + yo + 400 * q) = true then (1:Int) else 0) = l
    have e4 : (2000 + yo + 400 * q) / 4 = 500 + 100 * q + yo / 4 := by omega
    have e100 : (2000 + yo + 400 * q) / 100 = 20 + 4 * q + yo / 100 := by omega
    have e400 : (2000 + yo + 400 * q) / 400 = 5 + q := by omega
    rw [e4, e100, e400]
    omega
  · rw [isLeap_iff]
    omega

theorem civil_from_march (Y r k : Int) (hk : 0 ≤ k ∧ k ≤ 11) (hr : cumM k ≤ r ∧ r < cumM (k + 1))
    (hr' : r < 365 + (if Spec.isLeap (Y + 1) = true then 1 else 0)) :
    Spec.ValidDate (if k + 2 ≥ 12 then Y + 1 else Y) ((if k + 2 ≥ 12 then k + 2 - 12 else k + 2) + 1)
        (1 + (r - cumM k)) ∧
    Spec.dayNumber (if k + 2 ≥ 12 then Y + 1 else Y) ((if k + 2 ≥ 12 then k + 2 - 12 else k + 2) + 1)
        (1 + (r - cumM k))
      = Spec.daysBeforeYear Y + 59 + (if Spec.isLeap Y = true then 1 else 0) + r := by
  have hs := Spec.daysBeforeYear_succ Y
  unfold Spec.yearLen at hs
  unfold Spec.ValidDate Spec.dayNumber
  rw [daysBeforeMonth_eq]
  have : k = 0 ∨ k = 1 ∨ k = 2 ∨ k = 3 ∨ k = 4 ∨ k = 5 ∨ k = 6 ∨ k = 7 ∨ k = 8 ∨ k = 9 ∨ k = 10 ∨ k = 11 := by omega
  rcases this with h | h | h | h | h | h | h | h | h | h | h | h <;> subst h <;>
    simp [cumM, cumN, Spec.monthLen] at hr ⊢ <;>
    (split at hs <;> split at hr' <;> simp_all <;> omega)

theorem fromTimespec_struct (t ns : Int)
    (h64 : i64Min ≤ t - 951868800 ∧ t - 951868800 ≤ i64Max) :
    ∃ y m d, Spec.ValidDate y m d ∧ Spec.dayNumber y m d = t / 86400 ∧
      UtcDateTime.fromTimespec t ns =
        (if i32Min ≤ y ∧ y ≤ i32Max then
          .ok { year := y, month := m, monthDay := d, hour := (t % 86400) / 3600,
                minute := ((t % 86400) / 60) % 60, second := (t % 86400) % 60, nanoseconds := ns }
         else .error .outOfRange) := by
  unfold UtcDateTime.fromTimespec
  simp -zeta only [c_spd, c_sph, c_spm, c_mph, c_d400, c_d100, c_d4, c_dpy, c_off, c_oy, c_mpy]
  extract_lets seconds remDays0 remSecs0 remSecs remDays1 c400a remDays2a remDays2 c400 c100 remDays3
    c4 remDays4 ry remDays5 year0 m1 year1 m2 month monthDay hour minute second
  have hs : seconds = t - 951868800 := rfl
  have hRS : remSecs = seconds % 86400 := floor_fix_mod86400 seconds
  have hRD : remDays1 = seconds / 86400 := floor_fix_div86400 seconds
  have hR2 : remDays2 = remDays1 % 146097 := floor_fix_mod146097 remDays1
  have hC4 : c400 = remDays1 / 146097 := floor_fix_div146097 remDays1
  have hb : 0 ≤ remDays2 ∧ remDays2 < 146097 := by omega
  have hd : 0 ≤ ry + c4 * 4 + c100 * 100 ∧ ry + c4 * 4 + c100 * 100 < 400 ∧ 0 ≤ remDays5 ∧
      remDays2 = 365 * (ry + c4 * 4 + c100 * 100) + (ry + c4 * 4 + c100 * 100) / 4
        - (ry + c4 * 4 + c100 * 100) / 100 + remDays5 ∧
      remDays5 < 365 + (if (ry + c4 * 4 + c100 * 100 + 1) % 4 = 0 ∧
        ((ry + c4 * 4 + c100 * 100 + 1) % 100 ≠ 0 ∨ (ry + c4 * 4 + c100 * 100 + 1) % 400 = 0) then 1 else 0) :=
    decomp remDays2 hb.1 hb.2
  have hy0 : year0 = 2000 + (ry + c4 * 4 + c100 * 100) + 400 * c400 := by
    simp only [year0]; omega
  generalize ry + c4 * 4 + c100 * 100 = yo at hd hy0
  obtain ⟨d1, d2, d3, d4, d5⟩ := hd
  obtain ⟨my1, my2⟩ := marchYear c400 yo d1 d2
  rw [← hy0] at my1 my2
  have d5' : remDays5 < 365 + (if Spec.isLeap (year0 + 1) = true then 1 else 0) := by
    by_cases hl : Spec.isLeap (year0 + 1) = true
    · rw [if_pos hl]; rw [if_pos (my2.mp hl)] at d5; exact d5
    · rw [if_neg hl]; rw [if_neg (mt my2.mpr hl)] at d5; exact d5
  have d6 : remDays5 < 366 := by split at d5 <;> omega
  obtain ⟨k, k0, k1, k2, k3, hml⟩ := monthLoop_spec remDays5 d3 d6
  obtain ⟨cv, cd⟩ := civil_from_march year0 remDays5 k ⟨k0, k1⟩ ⟨k2, k3⟩ d5'
  have hm1 : m1 = k + 2 := by simp only [m1, hml]
  have hmd : monthDay = 1 + (remDays5 - cumM k) := by simp only [monthDay, hml]
  have hy1 : year1 = (if k + 2 ≥ 12 then year0 + 1 else year0) := by simp only [year1, hm1]
  have hmo : month = (if k + 2 ≥ 12 then k + 2 - 12 else k + 2) + 1 := by simp only [month, m2, hm1]
  rw [← hy1, ← hmo, ← hmd] at cv cd
  refine ⟨year1, month, monthDay, cv, ?_, ?_⟩
  · rw [cd, my1]; omega
  · have hrs : remSecs = t % 86400 := by omega
    have hrs0 : 0 ≤ remSecs := by omega
    have hh : hour = (t % 86400) / 3600 := by
      simp only [hour]; rw [tdiv_nonneg _ _ hrs0, hrs]
    have hmi : minute = ((t % 86400) / 60) % 60 := by
      simp only [minute]; rw [tdiv_nonneg _ _ hrs0, tmod_nonneg _ _ (by omega), hrs]
    have hse : second = (t % 86400) % 60 := by
      simp only [second]; rw [tmod_nonneg _ _ hrs0, hrs]
    rw [if_neg (by rw [hs]; exact fun h => h h64), hh, hmi, hse]
    unfold tryIntoI32
    by_cases hr : i32Min ≤ year1 ∧ year1 ≤ i32Max
    · rw [if_pos hr, if_pos hr]
    · rw [if_neg hr, if_neg hr]

theorem fromTimespec_i64_refused (t ns : Int)
    (h64 : ¬ (i64Min ≤ t - 951868800 ∧ t - 951868800 ≤ i64Max)) :
    UtcDateTime.fromTimespec t ns = .error .outOfRange := by
  unfold UtcDateTime.fromTimespec
  simp -zeta only [c_off]
  extract_lets seconds
  have hs : seconds = t - 951868800 := rfl
  rw [if_pos (by rw [hs]; exact h64)]

theorem dby_min : Spec.daysBeforeYear i32Min = -784353015833 := by decide
theorem dby_max : Spec.daysBeforeYear (i32Max + 1) = 784351576777 := by decide

/-- complete description of `fromTimespec` -/
theorem fromTimespec_cases (t ns : Int) :
    (MIN_UNIX_TIME ≤ t ∧ t ≤ MAX_UNIX_TIME ∧ ∃ y m d, Spec.ValidDate y m d ∧
      Spec.dayNumber y m d = t / 86400 ∧ i32Min ≤ y ∧ y ≤ i32Max ∧
      UtcDateTime.fromTimespec t ns =
        .ok { year := y, month := m, monthDay := d, hour := (t % 86400) / 3600,
              minute := ((t % 86400) / 60) % 60, second := (t % 86400) % 60, nanoseconds := ns }) ∨
    (¬ (MIN_UNIX_TIME ≤ t ∧ t ≤ MAX_UNIX_TIME) ∧ UtcDateTime.fromTimespec t ns = .error .outOfRange) := by
  rw [c_min, c_max]
  by_cases h64 : i64Min ≤ t - 951868800 ∧ t - 951868800 ≤ i64Max
  · obtain ⟨y, m, d, hv, hdn, heq⟩ := fromTimespec_struct t ns h64
    have a := (year_le_iff y m d i32Min hv).1
    have b := (year_le_iff y m d i32Max hv).2
    rw [hdn, dby_min] at a
    rw [hdn, dby_max] at b
    by_cases hr : i32Min ≤ y ∧ y ≤ i32Max
    · left
      rw [if_pos hr] at heq
      refine ⟨by omega, by omega, y, m, d, hv, hdn, hr.1, hr.2, heq⟩
    · right
      rw [if_neg hr] at heq
      refine ⟨?_, heq⟩
      intro hc
      apply hr
      constructor
      · apply a.mpr; omega
      · apply b.mpr; omega
  · right
    refine ⟨?_, fromTimespec_i64_refused t ns h64⟩
    rw [c_i64min, c_i64max] at h64
    omega

end TzVerif.Proofs
