/-
src/parse/tz_file.rs `parse_footer` translated = the model's `parseFooter` (the `str` methods it uses are modelled
in SrcPreludeStr.lean; the TZ-string parser it calls is the translated one).
-/
import TzVerif.SrcBase
import TzVerif.Model.TzFile
import TzVerif.Proofs.SrcEqTzString

namespace TzVerif.Proofs.SrcEq
open TzVerif TzVerif.Model TzVerif.Gen

theorem parse_footer_eq (f : Bytes) (ext : Bool) : Src.parse_footer f ext = parseFooter f ext := by
  unfold Src.parse_footer parseFooter Src.str_from_utf8_tzfile
  have htrim : Src.str_trim_matches (fun c => Src.char_is_ascii_whitespace c) f = trimAsciiWhitespace f := rfl
  by_cases hv : validUtf8 f = true
  · simp only [hv, if_true, Bool.not_true, Bool.false_eq_true, if_false, htrim, parse_posix_tz_eq]
    have hlen : decide ((f.length : Int) ≥ 2) = decide (f.length ≥ 2) := by
      by_cases h : f.length ≥ 2
      · simp [h]; omega
      · simp [h]; omega
    rw [hlen]
    cases hc : (decide (f.length ≥ 2) && f.head? == some 10 && f.getLast? == some 10)
    · simp
    · simp only [Bool.not_true, Bool.false_eq_true, if_false]
      cases hd : ((trimAsciiWhitespace f).head? == some 58 || (trimAsciiWhitespace f).contains 0)
      · simp only [Bool.false_eq_true, if_false]
        cases he : (trimAsciiWhitespace f).isEmpty
        · simp only [Bool.not_false, if_true]
          cases parsePosixTz (trimAsciiWhitespace f) ext <;> rfl
        · simp
      · simp
  · simp [hv]

end TzVerif.Proofs.SrcEq
