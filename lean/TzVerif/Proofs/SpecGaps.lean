/-
C06 twin of `search_is_validSet`: the gaps reported by the search are exactly the executable spec's `gapSet`
(the set the differential oracle `C06.gaps_reported_exactly` computes), for every zone the constructor accepts
whose rule meets C04's hypotheses and searched fields of the Rust argument types inside the year guard.
-/
import TzVerif.Proofs.SpecSearch
import TzVerif.Proofs.Search
import TzVerif.Proofs.SearchRule

namespace TzVerif.Proofs
open TzVerif.Model TzVerif.Gen

/-- membership in the spec's gap set, spelled out -/
theorem gapSet_mem_iff (z : TimeZone) (c T : Int) (a b : LocalTimeType) :
    (T, a, b) ∈ Spec.gapSet z c ↔ ((T, a, b) ∈ Spec.transitionsNear z c ∧ T + a.utOffset ≤ c ∧ c < T + b.utOffset) := by
  unfold Spec.gapSet
  rw [List.mem_filter]
  simp only [Bool.and_eq_true, decide_eq_true_eq]

/-! ### the two halves of `Spec.transitionsNear` -/

/-- the table half of `Spec.transitionsNear` -/
def tblPart (z : TimeZone) : List (Int × LocalTimeType × LocalTimeType) :=
  (List.range z.transitions.length).filterMap (fun i =>
    if i + 1 = z.transitions.length ∧ z.extraRule.isNone then none else
    match z.transitions[i]? with
    | none => none
    | some t =>
      let before := if i = 0 then z.localTimeTypes.getD 0 default
        else z.localTimeTypes.getD ((z.transitions.getD (i - 1) default).localTimeTypeIndex) default
      some (Spec.toUtc z.leapSeconds t.unixLeapTime, before, z.localTimeTypes.getD t.localTimeTypeIndex default))

/-- the rule half of `Spec.transitionsNear` -/
def rulePart (z : TimeZone) (c : Int) : List (Int × LocalTimeType × LocalTimeType) :=
  match z.extraRule with
  | some (.alternate a) =>
    let y0 := Spec.yearOfDay (c / 86400)
    let ys := (List.range 7).map (fun (i : Nat) => y0 - 3 + Int.ofNat i)
    let all := ys.flatMap (fun y => [(Spec.startInstant a y, a.std, a.dst), (Spec.endInstant a y, a.dst, a.std)])
    all.filter (fun x => match z.transitions.getLast?.map (fun t => Spec.toUtc z.leapSeconds t.unixLeapTime) with
      | some l => x.1 > l | none => true)
  | _ => []

theorem transitionsNear_eq (z : TimeZone) (c : Int) : Spec.transitionsNear z c = tblPart z ++ rulePart z c := rfl

theorem typeBefore_eq (z : TimeZone) (i : Nat) :
    (if i = 0 then z.localTimeTypes.getD 0 default
      else z.localTimeTypes.getD ((z.transitions.getD (i - 1) default).localTimeTypeIndex) default) = typeBefore z i := by
  unfold typeBefore
  split <;> rfl

/-- the table half enumerates the effective table transitions -/
theorem mem_tblPart (z : TimeZone) (T : Int) (a b : LocalTimeType) :
    (T, a, b) ∈ tblPart z ↔ ∃ i, Effective z i ∧ T = instantOf z i ∧ a = typeBefore z i ∧ b = typeAfter z i := by
  unfold tblPart
  rw [List.mem_filterMap]
  constructor
  · rintro ⟨i, hi, h⟩
    rw [List.mem_range] at hi
    split at h
    · cases h
    · rename_i hne
      rw [List.getElem?_eq_getElem hi] at h
      dsimp only at h
      rw [typeBefore_eq] at h
      simp only [Option.some.injEq, Prod.mk.injEq] at h
      obtain ⟨h1, h2, h3⟩ := h
      refine ⟨i, ⟨hi, ?_⟩, ?_, h2.symm, ?_⟩
      · cases he : z.extraRule with
        | some r => right; rfl
        | none =>
          left
          rw [he] at hne
          simp only [Option.isNone_none, and_true] at hne
          omega
      · unfold instantOf
        rw [getD_eq_getElem' _ i _ hi]
        exact h1.symm
      · unfold typeAfter
        rw [getD_eq_getElem' _ i _ hi]
        exact h3.symm
  · rintro ⟨i, ⟨hi, he⟩, rfl, rfl, rfl⟩
    refine ⟨i, List.mem_range.mpr hi, ?_⟩
    have hne : ¬ (i + 1 = z.transitions.length ∧ z.extraRule.isNone = true) := by
      rintro ⟨h1, h2⟩
      rcases he with he | he
      · omega
      · rw [Option.isNone_iff_eq_none] at h2
        rw [h2] at he
        cases he
    rw [if_neg hne, List.getElem?_eq_getElem hi]
    dsimp only
    rw [typeBefore_eq]
    unfold instantOf typeAfter
    rw [getD_eq_getElem' _ i _ hi]

theorem rulePart_noDst (z : TimeZone) (c : Int) (h : NoDstRule z) : rulePart z c = [] := by
  unfold NoDstRule at h
  unfold rulePart
  split
  · rename_i a ha
    rw [ha] at h
    exact h.elim
  · rfl

/-- the filter "after the table" of the rule half -/
theorem after_table_iff (z : TimeZone) (T : Int) :
    (match z.transitions.getLast?.map (fun t => Spec.toUtc z.leapSeconds t.unixLeapTime) with
      | some l => decide (T > l) | none => true) = true ↔ (z.transitions.getLast? = none ∨ ruleFrom z < T) := by
  unfold ruleFrom
  cases z.transitions.getLast? with
  | none => simp
  | some last => simp

theorem mem_window (y0 y : Int) :
    y ∈ (List.range 7).map (fun (i : Nat) => y0 - 3 + Int.ofNat i) ↔ (y0 - 3 ≤ y ∧ y ≤ y0 + 3) := by
  simp only [List.mem_map, List.mem_range, Int.ofNat_eq_natCast]
  constructor
  · rintro ⟨i, hi, rfl⟩
    omega
  · rintro ⟨h1, h2⟩
    exact ⟨(y - (y0 - 3)).toNat, by omega, by omega⟩

/-- the rule half enumerates the start/end instants of the seven years around the year of `c` that lie after the table -/
theorem mem_rulePart (z : TimeZone) (r : AlternateTime) (hr : z.extraRule = some (.alternate r)) (c T : Int)
    (a b : LocalTimeType) :
    (T, a, b) ∈ rulePart z c ↔
      ∃ y', (Spec.yearOfDay (c / 86400) - 3 ≤ y' ∧ y' ≤ Spec.yearOfDay (c / 86400) + 3) ∧
        (z.transitions.getLast? = none ∨ ruleFrom z < T) ∧
        ((T = Spec.startInstant r y' ∧ a = r.std ∧ b = r.dst) ∨ (T = Spec.endInstant r y' ∧ a = r.dst ∧ b = r.std)) := by
  unfold rulePart
  rw [hr]
  dsimp only
  rw [List.mem_filter, List.mem_flatMap, after_table_iff]
  constructor
  · rintro ⟨⟨y', hy', hm⟩, hp⟩
    rw [mem_window] at hy'
    refine ⟨y', hy', hp, ?_⟩
    simp only [List.mem_cons, Prod.mk.injEq, List.mem_nil_iff, or_false] at hm
    exact hm
  · rintro ⟨y', hy', hp, hm⟩
    refine ⟨⟨y', (mem_window _ _).mpr hy', ?_⟩, hp⟩
    simp only [List.mem_cons, Prod.mk.injEq, List.mem_nil_iff, or_false]
    exact hm

/-! ### a rule instant whose gap contains `c` is in one of the seven years around the year of `c` -/

theorem gap_year_window (d : RuleDay) (hv : ValidRuleDay d) (y' t off c : Int)
    (ht : -604800 < t ∧ t < 604800) (hoff : -93600 < off ∧ off < 93600)
    (hc : -93600 < c - (86400 * Spec.ruleDayNumber d y' + t - off) ∧ c - (86400 * Spec.ruleDayNumber d y' + t - off) < 93600) :
    Spec.yearOfDay (c / 86400) - 3 ≤ y' ∧ y' ≤ Spec.yearOfDay (c / 86400) + 3 := by
  obtain ⟨b1, b2⟩ := ruleDayNumber_bounds d hv y'
  obtain ⟨s1, s2⟩ := yearOfDay_spec (c / 86400)
  generalize Spec.yearOfDay (c / 86400) = y0 at *
  generalize Spec.ruleDayNumber d y' = n at *
  constructor
  · by_cases h : y0 - 3 ≤ y'
    · exact h
    · have := daysBeforeYear_mono y' y0 (by omega)
      omega
  · by_cases h : y' ≤ y0 + 3
    · exact h
    · have := daysBeforeYear_mono (y0 + 1) y' (by omega)
      omega

theorem start_gap_window (a : AlternateTime) (hs : RuleShape a) (y' c : Int)
    (hg : RuleGap (Spec.startInstant a y') a.std a.dst c) :
    Spec.yearOfDay (c / 86400) - 3 ≤ y' ∧ y' ≤ Spec.yearOfDay (c / 86400) + 3 := by
  obtain ⟨v1, v2, o1, o2, o3, o4, t1, t2, t3, t4⟩ := hs
  unfold RuleGap Spec.startInstant at hg
  exact gap_year_window a.dstStart v1 y' a.dstStartTime a.std.utOffset c ⟨t1, t2⟩ ⟨by omega, o2⟩ (by omega)

theorem end_gap_window (a : AlternateTime) (hs : RuleShape a) (y' c : Int)
    (hg : RuleGap (Spec.endInstant a y') a.dst a.std c) :
    Spec.yearOfDay (c / 86400) - 3 ≤ y' ∧ y' ≤ Spec.yearOfDay (c / 86400) + 3 := by
  obtain ⟨v1, v2, o1, o2, o3, o4, t1, t2, t3, t4⟩ := hs
  unfold RuleGap Spec.endInstant at hg
  exact gap_year_window a.dstEnd v2 y' a.dstEndTime a.dst.utOffset c ⟨t3, t4⟩ ⟨by omega, o4⟩ (by omega)

/-! ### the theorem -/

/-- the reported gaps are exactly the spec's gap set (as sets of (transition instant, type before, type after)) -/
theorem gaps_are_gapSet (y mo d h mi s ns : Int) (z : TimeZone) (rs : List Found)
    (hz : ZoneGood z) (hfd : FieldsGood y mo d h mi s)
    (hf : findDateTime y mo d h mi s ns z = .ok rs) (T : Int) (a b : LocalTimeType) :
    (T, a, b) ∈ Spec.gapSet z (Spec.seconds y mo d h mi s) ↔
      ∃ xb xa, Found.skipped xb xa ∈ rs ∧ xb.unixTime = T ∧ xb.localTimeType = a ∧ xa.localTimeType = b := by
  have hz' := hz
  obtain ⟨hne, hidx, hok, hl, hr, hoff⟩ := hz'
  have hfd' := hfd
  obtain ⟨f1, f2, f3, f4, f5, f6, f7, f8, f9, f10, f11, f12⟩ := hfd'
  have hv := find_fields_valid y mo d h mi s ns z rs hf
  have hc := seconds_range y mo d h mi s hfd hv
  rw [gapSet_mem_iff, transitionsNear_eq, List.mem_append]
  rcases zoneRuleOK_of_noDst z with hnd | ⟨r, hrr⟩
  · -- no DST rule: table transitions only
    rw [rulePart_noDst z _ hnd]
    constructor
    · rintro ⟨hm | hm, g1, g2⟩
      · obtain ⟨i, he, rfl, rfl, rfl⟩ := (mem_tblPart z T a b).mp hm
        exact gaps_complete y mo d h mi s ns z rs hok hnd hf i he ⟨g1, g2⟩
      · cases hm
    · rintro ⟨xb, xa, hx, rfl, rfl, rfl⟩
      obtain ⟨i, he, hg, hb, ha⟩ := gaps_sound y mo d h mi s ns z rs hok hnd hf xb xa hx
      obtain ⟨b1, -, b2, -⟩ := fromTimespecAndLocal_spec _ _ _ _ hb
      obtain ⟨-, -, a2, -⟩ := fromTimespecAndLocal_spec _ _ _ _ ha
      rw [b1, b2, a2]
      exact ⟨Or.inl ((mem_tblPart z _ _ _).mpr ⟨i, he, rfl, rfl, rfl⟩), hg.1, hg.2⟩
  · -- DST rule
    have hra : RuleOK r := by
      unfold ZoneRuleOK at hr
      rw [hrr] at hr
      exact hr
    have hshape := hra.1
    rw [mem_rulePart z r hrr]
    constructor
    · rintro ⟨hm | ⟨y', hy', hp, hm⟩, g1, g2⟩
      · obtain ⟨i, he, rfl, rfl, rfl⟩ := (mem_tblPart z T a b).mp hm
        exact rule_table_gaps_complete y mo d h mi s ns z r rs hok hrr hra hf i he ⟨g1, g2⟩
      · have hp' : ruleFrom z < T := by
          rcases hp with hp | hp
          · unfold ruleFrom
            rw [hp]
            dsimp only
            rw [c_i64min]
            obtain ⟨-, -, o1, o2, o3, o4, -⟩ := hshape
            rcases hm with ⟨-, -, rfl⟩ | ⟨-, -, rfl⟩ <;> omega
          · exact hp
        rcases hm with ⟨rfl, rfl, rfl⟩ | ⟨rfl, rfl, rfl⟩
        · exact rule_gaps_complete_start y mo d h mi s ns z r rs hok hrr hra hf y' hp' ⟨g1, g2⟩ ⟨f7, f9, f11⟩
        · exact rule_gaps_complete_end y mo d h mi s ns z r rs hok hrr hra hf y' hp' ⟨g1, g2⟩ ⟨f7, f9, f11⟩
    · rintro ⟨xb, xa, hx, rfl, rfl, rfl⟩
      rcases rule_gaps_sound y mo d h mi s ns z r rs hok hrr hra hf xb xa hx with
        ⟨i, he, hg, hb, ha⟩ | ⟨y', hp, hg, hb, ha⟩ | ⟨y', hp, hg, hb, ha⟩
      · obtain ⟨b1, -, b2, -⟩ := fromTimespecAndLocal_spec _ _ _ _ hb
        obtain ⟨-, -, a2, -⟩ := fromTimespecAndLocal_spec _ _ _ _ ha
        rw [b1, b2, a2]
        exact ⟨Or.inl ((mem_tblPart z _ _ _).mpr ⟨i, he, rfl, rfl, rfl⟩), hg.1, hg.2⟩
      · obtain ⟨b1, -, b2, -⟩ := fromTimespecAndLocal_spec _ _ _ _ hb
        obtain ⟨-, -, a2, -⟩ := fromTimespecAndLocal_spec _ _ _ _ ha
        rw [b1, b2, a2]
        exact ⟨Or.inr ⟨y', start_gap_window r hshape y' _ hg, Or.inr hp, Or.inl ⟨rfl, rfl, rfl⟩⟩, hg.1, hg.2⟩
      · obtain ⟨b1, -, b2, -⟩ := fromTimespecAndLocal_spec _ _ _ _ hb
        obtain ⟨-, -, a2, -⟩ := fromTimespecAndLocal_spec _ _ _ _ ha
        rw [b1, b2, a2]
        exact ⟨Or.inr ⟨y', end_gap_window r hshape y' _ hg, Or.inr hp, Or.inr ⟨rfl, rfl, rfl⟩⟩, hg.1, hg.2⟩

end TzVerif.Proofs
