/-
C08: the named rejections, for ARBITRARY byte strings. INTERFACE.
-/
import TzVerif.Model.TzFile

namespace TzVerif.Proofs
open TzVerif.Model

/-! ### helper lemmas -/

theorem readExact_eq_ok {c : Bytes} {n : Nat} {a r : Bytes} :
    readExact c n = .ok (a, r) ↔ n ≤ c.length ∧ a = c.take n ∧ r = c.drop n := by
  unfold readExact
  split
  · simp_all [eq_comm]
  · simp only [reduceCtorEq, false_iff]; omega

theorem readExact_eq_error {c : Bytes} {n : Nat} {e : ParseDataError} :
    readExact c n = .error e ↔ c.length < n ∧ e = .unexpectedEof := by
  unfold readExact
  split <;> simp_all [eq_comm] <;> omega

theorem spanWhile_eq (f : Nat → Bool) (l : Bytes) :
    spanWhile f l = (l.takeWhile f, l.dropWhile f) := by
  induction l with
  | nil => rfl
  | cons b bs ih =>
    unfold spanWhile
    by_cases hb : f b = true
    · simp [hb, ih]
    · simp [hb]

theorem zero_mem_of_dropWhile_ne_nil (l : Bytes) (h : l.dropWhile (· != 0) ≠ []) : 0 ∈ l := by
  induction l with
  | nil => simp at h
  | cons b bs ih =>
    by_cases hb : b = 0
    · simp [hb]
    · have : (b != 0) = true := by simp [hb]
      rw [List.dropWhile_cons, if_pos this] at h
      exact List.mem_cons_of_mem _ (ih h)

theorem LocalTimeType_new_ok {u : Int} {d : Bool} {n : Option (List Nat)} {t : LocalTimeType}
    (h : LocalTimeType.new u d n = .ok t) : t = ⟨u, d, n⟩ := by
  unfold LocalTimeType.new at h
  split at h
  · contradiction
  · split at h
    · simp only [Except.ok.injEq] at h; exact h.symm
    · split at h
      · contradiction
      · rename_i n n' hn
        unfold TzAsciiStr.new at hn
        dsimp only at hn
        split at hn
        · contradiction
        · split at hn
          · contradiction
          · simp only [Except.ok.injEq] at hn h
            subst hn; exact h.symm

theorem TimeZone_new_extraRule {tr ty lp rule} {z : TimeZone}
    (h : TimeZone.new tr ty lp rule = .ok z) : z.extraRule = rule := by
  unfold TimeZone.new at h
  dsimp only at h
  split at h
  · contradiction
  · simp only [Except.ok.injEq] at h; subst h; rfl

theorem DataBlocks_parse_some {ts : Nat} {d : DataBlocks} {h : Header} {f : Bytes}
    {pf : Bytes → Bool → Except TzError (Option TransitionRule)} {z : TimeZone}
    (hz : DataBlocks.parse ts d h (some f) pf = .ok z) :
    ∃ rule, pf f (h.version == 3) = .ok rule ∧ z.extraRule = rule := by
  unfold DataBlocks.parse at hz
  dsimp only at hz
  split at hz
  · contradiction
  · split at hz
    · contradiction
    · split at hz
      · contradiction
      · rename_i rule hr
        exact ⟨rule, hr, TimeZone_new_extraRule hz⟩

/-! ### the rejections -/

theorem reject_short_or_bad_magic (b : Bytes) (h : b.take 4 ≠ [84, 90, 105, 102]) :
    parseTzFile b = .error (.tzFile .invalidMagicNumber) ∨ parseTzFile b = .error (.tzFile (.parseData .unexpectedEof)) := by
  unfold parseTzFile parseTzFileWith parseHeader
  by_cases hl : 4 ≤ b.length
  · left; simp [readExact, hl, h]
  · right; simp [readExact, hl]

theorem reject_bad_version (rest : Bytes) (v : Nat) (hv : v ≠ 0 ∧ v ≠ 50 ∧ v ≠ 51) :
    parseTzFile ([84, 90, 105, 102, v] ++ rest) = .error (.tzFile .unsupportedTzFileVersion) := by
  obtain ⟨h0, h1, h2⟩ := hv
  have e1 : readExact ([84, 90, 105, 102, v] ++ rest) 4 = .ok ([84, 90, 105, 102], v :: rest) := by
    simp [readExact]
  have e2 : readExact (v :: rest) 1 = .ok ([v], rest) := by simp [readExact]
  have hh : parseHeader ([84, 90, 105, 102, v] ++ rest) = .error .unsupportedTzFileVersion := by
    unfold parseHeader
    simp only [e1, e2, ne_eq, not_true_eq_false, ↓reduceIte]
    split
    · rfl
    · rename_i hq
      split at hq <;> simp_all
  unfold parseTzFile parseTzFileWith
  rw [hh]

/-- header counts: typecnt = 0, charcnt = 0, isut/isstd count neither 0 nor typecnt -/
theorem reject_bad_counts (c : Bytes) (h : Header) (rest : Bytes) (hp : parseHeader c = .ok (h, rest)) :
    h.typeCount ≠ 0 ∧ h.charCount ≠ 0 ∧ (h.utLocalCount = 0 ∨ h.utLocalCount = h.typeCount) ∧
    (h.stdWallCount = 0 ∨ h.stdWallCount = h.typeCount) ∧ (h.version = 1 ∨ h.version = 2 ∨ h.version = 3) := by
  unfold parseHeader at hp
  repeat' (first | (split at hp <;> try contradiction) | (dsimp only at hp))
  all_goals
    rename_i hc
    simp only [Except.ok.injEq, Prod.mk.injEq] at hp
    obtain ⟨rfl, rfl⟩ := hp
    simp only [Bool.not_eq_true', Bool.not_eq_false, Bool.and_eq_true, bne_iff_ne, ne_eq,
      Bool.or_eq_true, beq_iff_eq] at hc
    obtain ⟨⟨⟨a1, a2⟩, a3⟩, a4⟩ := hc
    exact ⟨a1, a2, a3, a4, by simp⟩

/-- a data block shorter than its header announces is an unexpected end of data -/
theorem reject_truncated_block (ts : Nat) (c : Bytes) (h : Header)
    (hlen : c.length < h.transitionCount * ts + h.transitionCount + h.typeCount * 6 + h.charCount +
              h.leapCount * (ts + 4) + h.stdWallCount + h.utLocalCount) :
    readDataBlocks ts c h = .error (.parseData .unexpectedEof) := by
  unfold readDataBlocks
  generalize h.transitionCount * ts = n1 at *
  generalize h.transitionCount = n2 at *
  generalize h.typeCount * 6 = n3 at *
  generalize h.charCount = n4 at *
  generalize h.leapCount * (ts + 4) = n5 at *
  generalize h.stdWallCount = n6 at *
  generalize h.utLocalCount = n7 at *
  repeat' split
  all_goals
    simp_all only [readExact_eq_ok, readExact_eq_error, List.length_drop]
    try omega

/-- one local time type record: DST flag must be 0/1, the designation index in range and followed by a NUL -/
theorem reject_bad_type_record (des : Bytes) (cc : Nat) (d : Bytes) (t : LocalTimeType)
    (h : parseLocalTimeType des cc d = .ok t) :
    (d.getD 4 0 = 0 ∨ d.getD 4 0 = 1) ∧ d.getD 5 0 < cc ∧ 0 ∈ des.drop (d.getD 5 0) ∧
    t.isDst = (d.getD 4 0 == 1) ∧ t.utOffset = beSigned (d.take 4) ∧
    t.name = (if (des.drop (d.getD 5 0)).takeWhile (· != 0) = [] then none else some ((des.drop (d.getD 5 0)).takeWhile (· != 0))) := by
  unfold parseLocalTimeType at h
  simp only [spanWhile_eq] at h
  split at h
  · contradiction
  · rename_i h4
    split at h
    · contradiction
    · rename_i h5
      split at h
      · contradiction
      · rename_i hr
        split at h
        · contradiction
        · rename_i t' ht
          simp only [Except.ok.injEq] at h
          subst h
          have := LocalTimeType_new_ok ht
          subst this
          refine ⟨by omega, by omega, ?_, rfl, rfl, ?_⟩
          · apply zero_mem_of_dropWhile_ne_nil
            simpa using hr
          · simp [List.isEmpty_iff]

/-- indicator pairs other than (0,0), (1,0), (1,1) are refused -/
theorem indicator_pairs_iff (n : Nat) (sw ul : Bytes) :
    indicatorPairsOk n sw ul = true ↔
      ∀ i, i < n → ((sw.getD i 0 = 0 ∧ ul.getD i 0 = 0) ∨ (sw.getD i 0 = 1 ∧ ul.getD i 0 = 0) ∨ (sw.getD i 0 = 1 ∧ ul.getD i 0 = 1)) := by
  induction n generalizing sw ul with
  | zero => simp [indicatorPairsOk]
  | succ n ih =>
    unfold indicatorPairsOk
    simp only [Bool.and_eq_true, Bool.or_eq_true, beq_iff_eq, ih]
    have hs : ∀ (l : Bytes), l.headD 0 = l.getD 0 0 := by intro l; cases l <;> simp
    have ht : ∀ (l : Bytes) i, l.tail.getD i 0 = l.getD (i+1) 0 := by intro l i; cases l <;> simp
    simp only [hs, ht]
    constructor
    · rintro ⟨h0, hr⟩ i hi
      cases i with
      | zero => exact or_assoc.1 h0
      | succ j => exact hr j (by omega)
    · intro hall
      exact ⟨or_assoc.2 (hall 0 (by omega)), fun i hi => hall (i+1) (by omega)⟩

/-- whatever is accepted has a supported version, a well-sized block and, for versions 2/3, a footer
    that `parseFooter` accepts (C09.footer says what that means) -/
theorem accepted_structure (b : Bytes) (z : TimeZone) (h : parseTzFile b = .ok z) :
    ∃ hd rest, parseHeader b = .ok (hd, rest) ∧
      ((hd.version = 1 ∧ ∃ blocks, readDataBlocks 4 rest hd = .ok (blocks, [])) ∨
       (hd.version ≠ 1 ∧ ∃ b1 rest1 hd2 rest2 b2 footer rule,
          readDataBlocks 4 rest hd = .ok (b1, rest1) ∧ parseHeader rest1 = .ok (hd2, rest2) ∧
          readDataBlocks 8 rest2 hd2 = .ok (b2, footer) ∧ parseFooter footer (hd2.version == 3) = .ok rule ∧
          z.extraRule = rule)) := by
  unfold parseTzFile parseTzFileWith at h
  split at h
  · contradiction
  · rename_i hd rest hh
    refine ⟨hd, rest, hh, ?_⟩
    split at h
    · rename_i hv
      left
      refine ⟨hv, ?_⟩
      split at h
      · contradiction
      · rename_i blocks c hb
        split at h
        · contradiction
        · rename_i hc
          have : c = [] := by simpa using hc
          subst this
          exact ⟨blocks, hb⟩
    · rename_i hv
      right
      refine ⟨hv, ?_⟩
      split at h
      · contradiction
      · rename_i b1 rest1 hb1
        split at h
        · contradiction
        · rename_i hd2 rest2 hh2
          split at h
          · contradiction
          · rename_i b2 footer hb2
            obtain ⟨rule, hr, he⟩ := DataBlocks_parse_some h
            exact ⟨b1, rest1, hd2, rest2, b2, footer, rule, hb1, hh2, hb2, hr, he⟩

end TzVerif.Proofs
