/-
C08: the named rejections, for ARBITRARY byte strings. INTERFACE.
-/
import TzVerif.Model.TzFile

namespace TzVerif.Proofs
open TzVerif.Model

theorem reject_short_or_bad_magic (b : Bytes) (h : b.take 4 ≠ [84, 90, 105, 102]) :
    parseTzFile b = .error (.tzFile .invalidMagicNumber) ∨ parseTzFile b = .error (.tzFile (.parseData .unexpectedEof)) := by
  sorry

theorem reject_bad_version (rest : Bytes) (v : Nat) (hv : v ≠ 0 ∧ v ≠ 50 ∧ v ≠ 51) :
    parseTzFile ([84, 90, 105, 102, v] ++ rest) = .error (.tzFile .unsupportedTzFileVersion) := by
  sorry

/-- header counts: typecnt = 0, charcnt = 0, isut/isstd count neither 0 nor typecnt -/
theorem reject_bad_counts (c : Bytes) (h : Header) (rest : Bytes) (hp : parseHeader c = .ok (h, rest)) :
    h.typeCount ≠ 0 ∧ h.charCount ≠ 0 ∧ (h.utLocalCount = 0 ∨ h.utLocalCount = h.typeCount) ∧
    (h.stdWallCount = 0 ∨ h.stdWallCount = h.typeCount) ∧ (h.version = 1 ∨ h.version = 2 ∨ h.version = 3) := by
  sorry

/-- a data block shorter than its header announces is an unexpected end of data -/
theorem reject_truncated_block (ts : Nat) (c : Bytes) (h : Header)
    (hlen : c.length < h.transitionCount * ts + h.transitionCount + h.typeCount * 6 + h.charCount +
              h.leapCount * (ts + 4) + h.stdWallCount + h.utLocalCount) :
    readDataBlocks ts c h = .error (.parseData .unexpectedEof) := by
  sorry

/-- one local time type record: DST flag must be 0/1, the designation index in range and followed by a NUL -/
theorem reject_bad_type_record (des : Bytes) (cc : Nat) (d : Bytes) (t : LocalTimeType)
    (h : parseLocalTimeType des cc d = .ok t) :
    (d.getD 4 0 = 0 ∨ d.getD 4 0 = 1) ∧ d.getD 5 0 < cc ∧ 0 ∈ des.drop (d.getD 5 0) ∧
    t.isDst = (d.getD 4 0 == 1) ∧ t.utOffset = beSigned (d.take 4) ∧
    t.name = (if (des.drop (d.getD 5 0)).takeWhile (· != 0) = [] then none else some ((des.drop (d.getD 5 0)).takeWhile (· != 0))) := by
  sorry

/-- indicator pairs other than (0,0), (1,0), (1,1) are refused -/
theorem indicator_pairs_iff (n : Nat) (sw ul : Bytes) :
    indicatorPairsOk n sw ul = true ↔
      ∀ i, i < n → ((sw.getD i 0 = 0 ∧ ul.getD i 0 = 0) ∨ (sw.getD i 0 = 1 ∧ ul.getD i 0 = 0) ∨ (sw.getD i 0 = 1 ∧ ul.getD i 0 = 1)) := by
  sorry

/-- whatever is accepted has a supported version, a well-sized block and, for versions 2/3, a footer
    that `parseFooter` accepts (C09.footer says what that means) -/
theorem accepted_structure (b : Bytes) (z : TimeZone) (h : parseTzFile b = .ok z) :
    ∃ hd rest, parseHeader b = .ok (hd, rest) ∧
      ((hd.version = 1 ∧ ∃ blocks, readDataBlocks 4 rest hd = .ok (blocks, [])) ∨
       (hd.version ≠ 1 ∧ ∃ b1 rest1 hd2 rest2 b2 footer rule,
          readDataBlocks 4 rest hd = .ok (b1, rest1) ∧ parseHeader rest1 = .ok (hd2, rest2) ∧
          readDataBlocks 8 rest2 hd2 = .ok (b2, footer) ∧ parseFooter footer (hd2.version == 3) = .ok rule ∧
          z.extraRule = rule)) := by
  sorry

end TzVerif.Proofs
