/-
src/timezone/mod.rs `TzAsciiStr::equal` and `LocalTimeType::equal` translated: on values built by the constructors they
are equality of the designations resp. the model's `LocalTimeType.equal` — the meaning ("structural equality") the other
translated functions give to `LocalTimeType::equal`.
-/
import TzVerif.SrcBase
import TzVerif.Model.TimeZone
import TzVerif.Proofs.SrcEqLtt

namespace TzVerif.Proofs.SrcEq
open TzVerif TzVerif.Model TzVerif.Gen

/-- little-endian value of a byte list: injective on lists of equal length whose elements are bytes -/
theorem ne_u64_inj : ∀ (a b : List Nat), a.length = b.length → (∀ x ∈ a, x < 256) → (∀ x ∈ b, x < 256) →
    Src.ne_u64 a = Src.ne_u64 b → a = b := by
  intro a
  induction a with
  | nil => intro b hl _ _ _; cases b with | nil => rfl | cons _ _ => simp at hl
  | cons x xs ih =>
    intro b hl ha hb h
    cases b with
    | nil => simp at hl
    | cons y ys =>
      have hx : x < 256 := ha x (by simp)
      have hy : y < 256 := hb y (by simp)
      simp only [Src.ne_u64, List.foldr_cons, Int.natCast_inj] at h
      have h1 : x = y := by omega
      have h2 : List.foldr (fun x acc => x + 256 * acc) 0 xs = List.foldr (fun x acc => x + 256 * acc) 0 ys := by omega
      have := ih ys (by simpa using hl) (fun z hz => ha z (by simp [hz])) (fun z hz => hb z (by simp [hz]))
        (by simp only [Src.ne_u64, Int.natCast_inj]; exact h2)
      rw [h1, this]

/-- designation characters are bytes -/
theorem designation_chars_are_bytes : ∀ (l : List Nat), allDesignationChars l = true → ∀ x ∈ l, x < 256 := by
  intro l
  induction l with
  | nil => intro _ x hx; simp at hx
  | cons b bs ih =>
    intro h x hx
    unfold allDesignationChars at h
    by_cases hb : isDesignationChar b = true
    · rw [if_pos hb] at h
      rcases List.mem_cons.mp hx with rfl | hx'
      · unfold isDesignationChar at hb
        simp only [Bool.or_eq_true, Bool.and_eq_true, decide_eq_true_eq, beq_iff_eq] at hb
        omega
      · exact ih h x hx'
    · rw [if_neg hb] at h; cases h

/-- what `Src.TzAsciiStr.new` accepted: length 3..7 and designation characters -/
theorem new_ok_facts (i : List Nat) (a : Src.TzAsciiStr) (h : Src.TzAsciiStr.new i = .ok a) :
    3 ≤ i.length ∧ i.length ≤ 7 ∧ allDesignationChars i = true := by
  rw [tz_ascii_str_new_aux] at h
  by_cases hl : 3 ≤ i.length ∧ i.length ≤ 7
  · refine ⟨hl.1, hl.2, ?_⟩
    simp only [hl.1, hl.2, decide_true, Bool.and_self, Bool.not_true, Bool.false_eq_true, if_false] at h
    by_cases hc : allDesignationChars i = true
    · exact hc
    · rw [if_neg hc] at h; cases h
  · have : (!(decide (3 ≤ i.length) && decide (i.length ≤ 7))) = true := by
      simp only [Bool.not_eq_true', Bool.and_eq_false_iff, decide_eq_false_iff_not]
      omega
    rw [if_pos this] at h; cases h

/-- `TzAsciiStr::equal` on two constructed designations: equality of the strings -/
theorem tz_ascii_str_equal_eq (i1 i2 : List Nat) (a b : Src.TzAsciiStr)
    (ha : Src.TzAsciiStr.new i1 = .ok a) (hb : Src.TzAsciiStr.new i2 = .ok b) :
    Src.TzAsciiStr.equal a b = decide (i1 = i2) := by
  have fa := new_ok_facts i1 a ha
  have fb := new_ok_facts i2 b hb
  have ba := tz_ascii_str_buffer i1 a ha
  have bb := tz_ascii_str_buffer i2 b hb
  have bytesA : ∀ x ∈ a.bytes, x < 256 := by
    rw [ba]; intro x hx
    simp only [List.mem_cons, List.mem_append, List.mem_replicate] at hx
    rcases hx with rfl | hx | ⟨_, rfl⟩
    · omega
    · exact designation_chars_are_bytes i1 fa.2.2 x hx
    · omega
  have bytesB : ∀ x ∈ b.bytes, x < 256 := by
    rw [bb]; intro x hx
    simp only [List.mem_cons, List.mem_append, List.mem_replicate] at hx
    rcases hx with rfl | hx | ⟨_, rfl⟩
    · omega
    · exact designation_chars_are_bytes i2 fb.2.2 x hx
    · omega
  have lenA : a.bytes.length = 8 := by rw [ba]; simp; omega
  have lenB : b.bytes.length = 8 := by rw [bb]; simp; omega
  unfold Src.TzAsciiStr.equal
  by_cases h : i1 = i2
  · subst h
    have : a.bytes = b.bytes := by rw [ba, bb]
    simp [this]
  · have hne : a.bytes ≠ b.bytes := fun e => h ((buffers_equal_iff_names_equal i1 i2 a b ha hb).mp e)
    have : Src.ne_u64 a.bytes ≠ Src.ne_u64 b.bytes := fun e => hne (ne_u64_inj _ _ (by rw [lenA, lenB]) bytesA bytesB e)
    simp [this, h]

/-- the parts of a constructed local time type -/
theorem ltt_new_ok_shape (o : Int) (d : Bool) (n : Option (List Nat)) (x : Src.LocalTimeTypeSrc)
    (h : Src.LocalTimeType.new o d n = .ok x) :
    x.utOffset = o ∧ x.isDst = d ∧
      ((n = none ∧ x.timeZoneDesignation = none) ∨
       ∃ i a, n = some i ∧ Src.TzAsciiStr.new i = .ok a ∧ x.timeZoneDesignation = some a) := by
  unfold Src.LocalTimeType.new at h
  split at h
  · cases h
  · cases n with
    | none =>
      simp only at h
      injection h with h
      subst h
      exact ⟨rfl, rfl, Or.inl ⟨rfl, rfl⟩⟩
    | some i =>
      simp only at h
      cases ha : Src.TzAsciiStr.new i with
      | error e => rw [ha] at h; cases h
      | ok a =>
        rw [ha] at h
        simp only at h
        injection h with h
        subst h
        exact ⟨rfl, rfl, Or.inr ⟨i, a, rfl, ha, rfl⟩⟩

/-- `LocalTimeType::equal` on two constructed local time types is the model's `equal` -/
theorem ltt_equal_eq (o1 o2 : Int) (d1 d2 : Bool) (n1 n2 : Option (List Nat)) (x y : Src.LocalTimeTypeSrc)
    (hx : Src.LocalTimeType.new o1 d1 n1 = .ok x) (hy : Src.LocalTimeType.new o2 d2 n2 = .ok y) :
    Src.LocalTimeType.equal x y = (lttOf x).equal (lttOf y) := by
  obtain ⟨ox, dx, nx⟩ := ltt_new_ok_shape o1 d1 n1 x hx
  obtain ⟨oy, dy, ny⟩ := ltt_new_ok_shape o2 d2 n2 y hy
  have hd : ∀ a b : Int, decide (a = b) = (a == b) := fun a b => by by_cases h : a = b <;> simp [h]
  have hname : ∀ (i : List Nat) (a : Src.TzAsciiStr), Src.TzAsciiStr.new i = .ok a → nameOf a = i := by
    intro i a ha
    have hb := tz_ascii_str_buffer i a ha
    have hf := new_ok_facts i a ha
    unfold nameOf
    rw [hb]
    simp only [List.headD_cons, List.drop_succ_cons, List.drop_zero]
    rw [List.take_append_of_le_length (Nat.le_refl _), List.take_length]
  unfold Src.LocalTimeType.equal LocalTimeType.equal lttOf
  simp only [hd]
  rcases nx with ⟨_, hxn⟩ | ⟨i1, a, _, ha, hxn⟩ <;> rcases ny with ⟨_, hyn⟩ | ⟨i2, b, _, hb, hyn⟩
  · simp [hxn, hyn]
  · simp [hxn, hyn]
  · simp [hxn, hyn]
  · simp only [hxn, hyn, Option.map_some, tz_ascii_str_equal_eq i1 i2 a b ha hb, hname i1 a ha, hname i2 b hb]
    by_cases h : i1 = i2
    · simp [h]
    · simp [h]

end TzVerif.Proofs.SrcEq
