/-
Helpers for Proofs/SrcEqFind.lean: the memo of the `get_time` closure is transparent (`CacheInv`, `GetTimeSpec`),
one iteration of each of the two loops of the model as a function (`transStep`, `ruleStep`), the two loop lemmas
(generic in the translated loop body, which enters through an equation `hf` per iteration), and the list facts
of the rule part (`windows(2).all`, `chunks_exact_mut(2)` swap, `position` followed by slicing).
-/
import TzVerif.SrcBase
import TzVerif.Model.Find
import TzVerif.Proofs.SrcEqZone

namespace TzVerif.Proofs.SrcEq
open TzVerif TzVerif.Model TzVerif.Gen

/-! ### the memo of `get_time` -/

/-- what the memo holds is an answer of the uncached computation -/
def CacheInv (z : TimeZone) (utc : Int) (c : Option (Int × Int × Int)) : Prop :=
  ∀ (k : Nat) (v : Int × Int), c = some ((k : Int), v) → getTime z utc k = .ok v

theorem CacheInv.none (z : TimeZone) (utc : Int) : CacheInv z utc none := by
  intro k v h; cases h

/-- the closure, called with a memo satisfying the invariant, answers as the uncached computation does and
    leaves a memo satisfying the invariant -/
def GetTimeSpec (z : TimeZone) (utc : Int)
    (g : Option (Int × Int × Int) → Int → Except TzError ((Int × Int) × Option (Int × Int × Int))) : Prop :=
  ∀ c (k : Nat), CacheInv z utc c →
    match getTime z utc k with
    | .ok v => ∃ c', CacheInv z utc c' ∧ g c (k : Int) = .ok (v, c')
    | .error e => g c (k : Int) = .error e

/-- the uncached branch of the closure -/
theorem getTime_fresh (z : TimeZone) (utc : Int) (k : Nat) :
    match getTime z utc k with
    | .ok v => ∃ c', CacheInv z utc c' ∧
        (match Src.TimeZoneRef.unix_time_to_unix_leap_time z (utc - (Src.idx z.localTimeTypes (k : Int)).utOffset) with
          | .ok ult => (Except.ok ((utc - (Src.idx z.localTimeTypes (k : Int)).utOffset, ult),
                          some ((k : Int), (utc - (Src.idx z.localTimeTypes (k : Int)).utOffset, ult)))
                        : Except TzError ((Int × Int) × Option (Int × Int × Int)))
          | .error e => .error e) = .ok (v, c')
    | .error e =>
        (match Src.TimeZoneRef.unix_time_to_unix_leap_time z (utc - (Src.idx z.localTimeTypes (k : Int)).utOffset) with
          | .ok ult => (Except.ok ((utc - (Src.idx z.localTimeTypes (k : Int)).utOffset, ult),
                          some ((k : Int), (utc - (Src.idx z.localTimeTypes (k : Int)).utOffset, ult)))
                        : Except TzError ((Int × Int) × Option (Int × Int × Int)))
          | .error e => .error e) = .error e := by
  rw [unix_time_to_unix_leap_time_eq, idx_nat]
  have hg : getTime z utc k =
      match unixTimeToUnixLeapTime z.leapSeconds (utc - (z.localTimeTypes.getD k default).utOffset) with
      | .error e => .error e
      | .ok ult => .ok (utc - (z.localTimeTypes.getD k default).utOffset, ult) := rfl
  cases h : unixTimeToUnixLeapTime z.leapSeconds (utc - (z.localTimeTypes.getD k default).utOffset) with
  | error e => rw [h] at hg; rw [hg]
  | ok ult =>
    rw [h] at hg; rw [hg]
    refine ⟨_, ?_, rfl⟩
    intro k' v' hk
    injection hk with hk
    injection hk with h1 h2
    have : k' = k := by omega
    subst this; subst h2; exact hg

/-! ### one iteration of the first loop -/

/-- the body of `findTransitionsLoop`; `more` is `index < len - 1 || extra_rule.is_some()` -/
def transStep (z : TimeZone) (mk : LocalTimeType → Int → DateTime) (ns utc : Int) (more : Bool)
    (tr : Transition) (prevTime : Int) (prevIdx : Nat) (acc : List Found) : Except TzError (List Found) :=
  let lttBefore := z.localTimeTypes.getD prevIdx default
  match getTime z utc prevIdx with
  | .error e => .error e
  | .ok (utBefore, ultBefore) =>
    if prevTime ≤ ultBefore ∧ ultBefore < tr.unixLeapTime then
      match checkUnixTime utBefore with
      | .error e => .error e
      | .ok () => .ok (acc ++ [.normal (mk lttBefore utBefore)])
    else if more then
      let lttAfter := z.localTimeTypes.getD tr.localTimeTypeIndex default
      match getTime z utc tr.localTimeTypeIndex with
      | .error e => .error e
      | .ok (_, ultAfter) =>
        if ultBefore ≥ tr.unixLeapTime ∧ ultAfter < tr.unixLeapTime then
          match unixLeapTimeToUnixTime z.leapSeconds tr.unixLeapTime with
          | .error e => .error e
          | .ok tut =>
            match DateTime.fromTimespecAndLocal tut ns lttBefore with
            | .error e => .error e
            | .ok b =>
              match DateTime.fromTimespecAndLocal tut ns lttAfter with
              | .error e => .error e
              | .ok a => .ok (acc ++ [.skipped b a])
        else .ok acc
    else .ok acc

theorem findTransitionsLoop_cons (z : TimeZone) (mk : LocalTimeType → Int → DateTime) (ns utc : Int) (hasRule : Bool)
    (tr : Transition) (rest : List Transition) (pt : Int) (pi : Nat) (acc : List Found) :
    findTransitionsLoop z mk ns utc hasRule (tr :: rest) pt pi acc =
      match transStep z mk ns utc (!rest.isEmpty || hasRule) tr pt pi acc with
      | .error e => .error e
      | .ok acc' => findTransitionsLoop z mk ns utc hasRule rest tr.unixLeapTime tr.localTimeTypeIndex acc' := by
  rw [findTransitionsLoop]
  unfold transStep
  dsimp only
  cases getTime z utc pi with
  | error e => rfl
  | ok v =>
    obtain ⟨ub, ulb⟩ := v
    dsimp only
    by_cases h1 : pt ≤ ulb ∧ ulb < tr.unixLeapTime
    · rw [if_pos h1, if_pos h1]
      cases checkUnixTime ub with
      | error e => rfl
      | ok u => rfl
    · rw [if_neg h1, if_neg h1]
      cases (!rest.isEmpty || hasRule) with
      | false => rfl
      | true =>
        rw [if_pos rfl, if_pos rfl]
        cases getTime z utc tr.localTimeTypeIndex with
        | error e => rfl
        | ok w =>
          obtain ⟨ua, ula⟩ := w
          dsimp only
          by_cases h2 : ulb ≥ tr.unixLeapTime ∧ ula < tr.unixLeapTime
          · rw [if_pos h2, if_pos h2]
            cases unixLeapTimeToUnixTime z.leapSeconds tr.unixLeapTime with
            | error e => rfl
            | ok tut =>
              dsimp only
              cases DateTime.fromTimespecAndLocal tut ns (z.localTimeTypes.getD pi default) with
              | error e => rfl
              | ok b =>
                dsimp only
                cases DateTime.fromTimespecAndLocal tut ns (z.localTimeTypes.getD tr.localTimeTypeIndex default) with
                | error e => rfl
                | ok a => rfl
          · rw [if_neg h2, if_neg h2]

/-- the state of the first loop: memo, output, previous transition time, previous type index -/
abbrev TState := Option (Int × Int × Int) × List Found × Int × Int

/-- the first loop; `f` is the translated body, `hf` its equation for one iteration -/
theorem trans_loop (z : TimeZone) (mk : LocalTimeType → Int → DateTime) (ns utc : Int) (hasRule : Bool) (n : Int)
    (f : TState → Int × Transition → Src.Step TState (Src.Flow (Except TzError (List Found)) (List Found)))
    (hf : ∀ c acc pt (pi : Nat) (index : Int) tr, CacheInv z utc c → ∀ B, f (c, acc, pt, (pi : Int)) (index, tr) = B →
      match transStep z mk ns utc (decide (index < n - 1) || hasRule) tr pt pi acc with
      | .error e => B = .ret (.ret (.error e))
      | .ok acc' => ∃ c', CacheInv z utc c' ∧ B = .next (c', acc', tr.unixLeapTime, (tr.localTimeTypeIndex : Int))) :
    ∀ (trs : List Transition) (k : Nat) c acc pt (pi : Nat), n = (k : Int) + (trs.length : Int) → CacheInv z utc c →
      ∀ R, Src.forInR (Src.enumerateFrom (k : Int) trs) f (c, acc, pt, (pi : Int)) = R →
      match findTransitionsLoop z mk ns utc hasRule trs pt pi acc with
      | .error e => R = .inr (.ret (.error e))
      | .ok acc' => ∃ c' pt' pi', R = .inl (c', acc', pt', pi') := by
  intro trs
  induction trs with
  | nil =>
    intro k c acc pt pi _ _ R hR
    rw [findTransitionsLoop]
    exact ⟨_, _, _, hR.symm⟩
  | cons tr rest ih =>
    intro k c acc pt pi hn hc R hR
    rw [findTransitionsLoop_cons]
    have hm : decide ((k : Int) < n - 1) = !rest.isEmpty := by
      rw [hn, List.length_cons]
      cases rest with
      | nil => simp
      | cons a l => simp only [List.length_cons, List.isEmpty_cons, Bool.not_false, decide_eq_true_eq]; omega
    have h := hf c acc pt pi (k : Int) tr hc _ rfl
    rw [hm] at h
    simp only [Src.enumerateFrom, Src.forInR] at hR
    cases hs : transStep z mk ns utc (!rest.isEmpty || hasRule) tr pt pi acc with
    | error e =>
      rw [hs] at h
      dsimp only at h ⊢
      rw [h] at hR
      exact hR.symm
    | ok acc' =>
      rw [hs] at h
      dsimp only at h ⊢
      obtain ⟨c', hc', h⟩ := h
      rw [h] at hR
      dsimp only at hR
      have := ih (k + 1) c' acc' tr.unixLeapTime tr.localTimeTypeIndex
        (by rw [hn, List.length_cons]; omega) hc' R (by rw [Int.natCast_add]; exact hR)
      exact this

/-! ### one iteration of the second loop -/

/-- the source's tuple `(type before, type after, candidate before, candidate after)` as the model's structure -/
def toStep (x : LocalTimeType × LocalTimeType × Int × Int) : RuleStep :=
  { before := x.1, after := x.2.1, utBefore := x.2.2.1, utAfter := x.2.2.2 }

def toSteps (l : List (Int × LocalTimeType × LocalTimeType × Int × Int)) : List (Int × RuleStep) :=
  l.map (fun x => (x.1, toStep x.2))

/-- the body of `findRuleLoop` -/
def ruleStep (mk : LocalTimeType → Int → DateTime) (ns : Int) (t : Int) (s : RuleStep) (prev : Int) (acc : List Found) :
    Except TzError (List Found) :=
  if prev ≤ s.utBefore ∧ s.utBefore < t then .ok (acc ++ [.normal (mk s.before s.utBefore)])
  else if s.utBefore ≥ t ∧ s.utAfter < t then
    match DateTime.fromTimespecAndLocal t ns s.before with
    | .error e => .error e
    | .ok b =>
      match DateTime.fromTimespecAndLocal t ns s.after with
      | .error e => .error e
      | .ok a => .ok (acc ++ [.skipped b a])
  else .ok acc

theorem findRuleLoop_cons (mk : LocalTimeType → Int → DateTime) (ns t : Int) (s : RuleStep) (rest : List (Int × RuleStep))
    (prev : Int) (acc : List Found) :
    findRuleLoop mk ns ((t, s) :: rest) prev acc =
      match ruleStep mk ns t s prev acc with
      | .error e => .error e
      | .ok acc' => findRuleLoop mk ns rest t acc' := by
  rw [findRuleLoop]
  unfold ruleStep
  by_cases h1 : prev ≤ s.utBefore ∧ s.utBefore < t
  · rw [if_pos h1, if_pos h1]
  · rw [if_neg h1, if_neg h1]
    by_cases h2 : s.utBefore ≥ t ∧ s.utAfter < t
    · rw [if_pos h2, if_pos h2]
      cases DateTime.fromTimespecAndLocal t ns s.before with
      | error e => rfl
      | ok b =>
        dsimp only
        cases DateTime.fromTimespecAndLocal t ns s.after with
        | error e => rfl
        | ok a => rfl
    · rw [if_neg h2, if_neg h2]

/-- the second loop; `f` is the translated body, `hf` its equation for one iteration -/
theorem rule_loop (mk : LocalTimeType → Int → DateTime) (ns : Int)
    (f : List Found × Int → Int × LocalTimeType × LocalTimeType × Int × Int →
      Src.Step (List Found × Int) (Src.Flow (Except TzError (List Found)) (List Found × Int)))
    (hf : ∀ acc prev t x, ∀ B, f (acc, prev) (t, x) = B →
      match ruleStep mk ns t (toStep x) prev acc with
      | .error e => B = .ret (.ret (.error e))
      | .ok acc' => B = .next (acc', t)) :
    ∀ (l : List (Int × LocalTimeType × LocalTimeType × Int × Int)) acc prev,
      ∀ R, Src.forInR l f (acc, prev) = R →
      match findRuleLoop mk ns (toSteps l) prev acc with
      | .error e => R = .inr (.ret (.error e))
      | .ok acc' => ∃ prev', R = .inl (acc', prev') := by
  intro l
  induction l with
  | nil =>
    intro acc prev R hR
    rw [toSteps, List.map_nil, findRuleLoop]
    exact ⟨_, hR.symm⟩
  | cons a rest ih =>
    intro acc prev R hR
    obtain ⟨t, x⟩ := a
    rw [toSteps, List.map_cons, findRuleLoop_cons]
    have h := hf acc prev t x _ rfl
    simp only [Src.forInR] at hR
    cases hs : ruleStep mk ns t (toStep x) prev acc with
    | error e =>
      rw [hs] at h
      dsimp only at h ⊢
      rw [h] at hR
      exact hR.symm
    | ok acc' =>
      rw [hs] at h
      dsimp only at h ⊢
      rw [h] at hR
      exact ih acc' t R hR

/-! ### the list operations of the rule part -/

theorem windows2All_eq (l : List Int) :
    Src.windows2All (fun x => decide (Src.idx x 0 ≤ Src.idx x 1)) l = isSorted l := by
  induction l with
  | nil => rfl
  | cons a rest ih =>
    cases rest with
    | nil => rfl
    | cons b rest' =>
      rw [Src.windows2All, isSorted, ih]
      rfl

theorem swapPairs_eq : ∀ (l : List Int), Src.swapPairs l = swapPairs l
  | [] => rfl
  | [_] => rfl
  | a :: b :: rest => by rw [Src.swapPairs, swapPairs, swapPairs_eq rest]

theorem positionFrom_ge {α : Type} (p : α → Bool) :
    ∀ (l : List α) (i : Nat) (k : Int), Src.positionFrom p (i : Int) l = some k → ∃ j : Nat, k = ((i + j : Nat) : Int) := by
  intro l
  induction l with
  | nil => intro i k h; cases h
  | cons a rest ih =>
    intro i k h
    rw [Src.positionFrom] at h
    split at h
    · injection h with h; exact ⟨0, h.symm⟩
    · have h' : Src.positionFrom p (((i + 1 : Nat) : Int)) rest = some k := by rw [Int.natCast_add]; exact h
      obtain ⟨j, hj⟩ := ih (i + 1) k h'
      exact ⟨j + 1, by rw [hj]; congr 1; omega⟩

/-- `position` followed by slicing both arrays is `dropUntil` on the zipped arrays -/
theorem position_drop (prev : Int) :
    ∀ (ts : List Int) (ss : List (LocalTimeType × LocalTimeType × Int × Int)) (i : Nat),
      match Src.positionFrom (fun t => decide (prev < t)) (i : Int) ts with
      | some k => ∃ j : Nat, k = ((i + j : Nat) : Int) ∧
          toSteps (List.zip (ts.drop j) (ss.drop j)) = dropUntil prev (toSteps (List.zip ts ss))
      | none => dropUntil prev (toSteps (List.zip ts ss)) = [] := by
  intro ts
  induction ts with
  | nil => intro ss i; rfl
  | cons t rest ih =>
    intro ss i
    rw [Src.positionFrom]
    by_cases h : prev < t
    · simp only [h, decide_true, if_true]
      refine ⟨0, rfl, ?_⟩
      cases ss with
      | nil => rfl
      | cons s ss' =>
        simp only [List.drop_zero, List.zip_cons_cons, toSteps, List.map_cons, dropUntil, h, if_true]
    · simp only [h, decide_false, Bool.false_eq_true, if_false]
      cases ss with
      | nil =>
        have h0 : dropUntil prev (toSteps (List.zip (t :: rest) ([] : List (LocalTimeType × LocalTimeType × Int × Int)))) = [] := rfl
        cases hp : Src.positionFrom (fun t => decide (prev < t)) ((i : Int) + 1) rest with
        | none => exact h0
        | some k =>
          have hp' : Src.positionFrom (fun t => decide (prev < t)) (((i + 1 : Nat) : Int)) rest = some k := by
            rw [Int.natCast_add]; exact hp
          obtain ⟨j, hj⟩ := positionFrom_ge _ rest (i + 1) k hp'
          refine ⟨j + 1, by rw [hj]; congr 1; omega, ?_⟩
          rw [h0, List.drop_nil, List.zip_nil_right]; rfl
      | cons s ss' =>
        have := ih ss' (i + 1)
        rw [Int.natCast_add, Int.natCast_one] at this
        have hd : dropUntil prev (toSteps (List.zip (t :: rest) (s :: ss'))) = dropUntil prev (toSteps (List.zip rest ss')) := by
          simp only [List.zip_cons_cons, toSteps, List.map_cons, dropUntil, h, if_false]
        rw [hd]
        cases hp : Src.positionFrom (fun t => decide (prev < t)) ((i : Int) + 1) rest with
        | none => rw [hp] at this; exact this
        | some k =>
          rw [hp] at this
          obtain ⟨j, hj, hz⟩ := this
          exact ⟨j + 1, by rw [hj]; congr 1; omega, by rw [List.drop_succ_cons, List.drop_succ_cons]; exact hz⟩

/-- `position` as the source calls it, with the slices taken at `first_valid as usize` -/
theorem position_drop0 (prev : Int) (ts : List Int) (ss : List (LocalTimeType × LocalTimeType × Int × Int)) :
    match Src.position (fun t => decide (prev < t)) ts with
    | some k => toSteps (List.zip (ts.drop k.toNat) (ss.drop k.toNat)) = dropUntil prev (toSteps (List.zip ts ss))
    | none => dropUntil prev (toSteps (List.zip ts ss)) = [] := by
  have h := position_drop prev ts ss 0
  have e : Src.position (fun t => decide (prev < t)) ts = Src.positionFrom (fun t => decide (prev < t)) ((0 : Nat) : Int) ts := rfl
  rw [e]
  cases hp : Src.positionFrom (fun t => decide (prev < t)) ((0 : Nat) : Int) ts with
  | none => rw [hp] at h; exact h
  | some k =>
    rw [hp] at h
    obtain ⟨j, hj, hz⟩ := h
    have : k.toNat = j := by omega
    dsimp only
    rw [this]; exact hz

theorem toSteps_zip : ∀ (ts : List Int) (ss : List (LocalTimeType × LocalTimeType × Int × Int)),
    toSteps (List.zip ts ss) = List.zip ts (ss.map toStep)
  | [], _ => rfl
  | _ :: _, [] => rfl
  | t :: ts, s :: ss => by
    rw [List.map_cons, List.zip_cons_cons, List.zip_cons_cons, toSteps, List.map_cons, ← toSteps, toSteps_zip ts ss]

end TzVerif.Proofs.SrcEq
