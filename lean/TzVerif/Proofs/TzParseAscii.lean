/-
C09 part 2, helper lemmas: every byte consumed by the reference reader is ASCII, provided the names are.
-/
import TzVerif.Proofs.TzParseTop

namespace TzVerif.Proofs.TzParseNT
open TzVerif.Model TzVerif.Spec TzVerif.Gen
set_option linter.unusedSimpArgs false

/-- all bytes are ASCII -/
def A (s : Bytes) : Prop := ∀ c ∈ s, c < 128

theorem A_append {p r : Bytes} (hp : A p) (hr : A r) : A (p ++ r) := by
  intro c hc
  rcases List.mem_append.mp hc with h | h
  · exact hp c h
  · exact hr c h

theorem A_cons {c : Nat} {r : Bytes} (hc : c < 128) (hr : A r) : A (c :: r) := by
  intro d hd
  rcases List.mem_cons.mp hd with h | h
  · rw [h]; exact hc
  · exact hr d h

/-- a reader only consumes ASCII bytes: if what it leaves is ASCII, so was its input -/
def Asc {α} (m : R α) : Prop := ∀ s x r, m.run s = some (x, r) → A r → A s

theorem Asc_pure {α} (a : α) : Asc (pure a : R α) := by
  intro s x r h hr
  simp only [StateT.run_pure, Option.pure_def, Option.some.injEq, Prod.mk.injEq] at h
  rw [h.2]; exact hr

theorem Asc_failure {α} : Asc (failure : R α) := by
  intro s x r h hr
  rw [run_failure] at h; cases h

theorem Asc_bind {α β} {m : R α} {f : α → R β} (hm : Asc m) (hf : ∀ a, Asc (f a)) : Asc (m >>= f) := by
  intro s x r h hr
  simp only [StateT.run_bind, Option.bind_eq_bind, Option.bind_eq_some_iff] at h
  obtain ⟨⟨a, s'⟩, h1, h2⟩ := h
  exact hm s a s' h1 (hf a s' x r h2 hr)

theorem Asc_get {α} {f : Bytes → R α} (hf : ∀ s, Asc (f s)) : Asc (get >>= f) := by
  intro s x r h hr
  simp only [StateT.run_bind, StateT.run_get, pure_bind] at h
  exact hf s s x r h hr

theorem mem_takeWhile_sat {f : Nat → Bool} {s : Bytes} {c : Nat} (h : c ∈ s.takeWhile f) : f c = true := by
  induction s with
  | nil => simp at h
  | cons a s ih =>
    by_cases ha : f a = true
    · rw [List.takeWhile_cons_of_pos ha] at h
      rcases List.mem_cons.mp h with h | h
      · rw [h]; exact ha
      · exact ih h
    · rw [List.takeWhile_cons_of_neg ha] at h
      simp at h

theorem takeWhile_A {f : Nat → Bool} (hf : ∀ c, f c = true → c < 128) (s : Bytes) : A (s.takeWhile f) := by
  intro c hc
  exact hf c (mem_takeWhile_sat hc)

theorem Asc_rNum : Asc rNum := by
  intro s x r h hr
  rw [rNum_run] at h
  split at h
  · cases h
  · simp only [Option.some.injEq, Prod.mk.injEq] at h
    rw [← List.takeWhile_append_dropWhile (p := isAsciiDigit) (l := s), h.2]
    refine A_append (takeWhile_A ?_ s) hr
    intro c hc
    simp only [isAsciiDigit, Bool.and_eq_true, decide_eq_true_eq] at hc
    omega

theorem Asc_rByte (t : Nat) (ht : t < 128) : Asc (rByte t) := by
  intro s x r h hr
  cases rByte_run_some h
  exact A_cons ht hr

theorem Asc_rHms : Asc rHms := by
  unfold rHms
  refine Asc_bind Asc_rNum fun h => Asc_get fun s => ?_
  split
  · refine Asc_bind (Asc_rByte 58 (by decide)) fun _ => Asc_bind Asc_rNum fun m => Asc_get fun s => ?_
    split
    · exact Asc_bind (Asc_rByte 58 (by decide)) fun _ => Asc_bind Asc_rNum fun _ => Asc_pure _
    · exact Asc_pure _
  · exact Asc_pure _

theorem Asc_rSigned : Asc rSigned := by
  unfold rSigned
  refine Asc_get fun s => ?_
  split
  · exact Asc_bind (Asc_rByte 43 (by decide)) fun _ => Asc_bind Asc_rHms fun _ => Asc_pure _
  · exact Asc_bind (Asc_rByte 45 (by decide)) fun _ => Asc_bind Asc_rHms fun _ => Asc_pure _
  · exact Asc_bind Asc_rHms fun _ => Asc_pure _

theorem Asc_rDay : Asc rDay := by
  unfold rDay
  refine Asc_get fun s => ?_
  split
  · exact Asc_bind (Asc_rByte 74 (by decide)) fun _ => Asc_bind Asc_rNum fun _ => Asc_pure _
  · exact Asc_bind (Asc_rByte 77 (by decide)) fun _ => Asc_bind Asc_rNum fun _ =>
      Asc_bind (Asc_rByte 46 (by decide)) fun _ => Asc_bind Asc_rNum fun _ =>
      Asc_bind (Asc_rByte 46 (by decide)) fun _ => Asc_bind Asc_rNum fun _ => Asc_pure _
  · exact Asc_bind Asc_rNum fun _ => Asc_pure _

theorem Asc_rRule : Asc rRule := by
  unfold rRule
  refine Asc_bind Asc_rDay fun d => Asc_get fun s => ?_
  split
  · exact Asc_bind (Asc_rByte 47 (by decide)) fun _ => Asc_bind Asc_rSigned fun _ => Asc_pure _
  · exact Asc_pure _

theorem parseTimeZoneDesignation_ascii {s n r : Bytes} (h : parseTimeZoneDesignation s = .ok (n, r))
    (hn : A n) (hr : A r) : A s := by
  unfold parseTimeZoneDesignation at h
  simp only [readUntil, readWhile, spanWhile_eq] at h
  rcases s with _ | ⟨c, s⟩
  · intro c hc; simp at hc
  by_cases h60 : c = 60
  · subst h60
    simp only at h
    have e : (fun b : Nat => !(b == 62)) = (fun b => b != 62) := rfl
    rw [e] at h
    rcases hd : List.dropWhile (fun x => x != 62) s with _ | ⟨d, r2⟩
    · rw [hd] at h; simp [readExact] at h
    · rw [hd] at h
      have h62 : d = 62 := by simpa using dropWhile_head hd
      subst h62
      simp only [readExact, List.length_cons, Nat.le_add_left, if_true, List.take_succ_cons, List.take_zero,
        List.drop_succ_cons, List.drop_zero, Except.ok.injEq, Prod.mk.injEq] at h
      obtain ⟨e1, e2⟩ := h
      subst e2
      refine A_cons (by decide) ?_
      rw [← List.takeWhile_append_dropWhile (p := fun x => x != 62) (l := s), hd, e1]
      exact A_append hn (A_cons (by decide) hr)
  · mred [h60] at h
    simp only [Except.ok.injEq, Prod.mk.injEq] at h
    obtain ⟨e1, e2⟩ := h
    rw [← List.takeWhile_append_dropWhile (p := isAsciiAlphabetic) (l := c :: s), e1, e2]
    exact A_append hn hr

theorem rName_ascii {s n r : Bytes} (h : rName.run s = some (n, r)) (hn : A n) (hr : A r) : A s :=
  parseTimeZoneDesignation_ascii (model_of_rName h) hn hr

theorem nameValid_A {n : Bytes} (h : nameValid n = true) : A n := by
  intro c hc
  simp only [nameValid, Bool.and_eq_true, List.all_eq_true] at h
  have := h.2 c hc
  simp only [Bool.or_eq_true, Bool.and_eq_true, decide_eq_true_eq, beq_iff_eq] at this
  omega

theorem doffP_ascii {s : Bytes} {d : Option Signed} {r : Bytes} (h : doffP s = some (d, r)) (hr : A r) : A s := by
  unfold doffP at h
  split at h
  · simp only [Option.some.injEq, Prod.mk.injEq] at h
    rw [h.2]; exact hr
  · simp only [Option.bind_eq_some_iff, Option.some.injEq, Prod.mk.injEq] at h
    obtain ⟨⟨o, r'⟩, hq, _, e2⟩ := h
    simp only at e2
    subst e2
    exact Asc_rSigned _ _ _ hq hr

theorem readTz_ascii {ext : Bool} {b : Bytes} {t : TzAst} {p : Parts} (h1 : readTz ext b = some t)
    (h2 : denoteParts ext t = some p) : A b := by
  obtain ⟨s1, s2, hn, ho, hrest⟩ := (readTz_some_iff _ _ _).mp h1
  rcases t with ⟨n, o, td⟩
  simp only at hn ho hrest
  have hnv : nameValid n = true := by
    unfold denoteParts at h2
    simp only at h2
    split at h2
    · cases h2
    rename_i hc1
    have : hmsOk 24 o.hms = true ∧ nameValid n = true := by simpa using hc1
    exact this.2
  refine rName_ascii hn (nameValid_A hnv) (Asc_rSigned _ _ _ ho ?_)
  rcases hrest with ⟨hs, _⟩ | ⟨hs, d, hd, htd, _, _⟩
  · rw [hs]; intro c hc; simp at hc
  · subst htd
    obtain ⟨s3, s4, s5, s6, s7, hq3, hq4, hq5, hq6, hq7, hq8⟩ := (dstP_some_iff _ _ _).mp hd
    rcases d with ⟨dn, doff, x1, x2⟩
    obtain ⟨_, hv', _⟩ := denoteParts_dst h2
    refine rName_ascii hq3 (nameValid_A hv') (doffP_ascii hq4 (Asc_rByte 44 (by decide) _ _ _ hq5
      (Asc_rRule _ _ _ hq6 (Asc_rByte 44 (by decide) _ _ _ hq7 (Asc_rRule _ _ _ hq8 ?_)))))
    intro c hc; simp at hc

end TzVerif.Proofs.TzParseNT
