/-
Helper lemmas for C04 (POSIX DST rule evaluation). INTERFACE used by Properties/C04.lean.
-/
import TzVerif.Model.Rule
import TzVerif.Spec.Rule
import TzVerif.Proofs.Calendar
import TzVerif.Proofs.RuleDay

namespace TzVerif.Proofs
open TzVerif.Model TzVerif.Gen

/-- the day notations the Rust types can hold -/
def ValidRuleDay : RuleDay → Prop
  | .julian1 n => 1 ≤ n ∧ n ≤ 365
  | .julian0 n => 0 ≤ n ∧ n ≤ 365
  | .mwd m w d => 1 ≤ m ∧ m ≤ 12 ∧ 1 ≤ w ∧ w ≤ 5 ∧ 0 ≤ d ∧ d ≤ 6

/-- what the rule constructor guarantees about an accepted rule (besides consistency) -/
def RuleShape (a : AlternateTime) : Prop :=
  ValidRuleDay a.dstStart ∧ ValidRuleDay a.dstEnd ∧
  -90000 < a.std.utOffset ∧ a.std.utOffset < 93600 ∧ -90000 < a.dst.utOffset ∧ a.dst.utOffset < 93600 ∧
  -604800 < a.dstStartTime ∧ a.dstStartTime < 604800 ∧ -604800 < a.dstEndTime ∧ a.dstEndTime < 604800

theorem ruleDay_unixTime_eq (d : RuleDay) (hv : ValidRuleDay d) (y t : Int) :
    d.unixTime y t = 86400 * Spec.ruleDayNumber d y + t := by
  cases d with
  | julian1 n => exact julian1_unixTime n y t hv.1 hv.2
  | julian0 n => exact julian0_unixTime n y t hv.1 hv.2
  | mwd m w d =>
    obtain ⟨h1, h2, h3, h4, h5, h6⟩ := hv
    exact mwd_unixTime m w d y t ⟨h1, h2⟩ ⟨h3, h4⟩ ⟨h5, h6⟩

theorem ruleDayNumber_bounds (d : RuleDay) (hv : ValidRuleDay d) (y : Int) :
    Spec.daysBeforeYear y ≤ Spec.ruleDayNumber d y ∧ Spec.ruleDayNumber d y ≤ Spec.daysBeforeYear y + 365 := by
  cases d with
  | julian1 n => exact julian1_bounds n y hv.1 hv.2
  | julian0 n => exact julian0_bounds n y hv.1 hv.2
  | mwd m w d =>
    obtain ⟨h1, h2, h3, h4, h5, h6⟩ := hv
    exact mwd_bounds m w d y ⟨h1, h2⟩ ⟨h3, h4⟩ ⟨h5, h6⟩

theorem new_ok_shape (std dst : LocalTimeType) (ds : RuleDay) (st : Int) (de : RuleDay) (et : Int) (a : AlternateTime)
    (hds : ValidRuleDay ds) (hde : ValidRuleDay de)
    (h : AlternateTime.new std dst ds st de et = .ok a) :
    a = { std := std, dst := dst, dstStart := ds, dstStartTime := st, dstEnd := de, dstEndTime := et } ∧ RuleShape a := by
  unfold AlternateTime.new at h
  split at h
  · cases h
  · split at h
    · cases h
    · split at h
      · cases h
      · split at h
        · cases h
        · rename_i c1 c2 c3 c4
          injection h with h
          subst h
          refine ⟨rfl, hds, hde, ?_⟩
          simp only [Bool.not_eq_true, Bool.not_eq_false', Bool.and_eq_true, decide_eq_true_eq] at c1 c2 c3
          obtain ⟨c31, c32⟩ := c3
          unfold absI at c31 c32
          have k1 : guardOffsetLowHours * SECONDS_PER_HOUR = -90000 := by decide
          have k2 : guardOffsetHighHours * SECONDS_PER_HOUR = 93600 := by decide
          have k3 : guardDstOffsetLowHours * SECONDS_PER_HOUR = -90000 := by decide
          have k4 : guardDstOffsetHighHours * SECONDS_PER_HOUR = 93600 := by decide
          have k5 : SECONDS_PER_WEEK = 604800 := by decide
          rw [k1, k2] at c1
          rw [k3, k4] at c2
          rw [k5] at c31 c32
          show _ ∧ _ ∧ _ ∧ _ ∧ _ ∧ _ ∧ _ ∧ _
          dsimp only
          split at c31 <;> split at c32 <;> omega

/-- the year guard: the evaluation succeeds exactly when the instant's year is in [i32::MIN+2, i32::MAX−2] -/
theorem alternate_guard (a : AlternateTime) (u : Int) :
    (∃ t, a.findLocalTimeType u = .ok t) ↔
      (∃ c, UtcDateTime.fromTimespec u 0 = .ok c ∧ i32Min + 2 ≤ c.year ∧ c.year ≤ i32Max - 2) := by
  unfold AlternateTime.findLocalTimeType
  cases hc : UtcDateTime.fromTimespec u 0 with
  | error e =>
    constructor
    · rintro ⟨t, ht⟩; cases ht
    · rintro ⟨c, hc', -⟩; cases hc'
  | ok c =>
    have g1 : guardYearMarginLow = 2 := rfl
    have g2 : guardYearMarginHigh = 2 := rfl
    simp only [g1, g2]
    by_cases hy : i32Min + 2 ≤ c.year ∧ c.year ≤ i32Max - 2
    · constructor
      · intro _; exact ⟨c, rfl, hy⟩
      · intro _
        rw [if_neg (by simp [hy])]
        split
        · exact ⟨_, rfl⟩
        · exact ⟨_, rfl⟩
    · constructor
      · rintro ⟨t, ht⟩
        rw [if_pos (by simp only [Bool.not_eq_true', Bool.and_eq_false_iff, decide_eq_false_iff_not]; omega)] at ht
        cases ht
      · rintro ⟨c', hc', hy'⟩
        injection hc' with hc'
        subst hc'
        exact absurd hy' hy

theorem alternate_error (a : AlternateTime) (u : Int) (e : TzError) (h : a.findLocalTimeType u = .error e) :
    e = .outOfRange := by
  unfold AlternateTime.findLocalTimeType at h
  cases hc : UtcDateTime.fromTimespec u 0 with
  | error e' =>
    rw [hc] at h
    injection h with h
    subst h
    by_cases hr : MIN_UNIX_TIME ≤ u ∧ u ≤ MAX_UNIX_TIME
    · obtain ⟨c, hc'⟩ := (fromTimespec_accepted_iff u 0).mpr hr
      rw [hc'] at hc; cases hc
    · rw [fromTimespec_refused u 0 hr] at hc
      injection hc with hc
      exact hc.symm
  | ok c =>
    rw [hc] at h
    simp only at h
    split at h
    · injection h with h; exact h.symm
    · split at h <;> cases h

/-- the returned type is exactly one half of the rule -/
theorem alternate_returns_half (a : AlternateTime) (u : Int) (t : LocalTimeType) (h : a.findLocalTimeType u = .ok t) :
    t = a.dst ∨ t = a.std := by
  unfold AlternateTime.findLocalTimeType at h
  cases hc : UtcDateTime.fromTimespec u 0 with
  | error e' => rw [hc] at h; cases h
  | ok c =>
    rw [hc] at h
    simp only at h
    split at h
    · cases h
    · split at h
      · injection h with h; exact Or.inl h.symm
      · injection h with h; exact Or.inr h.symm

/-! ### the decision tree on six ordered instants -/

theorem tree_correct_A (t sP eP sC eC sN eN : Int)
    (h2 : eP ≤ sC) (h3 : sC ≤ eC) (h4 : eC ≤ sN) (h5 : sN ≤ eN) :
    alternateIsDst t sP eP sC eC sN eN = true ↔
      (sP ≤ t ∧ t < eP) ∨ (sC ≤ t ∧ t < eC) ∨ (sN ≤ t ∧ t < eN) := by
  unfold alternateIsDst
  rw [if_pos h3]
  repeat' split
  all_goals (try simp only [decide_eq_true_eq, Bool.false_eq_true, false_iff, true_iff])
  all_goals omega

theorem tree_correct_B (t sP eP sC eC sN eN : Int)
    (h1 : eP < sP) (h2 : sP ≤ eC) (h3 : eC < sC) (h4 : sC ≤ eN) (h5 : eN < sN) :
    alternateIsDst t sP eP sC eC sN eN = true ↔
      t < eP ∨ (sP ≤ t ∧ t < eC) ∨ (sC ≤ t ∧ t < eN) ∨ sN ≤ t := by
  unfold alternateIsDst
  rw [if_neg (by omega)]
  repeat' split
  all_goals (try simp only [decide_eq_true_eq, Bool.false_eq_true, false_iff, true_iff])
  all_goals omega

/-! ### every start / end instant of year `y` is within 698400 s of that year -/

theorem instant_window (a : AlternateTime) (hs : RuleShape a) (y : Int) :
    86400 * Spec.daysBeforeYear y - 698400 < Spec.startInstant a y ∧
    Spec.startInstant a y < 86400 * Spec.daysBeforeYear y + 31536000 + 698400 ∧
    86400 * Spec.daysBeforeYear y - 698400 < Spec.endInstant a y ∧
    Spec.endInstant a y < 86400 * Spec.daysBeforeYear y + 31536000 + 698400 := by
  obtain ⟨hvs, hve, ho1, ho2, ho3, ho4, ht1, ht2, ht3, ht4⟩ := hs
  have b1 := ruleDayNumber_bounds _ hvs y
  have b2 := ruleDayNumber_bounds _ hve y
  unfold Spec.startInstant Spec.endInstant
  omega

theorem far_past (a : AlternateTime) (hs : RuleShape a) (cy u : Int)
    (hu : 86400 * Spec.daysBeforeYear cy ≤ u) (y : Int) (hy : y ≤ cy - 2) :
    Spec.startInstant a y < u ∧ Spec.endInstant a y < u := by
  have w := instant_window a hs y
  have m := daysBeforeYear_mono y cy (by omega)
  constructor <;> omega

theorem far_future (a : AlternateTime) (hs : RuleShape a) (cy u : Int)
    (hu : u < 86400 * Spec.daysBeforeYear (cy + 1)) (y : Int) (hy : cy + 2 ≤ y) :
    u < Spec.startInstant a y ∧ u < Spec.endInstant a y := by
  have w := instant_window a hs y
  have m := daysBeforeYear_mono (cy + 1) y (by omega)
  constructor <;> omega

/-- the instant lies in its own civil year -/
theorem year_window (u : Int) (c : UtcDateTime) (hc : UtcDateTime.fromTimespec u 0 = .ok c) :
    86400 * Spec.daysBeforeYear c.year ≤ u ∧ u < 86400 * Spec.daysBeforeYear (c.year + 1) := by
  obtain ⟨hv, h1, h2, h3, h4, h5, h6, hsec, -, -, -⟩ := fromTimespec_fields u 0 c hc
  have hb := dayInYear_bounds _ _ _ hv
  have hy := Spec.daysBeforeYear_succ c.year
  unfold Spec.seconds Spec.dayNumber at hsec
  constructor <;> omega

theorem unixTime_start (a : AlternateTime) (hs : RuleShape a) (y : Int) :
    a.dstStart.unixTime y (a.dstStartTime - a.std.utOffset) = Spec.startInstant a y := by
  rw [ruleDay_unixTime_eq _ hs.1]; unfold Spec.startInstant; omega

theorem unixTime_end (a : AlternateTime) (hs : RuleShape a) (y : Int) :
    a.dstEnd.unixTime y (a.dstEndTime - a.dst.utOffset) = Spec.endInstant a y := by
  rw [ruleDay_unixTime_eq _ hs.2.1]; unfold Spec.endInstant; omega

/-- C04 under the tie-free hypothesis (see F1 for why it is needed) -/
theorem alternate_correct (a : AlternateTime) (hs : RuleShape a) (hi : Spec.Interleaves a) (ht : Spec.TieFree a)
    (u : Int) (t : LocalTimeType) (h : a.findLocalTimeType u = .ok t) :
    (Spec.IsDst a u ∧ t = a.dst) ∨ (¬ Spec.IsDst a u ∧ t = a.std) := by
  unfold AlternateTime.findLocalTimeType at h
  cases hc : UtcDateTime.fromTimespec u 0 with
  | error e' => rw [hc] at h; cases h
  | ok c =>
    rw [hc] at h
    simp only at h
    split at h
    · cases h
    · simp only [unixTime_start a hs, unixTime_end a hs] at h
      obtain ⟨hu1, hu2⟩ := year_window u c hc
      generalize c.year = cy at *
      -- instants of far years are out of reach
      have hfp := far_past a hs cy u hu1
      have hff := far_future a hs cy u hu2
      -- it suffices to characterise the tree
      suffices hk : alternateIsDst u (Spec.startInstant a (cy - 1)) (Spec.endInstant a (cy - 1))
          (Spec.startInstant a cy) (Spec.endInstant a cy)
          (Spec.startInstant a (cy + 1)) (Spec.endInstant a (cy + 1)) = true ↔ Spec.IsDst a u by
        split at h
        · next hd =>
          injection h with h
          exact Or.inl ⟨hk.mp hd, h.symm⟩
        · next hd =>
          injection h with h
          exact Or.inr ⟨fun hx => hd (hk.mpr hx), h.symm⟩
      by_cases hSF : Spec.StartFirst a
      · -- start-first order
        have hA : ∀ y, Spec.startInstant a y ≤ Spec.endInstant a y ∧
            Spec.endInstant a y ≤ Spec.startInstant a (y + 1) := by
          intro y
          rcases hi with hi | hi
          · exact hi y
          · have := hi y; have := hi (y + 1); have := hSF y; have := hSF (y + 1)
            constructor <;> omega
        have o1 := hA (cy - 1)
        have o2 := hA cy
        have o3 := hA (cy + 1)
        have e1 : cy - 1 + 1 = cy := by omega
        rw [e1] at o1
        rw [tree_correct_A u _ _ _ _ _ _ o1.2 o2.1 o2.2 o3.1]
        have hD : Spec.IsDst a u ↔ ∃ y, Spec.startInstant a y ≤ u ∧ u < Spec.endInstant a y := by
          unfold Spec.IsDst
          constructor
          · rintro (⟨-, hx⟩ | ⟨hn, -⟩)
            · exact hx
            · exact absurd hSF hn
          · intro hx; exact Or.inl ⟨hSF, hx⟩
        rw [hD]
        constructor
        · rintro (hx | hx | hx)
          · exact ⟨_, hx⟩
          · exact ⟨_, hx⟩
          · exact ⟨_, hx⟩
        · rintro ⟨y, hy1, hy2⟩
          have hy : y = cy - 1 ∨ y = cy ∨ y = cy + 1 := by
            by_cases q1 : y ≤ cy - 2
            · have := hfp y q1; omega
            · by_cases q2 : cy + 2 ≤ y
              · have := hff y q2; omega
              · omega
          rcases hy with rfl | rfl | rfl
          · exact Or.inl ⟨hy1, hy2⟩
          · exact Or.inr (Or.inl ⟨hy1, hy2⟩)
          · exact Or.inr (Or.inr ⟨hy1, hy2⟩)
      · -- end-first order, strict by tie-freeness
        have hT : ∀ y, Spec.endInstant a y < Spec.startInstant a y := by
          rcases ht with ht | ht
          · exact absurd ht hSF
          · exact ht
        have hB : ∀ y, Spec.startInstant a y ≤ Spec.endInstant a (y + 1) := by
          intro y
          rcases hi with hi | hi
          · have := hi y; have := hT y; omega
          · exact (hi y).2
        have o0 := hB (cy - 2)
        have o1 := hB (cy - 1)
        have o2 := hB cy
        have o3 := hB (cy + 1)
        have e0 : cy - 2 + 1 = cy - 1 := by omega
        have e1 : cy - 1 + 1 = cy := by omega
        have e3 : cy + 1 + 1 = cy + 2 := by omega
        rw [e0] at o0
        rw [e1] at o1
        rw [e3] at o3
        rw [tree_correct_B u _ _ _ _ _ _ (hT (cy - 1)) o1 (hT cy) o2 (hT (cy + 1))]
        have hD : Spec.IsDst a u ↔ ∃ y, Spec.startInstant a y ≤ u ∧ u < Spec.endInstant a (y + 1) := by
          unfold Spec.IsDst
          constructor
          · rintro (⟨hn, -⟩ | ⟨-, hx⟩)
            · exact absurd hn hSF
            · exact hx
          · intro hx; exact Or.inr ⟨hSF, hx⟩
        rw [hD]
        have p2 := hfp (cy - 2) (by omega)
        have f2 := hff (cy + 2) (by omega)
        constructor
        · rintro (hx | hx | hx | hx)
          · exact ⟨cy - 2, by omega, by rw [e0]; exact hx⟩
          · exact ⟨cy - 1, hx.1, by rw [e1]; exact hx.2⟩
          · exact ⟨cy, hx.1, hx.2⟩
          · exact ⟨cy + 1, hx, by rw [e3]; omega⟩
        · rintro ⟨y, hy1, hy2⟩
          have hy : y = cy - 2 ∨ y = cy - 1 ∨ y = cy ∨ y = cy + 1 := by
            by_cases q1 : y + 1 ≤ cy - 2
            · have := hfp (y + 1) q1; omega
            · by_cases q2 : cy + 2 ≤ y
              · have := hff y q2; omega
              · omega
          rcases hy with rfl | rfl | rfl | rfl
          · rw [e0] at hy2; exact Or.inl hy2
          · rw [e1] at hy2; exact Or.inr (Or.inl ⟨hy1, hy2⟩)
          · exact Or.inr (Or.inr (Or.inl ⟨hy1, hy2⟩))
          · exact Or.inr (Or.inr (Or.inr hy1))

/-- the answer can change only at a start or end instant -/
theorem isDst_const_between (a : AlternateTime) (u u' : Int) (hle : u ≤ u')
    (hs : ∀ y, ¬ (u < Spec.startInstant a y ∧ Spec.startInstant a y ≤ u'))
    (he : ∀ y, ¬ (u < Spec.endInstant a y ∧ Spec.endInstant a y ≤ u')) :
    Spec.IsDst a u ↔ Spec.IsDst a u' := by
  unfold Spec.IsDst
  have h1 : ∀ y, (Spec.startInstant a y ≤ u ↔ Spec.startInstant a y ≤ u') := fun y => by
    have := hs y; omega
  have h2 : ∀ y, (u < Spec.endInstant a y ↔ u' < Spec.endInstant a y) := fun y => by
    have := he y; omega
  simp only [h1, h2]

end TzVerif.Proofs
