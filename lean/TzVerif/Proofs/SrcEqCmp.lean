/-
The translated source equals the model: equality and ordering of zoned date-times, src/datetime/mod.rs
`impl PartialEq for DateTime` (`eq`), `impl PartialOrd for DateTime` (`partial_cmp`), and the `unix_time` getter.
`partial_cmp` goes through core's lexicographic comparison of pairs (`Src.tuple2_partial_cmp`, modelled).
-/
import TzVerif.Model.TimeZone
import TzVerif.SrcBase

namespace TzVerif.Proofs.SrcEq
open TzVerif TzVerif.Model

/-- the model's -1 / 0 / 1 as an `Ordering` -/
def ordOf (c : Int) : Ordering := if c = -1 then .lt else if c = 1 then .gt else .eq

theorem dt_eq_eq (a b : DateTime) : Src.DateTime.eq a b = a.beq b := by
  unfold Src.DateTime.eq DateTime.beq
  by_cases h1 : a.unixTime = b.unixTime <;> by_cases h2 : a.nanoseconds = b.nanoseconds <;> simp [h1, h2]

theorem dt_partial_cmp_eq (a b : DateTime) : Src.DateTime.partial_cmp a b = some (ordOf (a.cmp b)) := by
  unfold Src.DateTime.partial_cmp Src.tuple2_partial_cmp DateTime.cmp ordOf
  simp only []
  congr 1
  split <;> split <;> (try split) <;> (try split) <;> first | rfl | (exfalso; omega) | simp_all

theorem dt_unix_time_eq (a : DateTime) : Src.DateTime.unix_time a = a.unixTime := rfl

end TzVerif.Proofs.SrcEq
