/-
Helpers for Proofs/SrcEqRule.lean: an invariant rule for the `loopR` loops of the translated source, and
the fact that the index returned by `Src.binary_search_i64` is not negative, so that the `Int` index of
the source and the `Nat` index of the model (`BS.upper`) agree.
-/
import TzVerif.SrcBase
import TzVerif.Model.Rule
import TzVerif.Proofs.SrcEqCal

namespace TzVerif.Proofs.SrcEq
open TzVerif TzVerif.Model TzVerif.Gen

theorem idx_eq_tbl (l : List Int) (i : Int) : Src.idx l i = tbl l i := rfl

def stepOk {σ ρ : Type} (P : σ → Prop) (Q : ρ → Prop) : Src.Step σ ρ → Prop
  | .next s => P s
  | .stop s => P s
  | .ret r => Q r

def sumOk {σ ρ : Type} (P : σ → Prop) (Q : ρ → Prop) : σ ⊕ ρ → Prop
  | .inl s => P s
  | .inr r => Q r

/-- an invariant of a `loopR` loop: `P` on the states, `Q` on the returned values -/
theorem loopR_inv {σ ρ : Type} (P : σ → Prop) (Q : ρ → Prop) (f : σ → Src.Step σ ρ)
    (hf : ∀ s, P s → stepOk P Q (f s)) :
    ∀ (n : Nat) (s : σ), P s → sumOk P Q (Src.loopR n f s) := by
  intro n
  induction n with
  | zero => intro s hs; exact hs
  | succ n ih =>
    intro s hs
    have h := hf s hs
    unfold Src.loopR
    cases he : f s with
    | next s' => rw [he] at h; exact ih s' h
    | stop s' => rw [he] at h; exact h
    | ret r => rw [he] at h; exact h

/-- the index returned by the source's binary search (found or insertion point) is not negative -/
def bsNonneg : Except Int Int → Prop
  | .ok i => 0 ≤ i
  | .error i => 0 ≤ i

def bsInv (s : Int × Int × Int) : Prop := 0 ≤ s.1 ∧ s.1 ≤ s.2.1 ∧ s.2.2 = s.2.1 - s.1

theorem bs_aux (f : Int × Int × Int → Src.Step (Int × Int × Int) (Except Int Int))
    (hf : ∀ s, bsInv s → stepOk bsInv bsNonneg (f s))
    (n : Nat) (s : Int × Int × Int) (hs : bsInv s) :
    bsNonneg (match Src.loopR n f s with
      | .inr r => r
      | .inl (left, _, _) => Except.error left) := by
  have := loopR_inv bsInv bsNonneg f hf n s hs
  split
  · rename_i r he; rw [he] at this; exact this
  · rename_i a b c he; rw [he] at this; exact this.1

theorem binary_search_i64_nonneg (l : List Int) (x : Int) : bsNonneg (Src.binary_search_i64 l x) := by
  unfold Src.binary_search_i64
  apply bs_aux
  · intro ⟨a, b, c⟩ ⟨h1, h2, h3⟩
    simp only at h1 h2 h3 ⊢
    subst h3
    rw [Int.tdiv_eq_ediv_of_nonneg (by omega)]
    by_cases hlt : a < b
    · have hm : a + (b - a) / 2 < b := by omega
      have hm0 : 0 ≤ (b - a) / 2 := by omega
      by_cases hv : Src.copied (Src.idx l (a + (b - a) / 2)) < x
      · simp [hlt, hv, stepOk, bsInv]; omega
      · by_cases hv2 : x < Src.copied (Src.idx l (a + (b - a) / 2))
        · simp [hlt, hv, hv2, stepOk, bsInv]; omega
        · simp [hlt, hv, hv2, stepOk, bsNonneg]; omega
    · simp [hlt, stepOk, bsInv]; omega
  · simp [bsInv]


/-- `match binary_search(..) { Ok(x) => x + 1, Err(x) => x }` on the source's result -/
def bsUp : Except Int Int → Int
  | .ok i => i + 1
  | .error i => i

theorem bs_upper_eq (l : List Int) (x : Int) :
    bsUp (Src.binary_search_i64 l x) = ((binarySearch l x).upper : Int) := by
  have h1 := binary_search_i64_eq l x
  have h2 := binary_search_i64_nonneg l x
  cases he : Src.binary_search_i64 l x with
  | ok i =>
    rw [he] at h1 h2
    simp only [bsOfExcept] at h1
    simp only [bsNonneg] at h2
    rw [← h1]
    simp only [BS.upper, bsUp]
    omega
  | error i =>
    rw [he] at h1 h2
    simp only [bsOfExcept] at h1
    simp only [bsNonneg] at h2
    rw [← h1]
    simp only [BS.upper, bsUp]
    omega

end TzVerif.Proofs.SrcEq
