/-
Helper lemmas for C12 (leap-second scale). INTERFACE used by Properties/C12.lean.
-/
import TzVerif.Model.TimeZone
import TzVerif.Spec.Zone

namespace TzVerif.Proofs
open TzVerif.Model

/-! ### Helper definitions -/

/-- successive-record condition with the previous record's time and correction as parameters -/
def Steps : Int → Int → List LeapSecond → Prop
  | _, _, [] => True
  | t, c, l :: rest =>
    l.unixLeapTime - t ≥ 2419199 ∧ (l.correction - c = 1 ∨ l.correction - c = -1) ∧
      Steps l.unixLeapTime l.correction rest

/-- correction of the last record with time `< T` in a sorted list (default `c`), stopping early -/
def corrFrom : Int → List LeapSecond → Int → Int
  | c, [], _ => c
  | c, l :: rest, T => if l.unixLeapTime < T then corrFrom l.correction rest T else c

/-- `corrBefore` with a default -/
def corrBeforeD (c : Int) (ls : List LeapSecond) (T : Int) : Int :=
  match (ls.filter (fun l => l.unixLeapTime < T)).getLast? with
  | none => c
  | some l => l.correction

theorem steps_of_stepsOK (l : LeapSecond) (rest : List LeapSecond) (h : Spec.LeapStepsOK (l :: rest)) :
    Steps l.unixLeapTime l.correction rest := by
  induction rest generalizing l with
  | nil => trivial
  | cons m rest ih =>
    obtain ⟨h1, h2, h3⟩ := h
    exact ⟨h1, h2, ih m h3⟩

theorem steps_of_wf (ls : List LeapSecond) (hwf : Spec.LeapWF ls) : ∃ t, Steps t 0 ls := by
  cases ls with
  | nil => exact ⟨0, trivial⟩
  | cons l rest =>
    obtain ⟨⟨_, h2⟩, h3⟩ := hwf
    refine ⟨l.unixLeapTime - 2419199, ?_, ?_, steps_of_stepsOK l rest h3⟩
    · omega
    · omega

theorem steps_mem_gt (t c : Int) (ls : List LeapSecond) (h : Steps t c ls) :
    ∀ x ∈ ls, t + 2419199 ≤ x.unixLeapTime := by
  induction ls generalizing t c with
  | nil => intro x hx; cases hx
  | cons l rest ih =>
    obtain ⟨h1, _, h3⟩ := h
    intro x hx
    rcases List.mem_cons.mp hx with rfl | hx
    · omega
    · have := ih _ _ h3 x hx
      omega

theorem corrBeforeD_eq_corrFrom (t c : Int) (ls : List LeapSecond) (h : Steps t c ls) (T : Int) :
    corrBeforeD c ls T = corrFrom c ls T := by
  induction ls generalizing t c with
  | nil => rfl
  | cons l rest ih =>
    obtain ⟨h1, h2, h3⟩ := h
    by_cases hl : l.unixLeapTime < T
    · have := ih _ _ h3
      simp only [corrFrom, hl, if_true, ← this]
      simp only [corrBeforeD, List.filter_cons, hl, decide_true, if_true, List.getLast?_cons]
      cases (List.filter (fun l => decide (l.unixLeapTime < T)) rest).getLast? <;> rfl
    · have hempty : List.filter (fun l => decide (l.unixLeapTime < T)) rest = [] := by
        rw [List.filter_eq_nil_iff]
        intro x hx
        have := steps_mem_gt _ _ _ h3 x hx
        simp only [decide_eq_true_eq]
        omega
      simp [corrFrom, hl, corrBeforeD, hempty]

theorem corrBefore_eq_corrFrom (t : Int) (ls : List LeapSecond) (h : Steps t 0 ls) (T : Int) :
    Spec.corrBefore ls T = corrFrom 0 ls T :=
  corrBeforeD_eq_corrFrom t 0 ls h T

/-- drift bound: corrections move by at most 1 per record while times advance much faster -/
theorem corrFrom_drift (t c : Int) (ls : List LeapSecond) (h : Steps t c ls) (T : Int) (hT : t < T) :
    t + 1 - c ≤ T - corrFrom c ls T := by
  induction ls generalizing t c with
  | nil => simp only [corrFrom]; omega
  | cons l rest ih =>
    obtain ⟨h1, h2, h3⟩ := h
    by_cases hl : l.unixLeapTime < T
    · have := ih _ _ h3 hl
      simp only [corrFrom, hl, if_true]
      omega
    · simp only [corrFrom, hl, if_false]
      omega

theorem leapLoop_ge (u t c : Int) (ls : List LeapSecond) (h : Steps t c ls) (k : Int) (hge : t ≤ u + c)
    (hk : leapLoop u ls (u + c) = .ok k) : t ≤ k := by
  induction ls generalizing t c with
  | nil =>
    simp only [leapLoop, Except.ok.injEq] at hk
    omega
  | cons l rest ih =>
    obtain ⟨h1, h2, h3⟩ := h
    simp only [leapLoop] at hk
    split at hk
    · simp only [Except.ok.injEq] at hk; omega
    · split at hk
      · cases hk
      · split at hk
        · simp only [Except.ok.injEq] at hk; omega
        · have := ih _ _ h3 (by omega) hk
          omega

theorem galois_gen (u t c : Int) (ls : List LeapSecond) (h : Steps t c ls) (k T : Int)
    (hk : leapLoop u ls (u + c) = .ok k) : T ≤ k ↔ T - corrFrom c ls T ≤ u := by
  induction ls generalizing t c with
  | nil =>
    simp only [leapLoop, Except.ok.injEq] at hk
    simp only [corrFrom]
    omega
  | cons l rest ih =>
    obtain ⟨h1, h2, h3⟩ := h
    simp only [leapLoop] at hk
    by_cases hl : l.unixLeapTime < T
    · have hd := corrFrom_drift _ _ _ h3 T hl
      simp only [corrFrom, hl, if_true]
      split at hk
      · simp only [Except.ok.injEq] at hk; omega
      · split at hk
        · cases hk
        · split at hk
          · simp only [Except.ok.injEq] at hk; omega
          · exact ih _ _ h3 hk
    · simp only [corrFrom, hl, if_false]
      split at hk
      · simp only [Except.ok.injEq] at hk; omega
      · split at hk
        · cases hk
        · split at hk
          · simp only [Except.ok.injEq] at hk; omega
          · have := leapLoop_ge u _ _ rest h3 k (by omega) hk
            omega

theorem corrFrom_mono (t c : Int) (ls : List LeapSecond) (h : Steps t c ls) (T T' : Int) (hT : T ≤ T') :
    T - corrFrom c ls T ≤ T' - corrFrom c ls T' := by
  induction ls generalizing t c with
  | nil => simp only [corrFrom]; omega
  | cons l rest ih =>
    obtain ⟨h1, h2, h3⟩ := h
    by_cases hl : l.unixLeapTime < T
    · have hl' : l.unixLeapTime < T' := by omega
      simp only [corrFrom, hl, hl', if_true]
      exact ih _ _ h3
    · by_cases hl' : l.unixLeapTime < T'
      · have hd := corrFrom_drift _ _ _ h3 T' hl'
        simp only [corrFrom, hl, hl', if_true, if_false]
        omega
      · simp only [corrFrom, hl, hl', if_false]
        omega

theorem leapLoop_error (ls : List LeapSecond) (hr : Spec.LeapInRange ls) (u est : Int) (e : TzError)
    (h : leapLoop u ls est = .error e) :
    e = .outOfRange ∧ (u < i64Min + 2147483648 ∨ u > i64Max - 2147483648) := by
  induction ls generalizing est with
  | nil => simp [leapLoop] at h
  | cons l rest ih =>
    have hl := hr l (List.mem_cons_self)
    have hrest : Spec.LeapInRange rest := fun x hx => hr x (List.mem_cons_of_mem _ hx)
    simp only [leapLoop] at h
    split at h
    · cases h
    · split at h
      · rename_i hov
        simp only [Except.error.injEq] at h
        refine ⟨h.symm, ?_⟩
        simp only [i64Min, i64Max, i32Min, i32Max] at hov hl ⊢
        omega
      · split at h
        · cases h
        · exact ih hrest _ h

theorem corrFrom_succ (t c : Int) (pre post : List LeapSecond) (l : LeapSecond)
    (h : Steps t c (pre ++ l :: post)) :
    corrFrom c (pre ++ l :: post) (l.unixLeapTime + 1) = l.correction := by
  induction pre generalizing t c with
  | nil =>
    obtain ⟨h1, h2, h3⟩ := h
    have hl : l.unixLeapTime < l.unixLeapTime + 1 := by omega
    simp only [List.nil_append, corrFrom, hl, if_true]
    cases post with
    | nil => rfl
    | cons m post =>
      obtain ⟨h4, _, _⟩ := h3
      have hm : ¬ m.unixLeapTime < l.unixLeapTime + 1 := by omega
      simp only [corrFrom, hm, if_false]
  | cons p pre ih =>
    obtain ⟨h1, h2, h3⟩ := h
    have := steps_mem_gt _ _ _ h3 l (by simp)
    have hp : p.unixLeapTime < l.unixLeapTime + 1 := by omega
    simp only [List.cons_append, corrFrom, hp, if_true]
    exact ih _ _ h3

theorem corrBefore_succ (pre post : List LeapSecond) (l : LeapSecond) (hwf : Spec.LeapWF (pre ++ l :: post)) :
    Spec.corrBefore (pre ++ l :: post) (l.unixLeapTime + 1) = l.correction := by
  obtain ⟨t, ht⟩ := steps_of_wf _ hwf
  rw [corrBefore_eq_corrFrom t _ ht]
  exact corrFrom_succ t 0 pre post l ht

/-! ### Binary search -/

/-- number of leading elements `≤ x` -/
def cntI : List Int → Int → Nat
  | [], _ => 0
  | a :: rest, x => if a ≤ x then cntI rest x + 1 else 0

/-- `r` is the insertion point after all elements `≤ x` -/
def IsUpper (l : List Int) (x : Int) (r : Nat) : Prop :=
  r ≤ l.length ∧ (∀ i, i < r → l.getD i 0 ≤ x) ∧ (∀ i, r ≤ i → i < l.length → x < l.getD i 0)

theorem isUpper_unique (l : List Int) (x : Int) (r r' : Nat) (h : IsUpper l x r) (h' : IsUpper l x r') :
    r = r' := by
  obtain ⟨h1, h2, h3⟩ := h
  obtain ⟨h1', h2', h3'⟩ := h'
  rcases Nat.lt_trichotomy r r' with hlt | heq | hgt
  · have a := h2' r hlt
    have b := h3 r (Nat.le_refl _) (by omega)
    omega
  · exact heq
  · have a := h2 r' hgt
    have b := h3' r' (Nat.le_refl _) (by omega)
    omega

theorem bsLoop_isUpper (l : List Int) (hs : ∀ i j, i < j → j < l.length → l.getD i 0 < l.getD j 0)
    (x : Int) (left right : Nat) (hlr : left ≤ right) (hr : right ≤ l.length)
    (hlo : ∀ i, i < left → l.getD i 0 ≤ x) (hhi : ∀ i, right ≤ i → i < l.length → x < l.getD i 0) :
    IsUpper l x (binarySearchLoop l x left right).upper := by
  fun_induction binarySearchLoop l x left right with
  | case1 left right h mid v hv ih =>
    apply ih (by omega) hr
    · intro i hi
      by_cases him : i = mid
      · subst him; omega
      · have := hs i mid (by omega) (by omega)
        omega
    · exact hhi
  | case2 left right h mid v hv hv2 ih =>
    apply ih (by omega) (by omega) hlo
    intro i hi hil
    by_cases him : i = mid
    · subst him; omega
    · have := hs mid i (by omega) hil
      omega
  | case3 left right h mid v hv hv2 =>
    have hveq : l.getD mid 0 = x := by omega
    refine ⟨by simp only [BS.upper]; omega, ?_, ?_⟩
    · intro i hi
      simp only [BS.upper] at hi
      by_cases him : i = mid
      · subst him; omega
      · have := hs i mid (by omega) (by omega)
        omega
    · intro i hi hil
      simp only [BS.upper] at hi
      have := hs mid i (by omega) hil
      omega
  | case4 left right h =>
    have : left = right := by omega
    subst this
    exact ⟨hr, fun i hi => hlo i hi, hhi⟩

/-- strictly increasing, with a lower bound for the head -/
def IncFrom : Int → List Int → Prop
  | _, [] => True
  | t, a :: rest => t < a ∧ IncFrom a rest

theorem incFrom_getD_gt (t : Int) (l : List Int) (h : IncFrom t l) (i : Nat) (hi : i < l.length) :
    t < l.getD i 0 := by
  induction l generalizing t i with
  | nil => simp at hi
  | cons a rest ih =>
    obtain ⟨h1, h2⟩ := h
    cases i with
    | zero => simpa using h1
    | succ i =>
      have := ih a h2 i (by simpa using hi)
      simp only [List.getD_cons_succ]
      omega

theorem incFrom_sorted (t : Int) (l : List Int) (h : IncFrom t l) :
    ∀ i j, i < j → j < l.length → l.getD i 0 < l.getD j 0 := by
  induction l generalizing t with
  | nil => intro i j _ hj; simp at hj
  | cons a rest ih =>
    obtain ⟨h1, h2⟩ := h
    intro i j hij hj
    cases j with
    | zero => omega
    | succ j =>
      have hj' : j < rest.length := by simpa using hj
      cases i with
      | zero =>
        simpa using incFrom_getD_gt a rest h2 j hj'
      | succ i =>
        simpa using ih a h2 i j (by omega) hj'

theorem cntI_isUpper (t : Int) (l : List Int) (h : IncFrom t l) (x : Int) : IsUpper l x (cntI l x) := by
  induction l generalizing t with
  | nil => exact ⟨Nat.le_refl _, fun i hi => by simp [cntI] at hi, fun i _ hi => by simp at hi⟩
  | cons a rest ih =>
    obtain ⟨h1, h2⟩ := h
    by_cases ha : a ≤ x
    · obtain ⟨i1, i2, i3⟩ := ih a h2
      simp only [cntI, ha, if_true]
      refine ⟨by simpa using i1, ?_, ?_⟩
      · intro i hi
        cases i with
        | zero => simpa using ha
        | succ i => simpa using i2 i (by omega)
      · intro i hi hil
        cases i with
        | zero => omega
        | succ i => simpa using i3 i (by omega) (by simpa using hil)
    · simp only [cntI, ha, if_false]
      refine ⟨by omega, fun i hi => by omega, ?_⟩
      intro i _ hil
      cases i with
      | zero => simp only [List.getD_cons_zero]; omega
      | succ i =>
        have := incFrom_getD_gt a rest h2 i (by simpa using hil)
        simp only [List.getD_cons_succ]
        omega

theorem incFrom_of_steps (t c : Int) (ls : List LeapSecond) (h : Steps t c ls) :
    IncFrom t (ls.map (·.unixLeapTime)) := by
  induction ls generalizing t c with
  | nil => trivial
  | cons l rest ih =>
    obtain ⟨h1, _, h3⟩ := h
    exact ⟨show t < l.unixLeapTime by omega, ih _ _ h3⟩

theorem corrFrom_eq_index (c : Int) (ls : List LeapSecond) (T : Int) :
    corrFrom c ls T =
      (if cntI (ls.map (·.unixLeapTime)) (T - 1) > 0
       then (ls.getD (cntI (ls.map (·.unixLeapTime)) (T - 1) - 1) default).correction else c) := by
  induction ls generalizing c with
  | nil => simp [corrFrom, cntI]
  | cons l rest ih =>
    by_cases hl : l.unixLeapTime < T
    · have hl' : l.unixLeapTime ≤ T - 1 := by omega
      simp only [corrFrom, hl, if_true, List.map_cons, cntI, hl', ih l.correction]
      cases hc : cntI (List.map (fun x => x.unixLeapTime) rest) (T - 1) with
      | zero => simp
      | succ n => simp
    · have hl' : ¬ l.unixLeapTime ≤ T - 1 := by omega
      simp [corrFrom, hl, cntI, hl']

theorem binarySearch_upper (t : Int) (l : List Int) (h : IncFrom t l) (x : Int) :
    (binarySearch l x).upper = cntI l x := by
  apply isUpper_unique l x _ _ _ (cntI_isUpper t l h x)
  exact bsLoop_isUpper l (incFrom_sorted t l h) x 0 l.length (Nat.zero_le _) (Nat.le_refl _)
    (fun i hi => by omega) (fun i hi hil => by omega)

/-- `unix_leap_time_to_unix_time` computes the spec's `toUtc` (binary search = "last record before") -/
theorem unixLeapTimeToUnixTime_eq (ls : List LeapSecond) (hwf : Spec.LeapWF ls) (T : Int) :
    unixLeapTimeToUnixTime ls T =
      (if T = i64Min then .error .outOfRange
       else if i64Min ≤ Spec.toUtc ls T ∧ Spec.toUtc ls T ≤ i64Max then .ok (Spec.toUtc ls T)
       else .error .outOfRange) := by
  obtain ⟨t, ht⟩ := steps_of_wf ls hwf
  have hidx := binarySearch_upper t _ (incFrom_of_steps t 0 ls ht) (T - 1)
  have hc := corrFrom_eq_index 0 ls T
  simp only [unixLeapTimeToUnixTime, Spec.toUtc, corrBefore_eq_corrFrom t ls ht, hidx, hc]

/-- the Galois connection between the two conversions -/
theorem galois (ls : List LeapSecond) (hwf : Spec.LeapWF ls) (u k T : Int)
    (h : unixTimeToUnixLeapTime ls u = .ok k) : T ≤ k ↔ Spec.toUtc ls T ≤ u := by
  obtain ⟨t, ht⟩ := steps_of_wf ls hwf
  have := galois_gen u t 0 ls ht k T (by simpa [unixTimeToUnixLeapTime] using h)
  simpa [Spec.toUtc, corrBefore_eq_corrFrom t ls ht] using this

theorem toUtc_mono (ls : List LeapSecond) (hwf : Spec.LeapWF ls) (T T' : Int) (h : T ≤ T') :
    Spec.toUtc ls T ≤ Spec.toUtc ls T' := by
  obtain ⟨t, ht⟩ := steps_of_wf ls hwf
  simpa [Spec.toUtc, corrBefore_eq_corrFrom t ls ht] using corrFrom_mono t 0 ls ht T T' h

theorem toCount_mono (ls : List LeapSecond) (hwf : Spec.LeapWF ls) (u u' k k' : Int) (h : u ≤ u')
    (hk : unixTimeToUnixLeapTime ls u = .ok k) (hk' : unixTimeToUnixLeapTime ls u' = .ok k') : k ≤ k' := by
  have h1 : Spec.toUtc ls k ≤ u := (galois ls hwf u k k hk).mp (Int.le_refl k)
  exact (galois ls hwf u' k' k hk').mpr (by omega)

theorem roundtrip (ls : List LeapSecond) (hwf : Spec.LeapWF ls) (u k : Int) (hnd : ¬ Spec.Deleted ls u)
    (hk : unixTimeToUnixLeapTime ls u = .ok k) : Spec.toUtc ls k = u := by
  have hex : ∃ T, Spec.toUtc ls T = u := Classical.not_not.mp hnd
  obtain ⟨T, hT⟩ := hex
  have h1 : Spec.toUtc ls k ≤ u := (galois ls hwf u k k hk).mp (Int.le_refl k)
  have h2 : T ≤ k := (galois ls hwf u k T hk).mpr (by omega)
  have h3 := toUtc_mono ls hwf T k h2
  omega

/-- only overflow at the i64 ends makes the forward conversion fail -/
theorem toCount_error_only_overflow (ls : List LeapSecond) (hr : Spec.LeapInRange ls) (u : Int) (e : TzError)
    (h : unixTimeToUnixLeapTime ls u = .error e) :
    e = .outOfRange ∧ (u < i64Min + 2147483648 ∨ u > i64Max - 2147483648) := by
  exact leapLoop_error ls hr u u e h

/-- an inserted leap second: the record's count and the next one denote the same UTC second -/
theorem inserted_shares (pre post : List LeapSecond) (l : LeapSecond) (hwf : Spec.LeapWF (pre ++ l :: post))
    (hins : l.correction = Spec.corrBefore (pre ++ l :: post) l.unixLeapTime + 1) :
    Spec.toUtc (pre ++ l :: post) l.unixLeapTime = Spec.toUtc (pre ++ l :: post) (l.unixLeapTime + 1) := by
  have := corrBefore_succ pre post l hwf
  simp only [Spec.toUtc]
  omega

/-- a deleted second: the UTC value just after the record is skipped -/
theorem deleted_skips (pre post : List LeapSecond) (l : LeapSecond) (hwf : Spec.LeapWF (pre ++ l :: post))
    (hdel : l.correction = Spec.corrBefore (pre ++ l :: post) l.unixLeapTime - 1) :
    Spec.toUtc (pre ++ l :: post) (l.unixLeapTime + 1) = Spec.toUtc (pre ++ l :: post) l.unixLeapTime + 2 := by
  have := corrBefore_succ pre post l hwf
  simp only [Spec.toUtc]
  omega

end TzVerif.Proofs
