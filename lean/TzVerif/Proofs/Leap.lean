/-
Helper lemmas for C12 (leap-second scale). INTERFACE used by Properties/C12.lean.
-/
import TzVerif.Model.TimeZone
import TzVerif.Spec.Zone

namespace TzVerif.Proofs
open TzVerif.Model

/-- `unix_leap_time_to_unix_time` computes the spec's `toUtc` (binary search = "last record before") -/
theorem unixLeapTimeToUnixTime_eq (ls : List LeapSecond) (hwf : Spec.LeapWF ls) (T : Int) :
    unixLeapTimeToUnixTime ls T =
      (if T = i64Min then .error .outOfRange
       else if i64Min ≤ Spec.toUtc ls T ∧ Spec.toUtc ls T ≤ i64Max then .ok (Spec.toUtc ls T)
       else .error .outOfRange) := by
  sorry

/-- the Galois connection between the two conversions -/
theorem galois (ls : List LeapSecond) (hwf : Spec.LeapWF ls) (u k T : Int)
    (h : unixTimeToUnixLeapTime ls u = .ok k) : T ≤ k ↔ Spec.toUtc ls T ≤ u := by
  sorry

theorem toUtc_mono (ls : List LeapSecond) (hwf : Spec.LeapWF ls) (T T' : Int) (h : T ≤ T') :
    Spec.toUtc ls T ≤ Spec.toUtc ls T' := by
  sorry

theorem toCount_mono (ls : List LeapSecond) (hwf : Spec.LeapWF ls) (u u' k k' : Int) (h : u ≤ u')
    (hk : unixTimeToUnixLeapTime ls u = .ok k) (hk' : unixTimeToUnixLeapTime ls u' = .ok k') : k ≤ k' := by
  sorry

theorem roundtrip (ls : List LeapSecond) (hwf : Spec.LeapWF ls) (u k : Int) (hnd : ¬ Spec.Deleted ls u)
    (hk : unixTimeToUnixLeapTime ls u = .ok k) : Spec.toUtc ls k = u := by
  sorry

/-- only overflow at the i64 ends makes the forward conversion fail -/
theorem toCount_error_only_overflow (ls : List LeapSecond) (hr : Spec.LeapInRange ls) (u : Int) (e : TzError)
    (h : unixTimeToUnixLeapTime ls u = .error e) :
    e = .outOfRange ∧ (u < i64Min + 2147483648 ∨ u > i64Max - 2147483648) := by
  sorry

/-- an inserted leap second: the record's count and the next one denote the same UTC second -/
theorem inserted_shares (pre post : List LeapSecond) (l : LeapSecond) (hwf : Spec.LeapWF (pre ++ l :: post))
    (hins : l.correction = Spec.corrBefore (pre ++ l :: post) l.unixLeapTime + 1) :
    Spec.toUtc (pre ++ l :: post) l.unixLeapTime = Spec.toUtc (pre ++ l :: post) (l.unixLeapTime + 1) := by
  sorry

/-- a deleted second: the UTC value just after the record is skipped -/
theorem deleted_skips (pre post : List LeapSecond) (l : LeapSecond) (hwf : Spec.LeapWF (pre ++ l :: post))
    (hdel : l.correction = Spec.corrBefore (pre ++ l :: post) l.unixLeapTime - 1) :
    Spec.toUtc (pre ++ l :: post) (l.unixLeapTime + 1) = Spec.toUtc (pre ++ l :: post) l.unixLeapTime + 2 := by
  sorry

end TzVerif.Proofs
