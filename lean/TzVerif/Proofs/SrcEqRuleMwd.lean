/-
Helpers for Proofs/SrcEqRule.lean: `check_two_month_week_days`. The translated function is cut into its
three statements (sort, diff-days, final comparison); `src_check_two_month_week_days_unfold` (by `rfl`)
shows the cut is the generated definition itself. The diff-days statement is compared with the model's
`mwdDiffDays` arm by arm, the `unreachable!()` arm included.
-/
import TzVerif.SrcBase
import TzVerif.Model.Rule
import TzVerif.Proofs.SrcEqCal
import TzVerif.Proofs.SrcEqRuleSearch

namespace TzVerif.Proofs.SrcEq
open TzVerif TzVerif.Model TzVerif.Gen

/-- the `(diff_days_min, diff_days_max)` statement of `check_two_month_week_days`, as in Generated/Src.lean -/
def srcDiffDays (month_before week_before week_day_before month_after week_after week_day_after : Int) : Src.Flow Bool (Int × Int) :=
    (if (decide (week_day_before = week_day_after)) then
       match (if (((decide (1 ≤ week_before)) && (decide (week_before ≤ 4))) && (decide (week_after = 5)) && (decide (month_before = month_after))) then
          Src.Flow.val (((4 - week_before), (5 - week_before)))
        else
          if (((decide (1 ≤ week_before)) && (decide (week_before ≤ 4))) && ((decide (1 ≤ week_after)) && (decide (week_after ≤ 4))) && (decide (month_before ≠ month_after))) then
            Src.Flow.val ((((4 - week_before) + week_after), ((5 - week_before) + week_after)))
          else
            Src.Flow.ret true) with
       | .ret __r => Src.Flow.ret __r
       | .val ((diff_week_min, diff_week_max)) =>
         Src.Flow.val (((diff_week_min * TzVerif.Gen.DAYS_PER_WEEK), (diff_week_max * TzVerif.Gen.DAYS_PER_WEEK)))
     else
       let n := ((week_day_after - week_day_before) % TzVerif.Gen.DAYS_PER_WEEK)
       if (decide (month_before = month_after)) then
         if ((decide (week_before = 5)) && (decide (week_after = 5))) then
           Src.Flow.val (((n - TzVerif.Gen.DAYS_PER_WEEK), n))
         else
           if (((decide (1 ≤ week_before)) && (decide (week_before ≤ 4))) && ((decide (1 ≤ week_after)) && (decide (week_after ≤ 4)))) then
             Src.Flow.val (((n + (TzVerif.Gen.DAYS_PER_WEEK * ((week_after - week_before) - 1))), (n + (TzVerif.Gen.DAYS_PER_WEEK * (week_after - week_before)))))
           else
             if (((decide (1 ≤ week_before)) && (decide (week_before ≤ 4))) && (decide (week_after = 5))) then
               let days_in_month := (Src.idx TzVerif.Gen.DAYS_IN_MONTHS_NORMAL_YEAR (month_before - 1))
               match (Src.cmp n (Int.tmod days_in_month TzVerif.Gen.DAYS_PER_WEEK)) with
               | .lt =>
                 Src.Flow.val (((n + (TzVerif.Gen.DAYS_PER_WEEK * (4 - week_before))), (n + (TzVerif.Gen.DAYS_PER_WEEK * (5 - week_before)))))
               | .eq =>
                 Src.Flow.ret true
               | .gt =>
                 Src.Flow.val (((n + (TzVerif.Gen.DAYS_PER_WEEK * (3 - week_before))), (n + (TzVerif.Gen.DAYS_PER_WEEK * (4 - week_before)))))
             else
               default
       else
         if (((decide (1 ≤ week_before)) && (decide (week_before ≤ 4))) && ((decide (1 ≤ week_after)) && (decide (week_after ≤ 4)))) then
           let days_in_month := (Src.idx TzVerif.Gen.DAYS_IN_MONTHS_NORMAL_YEAR (month_before - 1))
           match (Src.cmp n (Int.tmod days_in_month TzVerif.Gen.DAYS_PER_WEEK)) with
           | .lt =>
             Src.Flow.val (((n + (TzVerif.Gen.DAYS_PER_WEEK * ((4 - week_before) + week_after))), (n + (TzVerif.Gen.DAYS_PER_WEEK * ((5 - week_before) + week_after)))))
           | .eq =>
             Src.Flow.ret true
           | .gt =>
             Src.Flow.val (((n + (TzVerif.Gen.DAYS_PER_WEEK * ((3 - week_before) + week_after))), (n + (TzVerif.Gen.DAYS_PER_WEEK * ((4 - week_before) + week_after)))))
         else
           if ((decide (week_before = 5)) && ((decide (1 ≤ week_after)) && (decide (week_after ≤ 4)))) then
             Src.Flow.val (((n + (TzVerif.Gen.DAYS_PER_WEEK * (week_after - 1))), (n + (TzVerif.Gen.DAYS_PER_WEEK * week_after))))
           else
             Src.Flow.ret true)

/-- the tail of `check_two_month_week_days` after the (before, after) sort -/
def srcTail (b : Src.MonthWeekDay) (tb : Int) (a : Src.MonthWeekDay) (ta : Int) : Bool :=
  match srcDiffDays b.month b.week b.weekDay a.month a.week a.weekDay with
  | .ret r => r
  | .val (dmin, dmax) =>
    ((decide (tb ≤ ((dmin * SECONDS_PER_DAY) + ta))) || (decide (((dmax * SECONDS_PER_DAY) + ta) ≤ tb)))

/-- the sort step of the source: `none` = early `return true` -/
def srcSort (m1 : Src.MonthWeekDay) (t1 : Int) (m2 : Src.MonthWeekDay) (t2 : Int) :
    Src.Flow Bool (Src.MonthWeekDay × Int × Src.MonthWeekDay × Int) :=
  let rem := ((m2.month - m1.month) % MONTHS_PER_YEAR)
  if (decide (rem = 0)) then
    if (decide (m1.week ≤ m2.week)) then Src.Flow.val ((m1, t1, m2, t2)) else Src.Flow.val ((m2, t2, m1, t1))
  else
    if (decide (rem = 1)) then Src.Flow.val ((m1, t1, m2, t2))
    else
      if (decide (rem = (MONTHS_PER_YEAR - 1))) then Src.Flow.val ((m2, t2, m1, t1))
      else Src.Flow.ret true

theorem src_check_two_month_week_days_unfold (m1 : Src.MonthWeekDay) (t1 : Int) (m2 : Src.MonthWeekDay) (t2 : Int) :
    Src.check_two_month_week_days m1 t1 m2 t2 =
      match srcSort m1 t1 m2 t2 with
      | .ret r => r
      | .val (b, tb, a, ta) => srcTail b tb a ta := rfl


theorem src_cmp_lt {a b : Int} (h : a < b) : Src.cmp a b = .lt := by simp [Src.cmp, h]
theorem src_cmp_eq {a b : Int} (h : a = b) : Src.cmp a b = .eq := by simp [Src.cmp, h]
theorem src_cmp_gt {a b : Int} (h1 : ¬ a < b) (h2 : ¬ a = b) : Src.cmp a b = .gt := by simp [Src.cmp, h1, h2]

def tailOfOpt (o : Option (Int × Int)) (tb ta : Int) : Bool :=
  match o with
  | none => true
  | some (dmin, dmax) => decide (tb ≤ dmin * SECONDS_PER_DAY + ta) || decide (dmax * SECONDS_PER_DAY + ta ≤ tb)

def tailOfFlow (f : Src.Flow Bool (Int × Int)) (tb ta : Int) : Bool :=
  match f with
  | .ret r => r
  | .val (dmin, dmax) => decide (tb ≤ dmin * SECONDS_PER_DAY + ta) || decide (dmax * SECONDS_PER_DAY + ta ≤ tb)

theorem tail_same_weekday (mb wb wd ma wa tb ta : Int) :
    tailOfFlow (srcDiffDays mb wb wd ma wa wd) tb ta = tailOfOpt (mwdDiffDays mb wb wd ma wa wd) tb ta := by
  unfold srcDiffDays mwdDiffDays
  simp only [decide_true, if_true]
  by_cases hb : 1 ≤ wb ∧ wb ≤ 4 <;> by_cases ha : 1 ≤ wa ∧ wa ≤ 4 <;> by_cases ha5 : wa = 5 <;> by_cases hm : mb = ma <;>
    simp [hb, ha, ha5, hm, tailOfFlow, tailOfOpt]


/-- the `unreachable!()` arm: `default = Flow.val (0, 0)`, and the final disjunction is then true -/
theorem tail_default (tb ta : Int) :
    (match (default : Src.Flow Bool (Int × Int)) with
      | .ret r => r
      | .val (dmin, dmax) => decide (tb ≤ dmin * SECONDS_PER_DAY + ta) || decide (dmax * SECONDS_PER_DAY + ta ≤ tb)) = true := by
  show (decide (tb ≤ 0 * SECONDS_PER_DAY + ta) || decide (0 * SECONDS_PER_DAY + ta ≤ tb)) = true
  simp only [Int.zero_mul, Int.zero_add, Bool.or_eq_true, decide_eq_true_eq]
  omega

theorem tail_cmp (n r : Int) (p q : Int × Int) (tb ta : Int) :
    (match (match Src.cmp n r with
        | .lt => Src.Flow.val p
        | .eq => Src.Flow.ret true
        | .gt => Src.Flow.val q : Src.Flow Bool (Int × Int)) with
      | .ret r => r
      | .val (dmin, dmax) => decide (tb ≤ dmin * SECONDS_PER_DAY + ta) || decide (dmax * SECONDS_PER_DAY + ta ≤ tb)) =
    (match (if n < r then some p else if n = r then none else some q) with
      | none => true
      | some (dmin, dmax) => decide (tb ≤ dmin * SECONDS_PER_DAY + ta) || decide (dmax * SECONDS_PER_DAY + ta ≤ tb)) := by
  by_cases h1 : n < r
  · rw [src_cmp_lt h1]; simp [h1]
  · by_cases h2 : n = r
    · rw [src_cmp_eq h2]; simp [h2]
    · rw [src_cmp_gt h1 h2]; simp [h1, h2]

set_option linter.unusedSimpArgs false in
theorem tail_diff_weekday_same_month (m wb wdb wa wda tb ta : Int) (hwd : wdb ≠ wda) :
    tailOfFlow (srcDiffDays m wb wdb m wa wda) tb ta = tailOfOpt (mwdDiffDays m wb wdb m wa wda) tb ta := by
  unfold srcDiffDays mwdDiffDays
  simp only [hwd, decide_true, decide_false, if_true, idx_eq_tbl]
  by_cases hb : 1 ≤ wb ∧ wb ≤ 4 <;> by_cases ha : 1 ≤ wa ∧ wa ≤ 4 <;> by_cases ha5 : wa = 5 <;> by_cases hb5 : wb = 5
  all_goals first
    | (simp [hb, ha, ha5, hb5, tailOfFlow, tailOfOpt]; done)
    | (simp [hb, ha, ha5, hb5, tailOfFlow, tailOfOpt]; exact tail_default tb ta)
    | (simp [hb, ha, ha5, hb5, tailOfFlow, tailOfOpt]; exact tail_cmp _ _ _ _ tb ta)

set_option linter.unusedSimpArgs false in
theorem tail_diff_weekday_diff_month (mb wb wdb ma wa wda tb ta : Int) (hwd : wdb ≠ wda) (hm : mb ≠ ma) :
    tailOfFlow (srcDiffDays mb wb wdb ma wa wda) tb ta = tailOfOpt (mwdDiffDays mb wb wdb ma wa wda) tb ta := by
  unfold srcDiffDays mwdDiffDays
  simp only [hwd, hm, decide_false, idx_eq_tbl]
  by_cases hb : 1 ≤ wb ∧ wb ≤ 4 <;> by_cases ha : 1 ≤ wa ∧ wa ≤ 4 <;> by_cases hb5 : wb = 5
  all_goals first
    | (simp [hb, ha, hb5, tailOfFlow, tailOfOpt]; done)
    | (simp [hb, ha, hb5, tailOfFlow, tailOfOpt]; exact tail_cmp _ _ _ _ tb ta)

theorem tail_eq (mb wb wdb ma wa wda tb ta : Int) :
    tailOfFlow (srcDiffDays mb wb wdb ma wa wda) tb ta = tailOfOpt (mwdDiffDays mb wb wdb ma wa wda) tb ta := by
  by_cases hwd : wdb = wda
  · subst hwd; exact tail_same_weekday ..
  · by_cases hm : mb = ma
    · subst hm; exact tail_diff_weekday_same_month _ _ _ _ _ _ _ hwd
    · exact tail_diff_weekday_diff_month _ _ _ _ _ _ _ _ hwd hm

theorem src_tail_eq (mb wb wdb ma wa wda tb ta : Int) :
    srcTail { month := mb, week := wb, weekDay := wdb } tb { month := ma, week := wa, weekDay := wda } ta
      = tailOfOpt (mwdDiffDays mb wb wdb ma wa wda) tb ta := by
  rw [← tail_eq]; rfl

end TzVerif.Proofs.SrcEq
