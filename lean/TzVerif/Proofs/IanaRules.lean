/-
Every DST rule of the vendored IANA snapshot satisfies the hypotheses of the partial theorems
(C04 `evaluated_correctly_partial`, C05/C06 `*_rule_partial`): decided on the 28-year cycle by the
kernel and lifted to all years by the year-kind reduction.
-/
import TzVerif.Generated.IanaRules
import TzVerif.Proofs.ConsistKinds
import TzVerif.Proofs.SearchRule

namespace TzVerif.Proofs
open TzVerif.Model TzVerif.Gen

theorem all_es_strict (a : AlternateTime) : (∀ y, Spec.endInstant a y < Spec.startInstant a y) ↔
    Spec.allYears (fun y => Spec.endInstant a y < Spec.startInstant a y) = true :=
  allYears_iff _ _ (fun _ => decide_eq_true_iff) (fun y y' h hlt => by
    have := cmp_se a y y' h
    omega)

theorem tieFree_iff_B (a : AlternateTime) (hs : RuleShape a) : Spec.TieFree a ↔ Spec.tieFreeB a = true := by
  unfold Spec.TieFree Spec.tieFreeB
  rw [Bool.or_eq_true, ← startFirst_iff_B a hs, ← all_es_strict a]

def validRuleDayB : RuleDay → Bool
  | .julian1 n => decide (1 ≤ n ∧ n ≤ 365)
  | .julian0 n => decide (0 ≤ n ∧ n ≤ 365)
  | .mwd m w d => decide (1 ≤ m ∧ m ≤ 12 ∧ 1 ≤ w ∧ w ≤ 5 ∧ 0 ≤ d ∧ d ≤ 6)

theorem validRuleDayB_iff (d : RuleDay) : validRuleDayB d = true ↔ ValidRuleDay d := by
  cases d <;> simp [validRuleDayB, ValidRuleDay]

def ruleShapeB (a : AlternateTime) : Bool :=
  validRuleDayB a.dstStart && validRuleDayB a.dstEnd &&
  decide (-90000 < a.std.utOffset ∧ a.std.utOffset < 93600 ∧ -90000 < a.dst.utOffset ∧ a.dst.utOffset < 93600 ∧
    -604800 < a.dstStartTime ∧ a.dstStartTime < 604800 ∧ -604800 < a.dstEndTime ∧ a.dstEndTime < 604800)

theorem ruleShapeB_iff (a : AlternateTime) : ruleShapeB a = true ↔ RuleShape a := by
  unfold ruleShapeB RuleShape
  simp only [Bool.and_eq_true, validRuleDayB_iff, decide_eq_true_eq]
  constructor
  · rintro ⟨⟨h1, h2⟩, h3⟩; exact ⟨h1, h2, h3⟩
  · rintro ⟨h1, h2, h3⟩; exact ⟨⟨h1, h2⟩, h3⟩

def ruleOKB (a : AlternateTime) : Bool := ruleShapeB a && Spec.interleavesB a && Spec.tieFreeB a

theorem ruleOKB_iff (a : AlternateTime) : ruleOKB a = true ↔ RuleOK a := by
  unfold ruleOKB RuleOK
  simp only [Bool.and_eq_true]
  constructor
  · rintro ⟨⟨h1, h2⟩, h3⟩
    have hs := (ruleShapeB_iff a).mp h1
    exact ⟨hs, (interleaves_iff_B a hs).mpr h2, (tieFree_iff_B a hs).mpr h3⟩
  · rintro ⟨hs, h2, h3⟩
    exact ⟨⟨(ruleShapeB_iff a).mpr hs, (interleaves_iff_B a hs).mp h2⟩, (tieFree_iff_B a hs).mp h3⟩

set_option maxRecDepth 100000 in
theorem iana_rules_okB : ianaRules.all ruleOKB = true := by decide +kernel

/-- every DST rule of the IANA database satisfies the hypotheses of the partial theorems -/
theorem iana_rules_ok : ∀ a ∈ ianaRules, RuleOK a := by
  intro a ha
  have := List.all_eq_true.mp iana_rules_okB a ha
  exact (ruleOKB_iff a).mp this

set_option maxRecDepth 100000 in
/-- … and each of them is a rule the constructor accepts -/
theorem iana_rules_accepted :
    ianaRules.all (fun a => (AlternateTime.new a.std a.dst a.dstStart a.dstStartTime a.dstEnd a.dstEndTime) == .ok a) = true := by
  decide +kernel

end TzVerif.Proofs
