/-
C08: why `decode_encode_v1` / `decode_encode_v2` need the hypothesis that every local time type is one
`LocalTimeType.new` accepts. `LayoutOK` alone admits a 1-character designation (or the offset `i32Min`):
the decoder refuses it, the zone constructor does not look at it.
-/
import TzVerif.Model.TzFile
import TzVerif.Spec.Tzif

namespace TzVerif.Proofs.TzifCex
open TzVerif.Model TzVerif.Spec

def zA : TimeZone := ⟨[], [⟨0, false, some [65]⟩], [], none⟩
def lA : Layout := ⟨0, List.replicate 15 0, [65, 0], [0], [], []⟩
def zB : TimeZone := ⟨[], [⟨i32Min, false, none⟩], [], none⟩
def lB : Layout := ⟨0, List.replicate 15 0, [0], [0], [], []⟩

theorem layoutOK_A : LayoutOK zA lA := by
  refine ⟨by decide, by decide, by decide, by decide, by decide, by decide, by decide, by decide, by decide,
    by decide, ?_, by decide, by decide, ?_, by decide, by decide, by decide⟩
  · intro i hi
    have : i = 0 := by simp only [zA, List.length_cons, List.length_nil] at hi; omega
    subst this; decide
  · intro i hi
    have : i = 0 := by simp only [zA, List.length_cons, List.length_nil] at hi; omega
    subst this; decide

theorem layoutOK_B : LayoutOK zB lB := by
  refine ⟨by decide, by decide, by decide, by decide, by decide, by decide, by decide, by decide, by decide,
    by decide, ?_, by decide, by decide, ?_, by decide, by decide, by decide⟩
  · intro i hi
    have : i = 0 := by simp only [zB, List.length_cons, List.length_nil] at hi; omega
    subst this; decide
  · intro i hi
    have : i = 0 := by simp only [zB, List.length_cons, List.length_nil] at hi; omega
    subst this; decide

theorem timesFit_A : TimesFit 32 zA := ⟨by decide, by decide⟩
theorem timesFit_B : TimesFit 32 zB := ⟨by decide, by decide⟩

/-- a one-character designation: `LayoutOK`, version byte 0, times fit, yet the decoder refuses -/
theorem decode_encode_v1_false_without_names :
    parseTzFile (encodeV1 zA lA) = .error (.localTimeType .invalidTimeZoneDesignationLength) ∧
    TimeZone.new zA.transitions zA.localTimeTypes zA.leapSeconds none = .ok zA := by
  constructor <;> decide +kernel

/-- the offset `i32Min`: allowed by `LayoutOK`, refused by the decoder -/
theorem decode_encode_v1_false_without_offset :
    parseTzFile (encodeV1 zB lB) = .error (.localTimeType .invalidUtcOffset) ∧
    TimeZone.new zB.transitions zB.localTimeTypes zB.leapSeconds none = .ok zB := by
  constructor <;> decide +kernel

end TzVerif.Proofs.TzifCex
