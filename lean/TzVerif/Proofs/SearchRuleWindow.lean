/-
Helper lemmas for C05 / C06 on zones with a DST rule: the three-year window of rule instants the search
builds (its order, `rawList_cases`), and what the window says about `Spec.IsDst` for instants close to
the searched civil year (`isDst_window_A/B`). Used by Proofs/SearchRule.lean.
-/
import TzVerif.Model.Find
import TzVerif.Spec.Rule
import TzVerif.Proofs.RuleEval
import TzVerif.Proofs.SearchRuleLoop

namespace TzVerif.Proofs
open TzVerif.Model TzVerif.Gen

/-- the synthetic transition std → dst (at a DST start) / dst → std (at a DST end) for local count `c` -/
def stepStart (a : AlternateTime) (c : Int) : RuleStep :=
  { before := a.std, after := a.dst, utBefore := c - a.std.utOffset, utAfter := c - a.dst.utOffset }

def stepEnd (a : AlternateTime) (c : Int) : RuleStep :=
  { before := a.dst, after := a.std, utBefore := c - a.dst.utOffset, utAfter := c - a.std.utOffset }

def times0 (a : AlternateTime) (y : Int) : List Int :=
  [Spec.startInstant a (y - 1), Spec.endInstant a (y - 1), Spec.startInstant a y, Spec.endInstant a y,
   Spec.startInstant a (y + 1), Spec.endInstant a (y + 1), i64Max]

/-- the list the search iterates over (before `dropUntil`), as the code builds it -/
def rawList (a : AlternateTime) (y c : Int) : List (Int × RuleStep) :=
  (if isSorted (times0 a y) then times0 a y else swapPairs (times0 a y)).zip
    (if isSorted (times0 a y) then
      [stepStart a c, stepEnd a c, stepStart a c, stepEnd a c, stepStart a c, stepEnd a c, stepStart a c]
     else [stepEnd a c, stepStart a c, stepEnd a c, stepStart a c, stepEnd a c, stepStart a c, stepEnd a c])

def listA (a : AlternateTime) (y c : Int) : List (Int × RuleStep) :=
  [(Spec.startInstant a (y - 1), stepStart a c), (Spec.endInstant a (y - 1), stepEnd a c),
   (Spec.startInstant a y, stepStart a c), (Spec.endInstant a y, stepEnd a c),
   (Spec.startInstant a (y + 1), stepStart a c), (Spec.endInstant a (y + 1), stepEnd a c),
   (i64Max, stepStart a c)]

def listB (a : AlternateTime) (y c : Int) : List (Int × RuleStep) :=
  [(Spec.endInstant a (y - 1), stepEnd a c), (Spec.startInstant a (y - 1), stepStart a c),
   (Spec.endInstant a y, stepEnd a c), (Spec.startInstant a y, stepStart a c),
   (Spec.endInstant a (y + 1), stepEnd a c), (Spec.startInstant a (y + 1), stepStart a c),
   (i64Max, stepEnd a c)]

def ChainA (a : AlternateTime) (y : Int) : Prop :=
  Spec.StartFirst a ∧
  Spec.startInstant a (y - 1) ≤ Spec.endInstant a (y - 1) ∧ Spec.endInstant a (y - 1) ≤ Spec.startInstant a y ∧
  Spec.startInstant a y ≤ Spec.endInstant a y ∧ Spec.endInstant a y ≤ Spec.startInstant a (y + 1) ∧
  Spec.startInstant a (y + 1) ≤ Spec.endInstant a (y + 1) ∧ Spec.endInstant a (y + 1) < i64Max

def ChainB (a : AlternateTime) (y : Int) : Prop :=
  ¬ Spec.StartFirst a ∧
  Spec.endInstant a (y - 1) < Spec.startInstant a (y - 1) ∧ Spec.startInstant a (y - 1) ≤ Spec.endInstant a y ∧
  Spec.endInstant a y < Spec.startInstant a y ∧ Spec.startInstant a y ≤ Spec.endInstant a (y + 1) ∧
  Spec.endInstant a (y + 1) < Spec.startInstant a (y + 1) ∧ Spec.startInstant a (y + 1) < i64Max

/-- instants of the year after a guarded year are far below `i64::MAX` -/
theorem instant_lt_max (a : AlternateTime) (hs : RuleShape a) (y : Int) (hy : y ≤ i32Max - 2) :
    Spec.startInstant a (y + 1) < i64Max ∧ Spec.endInstant a (y + 1) < i64Max := by
  have w := instant_window a hs (y + 1)
  have m := daysBeforeYear_mono (y + 1) (i32Max + 1) (by omega)
  rw [dby_max] at m
  rw [c_i32max] at m hy
  rw [c_i64max]
  constructor <;> omega

theorem rawList_cases (a : AlternateTime) (hs : RuleShape a) (hi : Spec.Interleaves a) (ht : Spec.TieFree a)
    (y c : Int) (hy : y ≤ i32Max - 2) :
    (rawList a y c = listA a y c ∧ ChainA a y) ∨ (rawList a y c = listB a y c ∧ ChainB a y) := by
  obtain ⟨m1, m2⟩ := instant_lt_max a hs y hy
  have e1 : y - 1 + 1 = y := by omega
  by_cases hSF : Spec.StartFirst a
  · left
    have hA : ∀ y, Spec.startInstant a y ≤ Spec.endInstant a y ∧
        Spec.endInstant a y ≤ Spec.startInstant a (y + 1) := by
      intro y
      rcases hi with hi | hi
      · exact hi y
      · have := hi y; have := hi (y + 1); have := hSF y; have := hSF (y + 1)
        constructor <;> omega
    have o1 := hA (y - 1)
    have o2 := hA y
    have o3 := hA (y + 1)
    rw [e1] at o1
    have hsort : isSorted (times0 a y) = true := by
      unfold times0
      simp only [isSorted, Bool.and_eq_true, decide_eq_true_eq, and_true]
      omega
    refine ⟨?_, hSF, o1.1, o1.2, o2.1, o2.2, o3.1, m2⟩
    unfold rawList
    rw [if_pos hsort, if_pos hsort]
    rfl
  · right
    have hT : ∀ y, Spec.endInstant a y < Spec.startInstant a y := by
      rcases ht with ht | ht
      · exact absurd ht hSF
      · exact ht
    have hB : ∀ y, Spec.startInstant a y ≤ Spec.endInstant a (y + 1) := by
      intro y
      rcases hi with hi | hi
      · have := hi y; have := hT y; omega
      · exact (hi y).2
    have o1 := hB (y - 1)
    have o2 := hB y
    rw [e1] at o1
    have hsort : ¬ (isSorted (times0 a y) = true) := by
      intro h
      unfold times0 at h
      simp only [isSorted, Bool.and_eq_true, decide_eq_true_eq, and_true] at h
      have := hT (y - 1)
      omega
    refine ⟨?_, hSF, hT (y - 1), o1, hT y, o2, hT (y + 1), m1⟩
    unfold rawList
    rw [if_neg hsort, if_neg hsort]
    rfl

theorem listA_sorted (a : AlternateTime) (y c : Int) (h : ChainA a y) :
    List.Pairwise (fun x y => x.1 ≤ y.1) (listA a y c) := by
  obtain ⟨-, h1, h2, h3, h4, h5, h6⟩ := h
  unfold listA
  simp only [List.pairwise_cons, List.mem_cons, List.not_mem_nil, or_false, forall_eq_or_imp, forall_eq,
    List.Pairwise.nil, and_true, false_imp_iff, implies_true]
  omega

theorem listB_sorted (a : AlternateTime) (y c : Int) (h : ChainB a y) :
    List.Pairwise (fun x y => x.1 ≤ y.1) (listB a y c) := by
  obtain ⟨-, h1, h2, h3, h4, h5, h6⟩ := h
  unfold listB
  simp only [List.pairwise_cons, List.mem_cons, List.not_mem_nil, or_false, forall_eq_or_imp, forall_eq,
    List.Pairwise.nil, and_true, false_imp_iff, implies_true]
  omega

/-! ### the searched local time lies in its civil year; candidates are close to it -/

theorem seconds_in_year (y mo d h mi s : Int)
    (hv : 1 ≤ mo ∧ mo ≤ 12 ∧ 1 ≤ d ∧ d ≤ Spec.monthLen y mo ∧ h ≤ 23 ∧ mi ≤ 59 ∧ s ≤ 60)
    (hnn : 0 ≤ h ∧ 0 ≤ mi ∧ 0 ≤ s) :
    86400 * Spec.daysBeforeYear y ≤ Spec.seconds y mo d h mi s ∧
    Spec.seconds y mo d h mi s ≤ 86400 * Spec.daysBeforeYear (y + 1) := by
  obtain ⟨h1, h2, h3, h4, h5, h6, h7⟩ := hv
  have hb := dayInYear_bounds y mo d ⟨h1, h2, h3, h4⟩
  have hy := Spec.daysBeforeYear_succ y
  unfold Spec.seconds Spec.dayNumber
  constructor <;> omega

/-- instants within 200000 s of the civil year `y` -/
def InWin (y u : Int) : Prop :=
  86400 * Spec.daysBeforeYear y - 200000 ≤ u ∧ u ≤ 86400 * Spec.daysBeforeYear (y + 1) + 200000

theorem win_far (a : AlternateTime) (hs : RuleShape a) (y u : Int) (hw : InWin y u) :
    (∀ y', y' ≤ y - 2 → Spec.startInstant a y' < u ∧ Spec.endInstant a y' < u) ∧
    (∀ y', y + 2 ≤ y' → u < Spec.startInstant a y' ∧ u < Spec.endInstant a y') := by
  obtain ⟨w1, w2⟩ := hw
  constructor
  · intro y' hy'
    have w := instant_window a hs y'
    have m := daysBeforeYear_mono y' y (by omega)
    constructor <;> omega
  · intro y' hy'
    have w := instant_window a hs y'
    have m := daysBeforeYear_mono (y + 1) y' (by omega)
    constructor <;> omega

theorem isDst_window_A (a : AlternateTime) (hs : RuleShape a) (y u : Int) (hc : ChainA a y) (hw : InWin y u) :
    Spec.IsDst a u ↔
      (Spec.startInstant a (y - 1) ≤ u ∧ u < Spec.endInstant a (y - 1)) ∨
      (Spec.startInstant a y ≤ u ∧ u < Spec.endInstant a y) ∨
      (Spec.startInstant a (y + 1) ≤ u ∧ u < Spec.endInstant a (y + 1)) := by
  obtain ⟨hfp, hff⟩ := win_far a hs y u hw
  have hSF := hc.1
  have hD : Spec.IsDst a u ↔ ∃ y, Spec.startInstant a y ≤ u ∧ u < Spec.endInstant a y := by
    unfold Spec.IsDst
    constructor
    · rintro (⟨-, hx⟩ | ⟨hn, -⟩)
      · exact hx
      · exact absurd hSF hn
    · intro hx; exact Or.inl ⟨hSF, hx⟩
  rw [hD]
  constructor
  · rintro ⟨y', hy1, hy2⟩
    have hy : y' = y - 1 ∨ y' = y ∨ y' = y + 1 := by
      by_cases q1 : y' ≤ y - 2
      · have := hfp y' q1; omega
      · by_cases q2 : y + 2 ≤ y'
        · have := hff y' q2; omega
        · omega
    rcases hy with rfl | rfl | rfl
    · exact Or.inl ⟨hy1, hy2⟩
    · exact Or.inr (Or.inl ⟨hy1, hy2⟩)
    · exact Or.inr (Or.inr ⟨hy1, hy2⟩)
  · rintro (hx | hx | hx)
    · exact ⟨_, hx⟩
    · exact ⟨_, hx⟩
    · exact ⟨_, hx⟩

theorem isDst_window_B (a : AlternateTime) (hs : RuleShape a) (y u : Int) (hc : ChainB a y) (hw : InWin y u) :
    Spec.IsDst a u ↔
      u < Spec.endInstant a (y - 1) ∨
      (Spec.startInstant a (y - 1) ≤ u ∧ u < Spec.endInstant a y) ∨
      (Spec.startInstant a y ≤ u ∧ u < Spec.endInstant a (y + 1)) ∨
      Spec.startInstant a (y + 1) ≤ u := by
  obtain ⟨hfp, hff⟩ := win_far a hs y u hw
  have hSF := hc.1
  have hD : Spec.IsDst a u ↔ ∃ y, Spec.startInstant a y ≤ u ∧ u < Spec.endInstant a (y + 1) := by
    unfold Spec.IsDst
    constructor
    · rintro (⟨hn, -⟩ | ⟨-, hx⟩)
      · exact absurd hn hSF
      · exact hx
    · intro hx; exact Or.inr ⟨hSF, hx⟩
  rw [hD]
  have e0 : y - 2 + 1 = y - 1 := by omega
  have e1 : y - 1 + 1 = y := by omega
  have e3 : y + 1 + 1 = y + 2 := by omega
  have p2 := hfp (y - 2) (by omega)
  have f2 := hff (y + 2) (by omega)
  constructor
  · rintro ⟨y', hy1, hy2⟩
    have hy : y' = y - 2 ∨ y' = y - 1 ∨ y' = y ∨ y' = y + 1 := by
      by_cases q1 : y' + 1 ≤ y - 2
      · have := hfp (y' + 1) q1; omega
      · by_cases q2 : y + 2 ≤ y'
        · have := hff y' q2; omega
        · omega
    rcases hy with rfl | rfl | rfl | rfl
    · rw [e0] at hy2; exact Or.inl hy2
    · rw [e1] at hy2; exact Or.inr (Or.inl ⟨hy1, hy2⟩)
    · exact Or.inr (Or.inr (Or.inl ⟨hy1, hy2⟩))
    · exact Or.inr (Or.inr (Or.inr hy1))
  · rintro (hx | hx | hx | hx)
    · exact ⟨y - 2, by omega, by rw [e0]; exact hx⟩
    · exact ⟨y - 1, hx.1, by rw [e1]; exact hx.2⟩
    · exact ⟨y, hx.1, hx.2⟩
    · exact ⟨y + 1, hx, by rw [e3]; omega⟩

/-- the rule evaluation succeeds on instants close to a year at least one year inside the guard -/
theorem rule_lookup_ok (a : AlternateTime) (y u : Int) (hw : InWin y u)
    (hy : i32Min + 3 ≤ y ∧ y ≤ i32Max - 3) (hr : MIN_UNIX_TIME ≤ u ∧ u ≤ MAX_UNIX_TIME) :
    ∃ t, a.findLocalTimeType u = .ok t := by
  rw [alternate_guard]
  obtain ⟨c, hc⟩ := (fromTimespec_accepted_iff u 0).mpr hr
  obtain ⟨g1, g2⟩ := year_window u c hc
  obtain ⟨w1, w2⟩ := hw
  refine ⟨c, hc, ?_⟩
  generalize c.year = cy at *
  have k1 : y - 1 ≤ cy := by
    by_cases q : y - 1 ≤ cy
    · exact q
    · have := daysBeforeYear_mono (cy + 1) y (by omega); omega
  have k2 : cy ≤ y + 1 := by
    by_cases q : cy ≤ y + 1
    · exact q
    · have := daysBeforeYear_mono (y + 1) cy (by omega); omega
  omega

theorem cand_window (y c off : Int)
    (hc : 86400 * Spec.daysBeforeYear y ≤ c ∧ c ≤ 86400 * Spec.daysBeforeYear (y + 1))
    (ho : -93600 < off ∧ off < 93600) : InWin y (c - off) := by
  unfold InWin
  omega

end TzVerif.Proofs
