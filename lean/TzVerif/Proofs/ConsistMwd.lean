/-
C11 steps 3–5: at least one day in month-week-day notation. INTERFACE.
-/
import TzVerif.Model.Rule
import TzVerif.Spec.Rule
import TzVerif.Proofs.RuleEval
import TzVerif.Proofs.ConsistJulian

namespace TzVerif.Proofs
open TzVerif.Model TzVerif.Gen

theorem check_eq_B_mwd_julian (std dst : LocalTimeType) (ds : RuleDay) (st : Int) (de : RuleDay) (et : Int)
    (hs : RuleShape { std := std, dst := dst, dstStart := ds, dstStartTime := st, dstEnd := de, dstEndTime := et })
    (h2 : IsJulian de) :
    checkDstTransitionRulesConsistency std dst ds st de et =
      Spec.consistentB { std := std, dst := dst, dstStart := ds, dstStartTime := st, dstEnd := de, dstEndTime := et } := by
  sorry

theorem check_eq_B_julian_mwd (std dst : LocalTimeType) (ds : RuleDay) (st : Int) (de : RuleDay) (et : Int)
    (hs : RuleShape { std := std, dst := dst, dstStart := ds, dstStartTime := st, dstEnd := de, dstEndTime := et })
    (h1 : IsJulian ds) :
    checkDstTransitionRulesConsistency std dst ds st de et =
      Spec.consistentB { std := std, dst := dst, dstStart := ds, dstStartTime := st, dstEnd := de, dstEndTime := et } := by
  sorry

theorem check_eq_B_mwd_mwd (std dst : LocalTimeType) (m1 w1 d1 : Int) (st : Int) (m2 w2 d2 : Int) (et : Int)
    (hs : RuleShape { std := std, dst := dst, dstStart := .mwd m1 w1 d1, dstStartTime := st, dstEnd := .mwd m2 w2 d2, dstEndTime := et }) :
    checkDstTransitionRulesConsistency std dst (.mwd m1 w1 d1) st (.mwd m2 w2 d2) et =
      Spec.consistentB { std := std, dst := dst, dstStart := .mwd m1 w1 d1, dstStartTime := st, dstEnd := .mwd m2 w2 d2, dstEndTime := et } := by
  sorry

end TzVerif.Proofs
