/-
C11 steps 3–5: at least one day in month-week-day notation. INTERFACE.
-/
import TzVerif.Model.Rule
import TzVerif.Spec.Rule
import TzVerif.Proofs.RuleEval
import TzVerif.Proofs.ConsistJulian
import TzVerif.Proofs.ConsistMwdJulian
import TzVerif.Proofs.ConsistMwdNear

namespace TzVerif.Proofs
open TzVerif.Model TzVerif.Gen

open CM in
/-- month-week-day start, Julian end -/
theorem check_mj_aux (std dst : LocalTimeType) (m w d : Int) (st : Int) (J : RuleDay) (et : Int) (hJ : IsJul J)
    (hm1 : 1 ≤ m) (hm2 : m ≤ 12) (hw1 : 1 ≤ w) (hw2 : w ≤ 5) (hd1 : 0 ≤ d) (hd2 : d ≤ 6) :
    checkMonthWeekDayAndJulianDay (mwdCheckInfos m w (st - std.utOffset)) (jinfos J (et - dst.utOffset)) =
      Spec.consistentB { std := std, dst := dst, dstStart := .mwd m w d, dstStartTime := st, dstEnd := J, dstEndTime := et } := by
  rw [consistentB_eq_cl, core_mj m w d hm1 hm2 hw1 hw2 hd1 hd2 J hJ]
  rfl

open CM in
/-- Julian start, month-week-day end -/
theorem check_jm_aux (std dst : LocalTimeType) (J : RuleDay) (st : Int) (m w d : Int) (et : Int) (hJ : IsJul J)
    (hm1 : 1 ≤ m) (hm2 : m ≤ 12) (hw1 : 1 ≤ w) (hw2 : w ≤ 5) (hd1 : 0 ≤ d) (hd2 : d ≤ 6) :
    checkMonthWeekDayAndJulianDay (mwdCheckInfos m w (et - dst.utOffset)) (jinfos J (st - std.utOffset)) =
      Spec.consistentB { std := std, dst := dst, dstStart := J, dstStartTime := st, dstEnd := .mwd m w d, dstEndTime := et } := by
  rw [consistentB_eq_cl, core_mj m w d hm1 hm2 hw1 hw2 hd1 hd2 J hJ]
  simp only [tD]
  have e1 : dd1 J (.mwd m w d) = fun y => -(dd1 (.mwd m w d) J y) := by
    funext y; unfold dd1; omega
  have e2 : dd2 J (.mwd m w d) = dd3 (.mwd m w d) J := rfl
  have e3 : dd3 J (.mwd m w d) = dd2 (.mwd m w d) J := rfl
  rw [e1, e2, e3, cl_neg]
  have x1 : -(et - dst.utOffset - (st - std.utOffset)) = st - std.utOffset - (et - dst.utOffset) := by omega
  have x2 : - -(st - std.utOffset - (et - dst.utOffset)) = st - std.utOffset - (et - dst.utOffset) := by omega
  have x3 : et - dst.utOffset - (st - std.utOffset) = -(st - std.utOffset - (et - dst.utOffset)) := by omega
  rw [x1, x2, x3]
  generalize cl (List.map (dd1 (RuleDay.mwd m w d) J) Spec.kindYears) _ = b1
  generalize cl (List.map (dd2 (RuleDay.mwd m w d) J) Spec.kindYears) _ = b2
  generalize cl (List.map (dd3 (RuleDay.mwd m w d) J) Spec.kindYears) _ = b3
  cases b1 <;> cases b2 <;> cases b3 <;> rfl

theorem check_eq_B_mwd_julian (std dst : LocalTimeType) (ds : RuleDay) (st : Int) (de : RuleDay) (et : Int)
    (hs : RuleShape { std := std, dst := dst, dstStart := ds, dstStartTime := st, dstEnd := de, dstEndTime := et })
    (h2 : IsJulian de) :
    checkDstTransitionRulesConsistency std dst ds st de et =
      Spec.consistentB { std := std, dst := dst, dstStart := ds, dstStartTime := st, dstEnd := de, dstEndTime := et } := by
  match ds, de, hs, h2 with
  | .julian1 a, de, hs, h2 => exact check_eq_B_julian std dst _ st de et hs trivial h2
  | .julian0 a, de, hs, h2 => exact check_eq_B_julian std dst _ st de et hs trivial h2
  | .mwd m w d, .julian1 n, hs, _ =>
    obtain ⟨⟨hm1, hm2, hw1, hw2, hd1, hd2⟩, _⟩ := hs
    exact check_mj_aux std dst m w d st (.julian1 n) et trivial hm1 hm2 hw1 hw2 hd1 hd2
  | .mwd m w d, .julian0 n, hs, _ =>
    obtain ⟨⟨hm1, hm2, hw1, hw2, hd1, hd2⟩, _⟩ := hs
    exact check_mj_aux std dst m w d st (.julian0 n) et trivial hm1 hm2 hw1 hw2 hd1 hd2
  | .mwd _ _ _, .mwd _ _ _, _, h2 => exact absurd h2 (by simp [IsJulian])

theorem check_eq_B_julian_mwd (std dst : LocalTimeType) (ds : RuleDay) (st : Int) (de : RuleDay) (et : Int)
    (hs : RuleShape { std := std, dst := dst, dstStart := ds, dstStartTime := st, dstEnd := de, dstEndTime := et })
    (h1 : IsJulian ds) :
    checkDstTransitionRulesConsistency std dst ds st de et =
      Spec.consistentB { std := std, dst := dst, dstStart := ds, dstStartTime := st, dstEnd := de, dstEndTime := et } := by
  match ds, de, hs, h1 with
  | ds, .julian1 a, hs, h1 => exact check_eq_B_julian std dst ds st _ et hs h1 trivial
  | ds, .julian0 a, hs, h1 => exact check_eq_B_julian std dst ds st _ et hs h1 trivial
  | .julian1 n, .mwd m w d, hs, _ =>
    obtain ⟨_, ⟨hm1, hm2, hw1, hw2, hd1, hd2⟩, _⟩ := hs
    exact check_jm_aux std dst (.julian1 n) st m w d et trivial hm1 hm2 hw1 hw2 hd1 hd2
  | .julian0 n, .mwd m w d, hs, _ =>
    obtain ⟨_, ⟨hm1, hm2, hw1, hw2, hd1, hd2⟩, _⟩ := hs
    exact check_jm_aux std dst (.julian0 n) st m w d et trivial hm1 hm2 hw1 hw2 hd1 hd2
  | .mwd _ _ _, .mwd _ _ _, _, h1 => exact absurd h1 (by simp [IsJulian])

theorem check_eq_B_mwd_mwd (std dst : LocalTimeType) (m1 w1 d1 : Int) (st : Int) (m2 w2 d2 : Int) (et : Int)
    (hs : RuleShape { std := std, dst := dst, dstStart := .mwd m1 w1 d1, dstStartTime := st, dstEnd := .mwd m2 w2 d2, dstEndTime := et }) :
    checkDstTransitionRulesConsistency std dst (.mwd m1 w1 d1) st (.mwd m2 w2 d2) et =
      Spec.consistentB { std := std, dst := dst, dstStart := .mwd m1 w1 d1, dstStartTime := st, dstEnd := .mwd m2 w2 d2, dstEndTime := et } := by
  obtain ⟨⟨hm1, hm1', hw1, hw1', hd1, hd1'⟩, ⟨hm2, hm2', hw2, hw2', hd2, hd2'⟩, o1, o2, o3, o4, t1, t2, t3, t4⟩ := hs
  simp only [] at o1 o2 o3 o4 t1 t2 t3 t4
  rw [CM.consistentB_eq_cl]
  exact CM.mm_core CM.near_all m1 w1 d1 m2 w2 d2 hm1 hm1' hw1 hw1' hd1 hd1' hm2 hm2' hw2 hw2' hd2 hd2'
    (st - std.utOffset) (et - dst.utOffset) (by omega) (by omega)

end TzVerif.Proofs
