/-
Helper lemmas for C17 (the caller-provided buffer). INTERFACE used by Properties/C17.lean.
-/
import TzVerif.Model.Find

namespace TzVerif.Proofs
open TzVerif.Model

theorem foldl_push_gen (rs : List Found) : ∀ r0 : RefMut, r0.currentIndex ≤ r0.buf.length →
    (rs.foldl RefMut.push r0).buf.length = r0.buf.length ∧
    (rs.foldl RefMut.push r0).currentIndex = min r0.buf.length (r0.currentIndex + rs.length) ∧
    (rs.foldl RefMut.push r0).count = r0.count + rs.length ∧
    ∀ j, (rs.foldl RefMut.push r0).buf[j]? =
      if r0.currentIndex ≤ j ∧ j < min r0.buf.length (r0.currentIndex + rs.length)
      then rs[j - r0.currentIndex]?.map some else r0.buf[j]? := by
  induction rs with
  | nil =>
    intro r0 h
    simp only [List.foldl_nil, List.length_nil, Nat.add_zero, true_and]
    refine ⟨by omega, ?_⟩
    intro j
    split
    · omega
    · rfl
  | cons f rs ih =>
    intro r0 h
    simp only [List.foldl_cons, List.length_cons]
    by_cases hlt : r0.currentIndex < r0.buf.length
    · have hp : r0.push f = { buf := r0.buf.set r0.currentIndex (some f), currentIndex := r0.currentIndex + 1, count := r0.count + 1 } := by
        simp [RefMut.push, hlt]
      obtain ⟨h1, h2, h3, h4⟩ := ih (r0.push f) (by rw [hp]; simp; omega)
      rw [hp] at h1 h2 h3 h4
      simp only [List.length_set] at h1 h2 h3 h4
      rw [hp]
      refine ⟨h1, by omega, by omega, ?_⟩
      intro j
      rw [h4 j]
      by_cases hj : j = r0.currentIndex
      · subst hj
        rw [if_neg (by omega), if_pos (by omega), List.getElem?_set_self hlt]
        simp
      · rw [List.getElem?_set_ne (by omega)]
        by_cases hj2 : r0.currentIndex + 1 ≤ j
        · have : j - r0.currentIndex = (j - (r0.currentIndex + 1)) + 1 := by omega
          rw [this, List.getElem?_cons_succ]
          have e : (r0.currentIndex + 1 ≤ j ∧ j < min r0.buf.length (r0.currentIndex + 1 + rs.length)) ↔
            (r0.currentIndex ≤ j ∧ j < min r0.buf.length (r0.currentIndex + (rs.length + 1))) := by omega
          simp only [e]
        · rw [if_neg (by omega), if_neg (by omega)]
    · have hp : r0.push f = { r0 with count := r0.count + 1 } := by
        simp [RefMut.push, hlt]
      obtain ⟨h1, h2, h3, h4⟩ := ih (r0.push f) (by rw [hp]; exact h)
      rw [hp] at h1 h2 h3 h4
      rw [hp]
      simp only at h1 h2 h3 h4
      refine ⟨h1, by omega, by omega, ?_⟩
      intro j
      rw [h4 j, if_neg (by omega), if_neg (by omega)]


theorem foldl_push_new (buf : List (Option Found)) (rs : List Found) :
    (rs.foldl RefMut.push (RefMut.new buf)).buf.length = buf.length ∧
    (rs.foldl RefMut.push (RefMut.new buf)).currentIndex = min buf.length rs.length ∧
    (rs.foldl RefMut.push (RefMut.new buf)).count = rs.length ∧
    ∀ j, (rs.foldl RefMut.push (RefMut.new buf)).buf[j]? =
      if j < min buf.length rs.length then rs[j]?.map some else buf[j]? := by
  have := foldl_push_gen rs (RefMut.new buf) (by simp [RefMut.new])
  simpa [RefMut.new] using this

theorem foldl_push_buf (buf : List (Option Found)) (rs : List Found) :
    (rs.foldl RefMut.push (RefMut.new buf)).buf =
      (rs.take buf.length).map some ++ buf.drop (min buf.length rs.length) := by
  obtain ⟨h1, h2, h3, h4⟩ := foldl_push_new buf rs
  apply List.ext_getElem?
  intro j
  rw [h4 j, List.getElem?_append]
  simp only [List.length_map, List.length_take, List.getElem?_map, List.getElem?_drop]
  by_cases hj : j < min buf.length rs.length
  · rw [if_pos hj, if_pos (by omega), List.getElem?_take_of_lt (by omega)]
  · rw [if_neg hj, if_neg (by omega)]
    congr 1
    omega

theorem foldl_push_spec (buf : List (Option Found)) (rs : List Found) :
    let r := rs.foldl RefMut.push (RefMut.new buf)
    r.buf = (rs.take buf.length).map some ++ buf.drop (min buf.length rs.length) ∧
    r.buf.length = buf.length ∧
    r.count = rs.length ∧
    r.data = (rs.take buf.length).map some ∧
    (r.isExhaustive = true ↔ buf.length ≥ rs.length) := by
  intro r
  obtain ⟨h1, h2, h3, h4⟩ := foldl_push_new buf rs
  have hb := foldl_push_buf buf rs
  refine ⟨hb, h1, h3, ?_, ?_⟩
  · show r.buf.take r.currentIndex = _
    show (rs.foldl RefMut.push (RefMut.new buf)).buf.take (rs.foldl RefMut.push (RefMut.new buf)).currentIndex = _
    rw [hb, h2]
    rw [List.take_append_of_le_length (by simp)]
    rw [List.take_of_length_le (by simp)]
  · show ((rs.foldl RefMut.push (RefMut.new buf)).currentIndex == (rs.foldl RefMut.push (RefMut.new buf)).count) = true ↔ _
    rw [h2, h3]
    simp only [beq_iff_eq]
    omega

theorem foldl_push_tail (buf : List (Option Found)) (rs : List Found) (i : Nat)
    (hi : min buf.length rs.length ≤ i) (hi' : i < buf.length) :
    (rs.foldl RefMut.push (RefMut.new buf)).buf[i]? = buf[i]? := by
  obtain ⟨_, _, _, h4⟩ := foldl_push_new buf rs
  have _ := hi'
  rw [h4 i, if_neg (by omega)]

theorem flattenOpts_map_some (rs : List Found) : flattenOpts (rs.map some) = rs := by
  induction rs with
  | nil => rfl
  | cons f rs ih => simp [flattenOpts, ih]

theorem foldl_push_accessors (buf : List (Option Found)) (rs : List Found) (h : buf.length ≥ rs.length) :
    let r := rs.foldl RefMut.push (RefMut.new buf)
    r.unique = listUnique rs ∧ r.earliest = listEarliest rs ∧ r.latest = listLatest rs := by
  intro r
  have hd : r.data = rs.map some := by
    have := (foldl_push_spec buf rs).2.2.2.1
    rw [List.take_of_length_le h] at this
    exact this
  have hf : flattenOpts r.data = rs := by rw [hd, flattenOpts_map_some]
  refine ⟨?_, ?_, ?_⟩
  · unfold RefMut.unique
    rw [hf]
    unfold listUnique
    split <;> simp_all
  · unfold RefMut.earliest; rw [hf]
  · unfold RefMut.latest; rw [hf]

end TzVerif.Proofs
