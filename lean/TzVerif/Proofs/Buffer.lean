/-
Helper lemmas for C17 (the caller-provided buffer). INTERFACE used by Properties/C17.lean.
-/
import TzVerif.Model.Find

namespace TzVerif.Proofs
open TzVerif.Model

theorem foldl_push_spec (buf : List (Option Found)) (rs : List Found) :
    let r := rs.foldl RefMut.push (RefMut.new buf)
    r.buf = (rs.take buf.length).map some ++ buf.drop (min buf.length rs.length) ∧
    r.buf.length = buf.length ∧
    r.count = rs.length ∧
    r.data = (rs.take buf.length).map some ∧
    (r.isExhaustive = true ↔ buf.length ≥ rs.length) := by
  sorry

theorem foldl_push_tail (buf : List (Option Found)) (rs : List Found) (i : Nat)
    (hi : min buf.length rs.length ≤ i) (hi' : i < buf.length) :
    (rs.foldl RefMut.push (RefMut.new buf)).buf[i]? = buf[i]? := by
  sorry

theorem foldl_push_accessors (buf : List (Option Found)) (rs : List Found) (h : buf.length ≥ rs.length) :
    let r := rs.foldl RefMut.push (RefMut.new buf)
    r.unique = listUnique rs ∧ r.earliest = listEarliest rs ∧ r.latest = listLatest rs := by
  sorry

end TzVerif.Proofs
