/-
C08: decoding what the independent writer wrote gives back the zone. INTERFACE.
-/
import TzVerif.Model.TzFile
import TzVerif.Spec.Tzif
import TzVerif.Proofs.TzifDecode

namespace TzVerif.Proofs
open TzVerif.Model
open TzVerif.Proofs.TzifBE TzVerif.Proofs.TzifBlocks TzVerif.Proofs.TzifDecode

theorem beSigned_beBytes (n : Nat) (v : Int) (hn : 0 < n) (hv : -(2 ^ (8 * n - 1) : Int) ≤ v ∧ v < 2 ^ (8 * n - 1)) :
    beSigned (Spec.beBytes n v) = v ∧ (Spec.beBytes n v).length = n ∧ ∀ b ∈ Spec.beBytes n v, b < 256 :=
  ⟨TzifBE.beSigned_beBytes n v hn hv, TzifBE.beBytes_length n v, TzifBE.beBytes_lt n v⟩

theorem be32_be32u (v : Nat) (hv : v < 2 ^ 32) : be32 (Spec.be32u v) = v ∧ (Spec.be32u v).length = 4 :=
  ⟨TzifBE.be32_be32u v hv, TzifBE.be32u_length v⟩

/-- version 1: the zone comes from the 32-bit block (times sign-extended), no footer -/
theorem decode_encode_v1 (z : TimeZone) (l : Spec.Layout) (hl : Spec.LayoutOK z l) (hv : l.versionByte = 0)
    (ht : Spec.TimesFit 32 z)
    (hn : ∀ t ∈ z.localTimeTypes, ∃ t', LocalTimeType.new t.utOffset t.isDst t.name = .ok t') :
    parseTzFile (Spec.encodeV1 z l) = TimeZone.new z.transitions z.localTimeTypes z.leapSeconds none := by
  unfold parseTzFile parseTzFileWith Spec.encodeV1
  rw [encodeBlock_eq, parseHeader_hdrBytes z l hl 1 (Or.inl ⟨hv, rfl⟩)]
  simp only []
  have hd := readDataBlocks_dataOf 4 z l hl 1 []
  rw [List.append_nil] at hd
  rw [if_pos (show (hdrOf 1 z l).version = 1 from rfl), hd]
  simp only [List.isEmpty_nil, Bool.not_true, Bool.false_eq_true, if_false]
  rw [parse_blocksOf 4 (by decide) z l hl ht hn 1 none]

/-- versions 2 and 3: the zone comes from the 64-bit block, whatever the (well-sized) 32-bit block
    contains; the footer is decoded with extensions exactly for version 3 -/
theorem decode_encode_v2 (v1 : Bytes) (z : TimeZone) (l : Spec.Layout) (footerText : Bytes)
    (h1 : Spec.V1BlockOK v1) (hl : Spec.LayoutOK z l) (hv : l.versionByte = 0 ∨ l.versionByte = 50 ∨ l.versionByte = 51)
    (ht : Spec.TimesFit 64 z)
    (hn : ∀ t ∈ z.localTimeTypes, ∃ t', LocalTimeType.new t.utOffset t.isDst t.name = .ok t') :
    parseTzFile (Spec.encodeV2 v1 z l footerText) =
      (match parseFooter ([10] ++ footerText ++ [10]) (l.versionByte == 51) with
       | .error e => .error e
       | .ok rule => TimeZone.new z.transitions z.localTimeTypes z.leapSeconds rule) := by
  obtain ⟨h, rest, blocks, hp1, hver, hd1⟩ := h1
  obtain ⟨ver, hvb, hext⟩ : ∃ ver, ((l.versionByte = 0 ∧ ver = 1) ∨ (l.versionByte = 50 ∧ ver = 2) ∨
      (l.versionByte = 51 ∧ ver = 3)) ∧ (ver == 3) = (l.versionByte == 51) := by
    rcases hv with h | h | h
    · exact ⟨1, Or.inl ⟨h, rfl⟩, by rw [h]; rfl⟩
    · exact ⟨2, Or.inr (Or.inl ⟨h, rfl⟩), by rw [h]; rfl⟩
    · exact ⟨3, Or.inr (Or.inr ⟨h, rfl⟩), by rw [h]; rfl⟩
  have e : Spec.encodeV2 v1 z l footerText =
      v1 ++ (hdrBytes z l ++ (dataOf 8 z l ++ ([10] ++ footerText ++ [10]))) := by
    simp only [Spec.encodeV2, encodeBlock_eq, List.append_assoc]
  unfold parseTzFile parseTzFileWith
  rw [e, parseHeader_append_ok _ hp1]
  simp only []
  rw [if_neg hver, readDataBlocks_append_ok _ hd1]
  simp only [List.nil_append]
  rw [parseHeader_hdrBytes z l hl ver hvb]
  simp only []
  rw [readDataBlocks_dataOf 8 z l hl ver]
  simp only []
  rw [parse_blocksOf 8 (by decide) z l hl ht hn ver (some _), hext]
  rfl

set_option linter.unusedVariables false in
/-- trailing bytes after a version-1 body are refused -/
theorem v1_trailing_rejected (z : TimeZone) (l : Spec.Layout) (hl : Spec.LayoutOK z l) (hv : l.versionByte = 0)
    (ht : Spec.TimesFit 32 z) (extra : Bytes) (he : extra ≠ []) :
    parseTzFile (Spec.encodeV1 z l ++ extra) = .error (.tzFile .remainingDataV1) := by
  unfold parseTzFile parseTzFileWith Spec.encodeV1
  rw [encodeBlock_eq, List.append_assoc, parseHeader_hdrBytes z l hl 1 (Or.inl ⟨hv, rfl⟩)]
  simp only []
  rw [if_pos (show (hdrOf 1 z l).version = 1 from rfl), readDataBlocks_dataOf 4 z l hl 1 extra]
  simp only []
  rw [if_pos]
  cases extra with
  | nil => exact absurd rfl he
  | cons a b => rfl

set_option linter.unusedVariables false in
/-- every truncation of a version-1 file is refused -/
theorem v1_truncated_rejected (z : TimeZone) (l : Spec.Layout) (hl : Spec.LayoutOK z l) (hv : l.versionByte = 0)
    (ht : Spec.TimesFit 32 z) (n : Nat) (hn : n < (Spec.encodeV1 z l).length) :
    ∃ e, parseTzFile ((Spec.encodeV1 z l).take n) = .error e := by
  unfold parseTzFile parseTzFileWith
  unfold Spec.encodeV1 at hn ⊢
  rw [encodeBlock_eq] at hn ⊢
  have hH := hdrBytes_length z l hl
  have hfull := readDataBlocks_dataOf 4 z l hl 1 []
  rw [List.append_nil] at hfull
  have hlen := readDataBlocks_length hfull
  by_cases h44 : n < 44
  · -- the header is incomplete
    cases hp : parseHeader (List.take n (hdrBytes z l ++ dataOf 4 z l)) with
    | error e => exact ⟨_, rfl⟩
    | ok r =>
      obtain ⟨h, c⟩ := r
      have := parseHeader_length hp
      simp only [List.length_take] at this
      omega
  · -- the header is whole, the data block is short
    have e : List.take n (hdrBytes z l ++ dataOf 4 z l) = hdrBytes z l ++ List.take (n - 44) (dataOf 4 z l) := by
      rw [List.take_append, hH, List.take_of_length_le (by omega)]
    rw [e, parseHeader_hdrBytes z l hl 1 (Or.inl ⟨hv, rfl⟩)]
    simp only []
    rw [if_pos (show (hdrOf 1 z l).version = 1 from rfl)]
    cases hp : readDataBlocks 4 (List.take (n - 44) (dataOf 4 z l)) (hdrOf 1 z l) with
    | error e => exact ⟨_, rfl⟩
    | ok r =>
      obtain ⟨b, c⟩ := r
      have := readDataBlocks_length hp
      simp only [List.length_take, List.length_append, List.length_nil] at this hlen hn
      omega

end TzVerif.Proofs
