/-
C08: decoding what the independent writer wrote gives back the zone. INTERFACE.
-/
import TzVerif.Model.TzFile
import TzVerif.Spec.Tzif

namespace TzVerif.Proofs
open TzVerif.Model

theorem beSigned_beBytes (n : Nat) (v : Int) (hn : 0 < n) (hv : -(2 ^ (8 * n - 1) : Int) ≤ v ∧ v < 2 ^ (8 * n - 1)) :
    beSigned (Spec.beBytes n v) = v ∧ (Spec.beBytes n v).length = n ∧ ∀ b ∈ Spec.beBytes n v, b < 256 := by
  sorry

theorem be32_be32u (v : Nat) (hv : v < 2 ^ 32) : be32 (Spec.be32u v) = v ∧ (Spec.be32u v).length = 4 := by
  sorry

/-- version 1: the zone comes from the 32-bit block (times sign-extended), no footer -/
theorem decode_encode_v1 (z : TimeZone) (l : Spec.Layout) (hl : Spec.LayoutOK z l) (hv : l.versionByte = 0)
    (ht : Spec.TimesFit 32 z) :
    parseTzFile (Spec.encodeV1 z l) = TimeZone.new z.transitions z.localTimeTypes z.leapSeconds none := by
  sorry

/-- versions 2 and 3: the zone comes from the 64-bit block, whatever the (well-sized) 32-bit block
    contains; the footer is decoded with extensions exactly for version 3 -/
theorem decode_encode_v2 (v1 : Bytes) (z : TimeZone) (l : Spec.Layout) (footerText : Bytes)
    (h1 : Spec.V1BlockOK v1) (hl : Spec.LayoutOK z l) (hv : l.versionByte = 0 ∨ l.versionByte = 50 ∨ l.versionByte = 51)
    (ht : Spec.TimesFit 64 z) :
    parseTzFile (Spec.encodeV2 v1 z l footerText) =
      (match parseFooter ([10] ++ footerText ++ [10]) (l.versionByte == 51) with
       | .error e => .error e
       | .ok rule => TimeZone.new z.transitions z.localTimeTypes z.leapSeconds rule) := by
  sorry

/-- trailing bytes after a version-1 body are refused -/
theorem v1_trailing_rejected (z : TimeZone) (l : Spec.Layout) (hl : Spec.LayoutOK z l) (hv : l.versionByte = 0)
    (ht : Spec.TimesFit 32 z) (extra : Bytes) (he : extra ≠ []) :
    parseTzFile (Spec.encodeV1 z l ++ extra) = .error (.tzFile .remainingDataV1) := by
  sorry

/-- every truncation of a version-1 file is refused -/
theorem v1_truncated_rejected (z : TimeZone) (l : Spec.Layout) (hl : Spec.LayoutOK z l) (hv : l.versionByte = 0)
    (ht : Spec.TimesFit 32 z) (n : Nat) (hn : n < (Spec.encodeV1 z l).length) :
    ∃ e, parseTzFile ((Spec.encodeV1 z l).take n) = .error e := by
  sorry

end TzVerif.Proofs
